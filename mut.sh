#!/bin/bash
# mut.sh <patch-file> <ID> [<ID>...] : run checks against a scratch copy of /repo with the patch applied.
# Leaves /repo untouched. The scratch copy lives in one of a few FIXED slot directories (so that the Go build
# cache is shared between runs: cache keys contain the source path) and is removed afterwards.
set -u
PATCH=$(realpath "$1"); shift
SLOT=""
for n in 1 2 3 4 5 6 7 8; do
  exec 9>/dev/shm/repo-mut-slot$n.lock
  if flock -n 9; then SLOT=$n; break; fi
done
if [ -z "$SLOT" ]; then exec 9>/dev/shm/repo-mut-slot1.lock; flock 9; SLOT=1; fi
D=/dev/shm/repo-mut-slot$SLOT
rm -rf $D
rsync -a --exclude .git /repo/ $D/
( cd $D && patch -p1 -s < "$PATCH" ) || { echo "patch failed"; rm -rf $D; exit 2; }
for id in "$@"; do
  VERIF_REPO=$D VERIF_REPLAY_DIR_SUFFIX=mut /verif/check $id --tier ${TIER:-quick} 2>&1 | grep -E "^(VIOLATION|KNOWN|  code=|HARNESS|C[0-9]+ tier)" | cut -c1-260 | head -${LINES_MAX:-8}
done
tag=$(python3 -c "import hashlib,os;print(hashlib.sha256(os.path.realpath('$D').encode()).hexdigest()[:10])")
rm -rf $D /dev/shm/verif-sim-$tag /dev/shm/verif-build-$tag
