#!/bin/bash
# mut.sh <patch-file> <ID> [<ID>...] : run checks against a scratch copy of /repo with the patch applied.
# Leaves /repo untouched. Scratch copy and build output are removed afterwards.
set -u
PATCH=$(realpath "$1"); shift
D=/dev/shm/repo-mut-$$
rsync -a --exclude .git /repo/ $D/
( cd $D && patch -p1 -s < "$PATCH" ) || { echo "patch failed"; rm -rf $D; exit 2; }
rc=0
for id in "$@"; do
  VERIF_REPO=$D VERIF_REPLAY_DIR_SUFFIX=mut /verif/check $id --tier ${TIER:-quick} 2>&1 | grep -E "^(VIOLATION|KNOWN|  code=|HARNESS|C[0-9]+ tier)" | cut -c1-260 | head -${LINES_MAX:-8}
done
tag=$(python3 -c "import hashlib,os;print(hashlib.sha256(os.path.realpath('$D').encode()).hexdigest()[:10])")
rm -rf $D /dev/shm/verif-sim-$tag /dev/shm/verif-build-$tag
