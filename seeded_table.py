#!/usr/bin/env python3
"""Regenerates the table of independently written property-breaking changes in DESIGN.md (between the SEEDED markers) from /verif/seeded/*/meta.json."""
import json, glob, os, re
rows = []
for d in sorted(glob.glob('/verif/seeded/*')):
    m = json.load(open(d + '/meta.json'))
    name = os.path.basename(d)
    title = m.get('title', '').replace('|', '/')
    needs = m.get('needs', '').replace('|', '/').replace('\n', ' ')
    if len(needs) > 260:
        needs = needs[:257] + '...'
    ran = m.get('verif_ran', '').replace('|', '/')
    rows.append('| seeded/%s | %s | %s | %s | **%s**: %s |' % (name, m['property'], title, needs, m.get('verif_result', '?'), ran))
tbl = ['| change | property | what it does | what it needs to manifest | result of the checks |', '|---|---|---|---|---|'] + rows
n = len(rows); c = sum(1 for r in rows if '**caught**' in r)
txt = '\n'.join(tbl) + '\n\n%d changes kept, %d caught by the registered checks (several only after the check was strengthened, as stated per row), %d missed.\n' % (n, c, n - c)
p = '/verif/DESIGN.md'
s = open(p).read()
a, b = '<!-- SEEDED-BEGIN -->', '<!-- SEEDED-END -->'
if a in s:
    s = s[:s.index(a) + len(a)] + '\n' + txt + s[s.index(b):]
else:
    s += '\n### 13.1 Changes written independently by sub-agents (given only the property text)\n\nEach was confirmed in a scratch worktree before it was kept (demonstration passes on the unchanged tree, patch applies and builds, demonstration fails with the patch, the existing tests of the touched packages still pass - compared against BASELINE.json where tests fail for sandbox reasons), then the registered quick checks were run against a scratch copy with the patch applied (`mut.sh`).\n\n' + a + '\n' + txt + b + '\n'
open(p, 'w').write(s)
print(n, 'rows,', c, 'caught')
