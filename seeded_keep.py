#!/usr/bin/env python3
"""seeded_keep.py <ID> <letter> <caught|missed> "<checks run and result>" : copy a confirmed sub-agent change into /verif/seeded/<ID>-<letter>/."""
import json, os, shutil, sys, glob
pid, L, verdict, ran = sys.argv[1:5]
src = "/tmp/seeded-out/%s/%s" % (pid, L)
dst = "/verif/seeded/%s-%s" % (pid, L)
os.makedirs(dst, exist_ok=True)
shutil.copy(src + "/patch.diff", dst + "/patch.diff")
for f in glob.glob(src + "/*_test.go"):
    shutil.copy(f, dst + "/" + os.path.basename(f))
m = json.load(open(src + "/meta.json"))
vl = open(src + "/verify.log").read().strip().splitlines()[-1] if os.path.exists(src + "/verify.log") else ""
m["confirmed_by_main_agent"] = vl
m["verif_result"] = verdict
m["verif_ran"] = ran
json.dump(m, open(dst + "/meta.json", "w"), indent=1)
print("kept", dst)
