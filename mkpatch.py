#!/usr/bin/env python3
"""mkpatch.py <repo-relative file> <out.patch> : reads OLD and NEW text blocks from stdin separated by a line '=====' and writes a unified diff (a/ b/ prefixes) against /repo."""
import sys, difflib
rel, out = sys.argv[1], sys.argv[2]
data = sys.stdin.read()
old, new = data.split("\n=====\n")
old = old.strip("\n"); new = new.strip("\n")
src = open("/repo/" + rel).read()
assert src.count(old) == 1, "old text occurs %d times" % src.count(old)
dst = src.replace(old, new)
d = difflib.unified_diff(src.splitlines(True), dst.splitlines(True), "a/" + rel, "b/" + rel)
open(out, "a").write("".join(d))
print("ok", out)
