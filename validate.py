#!/usr/bin/env python3
import json, glob, sys
import jsonschema
s = json.load(open('/root/.vp/MANIFEST.schema.json'))
m = json.load(open('/verif/MANIFEST.json'))
jsonschema.validate(m, s)
e = json.load(open('/root/.vp/EVIDENCE.schema.json'))
ids = [c['property_id'] for c in m['checks']]
for pid in ids:
    f = '/verif/evidence/%s.json' % pid
    try:
        jsonschema.validate(json.load(open(f)), e)
    except Exception as ex:
        print('BAD', f, str(ex)[:200]); continue
    print('ok', f)
props = [json.loads(l)['id'] for l in open('/verif/properties.jsonl')]
na = [x['property_id'] for x in m.get('not_applicable', [])]
print('unaccounted:', [p for p in props if p not in ids and p not in na])
