#!/bin/bash
# run_all_mutants.sh [filter] : sensitivity self-test. Runs every deliberate-breakage patch under /verif against the
# check(s) of the property it targets (scratch copy of /repo per patch, see mut.sh) and writes mutants/RESULTS.tsv.
cd /verif
OUT=${MUT_OUT:-/verif/mutants/RESULTS.tsv}
: > $OUT.tmp
one() { # patch ids...
  p=$1; shift
  [ -n "${FILTER:-}" ] && ! echo "$p" | grep -q "$FILTER" && return
  res=$(LINES_MAX=3 ./mut.sh "$p" "$@" 2>&1)
  if echo "$res" | grep -q "^VIOLATION"; then v=caught; code=$(echo "$res" | grep -m1 "code=" | sed 's/.*code=\([a-zA-Z0-9_-]*\).*/\1/'); elif echo "$res" | grep -q "patch failed\|HARNESS"; then v=error; code=$(echo "$res" | head -1 | cut -c1-80); else v=missed; code=-; fi
  printf "%s\t%s\t%s\t%s\n" "$p" "$*" "$v" "$code" | tee -a $OUT.tmp
}
FILTER=${1:-}
for p in mutants/C01-*.patch; do one $p C01; done
for p in mutants/C02-*.patch; do one $p C02 C03; done
for p in mutants/C03-*.patch; do one $p C03; done
for p in mutants/C06-*.patch; do one $p C06; done
for p in mutants/C11-*.patch; do one $p C11; done
one mutants/revert-fix-2523544.patch C03
one mutants/revert-fix-fbb24e8.patch C03
one mutants/revert-fix-45889c1.patch C08
one mutants/revert-fix-1312403.patch C08
one mutants/revert-fix-819a78c.patch C18
one mutants/revert-fix-87dc739.patch C20
one mutants/revert-fix-7215c77.patch C13
one mutants/revert-fix-ac70a5d.patch C13
one mutants/revert-fix-4bcd5b6.patch C13
one mutants/revert-fix-5c51e9f.patch C14
one mutants/revert-fix-9d3b87d.patch C18
for p in sim/circuitsim/mutants/*.patch; do one $p C07; done
for p in sim/ntfnsim/mutants/*.patch; do one $p C14; done
for p in sim/invsim/mutants/*.patch; do one $p C15; done
for p in sim/paysim/mutants/*.patch; do one $p C16; done
for p in sim/sweepsim/mutants/*.patch; do one $p C18; done
for p in sim/gossipsim/mutants/*.patch; do one $p C20; done
for p in inpkg/contractcourt/mutants_c12/*.patch; do one $p C12; done
for p in inpkg/contractcourt/mutants_c13/*.patch; do [ -e "$p" ] && one $p C13; done
for p in mutants/C17-*.patch mutants/C04-*.patch mutants/C05-*.patch mutants/C08-*.patch; do [ -e "$p" ] && one $p $(basename $p | cut -c1-3); done
mv $OUT.tmp $OUT
echo ALL-MUTANTS-DONE
