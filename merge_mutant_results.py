#!/usr/bin/env python3
"""merge_mutant_results.py <partial.tsv>... : fold partial sweep results into mutants/RESULTS.tsv (keyed by patch path; annotations kept)."""
import sys
rows = {}
order = []
for l in open('/verif/mutants/RESULTS.tsv'):
    f = l.rstrip('\n').split('\t')
    if len(f) < 4:
        continue
    rows[f[0]] = f
    order.append(f[0])
for p in sys.argv[1:]:
    for l in open(p):
        f = l.rstrip('\n').split('\t')
        if len(f) < 4:
            continue
        old = rows.get(f[0])
        if old is None:
            order.append(f[0])
            rows[f[0]] = f
        else:
            ann = old[4:] if len(old) > 4 else []
            rows[f[0]] = f[:4] + ann
with open('/verif/mutants/RESULTS.tsv', 'w') as o:
    for k in order:
        o.write('\t'.join(rows[k]) + '\n')
print(len(order), 'rows;', sum(1 for k in order if rows[k][2] == 'caught'), 'caught;',
      [k for k in order if rows[k][2] != 'caught'])
