#!/usr/bin/env python3
"""Regenerates the hand-written/engine mutants summary in DESIGN.md (between MUTANTS markers) from mutants/RESULTS.tsv."""
rows = [l.rstrip('\n').split('\t') for l in open('/verif/mutants/RESULTS.tsv') if l.strip()]
by = {}
for r in rows:
    pid = r[1].split()[0]
    d = by.setdefault(pid, dict(c=0, m=0, codes=set(), missed=[]))
    if r[2] == 'caught':
        d['c'] += 1
        if r[3] and r[3] not in ('-', 'x'):
            d['codes'].add(r[3])
    else:
        d['m'] += 1
        d['missed'].append((r[0], r[4] if len(r) > 4 else ''))
out = ['| property | deliberate breakages run | caught | not caught | violation codes seen |', '|---|---|---|---|---|']
tc = tm = 0
for pid in sorted(by):
    d = by[pid]; tc += d['c']; tm += d['m']
    out.append('| %s | %d | %d | %d | %s |' % (pid, d['c'] + d['m'], d['c'], d['m'], ', '.join(sorted(d['codes']))[:300]))
out.append('| total | %d | %d | %d | |' % (tc + tm, tc, tm))
out.append('')
out.append('Not caught, with the reason (each was looked at):')
out.append('')
for pid in sorted(by):
    for p, why in by[pid]['missed']:
        out.append('* `%s` (%s): %s' % (p, pid, why or 'no note'))
txt = '\n'.join(out) + '\n'
p = '/verif/DESIGN.md'
s = open(p).read()
a, b = '<!-- MUTANTS-BEGIN -->', '<!-- MUTANTS-END -->'
if a in s:
    s = s[:s.index(a) + len(a)] + '\n' + txt + s[s.index(b):]
else:
    s = s.replace('\n### 13.1 Changes written independently', '\n### 13.0 Hand-written and engine-author breakages (`./run_all_mutants.sh`, results in mutants/RESULTS.tsv)\n\nPatches under `mutants/`, `sim/*/mutants/`, `inpkg/contractcourt/mutants_c1[23]/`; `mutants/revert-fix-<sha>.patch` reverts one of the repairs made in /repo and must be caught by the regression replay of that defect.\n\n' + a + '\n' + txt + b + '\n\n### 13.1 Changes written independently', 1)
open(p, 'w').write(s)
print(tc, tm)
