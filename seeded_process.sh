#!/bin/bash
# seeded_process.sh <ID> <check ids...> : verify both changes of a sub-agent, then run the checks against each.
ID=$1; shift
cd /verif
for L in A B; do [ -d /tmp/seeded-out/$ID/$L ] && ./seeded_verify.sh $ID $L; done > /tmp/seeded-out/$ID/verify-all.log 2>&1
for L in A B; do [ -d /tmp/seeded-out/$ID/$L ] && { echo "=== $ID/$L vs $*"; LINES_MAX=5 ./mut.sh /tmp/seeded-out/$ID/$L/patch.diff "$@"; }; done > /tmp/seeded-out/$ID/mut.log 2>&1
echo DONE >> /tmp/seeded-out/$ID/mut.log
