#!/bin/bash
# seeded_verify.sh <ID> <letter> : confirm a sub-agent's seeded change in its scratch worktree /tmp/wt-<ID>:
#  demo passes on pristine tree, patch applies + builds, demo fails with patch, existing tests of touched packages pass with patch.
# Writes /tmp/seeded-out/<ID>/<letter>/verify.log and prints a one-line verdict.
set -u
ID=$1; L=$2
WT=${WT:-/tmp/wt-$ID}; OUT=/tmp/seeded-out/$ID/$L
export GOFLAGS=-mod=mod GOPROXY=off
LOG=$OUT/verify.log; : > $LOG
cd $WT || exit 2
git checkout -q -- . ; git status --short | grep -v '^??' >> $LOG
DEMO=$(ls $OUT/*_test.go | head -1); DEMON=$(basename $DEMO)
PKGS=$(grep '^+++ b/' $OUT/patch.diff | sed 's#^+++ b/##' | xargs -n1 dirname | sort -u)
DEMODIR=$(find . -name "$DEMON" -not -path './.git/*' | head -1 | xargs -r dirname)
if [ -z "$DEMODIR" ]; then DEMODIR=$(echo $PKGS | awk '{print $1}'); cp $DEMO $DEMODIR/; fi
cp $DEMO $DEMODIR/$DEMON
TESTNAME=$(grep -o 'func Test[A-Za-z0-9_]*' $DEMO | head -1 | sed 's/func //')
# hide other seeded demos of this property while running
for f in $(find . -name 'zz_seeded_*_test.go' -not -path './.git/*'); do [ "$(basename $f)" != "$DEMON" ] && mv $f $f.hidden; done
echo "== demo on pristine" >> $LOG
( cd $DEMODIR && go test -vet=off -count=1 ${TAGS:+-tags $TAGS} -run "^${TESTNAME}\$" . ) >> $LOG 2>&1; P0=$?
git apply $OUT/patch.diff >> $LOG 2>&1 || { echo "$ID/$L: PATCH DOES NOT APPLY"; exit 1; }
echo "== build" >> $LOG
go build ./... >> $LOG 2>&1; B=$?
echo "== demo with patch" >> $LOG
( cd $DEMODIR && go test -vet=off -count=1 ${TAGS:+-tags $TAGS} -run "^${TESTNAME}\$" . ) >> $LOG 2>&1; P1=$?
mv $DEMODIR/$DEMON /tmp/seeded-out/$ID/$L/.demo.tmp
E=0
for p in $PKGS; do echo "== existing tests ./$p" >> $LOG; ( cd $p && timeout 3000 go test -vet=off -count=1 ${TAGS:+-tags $TAGS} -timeout 45m . ) >> $LOG 2>&1 || E=1; done
mv /tmp/seeded-out/$ID/$L/.demo.tmp $DEMODIR/$DEMON
for f in $(find . -name 'zz_seeded_*_test.go.hidden' -not -path './.git/*'); do mv $f ${f%.hidden}; done
git checkout -q -- .
NEWFAIL=$(python3 - "$LOG" <<'PY'
import json,re,sys
b=json.load(open('/root/.vp/BASELINE.json'))
af=set(x.split('::')[1] for x in b['always_fail'])
log=open(sys.argv[1]).read()
part=log.split('== existing tests',1)[1] if '== existing tests' in log else ''
fails=set(re.findall(r'^\s*--- FAIL: (\S+)',part,re.M))
print(','.join(sorted(x for x in fails if x not in af)) or '-')
PY
)
echo "$ID/$L: new_failures_vs_baseline=$NEWFAIL" >> $LOG
echo "$ID/$L: demo_pristine_rc=$P0 build_rc=$B demo_patched_rc=$P1 existing_tests_fail=$E new_failures_vs_baseline=$NEWFAIL pkgs=[$PKGS] demo=$DEMODIR/$DEMON test=$TESTNAME" | tee -a $LOG
