#!/bin/bash
# Offline setup: generate the simulator module files and warm the build cache.
set -e
cd /verif
export GOFLAGS=-mod=mod GOPROXY=off
unset GOSUMDB
./gen_gomod.sh
mkdir -p build evidence replays
(cd sim && go build -o ../build/run_chan ./run_chan)
echo "setup ok"
