#!/bin/bash
# Generates /verif/sim/go.mod + go.sum from $VERIF_REPO/go.mod (default /repo), offline.
set -e
REPO=${VERIF_REPO:-/repo}
SIM=${VERIF_SIM:-/verif/sim}
{
  echo "module verif"
  echo
  grep -E '^(go|toolchain) ' $REPO/go.mod
  echo
  echo "require ("
  echo "	github.com/lightningnetwork/lnd v0.0.0"
  echo "	github.com/anishathalye/porcupine v1.3.0"
  echo ")"
  echo
  # copy the repo's require blocks so versions are identical
  awk '/^require \(/{p=1} p{print} /^\)/{p=0}' $REPO/go.mod
  echo
  echo "replace github.com/lightningnetwork/lnd => $REPO"
  # repo's own replace lines with relative paths rewritten to absolute
  grep -E '^replace ' $REPO/go.mod | sed -E "s#=> \./#=> $REPO/#"
} > $SIM/go.mod.new
if ! cmp -s $SIM/go.mod.new $SIM/go.mod; then mv $SIM/go.mod.new $SIM/go.mod; else rm $SIM/go.mod.new; fi
if [ ! -f $SIM/go.sum ] || [ $REPO/go.sum -nt $SIM/go.sum ]; then
  cat $REPO/go.sum $SIM/extra.sum 2>/dev/null | sort -u > $SIM/go.sum
fi
