#!/bin/bash
# seeded_process3.sh <ID> <check ids...> : wave-3 variant (dirs /tmp/seeded-out/<ID>-w3, worktree /tmp/wt3-<ID>)
ID=$1; shift
cd /verif
for L in A B; do [ -d /tmp/seeded-out/$ID-w3/$L ] && WT=/tmp/wt3-$ID ./seeded_verify.sh $ID-w3 $L; done > /tmp/seeded-out/$ID-w3/verify-all.log 2>&1
for L in A B; do [ -d /tmp/seeded-out/$ID-w3/$L ] && { echo "=== $ID-w3/$L vs $*"; LINES_MAX=5 ./mut.sh /tmp/seeded-out/$ID-w3/$L/patch.diff "$@"; }; done > /tmp/seeded-out/$ID-w3/mut.log 2>&1
echo DONE >> /tmp/seeded-out/$ID-w3/mut.log
