#!/usr/bin/env python3
"""seeded_prompt.py <wave> <ID> : print the brief handed to a fresh sub-agent for one seeded-change
wave (property text + scratch worktree + output layout; nothing about /verif's machinery). Earlier
independent changes for the same property are named by title only so that the new ones differ."""
import json, sys, glob, os
wave, pid = sys.argv[1], sys.argv[2]
prop = None
for l in open("/verif/properties.jsonl"):
    p = json.loads(l)
    if p["id"] == pid:
        prop = p
titles = []
for m in sorted(glob.glob("/verif/seeded/%s-*/meta.json" % pid)):
    try:
        titles.append(json.load(open(m)).get("title", "")[:200])
    except Exception:
        pass
wt = "/tmp/wt%s-%s" % (wave, pid)
out = "/tmp/seeded-out/%s-w%s" % (pid, wave)
print(f"""You are helping test a verification effort for lightningnetwork/lnd (a Lightning Network node in Go). Your job: write TWO independent, realistic code changes (call them A and B) to lnd, each of which BREAKS the semantic property below while the code still compiles and the existing unit tests of every package you touch still pass.

Your scratch git worktree of the repository is {wt} (already created, clean, at the commit to work from). Work ONLY there. Never touch /repo or /verif, never read anything under /verif. There is no network. Use this environment for every go command: `export GOFLAGS=-mod=mod GOPROXY=off` (do NOT set GOSUMDB or GOTOOLCHAIN). Builds are slow the first time (several minutes); be patient and use generous timeouts (run package test suites with `go test -vet=off -count=1 -timeout 45m ./pkg/`). The machine is shared: run at most one go test/build at a time.

THE PROPERTY (id {pid}):
{json.dumps(prop, indent=1)}

What makes a good change:
- It looks like something a developer could plausibly commit (a refactor that moves a write, an "optimisation" that skips a step, a reordered pair of operations, an off-by-one at a boundary, a cache that is not invalidated, a condition narrowed or widened, an error path that forgets to roll back, two sites that each look fine alone). No gratuitous sabotage, no dead giveaways in comments.
- It needs SOMETHING SPECIFIC to manifest: a particular interleaving, a crash/restart or I/O fault at a particular point, a multi-step sequence of operations, an unusual-but-legal input or configuration (a particular channel type, a boundary amount, a reorg shape...), or two cooperating sites. Ordinary use and the existing tests must NOT expose it at once.
- It breaks the property as stated (read the statement and quantifier carefully), in code the property's anchors name or code they depend on.
- A and B must be different in kind and location from each other, and different from these earlier changes other people already made for this property (titles only):
{chr(10).join('  * ' + t for t in titles) or '  (none)'}

For each change L in {{A, B}} deliver, under {out}/L/ (create the directory):
1. patch.diff  - `git diff` of the change against the worktree's HEAD (only lnd source files; NOT the demo test). It must apply with `git apply` to a clean checkout.
2. a demonstration: ONE new Go test file named zz_seeded{wave}_{pid}_L_test.go (with L replaced by A or B), placed in the package it tests, containing one test function `TestSeeded{wave}{pid}L...` that PASSES on the unchanged code and FAILS with your change applied. It should demonstrate the property violation itself (the bad outcome), not merely detect that a line of code changed. Copy the file into {out}/L/ as well. Keep it self-contained (use the package's existing test helpers where handy).
3. meta.json with the keys: "property" ("{pid}"), "title" (one line: what the change does), "breaks" (how the property is violated), "needs" (exactly what is needed for it to manifest: interleaving / crash point / sequence / input), "files" (list of changed files), "demo_cmd" (the go test command that runs the demonstration), "existing_tests_run" (the commands you ran to confirm existing tests still pass with the change).

Procedure you must follow for each change: (1) write the demo test first and see it pass on the clean worktree; (2) make the change; `go build ./...` must succeed; (3) see the demo test fail; (4) with the change applied and the demo file moved away, run the full existing test suite of every package you touched (e.g. `go test -vet=off -count=1 -timeout 45m ./lnwallet/`) and confirm there are no new failures (if a test fails, check whether it also fails on the clean worktree - a few timing-based tests are flaky under load; anything that fails only with your change means the change is too visible: pick a subtler one); (5) save patch.diff, then `git checkout -- .` so the worktree is clean again before the next change (leave the demo test files in place as untracked files; when running the existing suite for change B, move A's demo away or skip it with -skip).

At the end reply with a short report: for each of A and B the title, what it needs to manifest, and the exact results of steps 1, 3 and 4. If you could only produce one good change in the time available, say so; one solid change is better than two weak ones.""")
