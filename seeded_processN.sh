#!/bin/bash
# seeded_processN.sh <wave> <ID> <check ids...> : dirs /tmp/seeded-out/<ID>-w<wave>, worktree /tmp/wt<wave>-<ID>
W=$1; ID=$2; shift 2
cd /verif
D=/tmp/seeded-out/$ID-w$W
for L in A B; do [ -d $D/$L ] && WT=/tmp/wt$W-$ID TAGS=${TAGS:-} ./seeded_verify.sh $ID-w$W $L; done > $D/verify-all.log 2>&1
for L in A B; do [ -d $D/$L ] && { echo "=== $ID-w$W/$L vs $*"; LINES_MAX=5 ./mut.sh $D/$L/patch.diff "$@"; }; done > $D/mut.log 2>&1
echo DONE >> $D/mut.log
