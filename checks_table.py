# Per-property check configuration used by ./check.
CHANSIM_STUB = {
    "lnwallet.LightningChannel, commitment builder, sigpool, musig2 sessions": "real",
    "channeldb / chanstate channel, revocation-log, fwd-pkg code": "real",
    "kvdb + bbolt": "real bbolt file on tmpfs behind SimKV (crash granularity = transaction)",
    "signer": "input.MockSigner with real private keys (real ECDSA/Schnorr/musig2)",
    "transport": "simulator FIFO queues (cut = arbitrary delivered prefix per direction)",
    "link pacing, switch, peer, funding flow": "not simulated (any order the LightningChannel API accepts is generated)",
}
CHAN_ASSUME = [
    "bbolt transaction atomicity and durability are trusted; crash granularity is one kvdb transaction",
    "channels are born like lnwallet.CreateTestChannels builds them (no funding flow); commitment 0 carries a placeholder signature",
    "no custom (aux) channels; HTLC count capped at 30 per run",
    "a clean batch is evidence, not proof: schedules are sampled from a seeded PRNG",
]
CHECKS = {
    "C01": dict(
        bin="run_chan", build="external", pkg="run_chan", level="exploration",
        quick=dict(runs=1600, wall=75), thorough=dict(runs=200000, wall=1200),
        rule="one evaluation = one seeded schedule of add/settle/fail/malformed/fee/sign/revoke/deliver events between two real LightningChannel state machines, checked after every event against the BOLT-2 reference model, conservation, byte-identical mirror commitments; non-trivial = both sides had unacknowledged work in flight at the same time at least once; distinct = distinct event-trace hash",
        states_measure="distinct (heightA mod 4, heightB mod 4, queue lengths, tip flags, unsigned counts, live HTLCs) tuples",
        expected_probes=["probe_duplicate_htlc", "probe_fee_update", "probe_both_sides_busy", "probe_crossing_signatures"],
        real_vs_stub=CHANSIM_STUB, assumptions=CHAN_ASSUME,
        determinism="call-driven engine: identical seed gives byte-identical event log (self-test: ./check selftest-determinism)",
    ),
    "C02": dict(
        bin="run_chan", build="external", pkg="run_chan", level="fault_enumeration",
        quick=dict(runs=320, wall=100), thorough=dict(runs=30000, wall=1500),
        rule="one evaluation = one seeded schedule (with cuts and injected write failures) in which BOTH databases are forked and both channels reloaded after EVERY event (every crash point of that schedule at call granularity); each reload is compared with the pre-crash in-memory durable state, the reference model after 'drop what no signature covered', the released-revocation set, and a sample of forks is resumed through resync to wind-down; non-trivial = a fault fired and an HTLC locked in afterwards; distinct = distinct trace hash",
        expected_probes=["probe_retransmit_sig", "probe_retransmit_rev"],
        real_vs_stub=CHANSIM_STUB, assumptions=CHAN_ASSUME,
        determinism="call-driven engine: exact replay",
    ),
    "C03": dict(
        bin="run_chan", build="external", pkg="run_chan", level="exploration",
        quick=dict(runs=1200, wall=75), thorough=dict(runs=150000, wall=1200),
        rule="one evaluation = one seeded schedule with 1-4 connection cuts (arbitrary delivered prefix per direction, incl. cuts during resynchronisation, with/without data-loss-protect fields), both sides reloading from disk; retransmissions are compared message by message with what the reference model says the peer is missing; non-trivial = a cut fired and an HTLC locked in afterwards; distinct = distinct trace hash",
        expected_probes=["probe_retransmit_sig", "probe_retransmit_rev", "probe_retransmit_rev_then_sig", "probe_retransmit_sig_then_rev", "probe_sync_sign_inside", "probe_sync_without_dlp", "fault_cut_during_sync"],
        real_vs_stub=CHANSIM_STUB, assumptions=CHAN_ASSUME,
        determinism="call-driven engine: exact replay",
    ),
    "C06": dict(
        bin="run_chan", build="external", pkg="run_chan", level="exploration",
        quick=dict(runs=900, wall=75), thorough=dict(runs=60000, wall=900),
        rule="two arms. release-rule: chansim schedules with cuts, write failures and forked reloads; every RevokeAndAck leaving the API (first transmission or retransmission) is checked at that instant against the durable local commitment height and against an independent BOLT-3 derivation of the node's own chain. revocation-store: a producer streams secrets into the real shachain store with bit flips, foreign seeds, replays, skips and serialise/deserialise restarts; every lookup is compared with the independent derivation. non-trivial = (release arm) fault fired and HTLC locked in afterwards / (store arm) >= 8 inserts; distinct = distinct trace hash",
        expected_probes=["probe_rev_retransmitted", "probe_store_rejects_bad", "fault_write_fail_revoke"],
        real_vs_stub=dict(CHANSIM_STUB, **{"shachain.RevocationStore / RevocationProducer": "real", "secret oracle": "independent 20-line BOLT-3 generate_from_seed/derive_secret"}),
        assumptions=CHAN_ASSUME + ["revocation store reachable only through AddNextEntry one index at a time: k <= 20000 per run (thorough)"],
        determinism="call-driven engine: exact replay",
    ),
}
