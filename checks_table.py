# Per-property check configuration used by ./check.
CHANSIM_STUB = {
    "lnwallet.LightningChannel, commitment builder, sigpool, musig2 sessions": "real",
    "channeldb / chanstate channel, revocation-log, fwd-pkg code": "real",
    "kvdb + bbolt": "real bbolt file on tmpfs behind SimKV (crash granularity = transaction)",
    "signer": "input.MockSigner with real private keys (real ECDSA/Schnorr/musig2)",
    "transport": "simulator FIFO queues (cut = arbitrary delivered prefix per direction)",
    "link pacing, switch, peer, funding flow": "not simulated (any order the LightningChannel API accepts is generated)",
}
CHAN_ASSUME = [
    "bbolt transaction atomicity and durability are trusted; crash granularity is one kvdb transaction",
    "channels are born like lnwallet.CreateTestChannels builds them (no funding flow); commitment 0 carries a placeholder signature",
    "no custom (aux) channels; HTLC count capped at 30 per run (483 in the C01 many-HTLC arm)",
    "a clean batch is evidence, not proof: schedules are sampled from a seeded PRNG",
]
CHECKS = {
    "C01": dict(
        bin="run_chan", build="external", pkg="run_chan", level="exploration",
        quick=dict(runs=1600, wall=75), thorough=dict(runs=200000, wall=1200),
        rule="one evaluation = one seeded schedule of add/settle/fail/malformed/fee/sign/revoke/deliver events between two real LightningChannel state machines, checked after every event against the BOLT-2 reference model, conservation, byte-identical mirror commitments; non-trivial = both sides had unacknowledged work in flight at the same time at least once; distinct = distinct event-trace hash",
        states_measure="distinct (heightA mod 4, heightB mod 4, queue lengths, tip flags, unsigned counts, live HTLCs) tuples",
        expected_probes=["probe_duplicate_htlc", "probe_fee_update", "probe_both_sides_busy", "probe_crossing_signatures", "probe_commitment_with_200+_htlc_outputs"],
        real_vs_stub=CHANSIM_STUB, assumptions=CHAN_ASSUME,
        determinism="call-driven engine: identical seed gives byte-identical event log (self-test: ./check selftest-determinism)",
    ),
    "C02": dict(
        bin="run_chan", build="external", pkg="run_chan", level="fault_enumeration",
        quick=dict(runs=320, wall=100), thorough=dict(runs=30000, wall=1500),
        rule="one evaluation = one seeded schedule (with cuts and injected write failures) in which BOTH databases are forked and both channels reloaded after EVERY event (every crash point of that schedule at call granularity); each reload is compared with the pre-crash in-memory durable state, the reference model after 'drop what no signature covered', the released-revocation set, and a sample of forks is resumed through resync to wind-down; non-trivial = a fault fired and an HTLC locked in afterwards; distinct = distinct trace hash",
        expected_probes=["probe_second_resolution_after_reload_refused", "probe_status_update_race_at_end", "probe_retransmit_sig", "probe_retransmit_rev", "probe_medium_htlc_arm", "probe_commitment_with_60+_htlc_outputs"],
        real_vs_stub=CHANSIM_STUB, assumptions=CHAN_ASSUME,
        determinism="call-driven engine: exact replay",
    ),
    "C03": dict(
        bin="run_chan", build="external", pkg="run_chan", level="exploration",
        quick=dict(runs=1200, wall=75), thorough=dict(runs=150000, wall=1200),
        rule="one evaluation = one seeded schedule with 1-4 connection cuts (arbitrary delivered prefix per direction, incl. cuts during resynchronisation, with/without data-loss-protect fields), both sides reloading from disk; retransmissions are compared message by message with what the reference model says the peer is missing; non-trivial = a cut fired and an HTLC locked in afterwards; distinct = distinct trace hash",
        expected_probes=["probe_retransmit_sig", "probe_retransmit_rev", "probe_retransmit_rev_then_sig", "probe_retransmit_sig_then_rev", "probe_sync_sign_inside", "probe_sync_without_dlp", "fault_cut_during_sync", "probe_medium_htlc_arm", "probe_commitment_with_60+_htlc_outputs"],
        real_vs_stub=CHANSIM_STUB, assumptions=CHAN_ASSUME,
        determinism="call-driven engine: exact replay",
    ),
    "C06": dict(
        bin="run_chan", build="external", pkg="run_chan", level="exploration",
        quick=dict(runs=900, wall=75), thorough=dict(runs=60000, wall=900),
        rule="two arms. release-rule: chansim schedules with cuts, write failures and forked reloads; every RevokeAndAck leaving the API (first transmission or retransmission) is checked at that instant against the durable local commitment height and against an independent BOLT-3 derivation of the node's own chain. revocation-store: a producer streams secrets into the real shachain store with bit flips, foreign seeds, replays, skips and serialise/deserialise restarts; every lookup is compared with the independent derivation; in half of the store runs the stream starts at a height k0 = 2^b - c, j*2^b - c or an arbitrary 47-bit pattern, the store for k0 received secrets being assembled from the BOLT-3 definition in the store's own serialisation. non-trivial = (release arm) fault fired and HTLC locked in afterwards / (store arm) >= 8 inserts; distinct = distinct trace hash",
        expected_probes=["probe_store_restart_with_48_buckets", "probe_status_update_race_at_end", "probe_rev_retransmitted", "probe_store_rejects_bad", "fault_write_fail_revoke", "fault_forged_revocation_negated-scalar", "fault_forged_revocation_bit-flip", "probe_store_started_at_large_height", "probe_store_started_above_2^32"],
        real_vs_stub=dict(CHANSIM_STUB, **{"shachain.RevocationStore / RevocationProducer": "real", "secret oracle": "independent 20-line BOLT-3 generate_from_seed/derive_secret"}),
        assumptions=CHAN_ASSUME + ["a run inserts at most 20000 secrets one at a time; larger k are reached by loading a store assembled from the BOLT-3 definition (its serialisation is part of what is judged) and streaming on from there"],
        determinism="call-driven engine: exact replay",
    ),
    "C11": dict(
        bin="run_noise", build="inpkg", pkg="brontide", level="exploration",
        run_args=["-test.run=^TestVerifRun$", "-test.timeout=0"],
        quick=dict(runs=1600, wall=60), thorough=dict(runs=60000, wall=600),
        rule="one evaluation = one seeded session: handshake (honest / wrong static key / one bit of one act flipped) then a seeded sequence of writes of sizes {0,1,2,65534,65535,uniform} and, one in twelve, Conn.Write calls of 65536..135000 bytes (chunked into maximal records, resumed after a timeout like an io.Writer: Flush the record in flight, then Write the rest) in both directions; after a timed-out write an impatient caller may try WriteMessage instead of resuming (must be refused) over an in-memory pipe whose writer accepts a drawn prefix and then times out and whose reader fragments reads; long arm crosses 2-4 key rotations, short arm starts 5 messages before a rotation; attacker arm flips/truncates/deletes/inserts/swaps/replays/reflects/splices ciphertext; epilogue of the benign arms: a send is given up after a partial flush (ClearPendingSend) and another message follows (fresh (key, nonce) pairs, the peer reads an error). non-trivial = (benign) >= 5 messages delivered and, if pipe faults are enabled, at least one fired / (attack arms) the attack was applied; distinct = distinct trace hash",
        states_measure="distinct (sendNonce/100 per side, rotations per side) tuples",
        expected_probes=["probe_key_rotation", "probe_two_rotations", "probe_started_near_rotation", "fault_partial_write", "fault_fragmented_read", "probe_chunked_conn_write", "probe_conn_level_handshake", "fault_handshake_act_delivered_in_pieces", "probe_send_abandoned_after_partial_flush", "kept_message_checks", "probe_chunked_write_interrupted", "probe_write_refused_with_only_body_unflushed", "fault_attack_flip", "fault_attack_replay-old", "fault_attack_reflect", "fault_handshake_tamper"],
        real_vs_stub={"brontide.Machine (handshake acts, WriteMessage, Flush, ReadMessage, key rotation)": "real",
                      "brontide.Conn Read/Write/Flush": "real, constructed directly over the simulated pipe",
                      "TCP / net.Conn": "simulated in-memory pipe with partial writes (timeout errors) and fragmented reads",
                      "Listener.Accept loop, Dial": "not run (acts are exchanged by the simulator)"},
        assumptions=["ChaCha20-Poly1305 and secp256k1 ECDH implementations are trusted", "the attacker alters ciphertext only after the handshake completed (handshake tampering is a separate arm: one bit of one act)"],
        determinism="call-driven engine, single goroutine: exact replay",
    ),
    "C04": dict(
        bin="run_close", build="inpkg", pkg="contractcourt", level="exploration",
        run_args=["-test.run=^TestVerifRun$", "-test.timeout=0"],
        quick=dict(runs=480, wall=90), thorough=dict(runs=40000, wall=1200),
        rule="one evaluation = one chansim history (all channel types, both openers, dust and non-dust HTLCs both ways, duplicates, fee changes, optionally cuts with reloads, revocation log with or without amount data); every commitment a side revokes is kept as the real transaction (plus its signed second-level HTLC transactions); then, from a RELOADED COPY of the victim's database only, a seeded sample (thorough: up to 12 per check point) of revoked heights is pushed through the real chainWatcher (state-hint decoding, breach recognition), NewBreachRetribution with and without the spend tx, the real breach arbitrator's newRetributionInfo/createJusticeTx (all variants, and after the cheater advanced an HTLC to the second level), and every justice input is executed in btcd's script engine against the real revoked outputs. non-trivial = at least one revoked height checked; distinct = distinct trace hash",
        expected_probes=["probe_second_level_revoke", "probe_taproot_justice", "probe_justice_with_htlcs", "probe_retribution_without_spendtx", "probe_revlog_without_amounts",
                         "probe_retribution_store_round_trip", "probe_taproot_retribution_restored_with_several_htlcs",
                         "fault_revocation_persisted_between_watcher_reads", "probe_watcher_race_judged_breach", "probe_watcher_race_judged_current_state"],
        real_vs_stub={"lnwallet channel state machine, revocation log, shachain store": "real (chansim)",
                      "contractcourt.chainWatcher.handleCommitSpend": "real, called directly (no notifier goroutines)",
                      "breach arbitrator: newRetributionInfo, createJusticeTx, convertToSecondLevelRevoke, breachedOutput.CraftInputScript": "real",
                      "Bitcoin script validation": "real btcd txscript engine, standard verify flags",
                      "chain, mempool, retribution store, fee estimator": "stub (static fee, no publication)"},
        assumptions=["bbolt transaction atomicity", "no custom (aux) channels", "HTLC count capped per run", "outputs left unpunished are accepted only if they are anchor-sized on an anchor channel (an HTLC of exactly 330 sat would be mis-classified)"],
        determinism="call-driven engine: exact replay",
    ),
    "C05": dict(
        bin="run_close", build="inpkg", pkg="contractcourt", level="exploration",
        run_args=["-test.run=^TestVerifRun$", "-test.timeout=0"],
        quick=dict(runs=400, wall=100), thorough=dict(runs=30000, wall=1500),
        rule="one evaluation = one chansim history (all channel types, both roles, optional cuts/reloads) in which, at a seeded subset of states (every 6-16 events in quick, 2-8 in thorough, plus the state before wind-down, incl. mid-dance states with a pending remote commitment), each node is reloaded from a copy of its database and (a) force-closes: the signed commitment is executed against the funding output, (b) is shown the peer's current and pending commitment through the real chainWatcher; for each confirmed commitment the real commit-sweep / timeout / success resolvers are launched against a recording sweeper and every input they offer (and every pre-signed second-level tx, and the delayed second-level outputs) is executed in btcd's script engine against the real outputs with the sequence/locktime the input demands; claim values are compared with balance and HTLC amounts. non-trivial = at least one state examined and one script validated; distinct = distinct trace hash",
        expected_probes=["probe_pending_remote_commit", "probe_commit_with_htlcs", "probe_timeout_via_sweeper", "probe_timeout_presigned_tx", "probe_success_via_sweeper", "probe_success_presigned_tx", "probe_second_level_sweep", "probe_taproot_commit_keyspend", "probe_balance_trimmed"],
        real_vs_stub={"lnwallet channel state machine, ForceClose, NewUnilateralCloseSummary": "real (chansim)",
                      "contractcourt.chainWatcher.handleCommitSpend (state recognition)": "real, called directly",
                      "commitSweepResolver / htlcTimeoutResolver / htlcSuccessResolver Launch()": "real; Resolve() loops, nursery and anchor resolver not run",
                      "sweeper": "recording stub: builds a 1-input tx with the sequence/locktime/required output the input demands and lets the input craft its witness",
                      "second-stage sweep of second-level outputs": "input built by the simulator with the witness types the resolvers/nursery use (harness choice, stated)",
                      "Bitcoin script validation": "real btcd txscript engine, standard verify flags"},
        assumptions=["bbolt transaction atomicity", "commitment 0 carries a placeholder signature (checked from local height 1)", "chain heights are not simulated: CLTV/CSV are checked through nLockTime/nSequence by the script engine"],
        determinism="call-driven engine: exact replay",
    ),
}


# --- entries contributed by engine directories (sim/<engine>/ENTRY.py, inpkg/<pkg>/ENTRY_<prop>.py) ---
# Only engines that were reviewed and registered are listed here.
ENABLED_ENTRIES = [
    "sim/paysim/ENTRY.py",
    "sim/sweepsim/ENTRY.py",
    "sim/closersim/ENTRY.py",
    "sim/circuitsim/ENTRY.py",
    "sim/ntfnsim/ENTRY.py",
    "sim/invsim/ENTRY.py",
    "sim/gossipsim/ENTRY.py",
    "inpkg/htlcswitch/ENTRY.py",
    "inpkg/contractcourt/ENTRY_C12.py",
    "inpkg/contractcourt/ENTRY_C13.py",
]


def _load_entries():
    import os
    base = os.path.dirname(os.path.abspath(__file__))
    out = []
    for path in [os.path.join(base, p) for p in ENABLED_ENTRIES]:
        ns = {}
        with open(path) as f:
            exec(compile(f.read(), path, "exec"), ns)
        out.append(ns)
    return out


ENTRY_MODULES = _load_entries()
for _ns in ENTRY_MODULES:
    for _k, _v in (_ns.get("CHECK") or {}).items():
        CHECKS[_k] = _v
