#!/bin/bash
# regen_regress.sh <revert-patch> <ID> <violation-code> <out.json> [seed...] : re-find a fixed defect on a scratch copy of
# /repo with the fix reverted and store the shrunk replay as a regression file (needed when an engine's tape layout changed).
set -u
PATCH=$(realpath "$1"); ID=$2; CODE=$3; OUT=$4; shift 4
SEEDS=${*:-"20260924 1 2 3 4 5"}
exec 9>/dev/shm/repo-mut-slot7.lock; flock 9
D=/dev/shm/repo-mut-slot7; rm -rf $D; rsync -a --exclude .git /repo/ $D/
( cd $D && patch -p1 -s < "$PATCH" ) || { echo "patch failed"; exit 2; }
tag=$(python3 -c "import hashlib,os;print(hashlib.sha256(os.path.realpath('$D').encode()).hexdigest()[:10])")
found=""
for s in $SEEDS; do
  VERIF_REPO=$D VERIF_RUNS_OVERRIDE=${RUNS:-16000} VERIF_WALL_OVERRIDE=${WALL:-300} /verif/check $ID --tier quick --seed $s > /dev/shm/regen-$$.log 2>&1
  for f in /dev/shm/verif-build-$tag/replays/$ID-*.json; do
    [ -e "$f" ] || continue
    if python3 -c "import json,sys;d=json.load(open('$f'));sys.exit(0 if d['violation']['code']=='$CODE' else 1)"; then
      best=$(ls -S /dev/shm/verif-build-$tag/replays/$ID-*.json | while read g; do python3 -c "import json,sys;d=json.load(open('$g'));print(len(d['steps']),'$g') if d['violation']['code']=='$CODE' else None" ; done | grep -v None | sort -n | head -1 | cut -d' ' -f2)
      cp "$best" "$OUT"; found=$best; break
    fi
  done
  [ -n "$found" ] && break
done
rm -rf $D /dev/shm/verif-sim-$tag /dev/shm/verif-build-$tag /dev/shm/regen-$$.log
[ -n "$found" ] && echo "regenerated $OUT from $found" || { echo "NOT FOUND"; exit 1; }
