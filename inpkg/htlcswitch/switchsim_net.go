package htlcswitch

// switchsim: deterministic simulation of a three node network
// Alice <-> Bob <-> Carol built from the REAL htlcswitch.Switch, channelLink,
// lnwallet channel state machines, invoice registries and ONE bbolt database
// per node, running inside a testing/synctest bubble (property C08).
//
// These files are compiled INTO package htlcswitch by /verif/inpkg_build.py
// (go test -overlay); they are not part of lnd.
//
// This file: nodes, channels, links and the simulated transport.

import (
	"bytes"
	"crypto/sha256"
	"fmt"
	"net"
	"sync"
	"sync/atomic"
	"time"

	"github.com/btcsuite/btcd/btcec/v2"
	"github.com/btcsuite/btcd/btcec/v2/ecdsa"
	"github.com/btcsuite/btcd/btcutil/v2"
	"github.com/btcsuite/btcd/chainhash/v2"
	"github.com/btcsuite/btcd/wire/v2"
	"github.com/lightningnetwork/lnd/chainntnfs"
	"github.com/lightningnetwork/lnd/channeldb"
	"github.com/lightningnetwork/lnd/chanstate"
	"github.com/lightningnetwork/lnd/clock"
	"github.com/lightningnetwork/lnd/contractcourt"
	"github.com/lightningnetwork/lnd/graph/db/models"
	"github.com/lightningnetwork/lnd/htlcswitch/hop"
	"github.com/lightningnetwork/lnd/input"
	"github.com/lightningnetwork/lnd/invoices"
	"github.com/lightningnetwork/lnd/keychain"
	"github.com/lightningnetwork/lnd/lnpeer"
	"github.com/lightningnetwork/lnd/lntest/channels"
	"github.com/lightningnetwork/lnd/lntest/mock"
	"github.com/lightningnetwork/lnd/lntypes"
	"github.com/lightningnetwork/lnd/lnwallet"
	"github.com/lightningnetwork/lnd/lnwallet/chainfee"
	"github.com/lightningnetwork/lnd/lnwire"
	"github.com/lightningnetwork/lnd/shachain"
	"github.com/lightningnetwork/lnd/ticker"

	"verif/simcore"
)

const (
	zzA = 0
	zzB = 1
	zzC = 2

	zzStartHeight = 100
)

var zzNames = [3]string{"A", "B", "C"}

// zzConnEnds[c] are the node indexes at the two ends of connection c.
// Direction d of connection c carries messages from zzConnEnds[c][d] to
// zzConnEnds[c][1-d].
var zzConnEnds = [2][2]int{{zzA, zzB}, {zzB, zzC}}

// zzTicker is a manually driven ticker.Ticker: the simulator decides when a
// link's batch timer fires, and only while the link has it resumed.
type zzTicker struct {
	c      chan time.Time
	active atomic.Bool
	dead   atomic.Bool
}

func zzNewTicker() *zzTicker { return &zzTicker{c: make(chan time.Time)} }

func (t *zzTicker) Ticks() <-chan time.Time { return t.c }
func (t *zzTicker) Resume()                 { t.active.Store(true) }
func (t *zzTicker) Pause()                  { t.active.Store(false) }
func (t *zzTicker) Stop()                   { t.active.Store(false); t.dead.Store(true) }

var _ ticker.Ticker = (*zzTicker)(nil)

// zzFeeEstimator returns whatever rate the simulator last set.
type zzFeeEstimator struct{ rate atomic.Int64 }

func (f *zzFeeEstimator) EstimateFeePerKW(uint32) (chainfee.SatPerKWeight, error) {
	return chainfee.SatPerKWeight(f.rate.Load()), nil
}
func (f *zzFeeEstimator) Start() error                          { return nil }
func (f *zzFeeEstimator) Stop() error                           { return nil }
func (f *zzFeeEstimator) RelayFeePerKW() chainfee.SatPerKWeight { return 253 }

// zzClock is the wall clock of the invoice registries. Under the bubble's fake
// time a timer fires at EXACTLY its deadline, and the invoice expiry watcher
// spins (it re-arms a zero timer) while "deadline.Before(now)" is false; a
// real clock has always moved on by then. Timers therefore fire 1us late.
type zzClock struct{}

func (zzClock) Now() time.Time { return time.Now() }
func (zzClock) TickAfter(d time.Duration) <-chan time.Time {
	return time.After(d + time.Microsecond)
}

// zzPreimageCache is a durable (survives restarts) witness cache that, like
// the real one, cannot be written once the node's database is gone.
type zzPreimageCache struct {
	mu   sync.Mutex
	node *zzNode
	m    map[lntypes.Hash]lntypes.Preimage
}

func (p *zzPreimageCache) LookupPreimage(h lntypes.Hash) (lntypes.Preimage, bool) {
	p.mu.Lock()
	defer p.mu.Unlock()
	v, ok := p.m[h]
	return v, ok
}

func (p *zzPreimageCache) AddPreimages(ps ...lntypes.Preimage) error {
	if p.node.kv.Fenced() {
		return simcore.ErrSimCrashed
	}
	p.mu.Lock()
	defer p.mu.Unlock()
	for _, x := range ps {
		p.m[x.Hash()] = x
	}
	return nil
}

func (p *zzPreimageCache) SubscribeUpdates(lnwire.ShortChannelID, *chanstate.HTLC,
	*hop.Payload, []byte) (*contractcourt.WitnessSubscription, error) {

	return nil, nil
}

// zzChan is the static description of one channel.
type zzChan struct {
	conn     int
	outpoint wire.OutPoint
	chanID   lnwire.ChannelID
	scid     lnwire.ShortChannelID
	capacity btcutil.Amount
	chanType channeldb.ChannelType
	opener   int // node index of the funder
	anchors  lnwire.MilliSatoshi
}

// zzLink is one incarnation of a channelLink of a node on a connection.
type zzLink struct {
	node   *zzNode
	conn   int
	epoch  int
	link   *channelLink
	ticker *zzTicker
	peer   *zzPeer
}

// zzNode is one simulated lnd node: one database, one switch, one registry.
type zzNode struct {
	s      *zzSim
	idx    int
	name   string
	priv   *btcec.PrivateKey
	pub    *btcec.PublicKey
	id     [33]byte
	kv     *simcore.SimKV
	db     *channeldb.DB
	sw     *Switch
	reg    *mockInvoiceRegistry
	pcache *zzPreimageCache
	signer *input.MockSigner
	pool   *lnwallet.SigPool
	epochs chan *chainntnfs.BlockEpoch
	fee    *zzFeeEstimator
	links  [2]*zzLink // by connection index; nil when down
	boots  int        // how many times the node was (re)started
	height uint32
}

// zzWire is one queued message.
type zzWire struct {
	raw  []byte
	desc string
}

// zzConn is the transport state of one connection.
type zzConn struct {
	up    bool
	epoch int
	q     [2][]zzWire // by direction
}

// zzPeer is the lnpeer.Peer a link talks to: it appends to the simulator's
// queue of its connection. A peer object of a torn down connection epoch or
// of a crashed node drops everything.
type zzPeer struct {
	s      *zzSim
	node   *zzNode // the SENDER (owner of the link)
	conn   int
	epoch  int
	remote *zzNode
	quit   chan struct{}
}

var _ lnpeer.Peer = (*zzPeer)(nil)

func (p *zzPeer) SendMessage(_ bool, msgs ...lnwire.Message) error {
	for _, m := range msgs {
		if err := p.s.onSend(p, m); err != nil {
			return err
		}
	}
	return nil
}
func (p *zzPeer) SendMessageLazy(sync bool, msgs ...lnwire.Message) error {
	return p.SendMessage(sync, msgs...)
}
func (p *zzPeer) AddNewChannel(*lnpeer.NewChannel, <-chan struct{}) error { return nil }
func (p *zzPeer) AddPendingChannel(lnwire.ChannelID, <-chan struct{}) error {
	return nil
}
func (p *zzPeer) RemovePendingChannel(lnwire.ChannelID) error { return nil }
func (p *zzPeer) WipeChannel(*wire.OutPoint)                  {}
func (p *zzPeer) PubKey() [33]byte                            { return p.remote.id }
func (p *zzPeer) IdentityKey() *btcec.PublicKey               { return p.remote.pub }
func (p *zzPeer) Address() net.Addr                           { return nil }
func (p *zzPeer) QuitSignal() <-chan struct{}                 { return p.quit }
func (p *zzPeer) LocalFeatures() *lnwire.FeatureVector        { return nil }
func (p *zzPeer) RemoteFeatures() *lnwire.FeatureVector       { return nil }
func (p *zzPeer) Disconnect(err error) {
	p.s.mu.Lock()
	p.s.disconnects = append(p.s.disconnects, fmt.Sprintf("%s conn%d epoch%d: %v", p.node.name, p.conn, p.epoch, err))
	p.s.mu.Unlock()
}

// zzDecodeHopIterators is a stateless version of the fixture's mock onion
// decoder (the fixture's caches stateful iterators, which breaks replays of a
// forwarding package).
func zzDecodeHopIterators(_ []byte, reqs []hop.DecodeHopIteratorRequest, _ bool) (
	[]hop.DecodeHopIteratorResponse, error) {

	d := &mockIteratorDecoder{}
	resps := make([]hop.DecodeHopIteratorResponse, 0, len(reqs))
	for _, req := range reqs {
		it, code := d.DecodeHopIterator(req.OnionReader, req.RHash, req.IncomingCltv)
		resps = append(resps, hop.DecodeHopIteratorResponse{HopIterator: it, FailCode: code})
	}
	return resps, nil
}

func zzMsgDesc(m lnwire.Message) string {
	switch x := m.(type) {
	case *lnwire.UpdateAddHTLC:
		return fmt.Sprintf("add(id=%d amt=%d exp=%d h=%x)", x.ID, x.Amount, x.Expiry, x.PaymentHash[:4])
	case *lnwire.UpdateFulfillHTLC:
		h := sha256.Sum256(x.PaymentPreimage[:])
		return fmt.Sprintf("fulfill(id=%d h=%x)", x.ID, h[:4])
	case *lnwire.UpdateFailHTLC:
		return fmt.Sprintf("fail(id=%d)", x.ID)
	case *lnwire.UpdateFailMalformedHTLC:
		return fmt.Sprintf("failmalformed(id=%d)", x.ID)
	case *lnwire.CommitSig:
		return fmt.Sprintf("commit_sig(htlcs=%d)", len(x.HtlcSigs))
	case *lnwire.RevokeAndAck:
		return "revoke_and_ack"
	case *lnwire.ChannelReestablish:
		return fmt.Sprintf("reestablish(next_commit=%d next_revoke=%d)", x.NextLocalCommitHeight, x.RemoteCommitTailHeight)
	case *lnwire.ChannelReady:
		return "channel_ready"
	case *lnwire.UpdateFee:
		return fmt.Sprintf("update_fee(%d)", x.FeePerKw)
	case *lnwire.Error:
		return fmt.Sprintf("error(%q)", string(x.Data))
	case *lnwire.Warning:
		return fmt.Sprintf("warning(%q)", string(x.Data))
	}
	return fmt.Sprintf("%T", m)
}

// onSend is called on lnd goroutines. It must never panic: violations found
// here are parked and raised by the simulator goroutine at the next
// quiescent point.
func (s *zzSim) onSend(p *zzPeer, m lnwire.Message) error {
	s.mu.Lock()
	defer s.mu.Unlock()
	c := &s.conns[p.conn]
	if !c.up || c.epoch != p.epoch {
		s.stat["msgs_dropped_stale_link"]++
		return fmt.Errorf("peer disconnected")
	}
	if p.node.kv.Fenced() {
		// a crashed process sends nothing
		s.stat["msgs_dropped_after_crash"]++
		return fmt.Errorf("node crashed")
	}
	var buf bytes.Buffer
	if _, err := lnwire.WriteMessage(&buf, m, 0); err != nil {
		s.parkHarness("cannot serialise %T sent by %s: %v", m, p.node.name, err)
		return nil
	}
	dir := 0
	if zzConnEnds[p.conn][1] == p.node.idx {
		dir = 1
	}
	if p.node.idx == zzB {
		s.bobSends(p.conn, m)
	}
	c.q[dir] = append(c.q[dir], zzWire{raw: buf.Bytes(), desc: zzMsgDesc(m)})
	s.sentSinceLog = append(s.sentSinceLog, zzSentRec{conn: p.conn, dir: dir, desc: zzMsgDesc(m)})
	return nil
}

// ---- node construction --------------------------------------------------

func (s *zzSim) newNode(idx int) *zzNode {
	n := &zzNode{s: s, idx: idx, name: zzNames[idx], height: zzStartHeight}
	seed := sha256.Sum256([]byte(fmt.Sprintf("verif-switchsim-node-%d", idx)))
	n.priv, n.pub = btcec.PrivKeyFromBytes(seed[:])
	copy(n.id[:], n.pub.SerializeCompressed())
	n.signer = input.NewMockSigner([]*btcec.PrivateKey{n.priv}, nil)
	n.pool = lnwallet.NewSigPool(2, n.signer)
	s.r.Must(n.pool.Start(), "sigpool start")
	kv, err := simcore.OpenSimKV(s.r.SubDir("db"+n.name), "channel.db")
	s.r.Must(err, "open simkv")
	n.kv = kv
	n.db, err = channeldb.CreateWithBackend(kv)
	s.r.Must(err, "channeldb create")
	n.fee = &zzFeeEstimator{}
	n.fee.rate.Store(int64(s.cfg.feePerKw))
	n.pcache = &zzPreimageCache{node: n, m: map[lntypes.Hash]lntypes.Preimage{}}
	return n
}

// boot creates and starts the node's switch and invoice registry over its
// database (first start and every restart).
func (n *zzNode) boot() error {
	n.boots++
	n.epochs = make(chan *chainntnfs.BlockEpoch)
	db := n.db
	cfg := Config{
		DB:                   db,
		FetchAllOpenChannels: db.ChannelStateDB().FetchAllOpenChannels,
		FetchAllChannels:     db.ChannelStateDB().FetchAllChannels,
		FetchClosedChannels:  db.ChannelStateDB().FetchClosedChannels,
		SwitchPackager:       channeldb.NewSwitchPackager(),
		FwdingLog: &mockForwardingLog{
			events: make(map[time.Time]channeldb.ForwardingEvent),
		},
		FetchLastChannelUpdate: func(scid lnwire.ShortChannelID) (*lnwire.ChannelUpdate1, error) {
			return &lnwire.ChannelUpdate1{ShortChannelID: scid}, nil
		},
		Notifier: &mock.ChainNotifier{
			SpendChan: make(chan *chainntnfs.SpendDetail),
			EpochChan: n.epochs,
			ConfChan:  make(chan *chainntnfs.TxConfirmation),
		},
		FwdEventTicker:         ticker.New(DefaultFwdEventInterval),
		LogEventTicker:         ticker.New(DefaultLogInterval),
		AckEventTicker:         ticker.New(n.s.cfg.ackInterval),
		HtlcNotifier:           &mockHTLCNotifier{},
		Clock:                  clock.NewDefaultClock(),
		MailboxDeliveryTimeout: DefaultMailboxDeliveryTimeout,
		MaxFeeExposure:         DefaultMaxFeeExposure,
		SignAliasUpdate: func(*lnwire.ChannelUpdate1) (*ecdsa.Signature, error) {
			return testSig, nil
		},
		IsAlias: isAlias,
	}
	sw, err := New(cfg, n.height)
	if err != nil {
		return fmt.Errorf("htlcswitch.New: %w", err)
	}
	if err := sw.Start(); err != nil {
		return fmt.Errorf("switch start: %w", err)
	}
	n.sw = sw

	registry := invoices.NewRegistry(
		db,
		invoices.NewInvoiceExpiryWatcher(
			zzClock{}, 0, 0, nil, &mockChainNotifier{},
		),
		&invoices.RegistryConfig{
			FinalCltvRejectDelta: 5,
			HtlcInterceptor:      &invoices.MockHtlcModifier{},
			Clock:                zzClock{},
		},
	)
	if err := registry.Start(); err != nil {
		return fmt.Errorf("registry start: %w", err)
	}
	n.reg = &mockInvoiceRegistry{registry: registry}
	return nil
}

// shutdown stops switch (and with it all links) and registry.
func (n *zzNode) shutdown() {
	if n.sw != nil {
		_ = n.sw.Stop()
		n.sw = nil
	}
	for i := range n.links {
		if l := n.links[i]; l != nil {
			l.link.Stop()
			close(l.peer.quit)
			n.links[i] = nil
		}
	}
	if n.reg != nil {
		_ = n.reg.registry.Stop()
		n.reg = nil
	}
}

// ---- channel construction (after htlcswitch.createTestChannel, but on the
// nodes' single databases, with a drawn type / funder, and marked open) ------

func (s *zzSim) openChannel(conn int, capEach btcutil.Amount, chanType channeldb.ChannelType, openerEnd int) *zzChan {
	r := s.r
	x, y := s.nodes[zzConnEnds[conn][0]], s.nodes[zzConnEnds[conn][1]]
	capacity := 2 * capEach
	ch := &zzChan{conn: conn, capacity: capacity, chanType: chanType, opener: zzConnEnds[conn][openerEnd]}

	mkCfg := func(n *zzNode, dust btcutil.Amount, csv uint16, reserve btcutil.Amount) channeldb.ChannelConfig {
		kd := keychain.KeyDescriptor{PubKey: n.pub}
		return channeldb.ChannelConfig{
			ChannelStateBounds: channeldb.ChannelStateBounds{
				MaxPendingAmount: lnwire.NewMSatFromSatoshis(capacity),
				ChanReserve:      reserve,
				MinHTLC:          0,
				MaxAcceptedHtlcs: maxInflightHtlcs,
			},
			CommitmentParams:    channeldb.CommitmentParams{DustLimit: dust, CsvDelay: csv},
			MultiSigKey:         kd,
			RevocationBasePoint: kd,
			PaymentBasePoint:    kd,
			DelayBasePoint:      kd,
			HtlcBasePoint:       kd,
		}
	}
	xCfg := mkCfg(x, 200, 5, s.cfg.reserve)
	yCfg := mkCfg(y, 800, 4, s.cfg.reserve)

	hh := sha256.Sum256([]byte(fmt.Sprintf("verif-switchsim-funding-%d-%d", conn, r.Seed)))
	prevOut := wire.OutPoint{Hash: chainhash.Hash(hh), Index: 0}
	ch.outpoint = prevOut
	ch.chanID = lnwire.NewChanIDFromOutPoint(prevOut)
	ch.scid = lnwire.NewShortChanIDFromInt(uint64(700000)<<40 | uint64(1+conn)<<16 | 0)
	fundingTxIn := wire.NewTxIn(&prevOut, nil, nil)

	rootOf := func(n *zzNode) chainhash.Hash {
		b := sha256.Sum256(append(n.priv.Serialize(), byte(conn)))
		return chainhash.Hash(b)
	}
	prodX := shachain.NewRevocationProducer(rootOf(x))
	prodY := shachain.NewRevocationProducer(rootOf(y))
	firstX, err := prodX.AtIndex(0)
	r.Must(err, "shachain")
	firstY, err := prodY.AtIndex(0)
	r.Must(err, "shachain")
	pointX := input.ComputeCommitmentPoint(firstX[:])
	pointY := input.ComputeCommitmentPoint(firstY[:])

	feePerKw := s.cfg.feePerKw
	commitFee := feePerKw.FeeForWeight(lnwallet.CommitWeight(chanType))
	var anchors btcutil.Amount
	if chanType.HasAnchors() {
		anchors = 2 * lnwallet.AnchorSize
	}
	ch.anchors = lnwire.NewMSatFromSatoshis(anchors)
	netX, netY := capEach, capEach
	xOpens := openerEnd == 0
	if xOpens {
		netX -= commitFee + anchors
	} else {
		netY -= commitFee + anchors
	}
	xTx, yTx, err := lnwallet.CreateCommitmentTxns(netX, netY, &xCfg, &yCfg, pointX, pointY,
		*fundingTxIn, chanType, xOpens, 0)
	r.Must(err, "CreateCommitmentTxns")

	mkCommit := func(local, remote btcutil.Amount, tx *wire.MsgTx) channeldb.ChannelCommitment {
		return channeldb.ChannelCommitment{
			CommitHeight:  0,
			LocalBalance:  lnwire.NewMSatFromSatoshis(local),
			RemoteBalance: lnwire.NewMSatFromSatoshis(remote),
			CommitFee:     commitFee,
			FeePerKw:      btcutil.Amount(feePerKw),
			CommitTx:      tx,
			CommitSig:     bytes.Repeat([]byte{1}, 71),
		}
	}
	stX := &chanstate.OpenChannel{
		LocalChanCfg: xCfg, RemoteChanCfg: yCfg, IdentityPub: y.pub,
		FundingOutpoint: prevOut, ChanType: chanType, IsInitiator: xOpens,
		Capacity: capacity, RemoteCurrentRevocation: pointY,
		RevocationProducer: prodX, RevocationStore: shachain.NewRevocationStore(),
		LocalCommitment: mkCommit(netX, netY, xTx), RemoteCommitment: mkCommit(netX, netY, yTx),
		ShortChannelID: ch.scid, Db: x.db.ChannelStateDB(), FundingTxn: channels.TestFundingTx,
	}
	stY := &chanstate.OpenChannel{
		LocalChanCfg: yCfg, RemoteChanCfg: xCfg, IdentityPub: x.pub,
		FundingOutpoint: prevOut, ChanType: chanType, IsInitiator: !xOpens,
		Capacity: capacity, RemoteCurrentRevocation: pointX,
		RevocationProducer: prodY, RevocationStore: shachain.NewRevocationStore(),
		LocalCommitment: mkCommit(netY, netX, yTx), RemoteCommitment: mkCommit(netY, netX, xTx),
		ShortChannelID: ch.scid, Db: y.db.ChannelStateDB(), FundingTxn: channels.TestFundingTx,
	}
	addr := &net.TCPAddr{IP: net.ParseIP("127.0.0.1"), Port: 18555 + conn}
	r.Must(stX.SyncPending(addr, 1), "SyncPending")
	r.Must(stY.SyncPending(addr, 1), "SyncPending")
	r.Must(stX.MarkAsOpen(ch.scid), "MarkAsOpen")
	r.Must(stY.MarkAsOpen(ch.scid), "MarkAsOpen")

	// channel_ready exchange: each side learns the other's next revocation
	// point. Done on throw-away channel objects; links load from disk.
	cx, err := lnwallet.NewLightningChannel(x.signer, stX, x.pool)
	r.Must(err, "NewLightningChannel")
	cy, err := lnwallet.NewLightningChannel(y.signer, stY, y.pool)
	r.Must(err, "NewLightningChannel")
	kx, err := cx.NextRevocationKey()
	r.Must(err, "NextRevocationKey")
	r.Must(cy.InitNextRevocation(kx), "InitNextRevocation")
	ky, err := cy.NextRevocationKey()
	r.Must(err, "NextRevocationKey")
	r.Must(cx.InitNextRevocation(ky), "InitNextRevocation")
	return ch
}

// loadChannel builds a fresh LightningChannel from the node's database.
func (n *zzNode) loadChannel(ch *zzChan) (*lnwallet.LightningChannel, error) {
	st, err := n.fetchState(ch)
	if err != nil {
		return nil, err
	}
	return lnwallet.NewLightningChannel(n.signer, st, n.pool)
}

// fetchState reads the channel state as the database has it right now.
func (n *zzNode) fetchState(ch *zzChan) (*chanstate.OpenChannel, error) {
	all, err := n.db.ChannelStateDB().FetchAllOpenChannels()
	if err != nil {
		return nil, fmt.Errorf("FetchAllOpenChannels: %w", err)
	}
	for _, c := range all {
		if c.FundingOutpoint == ch.outpoint {
			return c, nil
		}
	}
	return nil, fmt.Errorf("%s: channel of conn %d not among %d open channels", n.name, ch.conn, len(all))
}

// addLink creates a link for connection conn from the database state and
// hands it to the node's switch (as peer.addLink does on every connect).
func (n *zzNode) addLink(conn int) error {
	s := n.s
	ch := s.chans[conn]
	lc, err := n.loadChannel(ch)
	if err != nil {
		return err
	}
	remote := s.nodes[zzConnEnds[conn][0]]
	if remote == n {
		remote = s.nodes[zzConnEnds[conn][1]]
	}
	zl := &zzLink{node: n, conn: conn, epoch: s.conns[conn].epoch, ticker: zzNewTicker()}
	zl.peer = &zzPeer{s: s, node: n, conn: conn, epoch: zl.epoch, remote: remote, quit: make(chan struct{})}
	sw := n.sw
	boot := n.boots
	//nolint:ll
	link := NewChannelLink(ChannelLinkConfig{
		BestHeight:    sw.BestHeight,
		FwrdingPolicy: s.cfg.policy,
		Peer:          zl.peer,
		Circuits:      sw.CircuitModifier(),
		ForwardPackets: func(linkQuit <-chan struct{}, _ bool, packets ...*htlcPacket) error {
			return sw.ForwardPackets(linkQuit, packets...)
		},
		DecodeHopIterators: zzDecodeHopIterators,
		ExtractErrorEncrypter: func(*btcec.PublicKey) (hop.ErrorEncrypter, lnwire.FailCode) {
			return NewMockObfuscator(), lnwire.CodeNone
		},
		FetchLastChannelUpdate: mockGetChanUpdateMessage,
		Registry:               n.reg,
		FeeEstimator:           n.fee,
		PreimageCache:          n.pcache,
		UpdateContractSignals:  func(*contractcourt.ContractSignals) error { return nil },
		NotifyContractUpdate:   func(*contractcourt.ContractUpdate) error { return nil },
		ChainEvents:            &contractcourt.ChainEventSubscription{},
		SyncStates:             true,
		BatchSize:              uint32(s.cfg.batchSize),
		BatchTicker:            zl.ticker,
		FwdPkgGCTicker:         ticker.New(time.Minute),
		PendingCommitTicker:    ticker.New(time.Minute),
		MinUpdateTimeout:       30 * time.Minute,
		MaxUpdateTimeout:       40 * time.Minute,
		OnChannelFailure: func(_ lnwire.ChannelID, _ lnwire.ShortChannelID, e LinkFailureError) {
			s.mu.Lock()
			s.linkFailures = append(s.linkFailures, zzLinkFailure{
				node: n.idx, conn: conn, epoch: zl.epoch, boot: boot,
				fenced: n.kv.Fenced(), err: e.Error(), code: e.code,
			})
			s.mu.Unlock()
		},
		OutgoingCltvRejectDelta:    3,
		MaxOutgoingCltvExpiry:      DefaultMaxOutgoingCltvExpiry,
		MaxFeeAllocation:           DefaultMaxLinkFeeAllocation,
		MaxAnchorsCommitFeeRate:    chainfee.SatPerKVByte(10 * 1000).FeePerKWeight(),
		NotifyActiveLink:           func(wire.OutPoint) {},
		NotifyActiveChannel:        func(wire.OutPoint) {},
		NotifyInactiveChannel:      func(wire.OutPoint) {},
		NotifyInactiveLinkEvent:    func(wire.OutPoint) {},
		NotifyChannelUpdate:        func(*chanstate.OpenChannel) {},
		HtlcNotifier:               sw.cfg.HtlcNotifier,
		GetAliases:                 func(lnwire.ShortChannelID) []lnwire.ShortChannelID { return nil },
		ShouldFwdExpAccountability: func() bool { return true },
	}, lc)
	zl.link = link.(*channelLink)
	if err := sw.AddLink(link); err != nil {
		return fmt.Errorf("AddLink: %w", err)
	}
	n.links[conn] = zl
	return nil
}

// dropLink removes the node's link of a connection from its switch.
func (n *zzNode) dropLink(conn int) {
	zl := n.links[conn]
	if zl == nil {
		return
	}
	if n.sw != nil {
		n.sw.RemoveLink(zl.link.ChanID())
	}
	zl.link.Stop()
	close(zl.peer.quit)
	n.links[conn] = nil
}

var _ = models.ForwardingPolicy{}
