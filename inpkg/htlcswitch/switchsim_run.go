package htlcswitch

// switchsim: configuration, payments, events and faults (property C08).

import (
	"context"
	"crypto/sha256"
	"encoding/binary"
	"errors"
	"fmt"
	"os"
	"runtime"
	"sort"
	"strings"
	"sync"
	"testing"
	"testing/synctest"
	"time"

	"github.com/btcsuite/btcd/btcutil/v2"
	sphinx "github.com/lightningnetwork/lightning-onion"
	"github.com/lightningnetwork/lnd/chainntnfs"
	"github.com/lightningnetwork/lnd/channeldb"
	"github.com/lightningnetwork/lnd/graph/db/models"
	"github.com/lightningnetwork/lnd/htlcswitch/hop"
	"github.com/lightningnetwork/lnd/invoices"
	"github.com/lightningnetwork/lnd/lntypes"
	"github.com/lightningnetwork/lnd/lnwallet/chainfee"
	"github.com/lightningnetwork/lnd/lnwire"

	"verif/simcore"
)

var zzDebug = os.Getenv("VERIF_DEBUG") != ""

// payment kinds
const (
	zzKValid = iota
	zzKHold
	zzKUnknownHash
	zzKUnderpay
	zzKFeeShort
	zzKFeeGenerous
	zzKExpiredInvoice
	zzKBadFinalCltv
	zzKinds
)

var zzKindNames = [...]string{"valid", "hold", "unknown-hash", "underpay", "fee-1msat-short", "fee-generous", "expired-invoice", "final-cltv-too-soon"}

type zzCfg struct {
	arm       string
	maxPays   int
	maxSteps  int
	maxFaults int
	faultDen  int
	capEach   [2]btcutil.Amount
	chanType  [2]channeldb.ChannelType
	openerEnd [2]int
	policy    models.ForwardingPolicy
	batchSize int
	feePerKw  chainfee.SatPerKWeight
	reserve   btcutil.Amount
	smallCap  bool
	// ackInterval: the switch's settle/fail ack ticker (15 s by default); a
	// short interval makes "acked on disk before the incoming link signed"
	// reachable without a long quiet period.
	ackInterval time.Duration
	// bursts: a queue with more than one message may be handed over in one go
	bursts bool
	// bobPays: Bob originates payments of his own in the arms that restart or
	// crash him as well (payer-side durability of the attempt result)
	bobPays bool
}

type zzPay struct {
	idx       int
	route     []int // node indexes
	kind      int
	lastAmt   lnwire.MilliSatoshi // what the receiver is offered
	firstAmt  lnwire.MilliSatoshi // what the sender offers on the first hop
	preimage  lntypes.Preimage
	hash      lntypes.Hash
	attemptID uint64
	hasInv    bool
	// sendOK: SendHTLC accepted the payment (its circuit was committed);
	// sentBoot: the sender's boot count at that moment
	sendOK   bool
	sentBoot int
	stranded bool

	// results (guarded by sim.mu)
	done           bool
	success        bool
	resErr         string
	waiting        bool // a waiter goroutine is subscribed
	resolvedAtStep int

	holdResolved  bool
	holdSettle    bool
	holdAmbiguous bool
	nudge         bool
}

func (p *zzPay) sender() int     { return p.route[0] }
func (p *zzPay) receiver() int   { return p.route[len(p.route)-1] }
func (p *zzPay) forwarded() bool { return len(p.route) == 3 }
func (p *zzPay) fee() lnwire.MilliSatoshi {
	if !p.forwarded() {
		return 0
	}
	return p.firstAmt - p.lastAmt
}
func (p *zzPay) String() string {
	rt := ""
	for _, n := range p.route {
		rt += zzNames[n]
	}
	return fmt.Sprintf("pay#%d %s %s last=%d first=%d h=%x", p.idx, rt, zzKindNames[p.kind], p.lastAmt, p.firstAmt, p.hash[:4])
}

type zzLinkFailure struct {
	node, conn, epoch, boot int
	fenced                  bool
	err                     string
	code                    errorCode
}

type zzSentRec struct {
	conn, dir int
	desc      string
}

type zzFwdRec struct {
	hash  lntypes.Hash
	id    uint64
	epoch int
}

type zzDeferred struct {
	hash lntypes.Hash
	conn int
	what string
}

type zzSim struct {
	r   *simcore.Run
	t   *testing.T
	cfg zzCfg

	nodes [3]*zzNode
	chans [2]*zzChan
	conns [2]zzConn

	mu           sync.Mutex // guards everything lnd goroutines touch
	stat         map[string]int64
	parkedViol   []simcore.Violation
	parkedHarn   []string
	linkFailures []zzLinkFailure
	disconnects  []string
	sentSinceLog []zzSentRec
	failChecks   []zzDeferred
	fwdChecks    []zzDeferred

	pays      []*zzPay
	payByHash map[lntypes.Hash]*zzPay
	// observed at the transport
	settleDeliveredToBob map[lntypes.Hash]bool
	bobIn                [2]map[uint64]lntypes.Hash // adds delivered to Bob: conn -> htlc id -> hash
	// C07 at the wire ("each incoming HTLC is forwarded at most once"): adds
	// Bob offered on a connection since his last commit_sig there (an add no
	// signature covers is dropped by a reconnect and its id is used again,
	// so only signed adds count), and the distinct outgoing htlc ids Bob has
	// signed for each payment hash.
	bobUnsignedFwd [2][]zzFwdRec
	bobSignedFwd   map[lntypes.Hash]map[[2]uint64]bool
	bobResponded   map[[3]uint64]string  // (conn, htlc id, connection epoch) -> response Bob sent
	bobFailedUp    map[lntypes.Hash]bool // Bob sent update_fail upstream for a forward with this hash

	initHold [3]lnwire.MilliSatoshi

	faults             int
	firstFaultAt       int
	crashArmed         bool
	midCutArmed        bool
	midCuts            int // cuts that landed inside a write so far
	lastMidCutStep     int
	midCutsExcusable   int // cuts inside a write after which the recorded forwarding finding is possible
	midCutConn         int // connection whose Bob-side link was told to stop inside a write (-1: none)
	paysDoneAfterFault int
	stepNo             int
	windDown           bool
	bobRebootInflight  int
}

func (s *zzSim) parkViolation(code, format string, a ...interface{}) {
	// s.mu held
	s.parkedViol = append(s.parkedViol, simcore.Violation{Code: code, Msg: fmt.Sprintf(format, a...)})
}

func (s *zzSim) parkHarness(format string, a ...interface{}) {
	s.parkedHarn = append(s.parkedHarn, fmt.Sprintf(format, a...))
}

// ---- configuration -------------------------------------------------------

func zzDrawCfg(r *simcore.Run) zzCfg {
	t := r.Tape
	var c zzCfg
	arms := []string{"calm", "cuts", "restart", "crash"}
	c.arm = arms[t.CfgDraw(len(arms))]
	if a := os.Getenv("VERIF_ARM"); a != "" && !t.Replay() {
		c.arm = a // experiments only; replay files of such runs do not reproduce without it
	}
	c.maxPays = 1 + t.CfgDraw(12)
	c.maxSteps = 50 + t.CfgDraw(101)
	if r.Tier == "thorough" {
		c.maxSteps = 60 + t.CfgDraw(91)
	}
	c.maxFaults = 1 + t.CfgDraw(6)
	c.faultDen = 10 + 6*t.CfgDraw(4)
	c.smallCap = t.CfgDraw(3) == 0
	for i := 0; i < 2; i++ {
		if c.smallCap {
			c.capEach[i] = btcutil.Amount(60_000 + 20_000*t.CfgDraw(4))
		} else {
			c.capEach[i] = btcutil.Amount(btcutil.SatoshiPerBitcoin) * btcutil.Amount(1+t.CfgDraw(3))
		}
		switch t.CfgDraw(3) {
		case 0, 1:
			c.chanType[i] = channeldb.SingleFunderTweaklessBit
		default:
			c.chanType[i] = channeldb.SingleFunderTweaklessBit | channeldb.AnchorOutputsBit | channeldb.ZeroHtlcTxFeeBit
		}
		c.openerEnd[i] = t.CfgDraw(2)
	}
	c.policy = models.ForwardingPolicy{
		MinHTLCOut:    lnwire.NewMSatFromSatoshis(5),
		BaseFee:       lnwire.MilliSatoshi([]int{1000, 0, 1, 2500}[t.CfgDraw(4)]),
		FeeRate:       lnwire.MilliSatoshi([]int{0, 1, 1000, 25000}[t.CfgDraw(4)]),
		TimeLockDelta: 6,
	}
	c.batchSize = []int{10, 1, 2, 3}[t.CfgDraw(4)]
	c.feePerKw = chainfee.SatPerKWeight([]int{6000, 253, 2500}[t.CfgDraw(3)])
	if c.smallCap {
		c.reserve = btcutil.Amount([]int{0, 600, 1200}[t.CfgDraw(3)])
	} else {
		c.reserve = btcutil.Amount([]int{0, 10000}[t.CfgDraw(2)])
	}
	// (last draw: older replay files end before it and get the default)
	c.ackInterval = []time.Duration{DefaultAckInterval, 20 * time.Millisecond, DefaultAckInterval, time.Second}[t.CfgDraw(4)]
	// appended last: burst deliveries (several queued messages handed to a
	// link before it has handled the first)
	c.bursts = t.CfgDraw(2) == 1
	// appended last: Bob's own payments in the restart / crash arms
	c.bobPays = t.CfgDraw(2) == 1
	return c
}

func (c zzCfg) String() string {
	return fmt.Sprintf("arm=%s pays<=%d steps<=%d faults<=%d(1/%d) cap=%v type=%v opener=%v policy(base=%d rate=%d) batch=%d fee=%d reserve=%d",
		c.arm, c.maxPays, c.maxSteps, c.maxFaults, c.faultDen, c.capEach, c.chanType, c.openerEnd,
		c.policy.BaseFee, c.policy.FeeRate, c.batchSize, c.feePerKw, c.reserve)
}

// ---- run ------------------------------------------------------------------

// zzRunOnce is one simulated execution: everything lives inside a synctest
// bubble.
func zzRunOnce(t *testing.T, r *simcore.Run) {
	if zzDebug {
		fmt.Fprintf(os.Stderr, "RUN seed=%d replay=%v\n", r.Seed, r.Tape.Replay())
	}
	var inner interface{}
	var innerStack string
	func() {
		defer func() {
			if p := recover(); p != nil {
				// the end-of-bubble complaint about goroutines still
				// blocked (ours are stopped in an orderly way; whatever
				// remains are lnd leftovers) is not a result.
				r.Count("bubble_exit_panic")
				if inner == nil {
					msg := fmt.Sprint(p)
					if !zzIsBubbleExit(msg) {
						inner = p
						innerStack = zzStack()
					}
				}
			}
		}()
		synctest.Test(t, func(bt *testing.T) {
			defer func() {
				if p := recover(); p != nil {
					inner = p
					innerStack = zzStack()
				}
			}()
			zzSawFwdShutdown.Store(false)
			zzSpuriousResponses.Store(0)
			s := &zzSim{r: r, t: bt, midCutConn: -1}
			s.run()
		})
	}()
	if inner != nil {
		zzRepanic(r, inner, innerStack)
	}
}

func (s *zzSim) run() {
	r := s.r
	s.cfg = zzDrawCfg(r)
	r.Arm = s.cfg.arm
	s.stat = map[string]int64{}
	s.payByHash = map[lntypes.Hash]*zzPay{}
	s.settleDeliveredToBob = map[lntypes.Hash]bool{}
	s.bobIn = [2]map[uint64]lntypes.Hash{{}, {}}
	s.bobSignedFwd = map[lntypes.Hash]map[[2]uint64]bool{}
	s.bobFailedUp = map[lntypes.Hash]bool{}
	s.bobResponded = map[[3]uint64]string{}
	s.firstFaultAt = -1
	zzL(r, "config: %s", s.cfg)

	zzInstallLogger(s)
	defer s.teardown()

	for i := 0; i < 3; i++ {
		s.nodes[i] = s.newNode(i)
	}
	for c := 0; c < 2; c++ {
		s.chans[c] = s.openChannel(c, s.cfg.capEach[c], s.cfg.chanType[c], s.cfg.openerEnd[c])
	}
	for i := 0; i < 3; i++ {
		r.Must(s.nodes[i].boot(), "boot "+s.nodes[i].name)
	}
	for c := 0; c < 2; c++ {
		s.conns[c].up = true
		for _, e := range zzConnEnds[c] {
			r.Must(s.nodes[e].addLink(c), "addLink")
		}
	}
	s.quiesce()
	// initial reestablish / channel_ready exchange
	s.drain(200)
	for i := 0; i < 3; i++ {
		s.initHold[i] = s.holding(i)
	}
	zzL(r, "initial holdings A=%d B=%d C=%d", s.initHold[0], s.initHold[1], s.initHold[2])

	for s.stepNo = 0; s.stepNo < s.cfg.maxSteps && r.Step(); s.stepNo++ {
		s.step()
		s.abstractState()
	}
	s.finish()
}

// quiesce waits until every goroutine of the bubble is durably blocked,
// then raises whatever the lnd goroutines parked and runs the deferred
// transport oracles.
func (s *zzSim) quiesce() {
	synctest.Wait()
	s.afterQuiescence()
}

func (s *zzSim) afterQuiescence() {
	r := s.r
	s.mu.Lock()
	sent := s.sentSinceLog
	s.sentSinceLog = nil
	harn := s.parkedHarn
	viol := s.parkedViol
	fails := s.linkFailures
	s.linkFailures = nil
	failChecks := s.failChecks
	s.failChecks = nil
	fwdChecks := s.fwdChecks
	s.fwdChecks = nil
	s.mu.Unlock()

	// canonical log order: by queue, preserving per queue order
	sort.SliceStable(sent, func(i, j int) bool {
		if sent[i].conn != sent[j].conn {
			return sent[i].conn < sent[j].conn
		}
		return sent[i].dir < sent[j].dir
	})
	for _, m := range sent {
		a, b := zzConnEnds[m.conn][m.dir], zzConnEnds[m.conn][1-m.dir]
		zzL(r, "    %s>%s queued %s", zzNames[a], zzNames[b], m.desc)
	}
	if len(harn) > 0 {
		r.Harness("%s", harn[0])
	}
	if len(viol) > 0 {
		r.Fail(viol[0].Code, "%s", viol[0].Msg)
	}
	for _, f := range fails {
		tolerated := ""
		switch {
		case f.fenced:
			tolerated = "node crashed (injected)"
		case f.epoch != s.conns[f.conn].epoch || s.nodes[f.node].boots != f.boot:
			tolerated = "link of a torn-down connection"
		}
		zzL(r, "    link failure %s conn%d: %s (%s)", zzNames[f.node], f.conn, f.err, tolerated)
		if tolerated == "" {
			r.Fail("channel-failure", "%s's link on connection %d reported OnChannelFailure(%s) although both peers are honest and no fault is active on it; lnd log tail:\n%s",
				zzNames[f.node], f.conn, f.err, zzLogTail())
		}
		r.Count("tolerated_link_failure")
	}
	s.pollResults()

	bob := s.nodes[zzB]
	if bob.kv.Fenced() {
		// Bob crashed: whatever he did after the fence is void.
		return
	}
	for _, c := range failChecks {
		s.checkFailBack(c)
	}
	for _, c := range fwdChecks {
		s.checkForwardLockedIn(c)
	}
}

// pollResults logs payment completions in a canonical order.
func (s *zzSim) pollResults() {
	s.mu.Lock()
	var newly []*zzPay
	for _, p := range s.pays {
		if p.done && p.resolvedAtStep < 0 {
			p.resolvedAtStep = s.stepNo
			newly = append(newly, p)
		}
	}
	s.mu.Unlock()
	for _, p := range newly {
		zzL(s.r, "    result %s: success=%v %s", p, p.success, p.resErr)
		if s.firstFaultAt >= 0 {
			s.paysDoneAfterFault++
		}
	}
}

// drain delivers queued messages (fixed order) until the network is silent.
func (s *zzSim) drain(max int) int {
	n := 0
	for n < max {
		progressed := false
		for c := 0; c < 2; c++ {
			for d := 0; d < 2; d++ {
				if s.conns[c].up && len(s.conns[c].q[d]) > 0 {
					s.deliver(c, d)
					n++
					progressed = true
				}
			}
		}
		if !progressed {
			break
		}
	}
	return n
}

func (s *zzSim) netIdle() bool {
	for c := 0; c < 2; c++ {
		for d := 0; d < 2; d++ {
			if s.conns[c].up && len(s.conns[c].q[d]) > 0 {
				return false
			}
		}
	}
	return true
}

// deliver hands the next message of a queue to the receiving link.
func (s *zzSim) deliver(conn, dir int) { s.deliverN(conn, dir, 1) }

// deliverN hands the next n messages of a queue to the receiving link back to
// back, as a peer's read loop does with a TCP burst: they sit in the link's
// mailbox while the link works on the first. A cut inside a write of that
// work leaves the rest unread in the mailbox, which outlives the link.
func (s *zzSim) deliverN(conn, dir, n int) {
	r := s.r
	from, to := zzConnEnds[conn][dir], zzConnEnds[conn][1-dir]
	for i := 0; i < n; i++ {
		s.mu.Lock()
		c := &s.conns[conn]
		if !c.up || len(c.q[dir]) == 0 {
			s.mu.Unlock()
			break
		}
		w := c.q[dir][0]
		c.q[dir] = c.q[dir][1:]
		s.mu.Unlock()
		zzL(r, "deliver %s>%s %s", zzNames[from], zzNames[to], w.desc)
		msg, err := lnwire.ReadMessage(bytesReader(w.raw), 0)
		if err != nil {
			r.Harness("cannot decode queued message %s: %v", w.desc, err)
		}
		if _, ok := msg.(*lnwire.ChannelReady); ok {
			// funding-manager business, ignored like the fixture does
			continue
		}
		if to == zzB {
			s.bobReceives(conn, msg)
		}
		zl := s.nodes[to].links[conn]
		if zl == nil {
			if i == 0 {
				r.Harness("deliver to %s conn%d without a link", zzNames[to], conn)
			}
			break
		}
		zl.link.HandleChannelUpdate(msg)
		r.Add("delivered", 1)
		if i > 0 {
			r.Count("probe_delivered_behind_unprocessed_message")
		}
	}
	s.quiesce()
}

func (s *zzSim) bobReceives(conn int, m lnwire.Message) {
	s.mu.Lock()
	defer s.mu.Unlock()
	switch x := m.(type) {
	case *lnwire.UpdateFulfillHTLC:
		h := lntypes.Hash(sha256.Sum256(x.PaymentPreimage[:]))
		s.settleDeliveredToBob[h] = true
	case *lnwire.UpdateAddHTLC:
		s.bobIn[conn][x.ID] = lntypes.Hash(x.PaymentHash)
	}
}

// bobSends is the online oracle on what Bob puts on the wire. s.mu is held;
// runs on lnd goroutines.
func (s *zzSim) bobSends(conn int, m lnwire.Message) {
	// "at most one settle-or-fail per HTLC is delivered back to the incoming
	// channel": within one connection epoch nothing is ever retransmitted,
	// so a second response for the same incoming HTLC id is a second response
	respond := func(id uint64, what string) {
		k := [3]uint64{uint64(conn), id, uint64(s.conns[conn].epoch)}
		if prev, dup := s.bobResponded[k]; dup {
			s.parkViolation("double-response", "Bob sent %s for htlc id=%d on connection %d although he had already sent %s for it on the same connection (no reconnect in between): two responses for one HTLC", what, id, conn, prev)
			return
		}
		s.bobResponded[k] = what
	}
	switch x := m.(type) {
	case *lnwire.UpdateFulfillHTLC:
		respond(x.ID, "update_fulfill_htlc")
		h := lntypes.Hash(sha256.Sum256(x.PaymentPreimage[:]))
		p := s.payByHash[h]
		if p == nil {
			s.parkViolation("settle-unknown-preimage", "Bob sent update_fulfill_htlc(id=%d) on connection %d with a preimage of hash %x that belongs to no payment", x.ID, conn, h[:6])
			return
		}
		if p.receiver() == zzB {
			return // Bob's own invoice
		}
		if !p.forwarded() || conn != zzConnOf(p.route[0], zzB) {
			s.parkViolation("settle-wrong-channel", "Bob sent update_fulfill_htlc for %s on connection %d, which is not the incoming channel of that payment", p, conn)
			return
		}
		if want, ok := s.bobIn[conn][x.ID]; !ok || want != h {
			s.parkViolation("settle-wrong-htlc", "Bob settles incoming htlc id=%d on connection %d with the preimage of %s, but that htlc id carries hash %x", x.ID, conn, p, want[:6])
			return
		}
		if !s.settleDeliveredToBob[h] {
			s.parkViolation("settle-before-downstream", "Bob sent update_fulfill_htlc upstream for forwarded %s before any update_fulfill_htlc with that preimage was delivered to him on the outgoing channel", p)
		}
		s.stat["probe_bob_settles_upstream"]++
	case *lnwire.UpdateFailHTLC:
		respond(x.ID, "update_fail_htlc")
		s.bobFails(conn, x.ID)
	case *lnwire.UpdateFailMalformedHTLC:
		respond(x.ID, "update_fail_malformed_htlc")
		s.bobFails(conn, x.ID)
	case *lnwire.UpdateAddHTLC:
		p := s.payByHash[lntypes.Hash(x.PaymentHash)]
		if p == nil {
			s.parkViolation("forward-unknown-hash", "Bob offered an htlc with hash %x on connection %d that belongs to no payment", x.PaymentHash[:6], conn)
			return
		}
		if p.sender() == zzB {
			return
		}
		if !p.forwarded() || conn != zzConnOf(zzB, p.route[2]) {
			s.parkViolation("forward-wrong-channel", "Bob offered an htlc for %s on connection %d", p, conn)
			return
		}
		if x.Amount != p.lastAmt {
			s.parkViolation("forward-wrong-amount", "Bob forwards %d msat for %s, the onion says %d", x.Amount, p, p.lastAmt)
		}
		s.fwdChecks = append(s.fwdChecks, zzDeferred{hash: p.hash, conn: 1 - conn, what: fmt.Sprintf("add(id=%d)", x.ID)})
		s.stat["probe_bob_forwards_add"]++
		s.bobUnsignedFwd[conn] = append(s.bobUnsignedFwd[conn], zzFwdRec{hash: p.hash, id: x.ID, epoch: s.conns[conn].epoch})
	case *lnwire.CommitSig:
		// Every add Bob offered on this connection since his last signature
		// (and since the connection came up) is now covered by a signature:
		// the forward has happened. One incoming HTLC must never lead to two.
		for _, f := range s.bobUnsignedFwd[conn] {
			if f.epoch != s.conns[conn].epoch {
				continue
			}
			ids := s.bobSignedFwd[f.hash]
			if ids == nil {
				ids = map[[2]uint64]bool{}
				s.bobSignedFwd[f.hash] = ids
			}
			ids[[2]uint64{uint64(conn), f.id}] = true
			in := 0
			for c := 0; c < 2; c++ {
				for _, h := range s.bobIn[c] {
					if h == f.hash {
						in++
					}
				}
			}
			if len(ids) > in {
				s.parkViolation("double-forward", "Bob has signed %d distinct outgoing HTLCs for %s (latest: id=%d on connection %d) although only %d incoming HTLC(s) with that hash were ever offered to him: one incoming HTLC was handed to the outgoing channel more than once",
					len(ids), s.payByHash[f.hash], f.id, conn, in)
			}
			if len(ids) > 1 {
				s.stat["probe_same_hash_forwarded_under_two_ids"]++
			}
		}
		s.bobUnsignedFwd[conn] = s.bobUnsignedFwd[conn][:0]
	}
}

func (s *zzSim) bobFails(conn int, id uint64) {
	h, ok := s.bobIn[conn][id]
	if !ok {
		s.parkViolation("fail-unknown-htlc", "Bob failed htlc id=%d on connection %d which was never offered to him", id, conn)
		return
	}
	p := s.payByHash[h]
	if p == nil || !p.forwarded() {
		return
	}
	s.failChecks = append(s.failChecks, zzDeferred{hash: h, conn: 1 - conn, what: fmt.Sprintf("fail(id=%d)", id)})
	s.bobFailedUp[h] = true
	s.stat["probe_bob_fails_upstream"]++
}

func zzConnOf(a, b int) int {
	if a == zzA || b == zzA {
		return 0
	}
	return 1
}

// ---- one step ---------------------------------------------------------------

type zzOp struct {
	w    int
	name string
	f    func()
}

func (s *zzSim) step() {
	r := s.r
	// a crash that fired is handled before anything else
	if s.nodes[zzB].kv.Fenced() {
		r.Kind("reboot-after-crash")
		s.rebootBob("crash")
		return
	}

	// a link stop that was initiated inside one of Bob's writes is completed
	// as an ordinary cut of that connection
	s.mu.Lock()
	mc := s.midCutConn
	s.midCutConn = -1
	s.mu.Unlock()
	if mc >= 0 {
		r.Kind(fmt.Sprintf("cut-inside-write:%d", mc))
		r.Count("fault_cut_inside_write")
		s.midCuts++
		s.lastMidCutStep = s.stepNo
		s.faultCut(mc)
		// one such disconnect in three lasts: the peer stays away for longer
		// than the mailbox keeps an undelivered add (drawn last in the step)
		if !s.nodes[zzB].kv.Fenced() && s.netIdle() && r.Draw(3) == 2 {
			r.Count("fault_cut_inside_write_then_long_absence")
			s.faultLongTime()
		}
		return
	}

	var faults []zzOp
	if s.cfg.arm != "calm" && s.faults < s.cfg.maxFaults {
		for c := 0; c < 2; c++ {
			c := c
			if s.conns[c].up {
				faults = append(faults, zzOp{3, fmt.Sprintf("cut:%d", c), func() { s.faultCut(c) }})
				if !s.midCutArmed {
					faults = append(faults, zzOp{2, fmt.Sprintf("cut-inside-write:%d", c), func() { s.faultArmMidCut(c) }})
				}
			}
		}
		if s.cfg.arm == "restart" || s.cfg.arm == "crash" {
			faults = append(faults, zzOp{3, "restart-bob", func() { s.faultRestartBob() }})
		}
		if s.cfg.arm == "crash" && !s.crashArmed {
			faults = append(faults, zzOp{3, "crash-bob", func() { s.faultArmCrash() }})
		}
		if s.netIdle() {
			w := 2
			if s.midCuts > 0 && s.stepNo-s.lastMidCutStep <= 4 {
				// a link was just torn down inside one of its writes: what
				// it left half done (mailbox, circuit map) meets the timers
				// that run while the link is away (mailbox expiry)
				w = 12
			}
			faults = append(faults, zzOp{w, "time:long", func() { s.faultLongTime() }})
		}
		faults = append(faults, zzOp{1, "fee-change", func() { s.faultFeeChange() }})
	}
	if len(faults) > 0 && r.Chance(1, s.cfg.faultDen) {
		zzPick(r, faults)
		return
	}

	var ops []zzOp
	for c := 0; c < 2; c++ {
		for d := 0; d < 2; d++ {
			c, d := c, d
			if s.conns[c].up && len(s.conns[c].q[d]) > 0 {
				a, b := zzConnEnds[c][d], zzConnEnds[c][1-d]
				ops = append(ops, zzOp{14, fmt.Sprintf("deliver:%s>%s", zzNames[a], zzNames[b]), func() { s.deliver(c, d) }})
				if n := len(s.conns[c].q[d]); n > 1 && s.cfg.bursts {
					ops = append(ops, zzOp{5, fmt.Sprintf("deliver-burst:%s>%s", zzNames[a], zzNames[b]), func() { s.deliverN(c, d, n) }})
				}
			}
		}
	}
	for _, n := range s.nodes {
		for c, zl := range n.links {
			zl := zl
			if zl != nil && zl.ticker.active.Load() {
				ops = append(ops, zzOp{7, fmt.Sprintf("tick:%s/%d", n.name, c), func() { s.tick(zl) }})
			}
		}
	}
	for c := 0; c < 2; c++ {
		c := c
		if !s.conns[c].up {
			ops = append(ops, zzOp{9, fmt.Sprintf("reconnect:%d", c), func() { s.reconnect(c) }})
		}
	}
	if len(s.pays) < s.cfg.maxPays {
		w := 6
		if len(s.pays) < 2 {
			w = 14
		}
		ops = append(ops, zzOp{w, "pay", func() { s.newPayment() }})
	}
	for _, p := range s.pays {
		p := p
		if p.kind == zzKHold && !p.holdResolved && p.hasInv {
			if s.invoiceState(p) == invoices.ContractAccepted {
				ops = append(ops, zzOp{3, fmt.Sprintf("hold-settle:%d", p.idx), func() { s.resolveHold(p, true) }})
				ops = append(ops, zzOp{1, fmt.Sprintf("hold-cancel:%d", p.idx), func() { s.resolveHold(p, false) }})
			}
		}
	}
	ops = append(ops, zzOp{3, "time:short", func() {
		s.advance([]time.Duration{time.Millisecond, 10 * time.Millisecond, 60 * time.Millisecond}[r.Draw(3)])
	}})
	if s.netIdle() {
		ops = append(ops, zzOp{2, "time:medium", func() { s.advance([]time.Duration{time.Second, 16 * time.Second}[r.Draw(2)]) }})
	}
	ops = append(ops, zzOp{1, "height+1", func() { s.bumpHeight() }})
	zzPick(r, ops)
}

func zzPick(r *simcore.Run, ops []zzOp) {
	total := 0
	for _, o := range ops {
		total += o.w
	}
	v := r.Draw(total)
	for _, o := range ops {
		if v < o.w {
			r.Kind(o.name)
			o.f()
			return
		}
		v -= o.w
	}
}

func (s *zzSim) abstractState() {
	done, succ := 0, 0
	s.mu.Lock()
	for _, p := range s.pays {
		if p.done {
			done++
			if p.success {
				succ++
			}
		}
	}
	s.mu.Unlock()
	q := func(c, d int) int {
		n := len(s.conns[c].q[d])
		if n > 3 {
			n = 3
		}
		return n
	}
	s.r.State(fmt.Sprintf("p%d/%d/%d up%v%v q%d%d%d%d b%d f%d", len(s.pays), done, succ, s.conns[0].up, s.conns[1].up,
		q(0, 0), q(0, 1), q(1, 0), q(1, 1), s.nodes[zzB].boots, s.faults))
}

func (s *zzSim) tick(zl *zzLink) {
	zzL(s.r, "tick batch timer %s conn%d", zl.node.name, zl.conn)
	select {
	case zl.ticker.c <- time.Now():
	default:
		s.r.Count("tick_not_taken")
	}
	s.quiesce()
}

// advance lets fake time pass. Long jumps are taken in slices of at most 20s
// and whatever the nodes say in between (fee updates, fail-backs of expired
// mailbox packets, ...) is delivered before the clock moves on: time passes
// while the network works, it is not frozen for half an hour (which would
// make every link with a commitment in flight give up on its peer).
func (s *zzSim) advance(d time.Duration) {
	zzL(s.r, "advance time %v", d)
	s.r.Add("sim_time_ms", int64(d/time.Millisecond))
	const slice = 20 * time.Second
	for d > 0 {
		x := d
		if x > slice {
			x = slice
		}
		time.Sleep(x)
		d -= x
		s.quiesce()
		if s.nodes[zzB].kv.Fenced() {
			// Bob crashed while time was passing (an armed crash met a
			// write triggered by a timer). The rest of the interval is
			// dropped: a peer that waits long enough for a dead node
			// rightly reports "remote unresponsive", which is not what
			// this simulation judges; the next step reboots Bob.
			zzL(s.r, "    Bob crashed while time was passing; %v of the interval dropped", d)
			return
		}
		if d > 0 {
			s.settleNetwork()
		}
	}
}

// settleNetwork delivers and ticks until nothing moves (fixed order).
func (s *zzSim) settleNetwork() {
	for i := 0; i < 200; i++ {
		if s.nodes[zzB].kv.Fenced() {
			return
		}
		if s.drain(1000) > 0 {
			continue
		}
		ticked := false
		for _, n := range s.nodes {
			for _, zl := range n.links {
				if zl != nil && zl.ticker.active.Load() {
					s.tick(zl)
					ticked = true
				}
			}
		}
		if !ticked {
			return
		}
	}
}

func (s *zzSim) bumpHeight() {
	for _, n := range s.nodes {
		n.height++
		select {
		case n.epochs <- &chainntnfs.BlockEpoch{Height: int32(n.height)}:
		default:
			s.r.Harness("switch of %s does not take a block epoch", n.name)
		}
	}
	zzL(s.r, "block height -> %d", s.nodes[0].height)
	s.quiesce()
}

// ---- payments -----------------------------------------------------------------

var zzAmountsSat = []int64{4, 5, 6, 199, 200, 201, 799, 800, 801, 1000, 5000, 20000, 100000}

func (s *zzSim) newPayment() {
	r := s.r
	p := &zzPay{idx: len(s.pays), resolvedAtStep: -1}
	switch v := r.Draw(10); {
	case v < 4:
		p.route = []int{zzA, zzB, zzC}
	case v < 7:
		p.route = []int{zzC, zzB, zzA}
	case v == 7:
		p.route = [][]int{{zzA, zzB}, {zzC, zzB}}[r.Draw(2)]
	default:
		p.route = [][]int{{zzB, zzA}, {zzB, zzC}}[r.Draw(2)]
	}
	if p.sender() == zzB && (s.cfg.arm == "restart" || s.cfg.arm == "crash") && !s.cfg.bobPays {
		// A payment whose SENDER restarts while its HTLC sits only in
		// the outgoing link's in-memory mailbox keeps a pending
		// circuit and never gets a result: the router's business, not
		// the forwarder's (see report). In half of the runs Bob only
		// pays in the arms that never restart him; in the other half
		// that one shape is recognised at wind-down (zzStranded).
		p.route = []int{zzA, zzB, zzC}
	}
	switch v := r.Draw(24); {
	case v < 13:
		p.kind = zzKValid
	case v < 17:
		p.kind = zzKHold
	default:
		p.kind = 2 + (v-17)%(zzKinds-2)
	}
	if !p.forwarded() && (p.kind == zzKFeeShort || p.kind == zzKFeeGenerous) {
		p.kind = zzKValid
	}
	// amount
	var amt lnwire.MilliSatoshi
	switch v := r.Draw(10); {
	case v < 6:
		amt = lnwire.NewMSatFromSatoshis(btcutil.Amount(zzAmountsSat[r.Draw(len(zzAmountsSat))]))
		amt += lnwire.MilliSatoshi([]int{0, 0, 1, 999, 500}[r.Draw(5)])
	case v < 8:
		// a sizeable share of the smaller channel
		c := s.cfg.capEach[0]
		if s.cfg.capEach[1] < c {
			c = s.cfg.capEach[1]
		}
		amt = lnwire.NewMSatFromSatoshis(c) * lnwire.MilliSatoshi(1+r.Draw(6)) / 10
	default:
		amt = lnwire.MilliSatoshi(1000 + r.Draw(3_000_000))
	}
	p.lastAmt = amt
	p.firstAmt = amt
	if p.forwarded() {
		p.firstAmt = amt + ExpectedFee(s.cfg.policy, amt)
		switch p.kind {
		case zzKFeeShort:
			if p.firstAmt > amt {
				p.firstAmt--
			} else {
				p.kind = zzKValid
			}
		case zzKFeeGenerous:
			p.firstAmt += lnwire.MilliSatoshi(1 + r.Draw(5000))
		}
	}
	s.addPayment(p)
	zzL(r, "new %s", p)
	if zzDebug {
		fmt.Fprintf(os.Stderr, "PAY %x %s arm=%s\n", p.hash[:], zzKindNames[p.kind], s.cfg.arm)
	}
	s.sendPayment(p)
	s.quiesce()
}

func (s *zzSim) addPayment(p *zzPay) {
	r := s.r
	var pb [8]byte
	binary.BigEndian.PutUint64(pb[:], uint64(p.idx))
	p.preimage = sha256.Sum256(append(append([]byte("verif-switchsim-preimage"), pb[:]...), byte(r.Seed), byte(r.Seed>>8), byte(r.Seed>>16)))
	p.hash = p.preimage.Hash()
	p.attemptID = uint64(1000 + p.idx)
	s.mu.Lock()
	s.pays = append(s.pays, p)
	s.payByHash[p.hash] = p
	s.mu.Unlock()
}

func (s *zzSim) sendPayment(p *zzPay) {
	r := s.r
	sender, receiver := s.nodes[p.sender()], s.nodes[p.receiver()]
	// like lnd's router the sender pads the final expiry by 3 blocks
	finalCltv := sender.height + testInvoiceCltvExpiry + 3
	if p.kind == zzKBadFinalCltv {
		finalCltv = sender.height + 4
	}
	exit := hop.NewLegacyPayload(&sphinx.HopData{
		ForwardAmount: uint64(p.lastAmt), OutgoingCltv: finalCltv,
	})
	hops := []*hop.Payload{exit}
	firstExpiry := finalCltv
	if p.forwarded() {
		var next [8]byte
		binary.BigEndian.PutUint64(next[:], s.chans[zzConnOf(zzB, p.route[2])].scid.ToUint64())
		mid := hop.NewLegacyPayload(&sphinx.HopData{
			NextAddress: next, ForwardAmount: uint64(p.lastAmt), OutgoingCltv: finalCltv,
		})
		hops = []*hop.Payload{mid, exit}
		firstExpiry = finalCltv + s.cfg.policy.TimeLockDelta
	}
	blob, err := generateRoute(hops...)
	r.Must(err, "generateRoute")

	if p.kind != zzKUnknownHash {
		inv := &invoices.Invoice{
			CreationDate: time.Now(),
			Terms: invoices.ContractTerm{
				FinalCltvDelta: testInvoiceCltvExpiry,
				Value:          p.lastAmt,
				Features:       lnwire.NewFeatureVector(nil, lnwire.Features),
			},
		}
		copy(inv.Terms.PaymentAddr[:], p.hash[:])
		inv.Terms.PaymentAddr[0] ^= 0xff
		switch p.kind {
		case zzKHold:
			inv.HodlInvoice = true
		default:
			pre := p.preimage
			inv.Terms.PaymentPreimage = &pre
		}
		if p.kind == zzKUnderpay {
			inv.Terms.Value = p.lastAmt + 1 + lnwire.MilliSatoshi(r.Draw(2000))
		}
		if p.kind == zzKExpiredInvoice {
			inv.CreationDate = time.Now().Add(-3 * time.Hour)
			inv.Terms.Expiry = time.Hour
		}
		err := receiver.reg.AddInvoice(context.Background(), *inv, p.hash)
		if err != nil && receiver.kv.Fenced() {
			// the receiver crashed while storing the invoice: nobody
			// ever learns of it, the payment is not attempted
			s.mu.Lock()
			p.done, p.success, p.resErr = true, false, "receiver crashed while creating the invoice"
			s.mu.Unlock()
			return
		}
		r.Must(err, "AddInvoice")
		p.hasInv = true
	}

	htlc := &lnwire.UpdateAddHTLC{
		PaymentHash: p.hash, Amount: p.firstAmt, Expiry: firstExpiry, OnionBlob: blob,
	}
	firstHop := s.chans[zzConnOf(p.route[0], p.route[1])].scid
	err = sender.sw.SendHTLC(firstHop, p.attemptID, htlc)
	if err != nil {
		s.mu.Lock()
		p.done, p.success, p.resErr = true, false, "SendHTLC: "+zzErrClass(err.Error())
		s.mu.Unlock()
		r.Count("pay_rejected_at_send")
		return
	}
	p.sendOK, p.sentBoot = true, sender.boots
	s.subscribe(p)
}

// subscribe waits for the payment result like the router does.
func (s *zzSim) subscribe(p *zzPay) {
	sender := s.nodes[p.sender()]
	ch, err := sender.sw.GetAttemptResult(p.attemptID, p.hash, newMockDeobfuscator())
	if err != nil {
		s.mu.Lock()
		if errors.Is(err, ErrPaymentIDNotFound) && p.sendOK {
			// SendHTLC had accepted the payment, so its circuit was
			// durable; a circuit of a local payment is deleted only
			// after the attempt's result was stored. A switch that
			// knows neither has lost the result of an HTLC it may have
			// been debited for (the router would pay again).
			s.parkViolation("attempt-result-lost", "%s: SendHTLC accepted the payment (circuit committed), but after %d restart(s) of the sender GetAttemptResult answers %v: neither a circuit nor a stored result is left for the attempt", p, sender.boots-p.sentBoot, err)
		} else if errors.Is(err, ErrPaymentIDNotFound) {
			// the switch knows nothing about it: it never left
			p.done, p.success, p.resErr = true, false, "never left the sender: "+err.Error()
		} else {
			s.parkHarness("GetAttemptResult(%s): %v", p, err)
		}
		s.mu.Unlock()
		return
	}
	s.mu.Lock()
	p.waiting = true
	s.mu.Unlock()
	go func() {
		res, ok := <-ch
		s.mu.Lock()
		defer s.mu.Unlock()
		p.waiting = false
		if !ok {
			return // switch shut down; re-subscribed after the restart
		}
		p.done = true
		if res.Error != nil {
			p.resErr = zzErrClass(res.Error.Error())
			return
		}
		if res.Preimage != p.preimage {
			s.parkViolation("wrong-preimage", "sender of %s got a success result with a wrong preimage", p)
		}
		p.success = true
	}()
}

func (s *zzSim) invoiceState(p *zzPay) invoices.ContractState {
	inv, err := s.nodes[p.receiver()].reg.LookupInvoice(context.Background(), p.hash)
	if err != nil {
		s.r.Harness("LookupInvoice(%s): %v", p, err)
	}
	return inv.State
}

func (s *zzSim) resolveHold(p *zzPay, settle bool) {
	r := s.r
	reg := s.nodes[p.receiver()].reg
	// The database tells whether the invoice is still open to a decision: an
	// earlier attempt cut short by the receiver's crash may have taken
	// effect, and the expiry watcher cancels open invoices on its own.
	switch s.invoiceState(p) {
	case invoices.ContractSettled:
		if !p.holdAmbiguous {
			r.Fail("hold-settled-unasked", "the hold invoice of %s is settled although nobody released its preimage", p)
		}
		p.holdResolved, p.holdSettle = true, true
	case invoices.ContractCanceled:
		p.holdResolved, p.holdSettle = true, false
	}
	p.holdAmbiguous = false
	if p.holdResolved {
		zzL(r, "hold invoice of %s: already decided (settled=%v)", p, p.holdSettle)
		return
	}
	var err error
	if settle {
		err = reg.SettleHodlInvoice(context.Background(), p.preimage)
	} else {
		err = reg.CancelInvoice(context.Background(), p.hash)
	}
	zzL(r, "hold invoice of %s: settle=%v -> %v", p, settle, err)
	if err != nil && s.nodes[p.receiver()].kv.Fenced() {
		p.holdAmbiguous = true
		s.quiesce()
		return // retried after the reboot
	}
	if err != nil {
		r.Fail("hold-resolve", "resolving the hold invoice of %s (settle=%v) in state accepted/open failed: %v", p, settle, err)
	}
	p.holdResolved, p.holdSettle = true, settle
	if settle {
		r.Count("probe_hold_settled")
	} else {
		r.Count("probe_hold_cancelled")
	}
	s.quiesce()
}

// ---- faults ---------------------------------------------------------------------

func (s *zzSim) noteFault(name string) {
	s.faults++
	if s.firstFaultAt < 0 {
		s.firstFaultAt = s.stepNo
	}
	s.r.Count("fault_" + name)
}

func (s *zzSim) inflight() int {
	n := 0
	s.mu.Lock()
	for _, p := range s.pays {
		if !p.done {
			n++
		}
	}
	s.mu.Unlock()
	return n
}

// cutConn tears a connection down: queued messages are lost, both links
// stop.
func (s *zzSim) cutConn(conn int) int {
	s.mu.Lock()
	c := &s.conns[conn]
	lost := len(c.q[0]) + len(c.q[1])
	c.q[0], c.q[1] = nil, nil
	c.up = false
	c.epoch++
	s.mu.Unlock()
	for _, e := range zzConnEnds[conn] {
		s.nodes[e].dropLink(conn)
	}
	return lost
}

func (s *zzSim) faultCut(conn int) {
	infl := s.inflight()
	lost := s.cutConn(conn)
	zzL(s.r, "CUT connection %d (%d queued messages lost, %d payments in flight)", conn, lost, infl)
	s.noteFault("cut")
	if lost > 0 {
		s.r.Count("fault_cut_lost_messages")
	}
	if infl > 0 {
		s.r.Count("probe_cut_with_payments_inflight")
	}
	s.quiesce()
}

func (s *zzSim) reconnect(conn int) {
	s.mu.Lock()
	s.conns[conn].up = true
	s.mu.Unlock()
	for _, e := range zzConnEnds[conn] {
		if err := s.nodes[e].addLink(conn); err != nil {
			if s.nodes[e].kv.Fenced() {
				// the injected crash hit while the link came up
				zzL(s.r, "RECONNECT connection %d aborted: %s crashed (%v)", conn, s.nodes[e].name, err)
				s.cutConn(conn)
				s.quiesce()
				return
			}
			s.r.Fail("link-restart", "%s cannot bring its link on connection %d back from its database: %v", s.nodes[e].name, conn, err)
		}
	}
	zzL(s.r, "RECONNECT connection %d", conn)
	s.quiesce()
}

func (s *zzSim) faultRestartBob() {
	s.noteFault("restart_bob")
	s.rebootBob("restart")
}

// rebootBob: both connections drop, the switch stops, a new switch, registry
// and (on reconnect) links are built on the same single database.
func (s *zzSim) rebootBob(why string) {
	r := s.r
	bob := s.nodes[zzB]
	infl := s.inflight()
	np, no := 0, 0
	if bob.sw != nil {
		np, no = bob.sw.circuits.NumPending(), bob.sw.circuits.NumOpen()
	}
	crashed := bob.kv.Fenced()
	s.mu.Lock()
	s.midCutConn = -1
	s.mu.Unlock()
	s.midCutArmed = false
	lost := s.cutConn(0) + s.cutConn(1)
	bob.shutdown()
	synctest.Wait()
	// drop whatever Bob's dying goroutines parked after the fence
	if crashed {
		s.mu.Lock()
		s.failChecks, s.fwdChecks = nil, nil
		s.mu.Unlock()
		r.Count("fault_crash_fired")
		r.Add("fault_crash_before_fired", int64(bob.kv.FiredCrashBefore))
		r.Add("fault_crash_after_fired", int64(bob.kv.FiredCrashAfter))
		bob.kv.FiredCrashBefore, bob.kv.FiredCrashAfter = 0, 0
	}
	s.crashArmed = false
	r.Must(bob.kv.Reopen(), "reopen Bob's database")
	db, err := channeldb.CreateWithBackend(bob.kv)
	if err != nil {
		r.Fail("restart", "Bob's database does not open after %s: %v", why, err)
	}
	bob.db = db
	// reach probe: Bob comes back with a forwarding package that carries
	// only settles/fails (no adds) and is not fully acked - the only durable
	// record of a downstream resolution that still has to travel upstream
	if chans, err := db.ChannelStateDB().FetchAllChannels(); err == nil {
		for _, ch := range chans {
			pkgs, err := ch.LoadFwdPkgs()
			if err != nil {
				continue
			}
			for _, pk := range pkgs {
				if len(pk.Adds) == 0 && len(pk.SettleFails) > 0 && !pk.SettleFailFilter.IsFull() {
					r.Count("probe_reboot_with_unacked_settlefail_only_pkg")
				}
				if len(pk.Adds) > 0 && !pk.AckFilter.IsFull() {
					r.Count("probe_reboot_with_unacked_adds_pkg")
				}
			}
		}
	}
	if err := bob.boot(); err != nil {
		r.Fail("restart", "Bob does not come up after %s: %v", why, err)
	}
	zzL(r, "REBOOT Bob (%s): %d queued messages lost, %d payments in flight, circuits pending=%d open=%d", why, lost, infl, np, no)
	if np+no > 0 {
		r.Count("probe_bob_reboot_with_circuits")
	}
	// Bob's own payments: ask the new switch for the result like the router
	s.mu.Lock()
	var again []*zzPay
	for _, p := range s.pays {
		if p.sender() == zzB && !p.done && !p.waiting {
			again = append(again, p)
		}
	}
	s.mu.Unlock()
	for _, p := range again {
		s.subscribe(p)
	}
	s.quiesce()
}

func (s *zzSim) faultArmCrash() {
	r := s.r
	bob := s.nodes[zzB]
	k := 1 + r.Draw(8)
	after := r.Draw(2) == 1
	if after {
		bob.kv.CrashAfter(k)
	} else {
		bob.kv.CrashBefore(k)
	}
	s.crashArmed = true
	s.noteFault("crash_armed")
	zzL(r, "ARM crash of Bob at his write #%d from now (after commit=%v)", k, after)
}

// faultArmMidCut: the connection drops INSIDE an operation of Bob. Right after
// Bob's k-th database write from now has committed - on the goroutine that made
// it, before the writing call returns - Bob's link on that connection is told
// to stop (what a peer disconnect does) and the connection stops delivering.
// Whatever the link still does in memory after that write (hand a locked-in
// settle/fail or add to the switch, answer the peer) happens with its quit
// channel closed. The next simulator step completes the cut (both links
// dropped, later re-created from disk).
func (s *zzSim) faultArmMidCut(conn int) {
	r := s.r
	bob := s.nodes[zzB]
	k := 1 + r.Draw(8)
	// Whether the link's own goroutine sees the quit signal at its very next
	// look (the disconnect won the race) or only when it next blocks is the
	// runtime's choice in a real process; here the tape decides: in half of
	// the cuts the quit channel is closed on the writing goroutine itself,
	// before the write call returns. (Drawn last in this step: older replay
	// files yield 0 = the goroutine-of-its-own behaviour.)
	quitNow := r.Draw(2) == 1
	s.midCutArmed = true
	s.noteFault("cut_inside_write_armed")
	zzL(r, "ARM cut of connection %d inside Bob's write #%d from now (quit visible at once: %v)", conn, k, quitNow)
	bob.kv.AfterWrite(k, func() {
		s.mu.Lock()
		s.midCutArmed = false
		c := &s.conns[conn]
		if !c.up || s.nodes[zzB].links[conn] == nil {
			s.mu.Unlock()
			return
		}
		c.up = false
		c.epoch++
		s.midCutConn = conn
		zl := s.nodes[zzB].links[conn]
		sw := s.nodes[zzB].sw
		// Where did the cut land? The recorded lnd finding (a forward given
		// up after CommitCircuits) needs the quit to close between the
		// shutdown check at the top of Switch.ForwardPackets and the
		// hand-over to the forwarder; the only write in between is
		// CommitCircuits. If the quit becomes visible at once, on the cut
		// link's own goroutine, in any OTHER write, that link meets the
		// closed quit at its next check before it commits any circuit, so
		// a stranded forward cannot be that finding.
		buf := make([]byte, 32<<10)
		st := string(buf[:runtime.Stack(buf, false)])
		inCommit := strings.Contains(st, "(*circuitMap).CommitCircuits")
		self := strings.Contains(st, fmt.Sprintf(".(*channelLink).htlcManager(%p", zl.link))
		if quitNow && self && !inCommit {
			s.stat["fault_cut_inside_write_own_goroutine_outside_commit_circuits"]++
		} else {
			s.midCutsExcusable++
		}
		s.mu.Unlock()
		if quitNow {
			zl.link.cg.Quit()
			s.mu.Lock()
			s.stat["fault_cut_inside_write_quit_visible_at_once"]++
			s.mu.Unlock()
		}
		// what peer.Disconnect does: take the link out of the switch's
		// index, then stop it (on its own goroutine: the caller of this
		// hook is a goroutine RemoveLink/Stop waits for)
		go func() {
			if sw != nil {
				sw.RemoveLink(zl.link.ChanID())
			}
			zl.link.Stop()
		}()
	})
}

func (s *zzSim) faultLongTime() {
	d := []time.Duration{61 * time.Second, 125 * time.Second, 35 * time.Minute, 65 * time.Minute}[s.r.Draw(4)]
	s.noteFault("long_time")
	cands := s.absenceCandidates(d)
	s.advance(d)
	s.checkAbsence(cands, d)
}

// absenceCandidates: forwards that sit at Bob while the next peer is away.
// Bounded liveness (C08: the two hops resolve together; a forward that cannot
// go out must be failed back): the incoming HTLC is irrevocably committed at
// Bob, the incoming connection is up and idle, the outgoing connection is
// down, Bob has never signed an outgoing HTLC for the payment and none is on
// the outgoing channel. lnd keeps such an add in the outgoing link's mailbox
// and cancels it back once it has waited MailboxDeliveryTimeout (1 minute
// here) with the link away - also an add the link had taken but not yet
// signed when it stopped. If the peer now stays away for at least twice that
// long, the sender must have its failure (or Bob must at least have sent the
// fail upstream) by the end of the interval.
func (s *zzSim) absenceCandidates(d time.Duration) []*zzPay {
	if d < 2*DefaultMailboxDeliveryTimeout || s.nodes[zzB].kv.Fenced() || !s.netIdle() || s.nodes[zzB].sw == nil {
		return nil
	}
	var out []*zzPay
	for _, p := range s.pays {
		s.mu.Lock()
		done := p.done
		signed := len(s.bobSignedFwd[p.hash])
		s.mu.Unlock()
		if done || !p.forwarded() || p.sender() == zzB || signed > 0 {
			continue
		}
		in, oc := zzConnOf(p.route[0], zzB), zzConnOf(zzB, p.route[2])
		if !s.conns[in].up || s.conns[oc].up || s.nodes[zzB].links[in] == nil {
			continue
		}
		ist, err := s.nodes[zzB].fetchState(s.chans[in])
		if err != nil {
			continue
		}
		if _, err := ist.RemoteCommitChainTip(); err == nil {
			continue // a commitment dance is still open on the incoming channel
		}
		if !zzHasHash(ist.LocalCommitment.Htlcs, p.hash) || !zzHasHash(ist.RemoteCommitment.Htlcs, p.hash) {
			continue
		}
		ost, err := s.nodes[zzB].fetchState(s.chans[oc])
		if err != nil {
			continue
		}
		onOut := zzHasHash(ost.LocalCommitment.Htlcs, p.hash) || zzHasHash(ost.RemoteCommitment.Htlcs, p.hash)
		if tip, err := ost.RemoteCommitChainTip(); err == nil && zzHasHash(tip.Commitment.Htlcs, p.hash) {
			onOut = true
		}
		if onOut {
			continue
		}
		out = append(out, p)
	}
	return out
}

func (s *zzSim) checkAbsence(cands []*zzPay, d time.Duration) {
	r := s.r
	if len(cands) == 0 || s.nodes[zzB].kv.Fenced() {
		return
	}
	for _, p := range cands {
		r.Count("absence_liveness_checks")
		s.mu.Lock()
		done, failedUp := p.done, s.bobFailedUp[p.hash]
		excusable := s.midCutsExcusable
		s.mu.Unlock()
		if done || failedUp {
			r.Count("probe_forward_failed_back_while_next_peer_away")
			continue
		}
		bsw := s.nodes[zzB].sw
		if excusable > 0 && bsw != nil && bsw.circuits.NumPending() > bsw.circuits.NumOpen() && zzSawFwdShutdown.Load() {
			// the recorded finding (forward given up after CommitCircuits):
			// that add is in no mailbox, so nothing can expire
			r.FailOrKnown("payment-stuck", "cut-inside-write/committed-circuit-add-dropped",
				"%s sits at Bob (incoming HTLC irrevocably committed, never offered downstream) and is not failed back although the next peer has been away for %v; Bob holds %d half-open circuit(s) whose add is in no mailbox (ForwardPackets gave up after CommitCircuits because the link was shutting down); lnd log tail:\n%s",
				p, d, bsw.circuits.NumPending()-bsw.circuits.NumOpen(), zzLogTail())
			continue
		}
		r.Fail("forward-not-failed-back", "%s sits at Bob: the incoming HTLC is irrevocably committed, Bob never signed an outgoing HTLC for it and none is on the outgoing channel, the incoming connection is up and idle - and the next peer has now been away for %v (MailboxDeliveryTimeout is %v) without the payment being failed back: nobody will resolve the incoming HTLC until that peer returns; lnd log tail:\n%s",
			p, d, DefaultMailboxDeliveryTimeout, zzLogTail())
	}
}

func (s *zzSim) faultFeeChange() {
	rate := []int64{253, 1000, 2500, 6000, 9000}[s.r.Draw(5)]
	for _, n := range s.nodes {
		n.fee.rate.Store(rate)
	}
	s.noteFault("fee_change")
	zzL(s.r, "fee estimators now say %d sat/kw", rate)
}

func (s *zzSim) teardown() {
	defer func() { _ = recover() }()
	for _, n := range s.nodes {
		if n == nil {
			continue
		}
		n.shutdown()
	}
	for _, n := range s.nodes {
		if n == nil {
			continue
		}
		n.pool.Stop()
		n.kv.Close()
	}
	s.mu.Lock()
	for k, v := range s.stat {
		s.r.Add(k, v)
	}
	s.stat = map[string]int64{}
	s.mu.Unlock()
}

// zzL logs one trace line (hashed by simcore); VERIF_DEBUG mirrors it to
// stderr.
func zzL(r *simcore.Run, format string, a ...interface{}) {
	r.Logf(format, a...)
	if zzDebug {
		fmt.Fprintf(os.Stderr, "T| "+format+"\n", a...)
	}
}

// zzErrClass keeps the stable head of an lnd error text (some of them dump
// structures with pointer values).
func zzErrClass(e string) string {
	if i := strings.IndexAny(e, "\n"); i >= 0 {
		e = e[:i]
	}
	if i := strings.Index(e, "(update="); i >= 0 {
		e = e[:i]
	}
	if i := strings.Index(e, ", update="); i >= 0 {
		e = e[:i] + ")"
	}
	if len(e) > 100 {
		e = e[:100]
	}
	return e
}
