package htlcswitch

// switchsim: oracles, wind-down, worker entry point (property C08).

import (
	"bytes"
	"context"
	"errors"
	"fmt"
	"io"
	"os"
	"runtime/debug"
	"strings"
	"sync"
	"sync/atomic"
	"testing"
	"time"

	"github.com/btcsuite/btclog/v2"
	"github.com/lightningnetwork/lnd/channeldb"
	"github.com/lightningnetwork/lnd/chanstate"
	"github.com/lightningnetwork/lnd/htlcswitch/hop"
	"github.com/lightningnetwork/lnd/invoices"
	"github.com/lightningnetwork/lnd/lntypes"
	"github.com/lightningnetwork/lnd/lnwire"

	"verif/simcore"
)

func bytesReader(b []byte) io.Reader { return bytes.NewReader(b) }

// ---- lnd log capture (diagnostics only, never hashed) ----------------------------

type zzRing struct {
	mu       sync.Mutex
	lines    []string
	spurious string // last "response for an HTLC already resolved" line
}

var zzLog = &zzRing{}

// zzSawFwdShutdown: lnd logged that ForwardPackets gave up because the link
// was shutting down (routeAsync -> ErrLinkShuttingDown) during this run. It is
// part of the structural signature of the recorded finding
// "cut-inside-write/committed-circuit-add-dropped": the same end state reached
// WITHOUT that event is something else and must be reported.
var zzSawFwdShutdown atomic.Bool

// zzSpuriousResponses counts lnd's own report that a settle or fail reached an
// incoming link for an HTLC its channel no longer knows ("unable to settle /
// cancel incoming HTLC ... No HTLC with ID"): a settle or fail was delivered
// to the incoming channel for an HTLC that already had its response. lnd
// drops it there (cleanupSpuriousResponse), nothing reaches the wire; C07
// nevertheless states "at most one settle-or-fail per HTLC is delivered back
// to the incoming channel", and on the unchanged tree no simulated run ever
// produced one, so it is judged (second-response-delivered).
var zzSpuriousResponses atomic.Int64

func (w *zzRing) Write(p []byte) (int, error) {
	if bytes.Contains(p, []byte("failed to forward packet")) && bytes.Contains(p, []byte("link shutting down")) {
		zzSawFwdShutdown.Store(true)
	}
	if (bytes.Contains(p, []byte("unable to settle incoming HTLC")) || bytes.Contains(p, []byte("unable to cancel incoming HTLC"))) &&
		bytes.Contains(p, []byte("No HTLC with ID")) {
		zzSpuriousResponses.Add(1)
		zzLog.mu.Lock()
		zzLog.spurious = strings.TrimRight(string(p), "\n")
		zzLog.mu.Unlock()
	}
	w.mu.Lock()
	w.lines = append(w.lines, strings.TrimRight(string(p), "\n"))
	if len(w.lines) > 60 {
		w.lines = w.lines[len(w.lines)-60:]
	}
	w.mu.Unlock()
	if zzLogStderr {
		os.Stderr.Write(p)
	}
	return len(p), nil
}

var zzLogStderr = os.Getenv("VERIF_LNDLOG") != ""

func zzLogTail() string {
	zzLog.mu.Lock()
	defer zzLog.mu.Unlock()
	n := len(zzLog.lines)
	if n > 25 {
		return strings.Join(zzLog.lines[n-25:], "\n")
	}
	return strings.Join(zzLog.lines, "\n")
}

func zzInstallLogger(s *zzSim) {
	zzLog.mu.Lock()
	zzLog.lines = nil
	zzLog.mu.Unlock()
	h := btclog.NewDefaultHandler(zzLog, btclog.WithNoTimestamp())
	l := btclog.NewSLogger(h)
	if zzLogStderr {
		l.SetLevel(btclog.LevelDebug)
		if os.Getenv("VERIF_LNDLOG") == "trace" {
			l.SetLevel(btclog.LevelTrace)
		}
	} else {
		l.SetLevel(btclog.LevelWarn)
	}
	UseLogger(l)
	if zzLogStderr {
		invoices.UseLogger(l)
	}
}

// ---- panic plumbing -----------------------------------------------------------------

func zzStack() string { return string(debug.Stack()) }

func zzIsBubbleExit(msg string) bool {
	return strings.Contains(msg, "main bubble goroutine has exited but blocked goroutines remain")
}

// zzRepanic re-raises, outside the bubble, what stopped the run inside it.
func zzRepanic(r *simcore.Run, p interface{}, stack string) {
	tn := fmt.Sprintf("%T", p)
	if strings.HasPrefix(tn, "simcore.") {
		panic(p) // a violation or harness complaint raised through r
	}
	msg := fmt.Sprint(p)
	if strings.Contains(msg, "deadlock: all goroutines in bubble are blocked") {
		r.Fail("deadlock", "every goroutine of the simulated network is blocked for good while the simulator waits for an lnd call to return: %v\n%s", p, zzTrim(stack, 60))
	}
	// who raised it: the first non-runtime frame after the panic frames
	lines := strings.Split(stack, "\n")
	seen := false
	mine := true
	for i := 0; i < len(lines); i++ {
		l := lines[i]
		if strings.HasPrefix(l, "panic(") {
			seen = true
			continue
		}
		if !seen || strings.HasPrefix(l, "\t") || l == "" {
			continue
		}
		if strings.HasPrefix(l, "runtime.") || strings.HasPrefix(l, "runtime/") {
			continue
		}
		mine = strings.Contains(l, ".zz") || strings.Contains(l, "zz_verif") || strings.HasPrefix(l, "verif/") ||
			(i+1 < len(lines) && strings.Contains(lines[i+1], "zz_verif"))
		break
	}
	if mine {
		r.Harness("panic in simulator: %v\n%s", p, zzTrim(stack, 60))
	}
	r.Fail("PANIC", "panic in code under test: %v\n%s", p, zzTrim(stack, 40))
}

func zzTrim(st string, n int) string {
	lines := strings.Split(st, "\n")
	if len(lines) > n {
		lines = lines[:n]
	}
	return strings.Join(lines, "\n")
}

// ---- state readers ---------------------------------------------------------------------

// holding of a node: over its channels, local balance plus, where it is the
// funder, the commitment fee and anchors it currently pays (so fee updates
// do not move it).
func (s *zzSim) holding(node int) lnwire.MilliSatoshi {
	var sum lnwire.MilliSatoshi
	for c := 0; c < 2; c++ {
		if zzConnEnds[c][0] != node && zzConnEnds[c][1] != node {
			continue
		}
		st, err := s.nodes[node].fetchState(s.chans[c])
		if err != nil {
			s.r.Fail("state-unreadable", "%s cannot read its channel on connection %d: %v", zzNames[node], c, err)
		}
		sum += st.LocalCommitment.LocalBalance
		if st.IsInitiator {
			sum += lnwire.NewMSatFromSatoshis(st.LocalCommitment.CommitFee) + s.chans[c].anchors
		}
	}
	return sum
}

func zzHasHash(hs []chanstate.HTLC, h lntypes.Hash) bool {
	for _, x := range hs {
		if x.RHash == h {
			return true
		}
	}
	return false
}

// checkFailBack: Bob told the upstream peer that a forwarded HTLC failed. Its
// outgoing counterpart must by then be gone for good from (or never have
// been on) every commitment of the outgoing channel that can still be used.
func (s *zzSim) checkFailBack(c zzDeferred) {
	r := s.r
	p := s.payByHash[c.hash]
	st, err := s.nodes[zzB].fetchState(s.chans[c.conn])
	if err != nil {
		r.Fail("state-unreadable", "Bob cannot read his channel on connection %d: %v", c.conn, err)
	}
	where := ""
	switch {
	case zzHasHash(st.LocalCommitment.Htlcs, c.hash):
		where = "Bob's own current commitment"
	case zzHasHash(st.RemoteCommitment.Htlcs, c.hash):
		where = "the peer's current (unrevoked) commitment"
	default:
		tip, err := st.RemoteCommitChainTip()
		if err == nil && zzHasHash(tip.Commitment.Htlcs, c.hash) {
			where = "the commitment Bob has signed for the peer and not yet seen revoked"
		} else if err != nil && !errors.Is(err, channeldb.ErrNoPendingCommit) {
			r.Fail("state-unreadable", "Bob's pending remote commitment on connection %d: %v", c.conn, err)
		}
	}
	zzL(r, "    oracle: Bob sent %s upstream for %s; outgoing htlc still on: %q", c.what, p, where)
	if where != "" {
		r.Fail("fail-before-downstream-removed", "Bob sent %s to the upstream peer for forwarded %s while the outgoing HTLC is still part of %s on connection %d (the downstream peer can still claim it)",
			c.what, p, where, c.conn)
	}
}

// checkForwardLockedIn: Bob offered the outgoing HTLC of a forward; the
// incoming one must be on both current commitments of the incoming channel
// (irrevocably committed).
func (s *zzSim) checkForwardLockedIn(c zzDeferred) {
	r := s.r
	p := s.payByHash[c.hash]
	st, err := s.nodes[zzB].fetchState(s.chans[c.conn])
	if err != nil {
		r.Fail("state-unreadable", "Bob cannot read his channel on connection %d: %v", c.conn, err)
	}
	inLocal := zzHasHash(st.LocalCommitment.Htlcs, c.hash)
	inRemote := zzHasHash(st.RemoteCommitment.Htlcs, c.hash)
	if !inLocal || !inRemote {
		r.Fail("forward-before-lockin", "Bob offered %s downstream for %s although the incoming HTLC is not irrevocably committed on connection %d (on Bob's commitment: %v, on the peer's revoked-to commitment: %v)",
			c.what, p, c.conn, inLocal, inRemote)
	}
}

// ---- wind-down and final oracles -------------------------------------------------------

func (s *zzSim) checkSpurious() {
	if n := zzSpuriousResponses.Load(); n > 0 {
		zzLog.mu.Lock()
		line := zzLog.spurious
		zzLog.mu.Unlock()
		s.r.Fail("second-response-delivered", "%d time(s) a settle or fail was delivered to an incoming link for an HTLC that already had its response (the link found no such HTLC and dropped it); last: %s", n, line)
	}
}

func (s *zzSim) finish() {
	r := s.r
	s.checkSpurious()
	s.windDown = true
	bob := s.nodes[zzB]
	bob.kv.Disarm()
	s.crashArmed = false
	s.midCutArmed = false
	s.mu.Lock()
	mc := s.midCutConn
	s.midCutConn = -1
	s.mu.Unlock()
	if mc >= 0 {
		r.Count("fault_cut_inside_write")
		s.midCuts++
		s.faultCut(mc)
	}
	if bob.kv.Fenced() {
		s.rebootBob("crash")
	}
	zzL(r, "WIND-DOWN: %d payments, %d faults", len(s.pays), s.faults)
	for c := 0; c < 2; c++ {
		if !s.conns[c].up {
			s.reconnect(c)
		}
	}
	idle := 0
	nudges := [2]int{}
	idleSchedule := []time.Duration{100 * time.Millisecond, time.Second, 16 * time.Second, 16 * time.Second, 61 * time.Second, 16 * time.Second, 61 * time.Second, 16 * time.Second}
	for iter := 0; iter < 400; iter++ {
		if s.drain(1000) > 0 {
			idle = 0
			continue
		}
		ticked := false
		for _, n := range s.nodes {
			for _, zl := range n.links {
				if zl != nil && zl.ticker.active.Load() {
					s.tick(zl)
					ticked = true
				}
			}
		}
		if ticked {
			idle = 0
			continue
		}
		// resolve hold invoices once nothing else moves
		resolved := false
		for _, p := range s.pays {
			if p.kind == zzKHold && !p.holdResolved && p.hasInv {
				st := s.invoiceState(p)
				s.resolveHold(p, st == invoices.ContractAccepted && p.idx%2 == 0)
				resolved = true
				break
			}
		}
		if resolved {
			idle = 0
			continue
		}
		if idle >= len(idleSchedule) {
			// Nothing moves any more. A link that owes its peer a
			// commitment signature and is not going to send it is a
			// finding of its own; the next update on the channel (a
			// small direct payment) flushes it, after which the
			// strict end-state oracles apply.
			if c := s.owedCommitment(); c >= 0 && nudges[c] < 2 {
				nudges[c]++
				s.nudge(c)
				idle = 0
				continue
			}
			break
		}
		s.advance(idleSchedule[idle])
		idle++
	}
	s.finalChecks()
}

// zzStranded: p is a payment of Bob's own, Bob was restarted after handing it
// to his switch, and all that is left of it is a half-open circuit (no
// keystone: the add was never covered by a commitment signature, it lived in
// the link's mailbox or in the channel's in-memory log when Bob stopped). lnd
// leaves such a circuit in place and nothing replays or fails the add; no
// value has moved. Judged once everything is reconnected (links trim their
// keystones when they start).
func (s *zzSim) zzStranded(p *zzPay) bool {
	bob := s.nodes[zzB]
	if p.sender() != zzB || bob.sw == nil {
		return false
	}
	if p.sendOK && bob.boots <= p.sentBoot {
		return false
	}
	if !p.sendOK && bob.boots <= 1 {
		return false
	}
	c := bob.sw.circuits.LookupCircuit(CircuitKey{ChanID: hop.Source, HtlcID: p.attemptID})
	return c != nil && !c.HasKeystone()
}

// owedCommitment returns a connection on which some link owes a commitment
// signature (peer updates it has acked are missing from the commitment it
// last signed for the peer) although everything is idle, or -1.
func (s *zzSim) owedCommitment() int {
	r := s.r
	for c := 0; c < 2; c++ {
		for _, e := range zzConnEnds[c] {
			n := s.nodes[e]
			zl := n.links[c]
			if zl == nil || !zl.link.channel.OweCommitment() {
				continue
			}
			st, err := n.fetchState(s.chans[c])
			if err != nil {
				r.Fail("state-unreadable", "%s cannot read its channel on connection %d: %v", n.name, c, err)
			}
			r.Count("probe_owed_commitment_at_idle")
			r.FailOrKnown("owed-commitment-not-sent", "idle-link",
				"%s owes its peer on connection %d a commitment signature and does not send it although the link is up and idle "+
					"(after %d restarts of Bob, %d faults): own commitment has %d HTLCs, the peer's last signed one %d, batch timer active=%v. "+
					"The peer's settle/fail stays uncommitted (and a fail is not propagated upstream) until some later update happens to trigger a signature",
				n.name, c, s.nodes[zzB].boots-1, s.faults, len(st.LocalCommitment.Htlcs), len(st.RemoteCommitment.Htlcs), zl.ticker.active.Load())
			return c
		}
	}
	return -1
}

// nudge sends a small direct payment over a connection.
func (s *zzSim) nudge(c int) {
	r := s.r
	x, y := zzConnEnds[c][0], zzConnEnds[c][1]
	sx, err := s.nodes[x].fetchState(s.chans[c])
	if err != nil {
		r.Fail("state-unreadable", "%v", err)
	}
	if sx.LocalCommitment.LocalBalance < sx.LocalCommitment.RemoteBalance {
		x, y = y, x
	}
	p := &zzPay{idx: len(s.pays), resolvedAtStep: -1, route: []int{x, y}, kind: zzKValid, nudge: true,
		lastAmt: 10_000, firstAmt: 10_000}
	s.addPayment(p)
	zzL(r, "NUDGE connection %d with %s", c, p)
	s.sendPayment(p)
	s.quiesce()
}

func (s *zzSim) finalChecks() {
	r := s.r
	if !s.netIdle() {
		r.Fail("no-quiescence", "the network keeps exchanging messages after all payments were given ample time to finish")
	}

	// 1. every payment has an outcome and it agrees with the receiver's invoice
	var exp [3]int64
	nSucc, nFwdSucc, nFwdFail := 0, 0, 0
	var fees lnwire.MilliSatoshi
	for _, p := range s.pays {
		s.mu.Lock()
		done, success, resErr := p.done, p.success, p.resErr
		s.mu.Unlock()
		s.mu.Lock()
		excusable := s.midCutsExcusable
		s.mu.Unlock()
		if !done && s.midCuts > 0 && excusable > 0 {
			// Structural signature of a recorded lnd finding: the link's
			// quit channel closed (peer disconnect) inside
			// Switch.ForwardPackets between CommitCircuits and the
			// hand-over to the forwarder (routeAsync returns
			// ErrLinkShuttingDown). The circuit is durable and half open,
			// the add is in no mailbox; when the re-created link replays
			// the add, CommitCircuits answers "drop" (circuit exists, not
			// loaded from disk), so nobody forwards or fails it until the
			// node restarts.
			bsw := s.nodes[zzB].sw
			if bsw != nil && bsw.circuits.NumPending() > bsw.circuits.NumOpen() && zzSawFwdShutdown.Load() {
				known := false
				func() {
					defer func() {
						if p := recover(); p != nil {
							panic(p)
						}
					}()
					r.FailOrKnown("payment-stuck", "cut-inside-write/committed-circuit-add-dropped",
						"%s has no result at quiescence after a connection cut that landed inside one of Bob's writes; Bob holds %d half-open circuit(s) whose add is in no mailbox (ForwardPackets gave up after CommitCircuits because the link was shutting down; the replayed add is dropped as a duplicate); lnd log tail:\n%s",
						p, bsw.circuits.NumPending()-bsw.circuits.NumOpen(), zzLogTail())
					known = true
				}()
				if known {
					return // the rest of the end state is a consequence
				}
			}
		}
		if !done && s.zzStranded(p) {
			// the one payer-side shape that is not the forwarder's
			// business: the sender restarted while the add was only in
			// memory; the half-open circuit of the local payment stays
			// and nobody is there to replay or fail the add
			s.mu.Lock()
			p.done, p.success, p.resErr, p.stranded = true, false, "stranded: sender restarted before the add was signed for", true
			done, success, resErr = p.done, p.success, p.resErr
			s.mu.Unlock()
			r.Count("probe_own_payment_stranded_by_restart")
		}
		if !done {
			r.Fail("payment-stuck", "%s has no result although the network is quiescent, all links are up and hold invoices were resolved (dangling HTLC or circuit); lnd log tail:\n%s", p, zzLogTail())
		}
		settled := false
		var paid lnwire.MilliSatoshi
		if p.hasInv {
			inv, err := s.nodes[p.receiver()].reg.LookupInvoice(context.Background(), p.hash)
			if err != nil {
				r.Fail("invoice-lost", "receiver cannot look up the invoice of %s: %v", p, err)
			}
			settled = inv.State == invoices.ContractSettled
			paid = inv.AmtPaid
			if !settled && inv.State == invoices.ContractAccepted {
				r.Fail("invoice-dangling", "invoice of %s is still in state accepted at quiescence", p)
			}
		}
		if success != settled {
			r.Fail("atomicity", "%s: sender result success=%v (%s) but receiver's invoice settled=%v", p, success, resErr, settled)
		}
		if settled && paid != p.lastAmt {
			r.Fail("invoice-amount", "%s: invoice records %d msat paid, the receiver was offered %d", p, paid, p.lastAmt)
		}
		switch p.kind {
		case zzKUnknownHash, zzKUnderpay, zzKFeeShort, zzKBadFinalCltv:
			if success {
				r.Fail("accepted-bad-payment", "%s succeeded although it must be rejected (%s)", p, zzKindNames[p.kind])
			}
		case zzKHold:
			if p.holdResolved && !p.holdSettle && success {
				r.Fail("accepted-bad-payment", "%s succeeded although its hold invoice was cancelled", p)
			}
		}
		if success {
			nSucc++
			exp[p.sender()] -= int64(p.firstAmt)
			exp[p.receiver()] += int64(p.lastAmt)
			if p.forwarded() {
				exp[zzB] += int64(p.fee())
				fees += p.fee()
				nFwdSucc++
			}
		} else {
			if p.forwarded() {
				nFwdFail++
			}
			reason := resErr
			if i := strings.IndexAny(reason, "({\n"); i > 0 {
				reason = reason[:i]
			}
			if len(reason) > 60 {
				reason = reason[:60]
			}
			r.Count("payfail[" + zzKindNames[p.kind] + "]: " + reason)
		}
	}

	// 2. channel states: nothing dangling, conservation, both ends agree
	type end struct {
		st *chanstate.OpenChannel
	}
	var ends [2][2]end
	for c := 0; c < 2; c++ {
		ch := s.chans[c]
		for e := 0; e < 2; e++ {
			n := s.nodes[zzConnEnds[c][e]]
			st, err := n.fetchState(ch)
			if err != nil {
				r.Fail("state-unreadable", "%s cannot read its channel on connection %d: %v", n.name, c, err)
			}
			ends[c][e].st = st
			tag := fmt.Sprintf("%s's channel on connection %d", n.name, c)
			if len(st.LocalCommitment.Htlcs) != 0 || len(st.RemoteCommitment.Htlcs) != 0 {
				r.Fail("dangling-htlc", "%s still carries HTLCs at quiescence (own commitment %d, peer's %d) although every payment has a result",
					tag, len(st.LocalCommitment.Htlcs), len(st.RemoteCommitment.Htlcs))
			}
			if _, err := st.RemoteCommitChainTip(); !errors.Is(err, channeldb.ErrNoPendingCommit) {
				r.Fail("dangling-commit", "%s has an unrevoked pending commitment at quiescence (err=%v)", tag, err)
			}
			if zl := n.links[c]; zl != nil {
				if a := zl.link.channel.ActiveHtlcs(); len(a) != 0 {
					r.Fail("dangling-htlc", "%s: ActiveHtlcs() returns %d HTLCs at quiescence", tag, len(a))
				}
			}
			capMsat := lnwire.NewMSatFromSatoshis(ch.capacity)
			for i, cm := range []*channeldb.ChannelCommitment{&st.LocalCommitment, &st.RemoteCommitment} {
				total := cm.LocalBalance + cm.RemoteBalance + lnwire.NewMSatFromSatoshis(cm.CommitFee) + ch.anchors
				if total != capMsat {
					r.Fail("conservation", "%s commitment #%d: local %d + remote %d + fee %d + anchors %d = %d msat, capacity is %d msat",
						tag, i, cm.LocalBalance, cm.RemoteBalance, lnwire.NewMSatFromSatoshis(cm.CommitFee), ch.anchors, total, capMsat)
				}
			}
			if st.LocalCommitment.LocalBalance != st.RemoteCommitment.LocalBalance ||
				st.LocalCommitment.RemoteBalance != st.RemoteCommitment.RemoteBalance {

				r.Fail("commitments-disagree", "%s: own commitment says %d/%d, the peer's says %d/%d at quiescence", tag,
					st.LocalCommitment.LocalBalance, st.LocalCommitment.RemoteBalance,
					st.RemoteCommitment.LocalBalance, st.RemoteCommitment.RemoteBalance)
			}
		}
		x, y := ends[c][0].st, ends[c][1].st
		if x.LocalCommitment.LocalBalance != y.LocalCommitment.RemoteBalance ||
			x.LocalCommitment.RemoteBalance != y.LocalCommitment.LocalBalance {

			r.Fail("ends-disagree", "connection %d: %s sees balances %d/%d, %s sees %d/%d at quiescence", c,
				zzNames[zzConnEnds[c][0]], x.LocalCommitment.LocalBalance, x.LocalCommitment.RemoteBalance,
				zzNames[zzConnEnds[c][1]], y.LocalCommitment.LocalBalance, y.LocalCommitment.RemoteBalance)
		}
	}

	// 3. nobody is out of pocket
	for i := 0; i < 3; i++ {
		got := int64(s.holding(i))
		want := int64(s.initHold[i]) + exp[i]
		if got != want {
			what := "holdings"
			if i == zzB {
				what = "the forwarder's holdings over both channels"
			}
			r.Fail("out-of-pocket", "%s: %s are %d msat at quiescence; starting total %d plus the effect of the %d successful payments (fees earned by Bob: %d) gives %d (off by %d)",
				zzNames[i], what, got, s.initHold[i], nSucc, fees, want, got-want)
		}
	}

	// 4. circuit maps are empty
	for i, n := range s.nodes {
		np, no := n.sw.circuits.NumPending(), n.sw.circuits.NumOpen()
		if i == zzB {
			// half-open circuits of Bob's own payments whose add was
			// lost in a restart (see zzStranded), whether or not
			// SendHTLC had returned before the crash
			for _, p := range s.pays {
				if s.zzStranded(p) {
					np--
				}
			}
		}
		if np != 0 || no != 0 {
			r.Fail("dangling-circuit", "%s's circuit map has %d pending / %d open circuits at quiescence although every payment has a result", n.name, np, no)
		}
	}

	s.checkSpurious()
	zzL(r, "final: %d payments, %d succeeded (%d forwarded ok, %d forwarded failed), fees %d", len(s.pays), nSucc, nFwdSucc, nFwdFail, fees)
	if nFwdSucc > 0 {
		r.Count("probe_forward_success")
	}
	if nFwdFail > 0 {
		r.Count("probe_forward_failed_back")
	}
	r.Add("payments", int64(len(s.pays)))
	r.Add("payments_succeeded", int64(nSucc))
	r.Add("payments_done_after_first_fault", int64(s.paysDoneAfterFault))
	if s.faults > 0 && s.paysDoneAfterFault > 0 {
		r.Count("probe_payment_completed_after_fault")
	}
	switch s.cfg.arm {
	case "calm":
		r.Nontrivial = nFwdSucc+nFwdFail > 0
	default:
		r.Nontrivial = nFwdSucc+nFwdFail > 0 && s.faults > 0 && s.paysDoneAfterFault > 0
	}
}

// ---- worker entry point --------------------------------------------------------------------

func zzReplayAttempts() int {
	if os.Getenv("VERIF_REPLAY") != "" {
		return 4
	}
	return 1
}

// TestVerifRun is the worker entry point (never returns).
func TestVerifRun(t *testing.T) {
	prop := os.Getenv("VERIF_PROP")
	if prop == "" {
		t.Skip("not a verif worker invocation")
	}
	if prop != "C08" {
		t.Fatalf("unknown VERIF_PROP %q", prop)
	}
	run := func(r *simcore.Run) {
		if !r.Tape.Replay() || zzReplayAttempts() == 1 {
			zzRunOnce(t, r)
			return
		}
		// Replaying a file: the stimuli are exact but the Go runtime
		// orders a node's internal goroutines, so try a few times.
		var last simcore.Outcome
		for i := 0; i < zzReplayAttempts(); i++ {
			last = simcore.Execute(func(r2 *simcore.Run) { zzRunOnce(t, r2) },
				simcore.NewReplayTape(r.Tape.Cfg, r.Tape.Steps), r.Seed, r.Tier)
			if last.Violation != nil || last.HarnessErr != "" {
				break
			}
		}
		for _, l := range last.Trace {
			zzL(r, "%s", l)
		}
		r.Arm = last.Arm
		if last.HarnessErr != "" {
			r.Harness("%s", last.HarnessErr)
		}
		if last.Violation != nil {
			r.FailSig(last.Violation.Code, last.Violation.Sig, "%s", last.Violation.Msg)
		}
	}
	simcore.WorkerMain(simcore.Spec{Property: "C08", Engine: "switchsim", Run: run, ShrinkBudget: 120})
}
