# Table / manifest entries for property C08 (engine switchsim, compiled into package htlcswitch).

SWITCHSIM_STUB = {
    "htlcswitch.Switch, channelLink, circuit map, mailboxes, SwitchPackager / forwarding packages, payment result store": "real (three nodes Alice-Bob-Carol, two channels)",
    "lnwallet.LightningChannel, channeldb/chanstate": "real; every node has ONE database (as in production; the repo's fixture gives Bob's channels separate DBs)",
    "kvdb + bbolt (Bob)": "real bbolt file behind SimKV: crash before/after Bob's k-th write, restart of Bob on the same file",
    "peer transport": "simulator: per-direction FIFO queues drained at quiescence; cut = arbitrary delivered prefix per direction, both links stopped and re-created from disk, channel_reestablish through the simulator",
    "invoice registry": "repo's mockInvoiceRegistry (a real InvoiceRegistry over an in-memory store); hold invoices settled/cancelled by the tape",
    "onion": "repo's mock hop iterator / obfuscator (route in clear); sphinx replay protection not exercised",
    "clock / tickers / timers": "testing/synctest fake clock (batch ticker, pending-commit ticker, fee-update timer, hold timeouts)",
    "chain, fee estimator": "stubs (static fee with tape-chosen changes; block height a simulator variable)",
    "router, real peer/brontide, contractcourt, funding": "not simulated",
}
SWITCHSIM_ASSUME = [
    "bbolt transaction atomicity; crash granularity is one kvdb transaction on Bob's database",
    "oracles are predicates true for every goroutine schedule inside a node (conservation at quiescence, causality at the transport, at-most-once), so residual runtime nondeterminism can cause a missed replay, never a false alarm",
    "a link failure (OnChannelFailure) is tolerated only on a connection that is being torn down or on a node whose database was fenced by an injected crash",
    "a clean batch is evidence, not proof: schedules, faults and payments are sampled from a seeded PRNG",
]

CHECK = {
    "C08": dict(
        bin="run_switch", build="inpkg", pkg="htlcswitch", level="exploration",
        run_args=["-test.run=^TestVerifRun$", "-test.timeout=0"],
        quick=dict(runs=4000, wall=100), thorough=dict(runs=80000, wall=1800),
        rule="one evaluation = one seeded run of the three-node network inside a synctest bubble: 1-12 overlapping payments Alice->Bob->Carol, Carol->Bob->Alice and "
             "direct (valid, hold settled/cancelled later, unknown hash, underpaying, fee 1 msat short, generous fee, expired invoice, final CLTV too soon; amounts around "
             "dust, min-HTLC and bandwidth limits), events = deliver the next message of a chosen (connection, direction) queue, or (half of the runs) hand a whole queue to the link in one go so that later messages sit unread in its mailbox while it works on the first, tick, advance fake time, block, fee change; "
             "faults (arms calm / cuts / restart / crash) = cut a connection with per-direction delivered prefixes and re-create both links from disk, cut a connection INSIDE one of Bob's database writes (link quit signalled right after the k-th write commits, before the writing call returns), restart Bob "
             "(new Switch and links on the same database), crash Bob before/after his k-th database write. After every event to quiescence the online causality rules are "
             "checked at the transport; at wind-down (faults off, links up, hold invoices resolved) the conservation equalities are checked. non-trivial = a payment "
             "completed (and, in fault arms, completed after a fault fired); distinct = distinct event-trace hash",
        states_measure="distinct (per-connection queue lengths, payments in flight, Bob's pending/open circuits, faults so far) tuples",
        expected_probes=["probe_own_payment_stranded_by_restart", "absence_liveness_checks", "fault_cut_inside_write_quit_visible_at_once", "fault_cut_inside_write_then_long_absence", "probe_delivered_behind_unprocessed_message", "probe_forward_success", "probe_forward_failed_back", "probe_bob_settles_upstream", "probe_bob_fails_upstream", "probe_hold_settled",
                         "probe_hold_cancelled", "probe_cut_with_payments_inflight", "probe_bob_reboot_with_circuits", "probe_payment_completed_after_fault",
                         "fault_cut", "fault_cut_inside_write", "probe_reboot_with_unacked_settlefail_only_pkg", "fault_cut_lost_messages", "fault_restart_bob", "fault_crash_before_fired", "fault_crash_after_fired", "fault_fee_change"],
        real_vs_stub=SWITCHSIM_STUB, assumptions=SWITCHSIM_ASSUME,
        simulated_time="fake clock of the synctest bubble; counter sim_time_ms is the simulated time covered",
        determinism="actor engine: seam-deterministic (every stimulus and fault is the tape's; the Go runtime orders a node's own goroutines between quiescent points); "
                    "divergence rate measured by ./check selftest-determinism C08",
        gomaxprocs=2, ulimit_kb=8 * 1024 * 1024,
    ),
}

ENGINE = {"name": "switchsim", "path": "/verif/inpkg/htlcswitch", "serves_properties": ["C08"],
          "kind_free_text": "three real htlcswitch nodes (Switch, links, circuit maps, mailboxes, forwarding packages, real channels, one DB per node) inside a synctest bubble; "
                            "the simulator is the transport, the clock and Bob's disk: message delays, connection cuts with delivered prefixes, link re-creation, Bob restarts and "
                            "crashes at database-write granularity; online causality oracle at the transport + conservation at quiescence; compiled into package htlcswitch via go test -overlay"}

TEXT = {
    "C08": dict(engine="switchsim", design_ref="DESIGN.md 5 C08",
                technique="deterministic simulation (synctest bubble): seeded payment batches with message delays, connection cuts, link/switch restarts and crashes at DB-write granularity; causality oracle at the transport and conservation at quiescence",
                level_text="Seeded exploration of payment batches through a forwarding node under delays, cuts, restarts and crashes. Online, at the transport: Bob sends update_fulfill_htlc "
                           "upstream for a forwarded HTLC only after a fulfill carrying a preimage of that hash was delivered to his outgoing link; sends update_fail upstream only when the "
                           "outgoing HTLC is on none of the outgoing channel's commitments (or was never offered); offers an HTLC downstream only when the incoming one is irrevocably "
                           "committed. No honest link ever reports a channel failure. At wind-down quiescence: every payment has a result; sender success iff the receiver's invoice is "
                           "settled (for the offered amount); payments that must be rejected never succeed; no HTLC, pending commitment or circuit is left; msat conservation on all four "
                           "channel ends and agreement of both ends; Bob's holdings over both channels = start + exactly the fees of the successful forwards; Alice's and Carol's deltas "
                           "match. Payer side (half of the runs let Bob originate payments in the restart and crash arms too): once SendHTLC has accepted a payment, GetAttemptResult "
                           "(asked again after every restart, like the router) never answers 'unknown attempt' - a switch that holds neither the circuit nor a stored result has lost the "
                           "outcome of an HTLC it may have been debited for; the one shape lnd leaves to the router (sender restarted while the add was only in memory: half-open local "
                           "circuit, no value moved) is recognised structurally and excused. Exploration is the right level: the schedule/fault space is unbounded and the oracle is scenario independent.",
                level_note="Trusted: synctest quiescence; mock onion (route in clear); the repo's in-memory invoice registry fixture. Goroutine order inside one node between two quiescent "
                           "points is the runtime's (property C08 itself quantifies over 'goroutine scheduling as chosen by the runtime'). Two genuine defects found by this engine were "
                           "fixed (45889c1, 1312403; their minimised schedules under regress/ are replayed on every run), a third is recorded as known finding (ForwardPackets drops an add after CommitCircuits when the link quits; found by the cut-inside-write fault). Per-run knobs: batch size, ack-ticker interval (15 s / 1 s / 20 ms), fees, reserves, capacities."),
}
