package brontide

// noisesim: deterministic simulation of the Noise transport (property C11).
// This file is compiled INTO package brontide by /verif/inpkg_build.py
// (go test -overlay); it is not part of lnd.

import (
	"bytes"
	"crypto/sha256"
	"errors"
	"fmt"
	"github.com/lightningnetwork/lnd/lnwire"
	"golang.org/x/crypto/hkdf"
	"io"
	"math"
	"net"
	"os"
	"sync"
	"testing"
	"time"

	"github.com/btcsuite/btcd/btcec/v2"
	"github.com/lightningnetwork/lnd/keychain"

	"verif/simcore"
)

// simTimeout is the net.Error a stalled writer returns.
type simTimeout struct{}

func (simTimeout) Error() string   { return "sim: write timeout" }
func (simTimeout) Timeout() bool   { return true }
func (simTimeout) Temporary() bool { return true }

// simWire is one direction of the faulty in-memory pipe.
type simWire struct {
	buf []byte // bytes written and not yet read
}

// simEnd is a net.Conn end: writes go to out, reads come from in.
type simEnd struct {
	r       *simcore.Run
	in, out *simWire
	// partial: writer accepts a drawn prefix then times out.
	partialWrites bool
	fragReads     bool
	faultsFired   *int
	// hook, when set (duplex arm), is called at the start of every Read and
	// Write: the point where the Go scheduler could run this side's OTHER
	// goroutine (peer.readHandler vs peer.writeHandler share one Machine).
	hook func(inWrite bool)
	// cutAfter >= 0: the writer accepts that many more bytes and then times
	// out (epilogue: a send that is given up)
	cutAfter int
}

func (e *simEnd) Write(p []byte) (int, error) {
	if e.hook != nil {
		e.hook(true)
	}
	n := len(p)
	if e.cutAfter >= 0 {
		if e.cutAfter < len(p) {
			n = e.cutAfter
			e.out.buf = append(e.out.buf, p[:n]...)
			e.cutAfter = 0
			return n, simTimeout{}
		}
		e.cutAfter -= len(p)
		e.out.buf = append(e.out.buf, p...)
		return len(p), nil
	}
	if e.partialWrites && len(p) > 0 && e.r.Chance(1, 3) {
		n = e.r.Draw(len(p) + 1) // 0..len(p)
		n = len(p) - n           // shrinks towards a full write
		if n < len(p) {
			e.out.buf = append(e.out.buf, p[:n]...)
			e.r.Count("fault_partial_write")
			*e.faultsFired++
			return n, simTimeout{}
		}
	}
	e.out.buf = append(e.out.buf, p...)
	return len(p), nil
}

func (e *simEnd) Read(p []byte) (int, error) {
	if e.hook != nil {
		e.hook(false)
	}
	if len(e.in.buf) == 0 {
		return 0, io.EOF
	}
	n := len(p)
	if n > len(e.in.buf) {
		n = len(e.in.buf)
	}
	if e.fragReads && n > 1 && e.r.Chance(1, 3) {
		n = 1 + e.r.Draw(n)
		e.r.Count("fault_fragmented_read")
	}
	copy(p, e.in.buf[:n])
	e.in.buf = e.in.buf[n:]
	return n, nil
}

func (e *simEnd) Close() error                       { return nil }
func (e *simEnd) LocalAddr() net.Addr                { return &net.TCPAddr{} }
func (e *simEnd) RemoteAddr() net.Addr               { return &net.TCPAddr{} }
func (e *simEnd) SetDeadline(t time.Time) error      { return nil }
func (e *simEnd) SetReadDeadline(t time.Time) error  { return nil }
func (e *simEnd) SetWriteDeadline(t time.Time) error { return nil }

type nonceKey struct {
	key   [32]byte
	nonce uint64
}

type noiseSide struct {
	name    string
	m       *Machine
	conn    *Conn
	end     *simEnd
	used    map[nonceKey]struct{} // (key, nonce) pairs this side encrypted with
	sent    [][]byte              // plaintexts written, in order (frames)
	frames  [][]byte              // ciphertext frames as they went on the wire (attacker arm bookkeeping)
	readIdx int                   // how many of the peer's plaintexts this side has read
	// kept: the slices ReadNextMessage returned for the last few messages,
	// kept by reference the way a caller that queues messages keeps them;
	// they must still hold what was sent after later reads and writes
	kept    [][]byte
	keptIdx []int
	// shadow: the simulator's own BOLT-8 key schedule of this side's send [0]
	// and receive [1] cipher (chaining key and key), advanced with HKDF at
	// every rotation it observes
	shadow [2]keyShadow
	rot    int
	pre    func(writing bool) func() // duplex arm: marks the role busy for the operation
}

func keyFromTape(t *simcore.Tape) *btcec.PrivateKey {
	for {
		var b [32]byte
		for i := 0; i < 32; i += 4 {
			v := t.CfgDraw(1 << 30)
			b[i], b[i+1], b[i+2], b[i+3] = byte(v), byte(v>>8), byte(v>>16), byte(v>>24)
		}
		b[0] |= 1 // never zero
		b[31] &= 0x7f
		k, _ := btcec.PrivKeyFromBytes(b[:])
		if k != nil {
			return k
		}
	}
}

func noiseRun(r *simcore.Run) {
	t := r.Tape
	arms := []string{"benign", "benign-long", "handshake-attack", "wrong-static-key", "transport-attack", "benign-duplex"}
	arm := arms[t.CfgDraw(len(arms))]
	r.Arm = arm
	initStatic := keyFromTape(t)
	respStatic := keyFromTape(t)
	initEph := keyFromTape(t)
	respEph := keyFromTape(t)
	otherStatic := keyFromTape(t)
	partial := t.CfgDraw(3) != 0
	frag := t.CfgDraw(3) != 0

	target := respStatic.PubKey()
	if arm == "wrong-static-key" {
		target = otherStatic.PubKey()
	}
	mi := NewBrontideMachine(true, &keychain.PrivKeyECDH{PrivKey: initStatic}, target,
		EphemeralGenerator(func() (*btcec.PrivateKey, error) { return initEph, nil }))
	mr := NewBrontideMachine(false, &keychain.PrivKeyECDH{PrivKey: respStatic}, nil,
		EphemeralGenerator(func() (*btcec.PrivateKey, error) { return respEph, nil }))

	// ---- handshake ------------------------------------------------------
	tamperAct := 0 // 1,2,3: which act the attacker alters
	if arm == "handshake-attack" {
		tamperAct = 1 + t.CfgDraw(3)
	}
	tamper := func(act int, b []byte) {
		if tamperAct != act {
			return
		}
		r.Step()
		r.Kind(fmt.Sprintf("tamper-act%d", act))
		pos := r.Draw(len(b))
		bit := byte(1) << uint(r.Draw(8))
		b[pos] ^= bit
		r.Count("fault_handshake_tamper")
		r.Logf("attacker flips bit %02x of byte %d in act %d", bit, pos, act)
	}
	expectOK := arm != "wrong-static-key" && tamperAct == 0
	// Half of the runs do the handshake the way lnd's callers do: Dial on one
	// side, Listener.doHandshake on the other, over a blocking pipe that
	// hands every act over in pieces of drawn sizes (a TCP stream has no
	// message boundaries). Drawn after the keys so that older tapes keep
	// their meaning for everything before it.
	connLevel := t.CfgDraw(2) == 1
	if connLevel {
		r.Count("probe_conn_level_handshake")
		ci, cr, err := connHandshake(r, initStatic, respStatic, target, tamperAct)
		r.Logf("conn-level handshake arm=%s -> err=%v", arm, err)
		if expectOK && err != nil {
			r.Fail("handshake-fails", "Dial towards the responder's real static key over an unmodified (fragmenting) byte stream failed: %v", err)
		}
		if !expectOK {
			if err == nil {
				r.Fail("handshake-accepts", "Dial/Listener handshake completed although arm=%s (wrong static key or altered act %d)", arm, tamperAct)
			}
			r.Nontrivial = true
			return
		}
		mi, mr = ci.noise, cr.noise
	}
	hsErr := func() error {
		if connLevel {
			return nil
		}
		a1, err := mi.GenActOne()
		if err != nil {
			return fmt.Errorf("GenActOne: %w", err)
		}
		tamper(1, a1[:])
		if err := mr.RecvActOne(a1); err != nil {
			return fmt.Errorf("RecvActOne: %w", err)
		}
		a2, err := mr.GenActTwo()
		if err != nil {
			return fmt.Errorf("GenActTwo: %w", err)
		}
		tamper(2, a2[:])
		if err := mi.RecvActTwo(a2); err != nil {
			return fmt.Errorf("RecvActTwo: %w", err)
		}
		a3, err := mi.GenActThree()
		if err != nil {
			return fmt.Errorf("GenActThree: %w", err)
		}
		tamper(3, a3[:])
		if err := mr.RecvActThree(a3); err != nil {
			return fmt.Errorf("RecvActThree: %w", err)
		}
		return nil
	}()
	r.Logf("handshake arm=%s initiator=%x responder=%x target=%x -> err=%v", arm, initStatic.PubKey().SerializeCompressed()[:6],
		respStatic.PubKey().SerializeCompressed()[:6], target.SerializeCompressed()[:6], hsErr)
	if expectOK && hsErr != nil {
		r.Fail("handshake-fails", "honest handshake towards the responder's real static key failed: %v", hsErr)
	}
	if !expectOK {
		if hsErr == nil {
			r.Fail("handshake-accepts", "handshake completed although arm=%s (wrong static key or altered act %d)", arm, tamperAct)
		}
		r.Nontrivial = true
		return
	}
	if mi.sendCipher.secretKey != mr.recvCipher.secretKey || mi.recvCipher.secretKey != mr.sendCipher.secretKey ||
		!bytes.Equal(mi.sendCipher.salt[:], mr.recvCipher.salt[:]) || !bytes.Equal(mi.recvCipher.salt[:], mr.sendCipher.salt[:]) {
		r.Fail("key-mismatch", "after the handshake one side's send key/salt differs from the other's receive key/salt")
	}
	if mi.sendCipher.secretKey == mi.recvCipher.secretKey {
		r.Fail("key-mismatch", "send and receive keys are identical (reflection would verify)")
	}
	if !mr.remoteStatic.IsEqual(initStatic.PubKey()) {
		r.Fail("key-mismatch", "responder learned a wrong initiator static key")
	}

	// ---- transport ------------------------------------------------------
	wAB, wBA := &simWire{}, &simWire{}
	fired := 0
	mk := func(name string, m *Machine, in, out *simWire) *noiseSide {
		e := &simEnd{r: r, in: in, out: out, partialWrites: partial, fragReads: frag, faultsFired: &fired, cutAfter: -1}
		return &noiseSide{name: name, m: m, end: e, conn: &Conn{conn: e, noise: m}, used: map[nonceKey]struct{}{}}
	}
	sides := [2]*noiseSide{mk("I", mi, wBA, wAB), mk("R", mr, wAB, wBA)}
	noiseCheckKeys(r, sides[0])
	noiseCheckKeys(r, sides[1])
	wires := [2]*simWire{wAB, wBA} // wires[x]: written by side x
	if arm == "benign-duplex" {
		installDuplex(r, sides)
	}

	maxSteps := 60 + 40*t.CfgDraw(4)
	if arm == "benign-long" {
		maxSteps = 1100 + 600*t.CfgDraw(3)
		if r.Tier == "thorough" {
			maxSteps = 1600 + 700*t.CfgDraw(4)
		}
	}
	attackAt := -1
	if arm == "transport-attack" {
		attackAt = 1 + t.CfgDraw(maxSteps-1)
	}
	// short arm that starts near a rotation boundary
	if arm != "benign-long" && t.CfgDraw(3) == 0 {
		pre := 495 + t.CfgDraw(6)
		dir := t.CfgDraw(2)
		r.Step()
		r.Kind("prelude")
		for i := 0; i < pre; i++ {
			noiseWrite(r, sides[dir], nil, false)
			noiseReadAll(r, sides[1-dir], sides[dir])
		}
		r.Count("probe_started_near_rotation")
	}
	delivered := 0
	for step := 0; step < maxSteps && r.Step(); step++ {
		if step == attackAt {
			noiseAttack(r, sides, wires)
			r.Nontrivial = true
			return
		}
		x := r.Draw(2)
		if arm == "benign-long" && r.Draw(10) != 9 {
			x = 0 // mostly one direction, to cross rotations
		}
		switch r.Draw(5) {
		case 4: // read what is pending for side x
			r.Kind("read:" + sides[x].name)
			delivered += noiseReadAll(r, sides[x], sides[1-x])
		default:
			r.Kind("write:" + sides[x].name)
			var size int
			switch r.Draw(9) {
			case 0:
				size = 0
			case 1:
				size = 1
			case 2:
				size = 2
			case 3:
				size = 65535
			case 4:
				size = 65534
			case 5:
				size = r.Draw(65536)
			default:
				size = r.Draw(300)
			}
			if arm == "benign-long" && size > 400 && r.Draw(40) != 39 {
				size = size % 37
			}
			msg := make([]byte, size)
			if size > 0 {
				t.Bytes(msg)
			}
			useConnWrite := r.Draw(4) == 3
			if large := r.Draw(24); large >= 22 && arm != "benign-long" {
				// Conn.Write of more than one record's worth of bytes
				big := make([]byte, []int{65536, 65537 + r.Draw(70000), 131070 + r.Draw(4)}[r.Draw(3)])
				t.Bytes(big)
				noiseWriteLarge(r, sides[x], big)
			} else {
				noiseWrite(r, sides[x], msg, useConnWrite)
			}
			if r.Draw(3) != 0 {
				delivered += noiseReadAll(r, sides[1-x], sides[x])
			}
		}
		r.State(fmt.Sprintf("%d|%d|%d|%d", sides[0].m.sendCipher.nonce/100, sides[1].m.sendCipher.nonce/100, sides[0].rot, sides[1].rot))
	}
	// wind-down: no more role switches inside operations
	sides[0].end.hook, sides[1].end.hook = nil, nil
	delivered += noiseReadAll(r, sides[0], sides[1])
	delivered += noiseReadAll(r, sides[1], sides[0])
	for x := 0; x < 2; x++ {
		if sides[1-x].readIdx != len(sides[x].sent) {
			r.Fail("lost-message", "%s wrote %d messages, peer read %d after draining", sides[x].name, len(sides[x].sent), sides[1-x].readIdx)
		}
		if len(wires[x].buf) != 0 {
			r.Fail("stray-bytes", "%d undelivered bytes remain on the wire after all messages were read", len(wires[x].buf))
		}
		r.Add("rotations", int64(sides[x].rot))
	}
	// epilogue (a step of its own at the very end: older replay files end
	// before it): a caller gives up on a message whose flush timed out
	if r.Step() {
		r.Kind("abandon")
		if x := r.Draw(3); x < 2 {
			noiseAbandon(r, sides[x], sides[1-x])
		}
	}
	r.Add("messages", int64(delivered))
	if sides[0].rot+sides[1].rot >= 2 {
		r.Count("probe_two_rotations")
	}
	r.Nontrivial = delivered >= 5 && (fired > 0 || (!partial && !frag))
}

// noiseWrite writes one message with the send-side oracles (nonce
// discipline, flush accounting).
func noiseWrite(r *simcore.Run, s *noiseSide, msg []byte, useConnWrite bool) {
	if s.pre != nil {
		defer s.pre(true)()
	}
	c := &s.m.sendCipher
	before := nonceKey{c.secretKey, c.nonce}
	for i := uint64(0); i < 2; i++ {
		k := nonceKey{before.key, before.nonce + i}
		if _, dup := s.used[k]; dup {
			r.Fail("nonce-reuse", "%s is about to encrypt with a (key, nonce=%d) pair it already used", s.name, k.nonce)
		}
		s.used[k] = struct{}{}
	}
	start := len(s.end.out.buf)
	total := 0
	if useConnWrite {
		// Conn.Write: WriteMessage + one Flush; on a timeout the
		// caller (like peer.writeMessage) keeps flushing.
		n, err := s.conn.Write(msg)
		total = n
		for tries := 0; err != nil; tries++ {
			var ne net.Error
			if !errors.As(err, &ne) || !ne.Timeout() || tries > 200 {
				r.Fail("write-error", "%s Conn.Write/Flush: %v", s.name, err)
			}
			noiseImpatientWrite(r, s)
			n, err = s.conn.Flush()
			total += n
		}
	} else {
		if err := s.conn.WriteMessage(msg); err != nil {
			r.Fail("write-error", "%s WriteMessage(len=%d): %v", s.name, len(msg), err)
		}
		for tries := 0; ; tries++ {
			n, err := s.conn.Flush()
			total += n
			if err == nil {
				break
			}
			var ne net.Error
			if !errors.As(err, &ne) || !ne.Timeout() || tries > 200 {
				r.Fail("write-error", "%s Flush: %v", s.name, err)
			}
			noiseImpatientWrite(r, s)
		}
	}
	if total != len(msg) {
		r.Fail("flush-accounting", "%s: Flush reported %d plaintext bytes in total for a %d byte message", s.name, total, len(msg))
	}
	if n, _ := s.conn.Flush(); n != 0 {
		r.Fail("flush-accounting", "%s: Flush with nothing pending reported %d bytes", s.name, n)
	}
	wrote := len(s.end.out.buf) - start
	if wrote != 18+len(msg)+16 {
		r.Fail("frame-size", "%s: a %d byte message put %d bytes on the wire, expected %d", s.name, len(msg), wrote, 18+len(msg)+16)
	}
	after := nonceKey{c.secretKey, c.nonce}
	switch {
	case before.nonce+2 == keyRotationInterval:
		if after.nonce != 0 || after.key == before.key {
			r.Fail("rotation", "%s: after %d encryptions the key must rotate and the nonce restart (nonce=%d, key changed=%v)", s.name, keyRotationInterval, after.nonce, after.key != before.key)
		}
		s.rot++
		r.Count("probe_key_rotation")
	default:
		if after.nonce != before.nonce+2 || after.key != before.key {
			r.Fail("nonce-step", "%s: nonce went %d -> %d for one message (key changed=%v)", s.name, before.nonce, after.nonce, after.key != before.key)
		}
	}
	noiseCheckKeys(r, s)
	s.sent = append(s.sent, append([]byte(nil), msg...))
	s.frames = append(s.frames, append([]byte(nil), s.end.out.buf[start:]...))
}

// noiseAbandon: a message is buffered, its flush times out with at least one
// and not all of its bytes on the wire, and the caller gives up on it the way
// lnd's peer does after a write error (Conn.ClearPendingSend), then sends
// another message on the same connection. The two records of the new message
// must be sealed under (key, nonce) pairs that were never used - part of the
// abandoned ciphertext is out - and the peer, whose stream now holds a
// truncated record, must get an error and no data.
func noiseAbandon(r *simcore.Run, s, peer *noiseSide) {
	c := &s.m.sendCipher
	msg := make([]byte, 1+r.Draw(300))
	r.Tape.Bytes(msg)
	frame := 18 + len(msg) + 16
	cut := 1 + r.Draw(frame-1)
	for i := uint64(0); i < 2; i++ {
		k := nonceKey{c.secretKey, c.nonce + i}
		if _, dup := s.used[k]; dup {
			r.Fail("nonce-reuse", "%s is about to encrypt with a (key, nonce=%d) pair it already used", s.name, k.nonce)
		}
		s.used[k] = struct{}{}
	}
	s.end.cutAfter = cut
	if err := s.conn.WriteMessage(msg); err != nil {
		r.Fail("write-error", "%s WriteMessage(len=%d): %v", s.name, len(msg), err)
	}
	_, err := s.conn.Flush()
	var ne net.Error
	if err == nil || !errors.As(err, &ne) || !ne.Timeout() {
		r.Fail("write-error", "%s: Flush over a writer that accepts %d of %d bytes and then times out returned %v", s.name, cut, frame, err)
	}
	s.conn.ClearPendingSend()
	s.end.cutAfter = -1
	s.end.partialWrites = false // the next message goes out in one piece
	r.Count("probe_send_abandoned_after_partial_flush")
	r.Logf("%s abandons a %d byte message after %d of %d ciphertext bytes went out", s.name, len(msg), cut, frame)

	next := []byte("after the abandoned message")
	for i := uint64(0); i < 2; i++ {
		k := nonceKey{c.secretKey, c.nonce + i}
		if _, dup := s.used[k]; dup {
			r.Fail("nonce-reuse", "%s gave up on a message of which %d ciphertext bytes had gone out (ClearPendingSend) and seals the next message with (key, nonce=%d), a pair the abandoned message was encrypted with", s.name, cut, k.nonce)
		}
		s.used[k] = struct{}{}
	}
	if err := s.conn.WriteMessage(next); err != nil {
		r.Fail("write-error", "%s WriteMessage after ClearPendingSend: %v", s.name, err)
	}
	if _, err := s.conn.Flush(); err != nil {
		r.Fail("write-error", "%s Flush after ClearPendingSend: %v", s.name, err)
	}
	peer.end.fragReads = false
	if got, err := peer.conn.ReadNextMessage(); err == nil {
		r.Fail("truncated-stream-yields-data", "%s reads a %d byte message from a stream that holds a truncated record (%d of %d bytes) followed by another record", peer.name, len(got), cut, frame)
	}
}

// noiseImpatientWrite is a caller that, after a write timed out, tries to
// write a new message instead of resuming the flush. The Machine has one
// pending slot, so the attempt has to be refused; if it is accepted the
// ciphertext still owed to the wire is replaced and the peer can never read
// the interrupted message.
func noiseImpatientWrite(r *simcore.Run, s *noiseSide) {
	m := s.m
	if len(m.nextHeaderSend) == 0 && len(m.nextBodySend) == 0 {
		return // the interrupted write happens to be complete
	}
	if !r.Chance(1, 4) {
		return
	}
	hdr := append([]byte(nil), m.nextHeaderSend...)
	body := append([]byte(nil), m.nextBodySend...)
	err := s.conn.WriteMessage([]byte("impatient"))
	if err == nil {
		what := "dropped silently"
		if !bytes.Equal(hdr, m.nextHeaderSend) || !bytes.Equal(body, m.nextBodySend) {
			what = "put in place of the ciphertext still owed to the wire"
		}
		r.Fail("interrupted-write-overwritten", "%s: a write timed out with %d header and %d body bytes of the message still unflushed; a new WriteMessage was accepted and %s: the peer cannot read the interrupted message any more",
			s.name, len(hdr), len(body), what)
	}
	r.Count("probe_write_refused_while_unflushed")
	if len(hdr) == 0 {
		r.Count("probe_write_refused_with_only_body_unflushed")
	}
}

// noiseWriteLarge writes more than 65535 bytes through Conn.Write, which
// splits them into maximal records. An interrupted call is resumed the way an
// io.Writer is: finish the record in flight with Flush, then Write what is
// left. The reader must see the same bytes, record by record.
func noiseWriteLarge(r *simcore.Run, s *noiseSide, b []byte) {
	if s.pre != nil {
		defer s.pre(true)()
	}
	c := &s.m.sendCipher
	k0, n0 := c.secretKey, c.nonce
	start := len(s.end.out.buf)
	off := 0
	for guard := 0; off < len(b); guard++ {
		if guard > 400 {
			r.Fail("write-error", "%s: Conn.Write of %d bytes made no progress after 400 resumes (at %d)", s.name, len(b), off)
		}
		n, err := s.conn.Write(b[off:])
		off += n
		for tries := 0; err != nil; tries++ {
			var ne net.Error
			if !errors.As(err, &ne) || !ne.Timeout() || tries > 200 {
				r.Fail("write-error", "%s Conn.Write/Flush (chunked, %d of %d): %v", s.name, off, len(b), err)
			}
			r.Count("probe_chunked_write_interrupted")
			noiseImpatientWrite(r, s)
			var m int
			m, err = s.conn.Flush()
			off += m
		}
	}
	if off != len(b) {
		r.Fail("flush-accounting", "%s: Conn.Write/Flush reported %d plaintext bytes in total for a %d byte payload", s.name, off, len(b))
	}
	var chunks [][]byte
	for rest := b; len(rest) > 0; {
		n := len(rest)
		if n > math.MaxUint16 {
			n = math.MaxUint16
		}
		chunks = append(chunks, append([]byte(nil), rest[:n]...))
		rest = rest[n:]
	}
	wire := s.end.out.buf[start:]
	want := 0
	for _, ch := range chunks {
		want += 18 + len(ch) + 16
	}
	if len(wire) != want {
		r.Fail("frame-size", "%s: a %d byte payload (%d records) put %d bytes on the wire, expected %d", s.name, len(b), len(chunks), len(wire), want)
	}
	enc := uint64(2 * len(chunks))
	after := nonceKey{c.secretKey, c.nonce}
	for j := uint64(0); j < enc; j++ {
		k := nonceKey{k0, n0 + j}
		if n0+j >= keyRotationInterval {
			k = nonceKey{after.key, n0 + j - keyRotationInterval}
		}
		if _, dup := s.used[k]; dup {
			r.Fail("nonce-reuse", "%s encrypted with a (key, nonce=%d) pair it already used", s.name, k.nonce)
		}
		s.used[k] = struct{}{}
	}
	if n0+enc >= keyRotationInterval {
		if after.nonce != n0+enc-keyRotationInterval || after.key == k0 {
			r.Fail("rotation", "%s: after %d encryptions the key must rotate and the nonce restart (nonce=%d, key changed=%v)", s.name, keyRotationInterval, after.nonce, after.key != k0)
		}
		s.rot++
		r.Count("probe_key_rotation")
	} else if after.nonce != n0+enc || after.key != k0 {
		r.Fail("nonce-step", "%s: nonce went %d -> %d for %d records (key changed=%v)", s.name, n0, after.nonce, len(chunks), after.key != k0)
	}
	for _, ch := range chunks {
		n := 18 + len(ch) + 16
		s.sent = append(s.sent, ch)
		s.frames = append(s.frames, append([]byte(nil), wire[:n]...))
		wire = wire[n:]
	}
	r.Count("probe_chunked_conn_write")
}

// noiseReadAll reads every complete message pending for reader s.
func noiseReadAll(r *simcore.Run, s, peer *noiseSide) int {
	n := 0
	for s.readIdx < len(peer.sent) {
		before := s.readIdx
		noiseReadOne(r, s, peer)
		// a nested writer of the peer cannot run here (only s is active),
		// but a nested reader of s cannot either: exactly one message read
		n += s.readIdx - before
	}
	return n
}

// noiseReadOne reads the next pending message for reader s.
func noiseReadOne(r *simcore.Run, s, peer *noiseSide) {
	if s.pre != nil {
		defer s.pre(false)()
	}
	{
		want := peer.sent[s.readIdx]
		if len(s.end.in.buf) < 18+len(want)+16 {
			r.Fail("lost-bytes", "%s: wire holds %d bytes, next message needs %d", s.name, len(s.end.in.buf), 18+len(want)+16)
		}
		var got []byte
		var err error
		if r.Draw(3) == 2 && len(want) > 0 {
			// stream-style read through Conn.Read with a small buffer
			got = make([]byte, 0, len(want))
			chunk := make([]byte, 1+r.Draw(len(want)))
			for len(got) < len(want) {
				k, e := s.conn.Read(chunk)
				if e != nil {
					err = e
					break
				}
				got = append(got, chunk[:k]...)
			}
		} else {
			got, err = s.conn.ReadNextMessage()
			if err == nil {
				s.kept = append(s.kept, got)
				s.keptIdx = append(s.keptIdx, s.readIdx)
				if len(s.kept) > 4 {
					s.kept, s.keptIdx = s.kept[1:], s.keptIdx[1:]
				}
			}
		}
		if err != nil {
			r.Fail("read-error", "%s: reading an untampered message failed: %v", s.name, err)
		}
		if !bytes.Equal(got, want) {
			r.Fail("altered-data", "%s: read %d bytes that differ from message #%d the peer wrote (%d bytes)", s.name, len(got), s.readIdx, len(want))
		}
		s.readIdx++
		noiseCheckKept(r, s, peer)
		noiseCheckKeys(r, s)
	}
}

// ---- connection-level handshake ------------------------------------------

// hsWire is one direction of a blocking in-memory byte stream.
type hsWire struct {
	mu     *sync.Mutex
	cond   *sync.Cond
	buf    []byte
	closed bool
	// pieces: sizes in which the reader is handed the stream (round robin);
	// drawn before the two goroutines start
	pieces []int
	next   int
	// attacker: flip flipBit of the byte at stream offset flipAt (-1: none)
	flipAt  int
	flipBit byte
	written int
	frags   int
	// log: every byte ever written (what an on-path observer records)
	log []byte
	// holdAt >= 0: the reader is not handed bytes at stream offsets >= holdAt
	// until the gate is lifted (the observer delays the rest of the stream)
	holdAt  int
	readOff int
}

type hsEnd struct {
	in, out *hsWire
}

func (e *hsEnd) Write(p []byte) (int, error) {
	w := e.out
	w.mu.Lock()
	defer w.mu.Unlock()
	if w.closed {
		return 0, io.ErrClosedPipe
	}
	q := append([]byte(nil), p...)
	if w.flipAt >= w.written && w.flipAt < w.written+len(q) {
		q[w.flipAt-w.written] ^= w.flipBit
	}
	w.written += len(q)
	w.buf = append(w.buf, q...)
	w.log = append(w.log, q...)
	w.cond.Broadcast()
	return len(p), nil
}

func (e *hsEnd) Read(p []byte) (int, error) {
	w := e.in
	w.mu.Lock()
	defer w.mu.Unlock()
	avail := func() int {
		a := len(w.buf)
		if w.holdAt >= 0 && w.readOff+a > w.holdAt {
			a = w.holdAt - w.readOff
			if a < 0 {
				a = 0
			}
		}
		return a
	}
	for avail() == 0 {
		if w.closed {
			return 0, io.EOF
		}
		w.cond.Wait()
	}
	n := len(p)
	if n > avail() {
		n = avail()
	}
	if len(w.pieces) > 0 {
		k := w.pieces[w.next%len(w.pieces)]
		w.next++
		if k < n {
			n = k
			w.frags++
		}
	}
	copy(p, w.buf[:n])
	w.buf = w.buf[n:]
	w.readOff += n
	return n, nil
}

func (e *hsEnd) Close() error {
	for _, w := range []*hsWire{e.in, e.out} {
		w.mu.Lock()
		w.closed = true
		w.cond.Broadcast()
		w.mu.Unlock()
	}
	return nil
}
func (e *hsEnd) LocalAddr() net.Addr                { return &net.TCPAddr{} }
func (e *hsEnd) RemoteAddr() net.Addr               { return &net.TCPAddr{} }
func (e *hsEnd) SetDeadline(t time.Time) error      { return nil }
func (e *hsEnd) SetReadDeadline(t time.Time) error  { return nil }
func (e *hsEnd) SetWriteDeadline(t time.Time) error { return nil }

// connHandshake runs brontide.Dial against Listener.doHandshake. The two
// calls block on each other, so they run on two goroutines; at any time only
// one of them can make progress (the protocol alternates strictly), every
// piece size and the attacker's bit are drawn beforehand, so the run replays.
func connHandshake(r *simcore.Run, initStatic, respStatic *btcec.PrivateKey, target *btcec.PublicKey, tamperAct int) (*Conn, *Conn, error) {
	var mu sync.Mutex
	mkWire := func() *hsWire {
		w := &hsWire{mu: &mu, flipAt: -1, holdAt: -1}
		w.cond = sync.NewCond(&mu)
		if r.Tape.CfgDraw(4) != 0 {
			n := 1 + r.Tape.CfgDraw(6)
			for i := 0; i < n; i++ {
				w.pieces = append(w.pieces, 1+r.Tape.CfgDraw(70))
			}
		}
		return w
	}
	wIR, wRI := mkWire(), mkWire()
	if tamperAct != 0 {
		r.Step()
		r.Kind(fmt.Sprintf("tamper-act%d", tamperAct))
		size := map[int]int{1: ActOneSize, 2: ActTwoSize, 3: ActThreeSize}[tamperAct]
		pos := r.Draw(size)
		bit := byte(1) << uint(r.Draw(8))
		w, off := wIR, 0
		switch tamperAct {
		case 2:
			w = wRI
		case 3:
			off = ActOneSize
		}
		w.flipAt, w.flipBit = off+pos, bit
		r.Count("fault_handshake_tamper")
		r.Logf("attacker flips bit %02x of byte %d in act %d (on the wire)", bit, pos, tamperAct)
	}
	endI, endR := &hsEnd{in: wRI, out: wIR}, &hsEnd{in: wIR, out: wRI}
	// Replay arm (honest handshakes only, one in three): an on-path observer
	// without any private key delays the initiator's act three, replays the
	// recorded act one on a second connection to the same listener while the
	// first handshake is still open, and then replays the recorded act three
	// there. The second handshake must fail, and the listener's two act twos
	// must differ (a fresh ephemeral key per handshake).
	replay := tamperAct == 0 && target.IsEqual(respStatic.PubKey()) && r.Tape.CfgDraw(3) == 2
	if replay {
		wIR.holdAt = ActOneSize
	}

	// The listener is built by lnd's own constructor (whatever state it
	// prepares is lnd's), on a loopback socket nobody connects to; the
	// handshakes are handed to doHandshake directly over the simulated
	// streams.
	l, err := NewListener(&keychain.PrivKeyECDH{PrivKey: respStatic}, "127.0.0.1:0",
		func(*btcec.PublicKey) (bool, error) { return true, nil })
	if err != nil {
		// no loopback socket to be had: build the struct by hand (state the
		// constructor would have prepared is then missing)
		r.Count("listener_built_by_hand_no_loopback")
		l = &Listener{
			localStatic:   &keychain.PrivKeyECDH{PrivKey: respStatic},
			shouldAccept:  func(*btcec.PublicKey) (bool, error) { return true, nil },
			handshakeSema: make(chan struct{}, 2),
			conns:         make(chan maybeConn, 2),
			quit:          make(chan struct{}),
		}
	} else {
		defer l.Close()
		for i := 0; i < 2; i++ {
			// doHandshake hands its slot back when it returns; take the
			// slots the accept loop would have taken
			<-l.handshakeSema
		}
	}
	go l.doHandshake(endR)

	type dialRes struct {
		c   *Conn
		err error
	}
	dialed := make(chan dialRes, 1)
	go func() {
		c, err := Dial(&keychain.PrivKeyECDH{PrivKey: initStatic},
			&lnwire.NetAddress{IdentityKey: target, Address: &net.TCPAddr{IP: net.IPv4(127, 0, 0, 1), Port: 9735}},
			time.Minute, func(string, string, time.Duration) (net.Conn, error) { return endI, nil })
		dialed <- dialRes{c, err}
	}()
	const patience = 2 * time.Minute // real time; only a hang ever gets there
	var d dialRes
	select {
	case d = <-dialed:
	case <-time.After(patience):
		endI.Close()
		r.Fail("handshake-hangs", "Dial did not return: both sides wait for bytes that never come")
	}
	if d.err != nil {
		// the dialer gave up and closed; the listener side ends with an error
		endI.Close()
	}
	if replay && d.err == nil {
		r.Count("fault_handshake_replayed_on_second_connection")
		mu.Lock()
		rec := append([]byte(nil), wIR.log...)
		act2 := append([]byte(nil), wRI.log...)
		mu.Unlock()
		if len(rec) != ActOneSize+ActThreeSize || len(act2) != ActTwoSize {
			r.Harness("replay arm: recorded %d bytes initiator->responder, %d back", len(rec), len(act2))
		}
		w2IR, w2RI := mkWire(), mkWire()
		w2IR.pieces, w2RI.pieces = nil, nil
		atk, end2 := &hsEnd{in: w2RI, out: w2IR}, &hsEnd{in: w2IR, out: w2RI}
		go l.doHandshake(end2)
		_, _ = atk.Write(rec[:ActOneSize])
		var act2b [ActTwoSize]byte
		if _, err := io.ReadFull(atk, act2b[:]); err != nil {
			r.Fail("handshake-fails", "the listener did not answer a second, concurrent handshake that starts with a valid act one: %v", err)
		}
		if bytes.Equal(act2b[:], act2) {
			r.Fail("ephemeral-reuse", "the listener answered two concurrent handshakes with byte-identical act twos: it used the same ephemeral key for both (a recorded session can be replayed, and both sessions encrypt under the same keys)")
		}
		_, _ = atk.Write(rec[ActOneSize:])
		var a2 maybeConn
		select {
		case a2 = <-l.conns:
		case <-time.After(patience):
			r.Fail("handshake-hangs", "Listener.doHandshake did not finish on the replayed connection")
		}
		if a2.err == nil {
			r.Fail("handshake-accepts-replay", "an observer holding no private key completed a handshake with the listener by replaying the recorded acts one and three of an honest initiator on a second connection")
		}
		atk.Close()
		// let the honest handshake finish
		mu.Lock()
		wIR.holdAt = -1
		wIR.cond.Broadcast()
		mu.Unlock()
	}
	var a maybeConn
	select {
	case a = <-l.conns:
	case <-time.After(patience):
		endI.Close()
		r.Fail("handshake-hangs", "Listener.doHandshake did not finish")
	}
	if wIR.frags+wRI.frags > 0 {
		r.Count("fault_handshake_act_delivered_in_pieces")
	}
	if d.err != nil {
		return nil, nil, fmt.Errorf("Dial: %w", d.err)
	}
	if a.err != nil {
		return nil, nil, fmt.Errorf("Listener: %w", a.err)
	}
	return d.c, a.conn, nil
}

type keyShadow struct {
	ck, key [32]byte
	init    bool
}

// noiseCheckKeys: BOLT 8 "ck', k' = HKDF(ck, k)" per direction. After every
// operation both ciphers of the side are compared with the simulator's own
// schedule: a key changes only by that derivation from ITS OWN direction's
// chaining key, and a chaining key changes only together with its key (state
// shared between the two directions would show here at the first rotation,
// whatever the traffic pattern).
func noiseCheckKeys(r *simcore.Run, s *noiseSide) {
	for i, c := range []*cipherState{&s.m.sendCipher, &s.m.recvCipher} {
		which := [...]string{"send", "receive"}[i]
		sh := &s.shadow[i]
		if !sh.init {
			copy(sh.ck[:], c.salt[:])
			sh.key, sh.init = c.secretKey, true
			continue
		}
		for n := 0; n < 3 && c.secretKey != sh.key; n++ {
			h := hkdf.New(sha256.New, sh.key[:], sh.ck[:], nil)
			var ck, k [32]byte
			_, _ = io.ReadFull(h, ck[:])
			_, _ = io.ReadFull(h, k[:])
			sh.ck, sh.key = ck, k
			r.Count("key_schedule_rotations_checked")
		}
		if c.secretKey != sh.key {
			r.Fail("key-derivation", "%s: the %s key is not HKDF(ck, k) of that direction's previous chaining key and key (BOLT 8 key rotation)", s.name, which)
		}
		if !bytes.Equal(c.salt[:], sh.ck[:]) {
			r.Fail("key-derivation", "%s: the chaining key of the %s cipher is not the one BOLT 8 prescribes for this direction after its rotations (it changed without a rotation of this direction, or was derived from another direction's state)", s.name, which)
		}
	}
}

// noiseCheckKept: a message that was read correctly stays what it was. The
// slices handed out by earlier reads are compared again with what the peer
// wrote (a buffer shared between reads would be overwritten by the next one).
func noiseCheckKept(r *simcore.Run, s, peer *noiseSide) {
	for i, b := range s.kept {
		idx := s.keptIdx[i]
		if idx < len(peer.sent) && !bytes.Equal(b, peer.sent[idx]) {
			r.Fail("altered-after-read", "%s: message #%d (%d bytes) was read correctly, but the slice the read returned no longer holds what the peer wrote after %d later read(s): a later operation overwrote it",
				s.name, idx, len(peer.sent[idx]), s.readIdx-1-idx)
		}
	}
	if len(s.kept) > 1 {
		r.Count("kept_message_checks")
	}
}

// noiseAttack: alter the ciphertext in flight, then let the victim read.
func noiseAttack(r *simcore.Run, sides [2]*noiseSide, wires [2]*simWire) {
	r.Kind("attack")
	v := r.Draw(2) // victim reads wire written by 1-v
	w := sides[1-v]
	vic := sides[v]
	// make sure at least two frames are in flight towards the victim
	noiseReadAll(r, vic, w)
	for i := 0; i < 2+r.Draw(2); i++ {
		msg := make([]byte, r.Draw(120))
		r.Tape.Bytes(msg)
		noiseWrite(r, w, msg, false)
	}
	wire := wires[1-v]
	first := len(w.frames) - (len(w.sent) - vic.readIdx)
	f0 := w.frames[first]
	kind := r.Draw(8)
	names := []string{"flip", "truncate", "delete-byte", "insert-byte", "swap-frames", "replay-old", "reflect", "splice-foreign"}
	r.Logf("attacker: %s on traffic to %s", names[kind], vic.name)
	r.Count("fault_attack_" + names[kind])
	clean := 0 // frames before the first altered one that must still read fine
	orig := append([]byte(nil), wire.buf...)
	switch kind {
	case 0:
		pos := r.Draw(len(wire.buf))
		wire.buf[pos] ^= 1 << uint(r.Draw(8))
		// frames entirely before pos are untouched
		off := 0
		for i := first; i < len(w.frames); i++ {
			if off+len(w.frames[i]) <= pos {
				clean++
				off += len(w.frames[i])
			} else {
				break
			}
		}
	case 1:
		cut := 1 + r.Draw(len(f0)-1)
		wire.buf = wire.buf[:len(f0)-cut]
	case 2:
		pos := r.Draw(len(f0))
		wire.buf = append(wire.buf[:pos], wire.buf[pos+1:]...)
	case 3:
		pos := r.Draw(len(f0))
		wire.buf = append(wire.buf[:pos], append([]byte{byte(r.Draw(256))}, wire.buf[pos:]...)...)
	case 4:
		f1 := w.frames[first+1]
		rest := append([]byte(nil), wire.buf[len(f0)+len(f1):]...)
		wire.buf = append(append(append([]byte(nil), f1...), f0...), rest...)
	case 5:
		if first == 0 {
			// nothing older: replay the first in-flight frame after itself
			wire.buf = append(append(append([]byte(nil), f0...), f0...), wire.buf[len(f0):]...)
			clean = 1
		} else {
			old := w.frames[r.Draw(first)]
			wire.buf = append(append([]byte(nil), old...), wire.buf...)
		}
	case 6:
		// reflect a frame the victim itself sent
		if len(vic.frames) == 0 {
			noiseWrite(r, vic, []byte("reflect-me"), false)
			noiseReadAll(r, w, vic)
		}
		own := vic.frames[r.Draw(len(vic.frames))]
		wire.buf = append(append([]byte(nil), own...), wire.buf...)
	case 7:
		// a frame from an unrelated session
		foreign := make([]byte, len(f0))
		r.Tape.Bytes(foreign)
		wire.buf = append(foreign, wire.buf...)
	}
	// What the attacker did may leave a prefix of the stream byte-identical
	// (a byte inserted after a run of equal bytes at the end of a frame is an
	// insertion BETWEEN frames; a deleted byte may equal its neighbour): the
	// frames that lie entirely inside the common prefix of the original and
	// the altered stream are untouched and must read intact.
	common := 0
	for common < len(orig) && common < len(wire.buf) && orig[common] == wire.buf[common] {
		common++
	}
	clean = 0
	for off, i := 0, first; i < len(w.frames); i++ {
		if off+len(w.frames[i]) > common {
			break
		}
		off += len(w.frames[i])
		clean++
	}
	// victim reads: the first `clean` frames must arrive intact, then an error
	for i := 0; i < clean; i++ {
		got, err := vic.conn.ReadNextMessage()
		if err != nil || !bytes.Equal(got, w.sent[vic.readIdx]) {
			r.Fail("read-error", "%s: frame before the altered one did not read intact (err=%v)", vic.name, err)
		}
		vic.readIdx++
	}
	got, err := vic.conn.ReadNextMessage()
	if err == nil {
		r.Fail("accepts-altered", "%s: read returned %d bytes of data from ciphertext the attacker altered (%s)", vic.name, len(got), names[kind])
	}
	// Keep reading past the error (lnd's peer would disconnect): whatever a
	// later read returns must be one of the messages the peer wrote after
	// the last one delivered, in order - a message may be lost behind the
	// error, never altered, duplicated or reordered.
	for i := 0; i < 4 && len(vic.end.in.buf) > 0; i++ {
		got, err := vic.conn.ReadNextMessage()
		if err != nil {
			continue
		}
		found := -1
		for j := vic.readIdx; j < len(w.sent); j++ {
			if bytes.Equal(got, w.sent[j]) {
				found = j
				break
			}
		}
		if found < 0 {
			r.Fail("accepts-altered", "%s: after the failed read a later read returned %d bytes that are none of the messages still outstanding", vic.name, len(got))
		}
		vic.readIdx = found + 1
		r.Count("probe_read_continues_after_error")
	}
}

// ---- full-duplex arm ---------------------------------------------------
//
// peer.readHandler and peer.writeHandler use ONE Machine from two goroutines
// without a lock: the send path (WriteMessage/Flush) and the receive path
// (ReadHeader/ReadBody) must not share state. The simulator owns every point
// at which the runtime could switch between those two goroutines of one side
// while an operation is in progress - each Read and Write on the pipe and the
// two buffer-pool Gets inside WriteMessage (through the pools' New callbacks,
// fresh pools are installed for the run) - and lets the tape decide whether
// the side's other role makes progress there (a whole message read, or a
// whole message written). Exactly one goroutine exists; the interleaving is
// the tape's and replays exactly.
type duplexState struct {
	r     *simcore.Run
	sides [2]*noiseSide
	busyR [2]bool
	busyW [2]bool
	// nested writes are bounded (a fragmented read of a large message offers
	// thousands of switch points): at most 2 per read operation, 60 per run
	wInOp  int
	wInRun int
}

func installDuplex(r *simcore.Run, sides [2]*noiseSide) {
	d := &duplexState{r: r, sides: sides}
	origH, origB := headerBufferPool, bodyBufferPool
	r.Cleanup(func() { headerBufferPool, bodyBufferPool = origH, origB })
	cur := -1 // side whose WriteMessage is running (pool Gets are its)
	headerBufferPool = &sync.Pool{New: func() interface{} {
		if cur >= 0 {
			d.other(cur, true, "pool-get-header")
		}
		b := make([]byte, 0, encHeaderSize)
		return &b
	}}
	bodyBufferPool = &sync.Pool{New: func() interface{} {
		if cur >= 0 {
			d.other(cur, true, "pool-get-body")
		}
		b := make([]byte, 0, maxMessageSize)
		return &b
	}}
	for x := 0; x < 2; x++ {
		x := x
		sides[x].end.hook = func(inWrite bool) {
			if inWrite {
				d.other(x, true, "pipe-write")
			} else {
				d.other(x, false, "pipe-read")
			}
		}
		sides[x].pre = func(writing bool) func() {
			// called by noiseWrite / noiseReadOne around the operation
			if writing {
				d.busyW[x] = true
				prev := cur
				cur = x
				// drop pooled buffers so that the next Gets call New
				headerBufferPool = &sync.Pool{New: headerBufferPool.New}
				bodyBufferPool = &sync.Pool{New: bodyBufferPool.New}
				return func() { d.busyW[x] = false; cur = prev }
			}
			d.busyR[x] = true
			d.wInOp = 0
			return func() { d.busyR[x] = false }
		}
	}
}

// other lets side x's other role run at a switch point inside an operation of
// its writing (fromWriter) or reading role.
func (d *duplexState) other(x int, fromWriter bool, where string) {
	r := d.r
	s, peer := d.sides[x], d.sides[1-x]
	if fromWriter {
		if d.busyR[x] || s.readIdx >= len(peer.sent) {
			return
		}
		if len(s.end.in.buf) < 18+len(peer.sent[s.readIdx])+16 {
			return // the next inbound frame is not completely on the wire
		}
		if !r.Chance(1, 2) {
			return
		}
		r.Count("fault_duplex_read_inside_write")
		r.Count("probe_duplex_at_" + where)
		r.Logf("%s: reader runs inside the writer at %s", s.name, where)
		noiseReadOne(r, s, peer)
		return
	}
	if d.busyW[x] || d.wInOp >= 2 || d.wInRun >= 60 || !r.Chance(1, 4) {
		return
	}
	d.wInOp++
	d.wInRun++
	size := r.Draw(400)
	if r.Draw(8) == 0 {
		size = []int{0, 1, 65535}[r.Draw(3)]
	}
	msg := make([]byte, size)
	if size > 0 {
		r.Tape.Bytes(msg)
	}
	r.Count("fault_duplex_write_inside_read")
	r.Count("probe_duplex_at_" + where)
	r.Logf("%s: writer runs inside the reader at %s (%d bytes)", s.name, where, size)
	noiseWrite(r, s, msg, r.Draw(4) == 3)
}

// TestRun is the worker entry point (never returns).
func TestVerifRun(t *testing.T) {
	if os.Getenv("VERIF_PROP") == "" {
		t.Skip("not a verif worker invocation")
	}
	simcore.WorkerMain(simcore.Spec{Property: "C11", Engine: "noisesim", Run: noiseRun})
}
