# Table / manifest entries for property C13 (engine closesim, compiled into package contractcourt).

C13_STUB = {
    "contractcourt.ChannelArbitrator (Start / progressStateMachineAfterRestart / relaunchResolvers, advanceState / stateStep, close-event handlers, resolveContract loop)": "real, one fresh instance per process incarnation inside a testing/synctest bubble",
    "arbitrator log": "real boltArbitratorLog on a bbolt file behind simcore.SimKV: every durable write (CommitState, LogContractResolutions, InsertConfirmedCommitSet, InsertUnresolvedContracts, resolver Checkpoint, SwapContract, ResolveContract, WipeHistory), every write of the real channel database (next entry) and every resolver-report write of the stub (PutResolverReport outside a log tx) is one numbered write transaction of the same file = one crash point",
    "channel database (open / commitment broadcast / pending close / fully closed)": "real: channeldb.CreateWithBackend on the SAME SimKV file as the arbitrator log, with a real open-channel record for the simulated channel (chanstate.OpenChannel written with SyncPending + MarkAsOpen; dummy keys and funding tx, no HTLCs - the HTLC sets stay the C12 model's). cfg.MarkChannelClosed = OpenChannel.CloseChannel(summary, statuses...) and cfg.MarkCommitmentBroadcasted = OpenChannel.MarkCommitmentBroadcasted of the record loaded at boot, as newActiveChannelArbitrator installs them (the simulator, playing the chain watcher, fills RemotePub / Capacity of the summary from that record); a pending-close arbitrator gets neither (loadPendingCloseChannels). At every boot active-vs-pending-close-vs-gone is decided like ChainArbitrator.Start: FetchAllChannels (loadOpenChannels), FetchClosedChannels(true) with CloseType / CloseHeight of the stored summary (loadPendingCloseChannels); republishClosingTxs reads ChanStatusCommitBroadcasted / BroadcastedCommitment of the loaded record. 'Fully closed' and the close record compared by the oracles are read with FetchClosedChannel (IsPending, CloseType, CloseHeight). The database is created before any crash is armed (first execution of a run; later executions start from a byte copy of that file)",
    "contract resolvers (timeout, success, incoming/outgoing contest, commit sweep, anchor, breach): Launch / Resolve / Checkpoint / Encode / decode": "real",
    "restart": "SimKV fenced at the crash (later writes of old goroutines bounce), old arbitrator stopped, SimKV reopened, start state read like ChainArbitrator.Start (getStartState in one read tx), new arbitrator built like newActiveChannelArbitrator / loadPendingCloseChannels (pending-close: no chain events, no channel, CloseType/ClosingHeight from the close record), Start(beat at the current height)",
    "ChainArbitrator.ResolveContract": "real: on a NotifyChannelResolved signal the driver (playing the resolveContracts goroutine) calls (*ChainArbitrator).ResolveContract(chanPoint) on a ChainArbitrator value built in-package with what that method touches (chanSource = the real *channeldb.DB, activeChannels = {chanPoint: the running ChannelArbitrator}, activeWatchers empty); it runs on its own goroutine to quiescence. MarkChanFullyClosed, ChannelArbitrator.Stop and WipeHistory happen in lnd's order with lnd's writes; a crash before / after each of them is enumerated. The oracle 'resolved only while the unresolved-contracts bucket is empty' is evaluated when ResolveContract is entered",
    "PutResolverReport / FetchHistoricalChannel": "simulator (reports in an own bucket of the same file, inside the log's transaction where lnd passes one; fixed channel type)",
    "utxo nursery + nursery store, arm 'legacy+nursery' (one pre-anchor scenario in four; last configuration draw, 0 = the model below)": "real: contractcourt.UtxoNursery over contractcourt.NurseryStore, built like lnd's server (NewNurseryStore(&chainHash, db) on the SAME channeldb / SimKV file as the arbitrator log; NewUtxoNursery(&NurseryConfig{ChainIO, ConfDepth: 1, FetchClosedChannels / FetchClosedChannel of the real channel database, Notifier, PublishTransaction, Store, SweepInput, Budget: default}); Start() BEFORE the arbitrator is started, as server.go orders utxoNursery.Start and chainArb.Start) and ChainArbitratorConfig.IncubateOutputs = nursery.IncubateOutputs. The store's write transactions (Incubate, CribToKinder, PreschoolToKinder, GraduateKinder, RemoveChannel) are numbered writes of the same file = crash points of the same enumeration; in this arm two of three sampled crash points of the quick tier are placed at nursery-store writes. A crash takes the nursery down with the node; at the restart a new store and a new UtxoNursery are built on the reopened database and started (closeAndRemoveIfMature for pending-close channels, reloadPreschool, reloadClasses) before the arbitrator is rebuilt. The nursery outlives the channel's arbitrator (ResolveContract): an execution ends when the channel is fully closed AND every output in the nursery store has graduated, is spent on chain, or can never exist (the counterparty took the HTLC). Seams are the simulator's: best block = simulated height; block epochs for every simulated block (backlog semantics of RegisterBlockEpochNtfn(bestBlock)); confirmation notifications when the chain script confirms a transaction, historical ones dispatched after the registration returned and only if the height hint is not above the confirmation height (a hint of 0 is refused like the real notifier does); PublishTransaction puts the transaction into the chain script's mempool (ErrDoubleSpend if an input is spent by another transaction); SweepInput goes to the chain script's sweeper (broadcast when the CSV / CLTV lock allows, result when the sweep or a foreign spend confirms, at once for an input that is already spent; pending inputs die with the process). The nursery's stubs never park (it calls them under its mutex); one notification at a time to quiescence, IncubateOutputs calls serialised by the arbitrator world's scheduler",
    "chain (notifier, mempool, counterparty), sweeper, utxo nursery (all other arms), witness beacon, invoice registry, breach arbitrator, switch (DeliverResolutionMsg), final-HTLC-outcome store": "simulator; the chain script (who spends which HTLC output how and when, confirmation delay per outpoint, when a preimage turns up, when justice is served) is drawn from the tape at the close trigger and replayed unchanged in every crash execution. Chain state, mempool, nursery store, sweeper tx store, witness cache and final outcomes are durable across a crash; notifier registrations and the sweeper's pending inputs die with the process. Already-confirmed spends are re-notified on registration with their historical details, the sweeper answers an already-spent input at once (ours / ErrRemoteSpend)",
    "chain watcher": "not run; after a restart of a not-yet-closed channel whose funding output is spent the simulator re-dispatches the same close event, as the chain watcher does on its historical spend notification",
    "HTLC sets / commitments / resolutions": "C12 model (synthetic commitments with real resolution structs, anchors or legacy, dust per commitment, duplicates of hashes)",
}
C13_ASSUME = [
    "the node is restarted at once (same height); downtime during which the chain moves on is not simulated - with it 'same outcome as the uninterrupted run' would not be a sound oracle (deadlines pass while the node is down)",
    "bbolt transactions are atomic; crash points are transaction boundaries (before the k-th write / after it committed)",
    "every offered HTLC is a forwarded one and the grace period is 0 (uptime-dependent decisions are reset by a restart by design; C12 covers them); a received HTLC is an exit hop only if its hash is unique, exit-hop knowledge lives in the invoice registry, forwarded-HTLC knowledge in the witness beacon",
    "the chain script never lets a preimage become known in the very block in which a received HTLC with that hash expires (the order of the two notifications is a race inside lnd with two legal outcomes)",
    "relaxations: identical duplicates of upstream resolutions / publishes / sweep requests are allowed and counted; extra publishes or sweep requests that the uninterrupted run never made are counted, not judged; the block count is not compared (a restarted execution gets 6 more blocks); the anchor resolver's report is not compared (stateless, not in the log, races with full resolution already without a crash); re-incubating an offered legacy HTLC at the nursery is not judged",
    "PutFinalHtlcOutcome and the sweeper / witness stores are durable stores of other subsystems, not crash points; the nursery store is one only in the arm 'legacy+nursery' (in the other arms the nursery is a model whose state survives a crash)",
    "arm 'legacy+nursery': which client of the notifier / sweeper (arbitrator or nursery) hears of a confirmation, spend or block first is not defined by lnd; the chain script's salt fixes it per scenario (same in the reference and in every crash execution). Only outputs of OUR pre-anchor commitment reach the nursery (second-level HTLC outputs); commitment outputs and anchor / taproot channels never do in this lnd",
    "arm 'legacy+nursery', counted but not judged: a restarted htlcTimeoutResolver hands its HTLC to the nursery again (by design) and NurseryStore.Incubate ignores a duplicate only while the output is still in the crib; if the output had already graduated, the store ends with a crib / kindergarten entry for an output that is spent, scheduled at a height that has passed (nothing happens to it until the next start). No funds are involved and the statement does not speak of it: probe_nursery_stale_entry_for_swept_output; VERIF_C13_NURSERY_STRICT=1 turns it into the violation nursery-stale-entry (replay: inpkg/contractcourt/findings_c13/N1-stale-nursery-entry-after-reincubation.json)",
    "a panic in a goroutine started by lnd kills the worker (cannot be recovered inside a synctest bubble): reported as worker exit 2 with the Go panic trace, not as a replay file",
    "quick tier samples 14 single and 3 double crash points per scenario; thorough enumerates all 2W single points and W double points (second crash point seeded)",
    "a clean batch is evidence, not proof",
]

CHECK = {
    "C13": dict(
        bin="run_close", build="inpkg", pkg="contractcourt", level="fault_enumeration",
        run_args=["-test.run=^TestVerifRun$", "-test.timeout=0"],
        quick=dict(runs=9600, wall=85), thorough=dict(runs=150000, wall=1500),
        rule="one evaluation = one seeded close scenario (C12 model: 0-7 HTLCs on the local / remote / remote-pending commitments, anchors or legacy, broadcast deltas, heights; pre-close "
             "stimuli: blocks, ContractUpdates, preimage learned, user force close; close trigger local / remote / remote-pending / breach / coop) with a chain script drawn at the close "
             "(counterparty preimage claims and timeouts per HTLC output, confirmation delays per outpoint, preimages turning up, breach justice) run (1) uninterrupted to its terminal "
             "state = reference (W write transactions), then (2) re-run from scratch once per crash point CrashBefore(k)/CrashAfter(k), k in 1..W (quick: 14 seeded points + 3 double "
             "crashes; thorough: all 2W + W double crashes, the second crash inside the epoch after the first restart): fence, stop, reopen, rebuild the arbitrator from disk like "
             "ChainArbitrator.Start, re-deliver close event / historical spends / sweeper answers, continue the same script. Each crash execution is compared with the reference. "
             "Arm legacy+nursery (one pre-anchor scenario in four, decided by the LAST configuration draw; 0 = nursery model): the node also runs lnd's UtxoNursery on a NurseryStore in the same database, "
             "started before the arbitrator at every (re)start; the nursery store's writes are crash points of the same enumeration and two of three sampled points are placed there; local force closes are "
             "made likelier in this arm. "
             "non-trivial = a close was delivered with W>0 and at least one crash fired, the node restarted and the execution was compared to the end; distinct = distinct event-trace hash",
        states_measure="distinct (close kind, arbitrator state, unresolved-contract count) tuples after each block, plus (close kind, in-memory state) at each crash",
        expected_probes=["fault_crash_before", "fault_crash_after", "fault_second_crash", "probe_second_level_tx_with_fee_input",
                         "probe_crash_at_CommitState", "probe_crash_at_LogContractResolutions", "probe_crash_at_InsertConfirmedCommitSet",
                         "probe_crash_at_InsertUnresolvedContracts", "probe_crash_at_SwapContract", "probe_crash_at_ResolveContract",
                         "probe_crash_at_checkpointContract", "probe_crash_at_WipeHistory",
                         "probe_crash_at_CloseChannel", "probe_crash_at_MarkCommitmentBroadcasted", "probe_crash_at_MarkChanFullyClosed", "probe_crash_at_PutResolverReport",
                         "probe_ref_close_local", "probe_ref_close_remote", "probe_ref_close_remote-pending", "probe_ref_close_breach", "probe_ref_close_coop",
                         "probe_ref_fully_resolved", "probe_ref_with_reports", "probe_two_stage_htlc_reached_stage_two",
                         "probe_duplicate_upstream_resolution", "probe_republish_after_restart", "probe_resweep_after_restart",
                         "probe_restart_with_resolved_resolver_in_log", "probe_anchor_report_only_after_restart",
                         "probe_nursery_real_arm", "probe_nursery_ref_with_store_writes", "probe_nursery_incubate_out", "probe_nursery_incubate_in",
                         "probe_nursery_crib_promoted", "probe_nursery_preschool_promoted", "probe_nursery_kinder_graduated", "probe_nursery_channel_removed",
                         "fault_crash_in_nursery_store_write", "fault_crash_nursery_Incubate", "fault_crash_nursery_CribToKinder", "fault_crash_nursery_PreschoolToKinder",
                         "fault_crash_nursery_GraduateKinder", "fault_crash_nursery_RemoveChannel", "probe_nursery_crash_between_two_store_writes",
                         "probe_nursery_restart_with_nonempty_store", "probe_nursery_restart_with_crib_output", "probe_nursery_restart_with_pscl_output",
                         "probe_nursery_restart_with_kndr_output", "probe_nursery_restart_with_grad_output",
                         "probe_nursery_start_registers_conf", "probe_nursery_start_republishes", "probe_nursery_start_resweeps",
                         "probe_nursery_historical_conf", "probe_nursery_sweep_already_spent", "probe_nursery_publish_double_spend",
                         "probe_nursery_resweep_after_restart", "probe_nursery_republish_after_restart",
                         "probe_nursery_promoted_output_back_in_crib", "probe_nursery_stale_entry_for_swept_output"],
        real_vs_stub=C13_STUB, assumptions=C13_ASSUME,
        simulated_time="block heights are simulator events; the synctest fake clock is never advanced by the engine (no lnd timer matters here)",
        determinism="actor engine in synctest bubbles (one bubble and one world per execution); one notification at a time to quiescence, parked stub calls released in key order; "
                    "all draws happen in the reference execution and are replayed from the recording; self-test (with the real channel database): quick 500 runs (9041 crash executions) and thorough 60 runs (2704 crash executions), each in two processes with GOMAXPROCS 1 and 16: identical hashes and counters; 400 runs x 3 processes (GOMAXPROCS default, default, 4; with and without the database-snapshot shortcut) identical. Cost: 0.09 CPU-s per run in the quick tier (18 crash executions per run; 11 runs/s per worker, was 18 with the stub database - the difference is public-key parsing inside the real channeldb reads/writes); 9600 runs = 600 per worker = about 55 s on 16 idle cores. "
                    "With the real-nursery arm (VERIF_C13_NURSERY_ALL=1 forces every pre-anchor scenario into it; never set by the registered command): quick 150 runs (80 in the arm, 2704 crash executions), "
                    "thorough 40 runs (1925 crash executions) and, arms as drawn, quick 300 runs (5416 crash executions), each in four processes with GOMAXPROCS 1/16/1/16: identical hashes and counters. "
                    "The arm costs about 3% of the quick tier's throughput",
    ),
}

TEXT = {
    "C13": dict(engine="closesim", design_ref="DESIGN.md 5 C13",
                technique="deterministic simulation with crash-point enumeration: real ChannelArbitrator + real bolt arbitrator log + real channeldb (same SimKV file) + real ChainArbitrator.ResolveContract + real resolvers in a synctest bubble; "
                          "reference execution vs. one re-execution per durable write (crash before / after it, optional second crash after the restart) under an identical pre-drawn chain script",
                level_text="For every scenario the set of durable writes of the closing state machine is enumerated from the uninterrupted run (state commits, contract resolutions, confirmed "
                           "commit set, commitment-broadcast mark, channel-close record (real CloseChannel), resolver insert / checkpoint / swap / resolve, resolver reports, fully-closed mark (real MarkChanFullyClosed) and log wipe in the order the real ResolveContract performs them). For each chosen write k the scenario "
                           "is re-run with the process dying before or right after write k, restarted from disk at once, and driven to the end with the same chain script. Judged against the "
                           "uninterrupted run: start state loadable and the arbitrator starts; same terminal arbitrator state and close record (read from the real channel database); channel marked fully resolved in the channel database iff the reference was, and only while the "
                           "unresolved-contracts bucket is empty; same set of contract keys ever in the log (none lost, none invented) and same resolver reports (outpoint, type, outcome, spend "
                           "txid); per offered HTLC the same de-duplicated upstream resolution (fail / settle), never both unless the reference already did; same final on-chain outcomes of "
                           "received HTLCs; nothing the reference published or offered to the sweeper is missing; a two-stage HTLC claim that was seen in stage two at a quiescent point is not "
                           "sent back to stage one by a later crash (first-stage input offered again / handed to the nursery again). "
                           "In the arm with the real utxo nursery additionally, from the documented contracts of utxonursery.go / nursery_store.go: the nursery starts on the restarted database; "
                           "observed between any two write transactions, a channel leaves the nursery store only when all its outputs had graduated and an output leaves it in no other way; every crib / "
                           "kindergarten output has its height-index entry and every height-index entry names an output of the channel index; a second-level transaction is not broadcast before its lock "
                           "time; a kindergarten output is offered to the sweeper with the height at which it really confirmed; one output is never offered as two different inputs (offering the identical "
                           "input again after a restart is allowed); NurseryReport agrees with the store (limbo until graduated, nothing when the channel is gone). Against the uninterrupted run: every "
                           "output its nursery held reaches the nursery store; every output it swept and graduated is graduated too or at least spent on chain (none left unswept in the crib or in "
                           "kindergarten); every second-level transaction it broadcast is broadcast and every output it offered to the sweeper is offered, as the same input. The arbitrator may report "
                           "the channel fully resolved only when every ungraduated output of the nursery store is already spent on chain or can never exist.",
                level_note="Trusted: synctest quiescence, the simulator's chain / sweeper model (and nursery model outside the arm with the real utxo nursery), bbolt atomicity. Immediate restart only (no downtime). Two genuine defects found by this check were fixed in lnd (7215c77 restart in StateContractClosed, ac70a5d restored-resolved "
                           "resolver never removed; regression replays under regress/). Known finding (open): C13-F3 a restart between "
                           "InsertConfirmedCommitSet and MarkChannelClosed makes the arbitrator force-close on its own and lose a dust fail-back."),
}

_F1 = ("C13-F1: a resolver whose final Checkpoint persisted it with resolved=true, but whose ResolveContract (separate write) did not happen before the crash, is reloaded by "
       "FetchUnresolvedContracts after the restart, skipped by launchResolvers (IsResolved) and by the resolveContract loop (`for !currentContract.IsResolved()`, "
       "contractcourt/channel_arbitrator.go:2635), so ResolveContract is never called for it; StateWaitingFullResolution counts bucket entries (channel_arbitrator.go:1360-1370) and never reaches "
       "StateFullyResolved: the channel stays pending-close forever. Crash window: between `h.markResolved(); h.Checkpoint(h, report)` of any resolver (htlc_timeout_resolver.go checkpointClaim/"
       "claimCleanUp, htlc_success_resolver.go checkpointClaim, htlc_incoming_contest_resolver.go Resolve, commit_sweep_resolver.go Resolve, breach_resolver.go Resolve) and "
       "c.log.ResolveContract in channel_arbitrator.go:2711. Replay: inpkg/contractcourt/findings_c13/F1-resolved-resolver-never-removed.json")
_F2 = ("C13-F2: restart with the arbitrator log in StateContractClosed (crash after CommitState(StateContractClosed), i.e. before InsertUnresolvedContracts or before "
       "CommitState(StateWaitingFullResolution)). progressStateMachineAfterRestart (contractcourt/channel_arbitrator.go:500-538) substitutes the close trigger only for StateDefault / "
       "StateBroadcastCommit / StateCommitmentBroadcasted, so stateStep(StateContractClosed) (channel_arbitrator.go:1237-1352) runs with chainTrigger; constructChainActions -> "
       "checkCommitChainActions returns an EMPTY action map for chainTrigger when no HTLC is at its broadcast cut-off (channel_arbitrator.go:1932), prepContractResolutions then creates no HTLC "
       "resolvers. Variant a (crash before the insert): the HTLC contracts are never created, the channel is marked fully resolved with HTLC outputs unclaimed / never timed out, upstream "
       "HTLCs never resolved. Variant b (crash after the insert): the persisted HTLC resolvers are not launched (relaunchResolvers only runs when the start state is "
       "StateWaitingFullResolution) until the next restart. Replays: inpkg/contractcourt/findings_c13/F2-*.json. This entry is one consequence code of that root cause.")
_F3 = ("C13-F3: restart between InsertConfirmedCommitSet and MarkChannelClosed (handleRemoteForceCloseEvent / handleLocalForceCloseEvent, contractcourt/channel_arbitrator.go:3457-3478, "
       "3519-3545): the channel is still open, Start loads the confirmed commit set from the log and progressStateMachineAfterRestart feeds it to stateStep(StateDefault) with chainTrigger; "
       "the dust fail actions make the action map non-empty, so the arbitrator goes to StateBroadcastCommit and force-closes its own commitment although a commitment already confirmed; when "
       "the chain watcher re-dispatches the close the arbitrator is in StateCommitmentBroadcasted, where HtlcFailDustAction is never executed (C12 finding), so an offered dust HTLC that the "
       "uninterrupted run fails back is never failed back. Replay: inpkg/contractcourt/findings_c13/F3-restart-with-commit-set-logged-channel-open.json")

KNOWN_FINDINGS = (
    [dict(property="C13", status="open", code="never-marked-resolved", sig="resolver-persisted-as-resolved-but-not-removed", what=_F1)]
    + [dict(property="C13", status="open", code=c, sig="restart-in-StateContractClosed", what=_F2)
       for c in ["resolver-lost", "never-marked-resolved", "terminal-state-differs", "reports-differ", "final-outcome-differs",
                 "upstream-resolution-lost", "upstream-resolution-differs", "upstream-resolution-extra", "upstream-contradiction",
                 "final-outcome-contradiction", "sweep-missing", "publish-missing", "stage-one-repeated", "resolver-invented",
                 "close-summary-differs", "scenario-diverged"]]
    + [dict(property="C13", status="open", code=c, sig="restart-in-StateDefault(commit-set-logged,channel-open)", what=_F3)
       for c in ["upstream-resolution-lost", "upstream-resolution-differs", "upstream-contradiction"]]
)
