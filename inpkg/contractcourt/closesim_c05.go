package contractcourt

import "verif/simcore"

func zzRunC05(r *simcore.Run) { r.Harness("C05 not built yet") }
