package contractcourt

import (
	"github.com/btcsuite/btcd/chainhash/v2"
	"sort"
	"bytes"
	"crypto/sha256"
	"fmt"

	"github.com/btcsuite/btcd/btcutil/v2"
	"github.com/btcsuite/btcd/wire/v2"
	"github.com/lightningnetwork/lnd/channeldb"
	"github.com/lightningnetwork/lnd/input"
	"github.com/lightningnetwork/lnd/lnwallet"
	"github.com/lightningnetwork/lnd/lnwallet/chainfee"
	"github.com/lightningnetwork/lnd/sweep"

	"verif/chansim"
	"verif/simcore"
)

// zzRecSweeper records every input the real resolvers offer for sweeping.
type zzRecSweeper struct {
	inputs []input.Input
	params []sweep.Params
}

func (s *zzRecSweeper) SweepInput(inp input.Input, p sweep.Params) (chan sweep.Result, error) {
	s.inputs = append(s.inputs, inp)
	s.params = append(s.params, p)
	return make(chan sweep.Result, 1), nil
}
func (s *zzRecSweeper) RelayFeePerKW() chainfee.SatPerKWeight { return 253 }
func (s *zzRecSweeper) UpdateParams(wire.OutPoint, sweep.Params) (chan sweep.Result, error) {
	return make(chan sweep.Result, 1), nil
}

func zzResolverCfg(sw *zzRecSweeper, chanPoint wire.OutPoint) ResolverConfig {
	return ResolverConfig{
		ChannelArbitratorConfig: ChannelArbitratorConfig{
			ChanPoint: chanPoint,
			ChainArbitratorConfig: ChainArbitratorConfig{
				Sweeper: sw,
				Budget:  *DefaultBudgetConfig(),
			},
		},
		Checkpoint: func(ContractResolver, ...*channeldb.ResolverReport) error { return nil },
	}
}

var zzSweepScript = append([]byte{0x51, 0x20}, bytes.Repeat([]byte{0x17}, 32)...)

// zzSpendInput builds the transaction the sweeper would build around one
// offered input (sequence and locktime exactly as the input demands), lets
// the input craft its own witness and runs the script interpreter against
// the REAL previous output.
// zzBatch collects, while one confirmed commitment is examined, every input
// that spends an output of THAT commitment, so that they can also be validated
// inside one aggregated sweep transaction (the real sweeper batches inputs; an
// input that signs for the wrong index only shows at index > 0).
var zzBatch *[]input.Input
var zzBatchTxid *chainhash.Hash

func zzSpendInput(signer input.Signer, inp input.Input, prevOuts map[wire.OutPoint]*wire.TxOut) error {
	if zzBatch != nil && zzBatchTxid != nil && inp.OutPoint().Hash == *zzBatchTxid {
		*zzBatch = append(*zzBatch, inp)
	}
	tx := wire.NewMsgTx(2)
	tx.AddTxIn(&wire.TxIn{PreviousOutPoint: inp.OutPoint(), Sequence: inp.BlocksToMaturity()})
	if lt, ok := inp.RequiredLockTime(); ok {
		tx.LockTime = lt
	}
	if ro := inp.RequiredTxOut(); ro != nil {
		tx.AddTxOut(ro)
	} else {
		v := inp.SignDesc().Output.Value - 200
		if v < 0 {
			v = 0
		}
		tx.AddTxOut(&wire.TxOut{Value: v, PkScript: zzSweepScript})
	}
	fetcher, err := input.MultiPrevOutFetcher([]input.Input{inp})
	if err != nil {
		return fmt.Errorf("prev out fetcher: %w", err)
	}
	hc := zzSigHashes(tx, fetcher)
	scr, err := inp.CraftInputScript(signer, tx, hc, fetcher, 0)
	if err != nil {
		return fmt.Errorf("CraftInputScript: %w", err)
	}
	tx.TxIn[0].Witness = scr.Witness
	tx.TxIn[0].SignatureScript = scr.SigScript
	return zzVerifyInput(tx, 0, prevOuts)
}

// zzSpendBatch validates the collected inputs inside aggregated sweep
// transactions: one per required locktime; inputs that commit to an output
// at their own index (SINGLE|ANYONECANPAY second-level inputs) come first,
// each paired with its required output, then the others, then one change
// output. Every input crafts its witness for ITS index and is executed in the
// script interpreter.
func zzSpendBatch(r *simcore.Run, who string, signer input.Signer, batch []input.Input, prevOuts map[wire.OutPoint]*wire.TxOut) {
	groups := map[uint32][]input.Input{}
	var keys []uint32
	seen := map[wire.OutPoint]bool{}
	for _, inp := range batch {
		if seen[inp.OutPoint()] {
			continue
		}
		seen[inp.OutPoint()] = true
		lt, _ := inp.RequiredLockTime()
		if _, ok := groups[lt]; !ok {
			keys = append(keys, lt)
		}
		groups[lt] = append(groups[lt], inp)
	}
	sort.Slice(keys, func(i, j int) bool { return keys[i] < keys[j] })
	for _, lt := range keys {
		g := groups[lt]
		if len(g) < 2 {
			continue
		}
		var ordered []input.Input
		for _, inp := range g {
			if inp.RequiredTxOut() != nil {
				ordered = append(ordered, inp)
			}
		}
		for _, inp := range g {
			if inp.RequiredTxOut() == nil {
				ordered = append(ordered, inp)
			}
		}
		tx := wire.NewMsgTx(2)
		tx.LockTime = lt
		var change int64
		for _, inp := range ordered {
			tx.AddTxIn(&wire.TxIn{PreviousOutPoint: inp.OutPoint(), Sequence: inp.BlocksToMaturity()})
			if ro := inp.RequiredTxOut(); ro != nil {
				tx.AddTxOut(ro)
			} else {
				change += inp.SignDesc().Output.Value
			}
		}
		if change > 400 {
			change -= 400
		}
		tx.AddTxOut(&wire.TxOut{Value: change, PkScript: zzSweepScript})
		fetcher, err := input.MultiPrevOutFetcher(ordered)
		if err != nil {
			r.Harness("batch prev out fetcher: %v", err)
		}
		hc := zzSigHashes(tx, fetcher)
		for i, inp := range ordered {
			scr, err := inp.CraftInputScript(signer, tx, hc, fetcher, i)
			if err != nil {
				r.Fail("batch-sweep-invalid-witness", "%s: input %d/%d (%v, %v) of an aggregated sweep: CraftInputScript: %v", who, i, len(ordered), inp.WitnessType(), inp.OutPoint(), err)
			}
			tx.TxIn[i].Witness = scr.Witness
			tx.TxIn[i].SignatureScript = scr.SigScript
		}
		for i, inp := range ordered {
			if err := zzVerifyInput(tx, i, prevOuts); err != nil {
				r.Fail("batch-sweep-invalid-witness", "%s: input %d/%d (%v) of an aggregated sweep transaction fails script validation although the same input validates alone: %v", who, i, len(ordered), inp.WitnessType(), err)
			}
			r.Count("script_validations")
		}
		r.Count("probe_aggregated_sweep_validated")
	}
}

func zzOuts(tx *wire.MsgTx) map[wire.OutPoint]*wire.TxOut {
	m := map[wire.OutPoint]*wire.TxOut{}
	h := tx.TxHash()
	for i, o := range tx.TxOut {
		m[wire.OutPoint{Hash: h, Index: uint32(i)}] = o
	}
	return m
}

// zzRunC05: at sampled states of a chansim history every commitment that
// could confirm (own, peer's current, peer's pending) is "confirmed" against a
// reloaded copy of the node's database and every spend the node derives for
// it is executed in the script interpreter.
func zzRunC05(r *simcore.Run) {
	cfg := chansim.DrawConfig(r.Tape)
	mode := chansim.Mode{Cuts: r.Tape.CfgDraw(3) == 0, MaxSteps: 40 + 25*r.Tape.CfgDraw(3), MaxHtlcs: []int{4, 8, 14}[r.Tape.CfgDraw(3)], MediumDen: 48, MediumHtlcs: 40, MediumSteps: 2}
	every := []int{6, 10, 16}[r.Tape.CfgDraw(3)]
	if r.Tier == "thorough" {
		every = []int{2, 4, 8}[r.Tape.CfgDraw(3)]
	}
	r.Arm = fmt.Sprintf("%s/cuts=%v", cfg.TypeName, mode.Cuts)
	states := 0
	n := 0
	mode.OnEvent = func(s *chansim.Sim) {
		n++
		if n%every != 0 {
			return
		}
		zzExamine(r, s)
		states++
	}
	mode.OnFinish = func(s *chansim.Sim) {
		zzExamine(r, s)
		states++
	}
	// Live force close: in one run out of four the history ends with
	// ForceClose on the LIVE channel object of the side that has just
	// accepted a new commitment and not yet revoked the old one (local chain
	// tip = tail + 1) - the one in-memory state a reloaded object never has.
	// What it broadcasts must be the commitment that is durable, and every
	// resolution must validate against it.
	liveAt := 0
	if r.Tape.CfgDraw(4) == 3 {
		liveAt = 1 + r.Tape.CfgDraw(12)
	}
	preRevokes := 0
	mode.OnPreRevoke = func(s *chansim.Sim, side int) {
		preRevokes++
		if liveAt == 0 || preRevokes != liveAt {
			return
		}
		zzLiveForceClose(r, s, side, zzPreimages(s))
		states++
		r.Count("probe_live_force_close_unrevoked")
		r.Nontrivial = true
		s.EndRun("live channel object consumed by ForceClose")
	}
	s := chansim.NewSim(r, cfg, mode)
	s.Run()
	r.Add("states_examined", int64(states))
	r.Nontrivial = states > 0 && r.Stats["script_validations"] > 0
}

func zzPreimages(s *chansim.Sim) map[[32]byte][32]byte {
	m := map[[32]byte][32]byte{}
	for x := 0; x < 2; x++ {
		for _, u := range s.M.S[x].Log {
			if u.Kind == chansim.UAdd {
				m[u.Hash] = chansim.Preimage(u.PayNo)
			}
		}
	}
	return m
}

func zzExamine(r *simcore.Run, s *chansim.Sim) {
	pre := zzPreimages(s)
	for x := 0; x < 2; x++ {
		o := 1 - x
		zzOwnCommit(r, s, x, pre)
		// peer's current commitment = what the peer would broadcast now
		peerCur := s.P[o].Chan.State().LocalCommitment
		if peerCur.CommitHeight > 0 && s.M.S[x].RemoteTail == s.M.S[o].LocalTail {
			// the transaction is the peer's; balances and HTLC
			// directions are read from OUR record of that commitment
			mine := s.P[x].Chan.State().RemoteCommitment
			zzRemoteCommit(r, s, x, peerCur.CommitTx, &mine, "current", pre)
		}
		// peer's pending commitment (signed by us, not yet revoked-into)
		if tip, err := s.P[x].Chan.State().RemoteCommitChainTip(); err == nil && tip != nil {
			c := tip.Commitment
			zzRemoteCommit(r, s, x, c.CommitTx, &c, "pending", pre)
			r.Count("probe_pending_remote_commit")
		}
	}
}

func zzSatFloor(m uint64) int64 { return int64(m / 1000) }

// zzOwnCommit: force close on a reloaded copy.
func zzOwnCommit(r *simcore.Run, s *chansim.Sim, x int, pre map[[32]byte][32]byte) {
	st := s.P[x].Chan.State()
	if st.LocalCommitment.CommitHeight == 0 {
		return // placeholder signature on commitment 0 (no funding flow simulated)
	}
	fp := s.ForkParty(x)
	defer fp.KV.Close()
	who := fmt.Sprintf("%s own commitment height %d", fp.Name, st.LocalCommitment.CommitHeight)
	// A cooperative close that was started and not finished: on every other
	// clean state (no HTLC on the commitment, not taproot - that path needs a
	// musig session) the object first signs a close proposal, as the channel
	// closer does on the link's object before the negotiation is given up.
	// Whatever that leaves behind on the object must not reach the
	// signature of the commitment. API-level coverage: lnd force-closes on a
	// freshly loaded object.
	if len(st.LocalCommitment.Htlcs) == 0 && !st.ChanType.IsTaproot() && st.LocalCommitment.CommitHeight%2 == 0 {
		script := append([]byte{0x00, 0x14}, make([]byte, 20)...)
		if _, _, _, err := fp.Chan.CreateCloseProposal(500, script, script); err == nil {
			r.Count("probe_close_proposal_signed_before_force_close")
			who += " (after an abandoned close proposal)"
		}
	}
	sum, err := fp.Chan.ForceClose()
	if err != nil {
		r.Fail("force-close", "%s: ForceClose on the reloaded channel fails: %v", who, err)
	}
	ctx := sum.CloseTx
	// 1. fully signed and valid against the funding output
	fund := fp.Chan.FundingTxOut()
	prevFund := map[wire.OutPoint]*wire.TxOut{ctx.TxIn[0].PreviousOutPoint: fund}
	if err := zzVerifyInput(ctx, 0, prevFund); err != nil {
		r.Fail("commit-invalid", "%s: the signed commitment does not validate against the funding output: %v", who, err)
	}
	r.Count("script_validations")
	if fp.Chan.State().ChanType.IsTaproot() {
		r.Count("probe_taproot_commit_keyspend")
	}
	lc := fp.Chan.State().LocalCommitment
	if ctx.TxHash() != lc.CommitTx.TxHash() {
		r.Fail("commit-invalid", "%s: ForceClose broadcasts %v, the stored commitment is %v", who, ctx.TxHash(), lc.CommitTx.TxHash())
	}
	res, err := sum.ContractResolutions.UnwrapOrErr(fmt.Errorf("no resolutions"))
	if err != nil {
		r.Fail("force-close", "%s: no contract resolutions: %v", who, err)
	}
	zzCheckResolutions(r, s, fp, who, ctx, &lc, res.CommitResolution, res.HtlcResolutions, res.AnchorResolution, true, pre)
}

// zzLiveForceClose: ForceClose on the live object of side x while it holds an
// accepted, unrevoked commitment.
func zzLiveForceClose(r *simcore.Run, s *chansim.Sim, x int, pre map[[32]byte][32]byte) {
	p := s.P[x]
	// what is durable right now (a crash here leaves exactly this)
	fp := s.ForkParty(x)
	durable := fp.Chan.State().LocalCommitment
	fp.KV.Close()
	if durable.CommitHeight == 0 {
		return
	}
	who := fmt.Sprintf("%s live object, unrevoked accepted commitment, durable height %d", p.Name, durable.CommitHeight)
	sum, err := p.Chan.ForceClose()
	if err != nil {
		r.Fail("force-close", "%s: ForceClose fails: %v", who, err)
	}
	ctx := sum.CloseTx
	fund := p.Chan.FundingTxOut()
	prevFund := map[wire.OutPoint]*wire.TxOut{ctx.TxIn[0].PreviousOutPoint: fund}
	if err := zzVerifyInput(ctx, 0, prevFund); err != nil {
		r.Fail("commit-invalid", "%s: the signed commitment does not validate against the funding output: %v", who, err)
	}
	r.Count("script_validations")
	if ctx.TxHash() != durable.CommitTx.TxHash() {
		r.Fail("commit-invalid", "%s: ForceClose broadcasts %v, the durable commitment is %v", who, ctx.TxHash(), durable.CommitTx.TxHash())
	}
	res, err := sum.ContractResolutions.UnwrapOrErr(fmt.Errorf("no resolutions"))
	if err != nil {
		r.Fail("force-close", "%s: no contract resolutions: %v", who, err)
	}
	zzCheckResolutions(r, s, p, who, ctx, &durable, res.CommitResolution, res.HtlcResolutions, res.AnchorResolution, true, pre)
}

// zzRemoteCommit: the peer's commitment confirms; recognised through the real
// chain watcher on a reloaded copy.
func zzRemoteCommit(r *simcore.Run, s *chansim.Sim, x int, tx *wire.MsgTx, c *channeldb.ChannelCommitment, which string, pre map[[32]byte][32]byte) {
	fp := s.ForkParty(x)
	defer fp.KV.Close()
	who := fmt.Sprintf("%s vs peer's %s commitment height %d", fp.Name, which, c.CommitHeight)
	breached := false
	w, sub := zzNewWatcher(r, fp, func(*lnwallet.BreachRetribution) error { breached = true; return nil })
	defer sub.Cancel()
	if err := w.handleCommitSpend(zzSpendDetail(tx, 700000, fp.Chan.State().FundingOutpoint)); err != nil {
		r.Fail("remote-close-not-recognised", "%s: chain watcher fails: %v", who, err)
	}
	if breached {
		r.Fail("remote-close-not-recognised", "%s: an unrevoked commitment of the peer was classified as a breach", who)
	}
	var info *RemoteUnilateralCloseInfo
	select {
	case info = <-sub.RemoteUnilateralClosure:
	default:
		r.Fail("remote-close-not-recognised", "%s: no RemoteUnilateralClosure event was dispatched", who)
	}
	// Which of the three commitments confirmed is what the arbitrator keys
	// every per-HTLC disposition on (C12): the chain watcher must name the
	// right one and hand over exactly that commitment's HTLCs under that key.
	wantKey := RemoteHtlcSet
	if which == "pending" {
		wantKey = RemotePendingHtlcSet
	}
	if info.CommitSet.ConfCommitKey.IsNone() {
		r.Fail("conf-commit-key", "%s: close event names no confirmed commitment", who)
	}
	gotKey := info.CommitSet.ConfCommitKey.UnwrapOr(LocalHtlcSet)
	if gotKey != wantKey {
		r.Fail("conf-commit-key", "%s: chain watcher says %v confirmed, it was %v", who, gotKey, wantKey)
	}
	wantIdx := map[string]bool{}
	for _, h := range c.Htlcs {
		wantIdx[fmt.Sprintf("%v/%d", h.Incoming, h.HtlcIndex)] = true
	}
	gotIdx := map[string]bool{}
	for _, h := range info.CommitSet.HtlcSets[gotKey] {
		gotIdx[fmt.Sprintf("%v/%d", h.Incoming, h.HtlcIndex)] = true
	}
	for k := range wantIdx {
		if !gotIdx[k] {
			r.Fail("conf-commit-set", "%s: HTLC %s of the confirmed commitment is missing from the commit set handed to the arbitrator under %v", who, k, gotKey)
		}
	}
	for k := range gotIdx {
		if !wantIdx[k] {
			r.Fail("conf-commit-set", "%s: commit set under %v holds HTLC %s which is not on the confirmed commitment", who, gotKey, k)
		}
	}
	r.Count("conf_commit_key_checks")
	zzCheckResolutions(r, s, fp, who, tx, c, info.CommitResolution, info.HtlcResolutions, info.AnchorResolution, false, pre)
}

// zzCheckResolutions launches the real resolvers for one confirmed commitment
// and validates every spend.
func zzCheckResolutions(r *simcore.Run, s *chansim.Sim, fp *chansim.Party, who string, ctx *wire.MsgTx,
	c *channeldb.ChannelCommitment, cr *lnwallet.CommitOutputResolution, hr *lnwallet.HtlcResolutions,
	ar *lnwallet.AnchorResolution, ours bool, pre map[[32]byte][32]byte) {

	st := fp.Chan.State()
	outs := zzOuts(ctx)
	txid := ctx.TxHash()
	chanPoint := st.FundingOutpoint
	const height = 700000
	var batch []input.Input
	zzBatch, zzBatchTxid = &batch, &txid
	defer func() {
		zzBatch, zzBatchTxid = nil, nil
		if p := recover(); p != nil {
			panic(p) // a verdict is already on its way
		}
		zzSpendBatch(r, who, fp.Signer, batch, outs)
	}()

	// In half of the examinations the resolutions are the ones a RESTARTED
	// node works with: written to the real arbitrator log and read back
	// (taproot control blocks, tap tweaks and sign descriptors must survive
	// the encoding).
	if r.Draw(2) == 1 && hr != nil && (ar != nil || !st.ChanType.IsTaproot()) {
		var chainHash chainhash.Hash
		alog, err := newBoltArbitratorLog(fp.DB.Backend, ChannelArbitratorConfig{ChanPoint: chanPoint}, chainHash, chanPoint)
		r.Must(err, "arbitrator log")
		in := &ContractResolutions{CommitHash: txid, CommitResolution: cr, HtlcResolutions: *hr, AnchorResolution: ar}
		if err := alog.LogContractResolutions(in); err != nil {
			r.Fail("resolutions-not-persisted", "%s: LogContractResolutions: %v", who, err)
		}
		back, err := alog.FetchContractResolutions()
		if err != nil {
			r.Fail("resolutions-not-persisted", "%s: FetchContractResolutions after logging them: %v", who, err)
		}
		if (back.CommitResolution == nil) != (cr == nil) ||
			len(back.HtlcResolutions.IncomingHTLCs) != len(hr.IncomingHTLCs) ||
			len(back.HtlcResolutions.OutgoingHTLCs) != len(hr.OutgoingHTLCs) {

			r.Fail("resolutions-not-persisted", "%s: the arbitrator log returns %d incoming / %d outgoing HTLC resolutions (commit resolution %v), %d / %d (%v) were logged", who,
				len(back.HtlcResolutions.IncomingHTLCs), len(back.HtlcResolutions.OutgoingHTLCs), back.CommitResolution != nil,
				len(hr.IncomingHTLCs), len(hr.OutgoingHTLCs), cr != nil)
		}
		cr, hr = back.CommitResolution, &back.HtlcResolutions
		who += " [resolutions read back from the arbitrator log]"
		r.Count("probe_resolutions_via_arbitrator_log")
	}

	// --- our balance output ------------------------------------------------
	balSat := zzSatFloor(uint64(c.LocalBalance))
	if cr != nil {
		o, ok := outs[cr.SelfOutPoint]
		if !ok {
			r.Fail("resolution-index", "%s: commit resolution points at %v which is not an output of the confirmed transaction", who, cr.SelfOutPoint)
		}
		if o.Value != balSat {
			r.Fail("claim-value", "%s: our commitment output is worth %d sat, our balance on that commitment is %d sat", who, o.Value, balSat)
		}
		sw := &zzRecSweeper{}
		res := newCommitSweepResolver(*cr, height, chanPoint, zzResolverCfg(sw, chanPoint))
		res.SupplementState(st)
		if err := res.Launch(); err != nil {
			r.Fail("resolver-launch", "%s: commit sweep resolver: %v", who, err)
		}
		if len(sw.inputs) != 1 {
			r.Fail("resolver-launch", "%s: commit sweep resolver offered %d inputs", who, len(sw.inputs))
		}
		inp := sw.inputs[0]
		if ours && inp.BlocksToMaturity() != uint32(st.LocalChanCfg.CsvDelay) {
			r.Fail("csv-delay", "%s: delayed to-local sweep uses relative lock %d, our CSV delay is %d", who, inp.BlocksToMaturity(), st.LocalChanCfg.CsvDelay)
		}
		if err := zzSpendInput(fp.Signer, inp, outs); err != nil {
			r.Fail("sweep-invalid-witness", "%s: sweep of our commitment output (%v) fails script validation: %v", who, inp.WitnessType(), err)
		}
		r.Count("script_validations")
	} else {
		// no output for us: only legitimate if it would be dust
		owner := st.LocalChanCfg.DustLimit
		if !ours {
			owner = st.RemoteChanCfg.DustLimit
		}
		if btcutil.Amount(balSat) >= owner && balSat > 0 {
			r.Fail("claim-value", "%s: we have a balance of %d sat (dust limit %d) but no output/resolution on the confirmed commitment", who, balSat, owner)
		}
		r.Count("probe_balance_trimmed")
	}

	// --- HTLCs -------------------------------------------------------------
	nonDust := map[uint32]channeldb.HTLC{}
	for _, h := range c.Htlcs {
		if h.OutputIndex >= 0 {
			nonDust[uint32(h.OutputIndex)] = h
		}
	}
	seen := map[uint32]bool{}
	htlcFor := func(op wire.OutPoint, what string) channeldb.HTLC {
		if op.Hash != txid {
			r.Fail("resolution-index", "%s: %s resolution spends %v, not the confirmed commitment", who, what, op)
		}
		h, ok := nonDust[op.Index]
		if !ok {
			r.Fail("resolution-index", "%s: %s resolution for output %d which is not a non-dust HTLC output", who, what, op.Index)
		}
		if seen[op.Index] {
			r.Fail("resolution-index", "%s: two resolutions for HTLC output %d", who, op.Index)
		}
		seen[op.Index] = true
		if outs[op].Value != zzSatFloor(uint64(h.Amt)) {
			r.Fail("claim-value", "%s: HTLC output %d is worth %d sat, the HTLC amount is %d msat", who, op.Index, outs[op].Value, h.Amt)
		}
		return h
	}
	if hr != nil {
		for i := range hr.OutgoingHTLCs {
			res := hr.OutgoingHTLCs[i]
			op := res.ClaimOutpoint
			if res.SignedTimeoutTx != nil {
				op = res.SignedTimeoutTx.TxIn[0].PreviousOutPoint
			}
			h := htlcFor(op, "outgoing")
			if h.Incoming {
				r.Fail("resolution-direction", "%s: timeout resolution for a received HTLC (output %d)", who, op.Index)
			}
			zzOutgoing(r, who, fp, st, res, h, outs, chanPoint, ours)
		}
		for i := range hr.IncomingHTLCs {
			res := hr.IncomingHTLCs[i]
			op := res.ClaimOutpoint
			if res.SignedSuccessTx != nil {
				op = res.SignedSuccessTx.TxIn[0].PreviousOutPoint
			}
			h := htlcFor(op, "incoming")
			if !h.Incoming {
				r.Fail("resolution-direction", "%s: success resolution for an offered HTLC (output %d)", who, op.Index)
			}
			p, ok := pre[h.RHash]
			if !ok {
				r.Harness("no preimage for htlc")
			}
			zzIncoming(r, who, fp, st, res, h, p, outs, chanPoint, ours)
		}
	}
	for idx, h := range nonDust {
		if !seen[idx] {
			r.Fail("resolution-missing", "%s: non-dust HTLC output %d (incoming=%v amt=%d) has no resolution", who, idx, h.Incoming, h.Amt)
		}
	}
	if len(nonDust) > 0 {
		r.Count("probe_commit_with_htlcs")
	}
}

// zzOutgoing: offered HTLC times out.
func zzOutgoing(r *simcore.Run, who string, fp *chansim.Party, st *channeldb.OpenChannel, res lnwallet.OutgoingHtlcResolution,
	h channeldb.HTLC, outs map[wire.OutPoint]*wire.TxOut, chanPoint wire.OutPoint, ours bool) {

	sw := &zzRecSweeper{}
	rs := newTimeoutResolver(res, 700000, h, st.ChanType, zzResolverCfg(sw, chanPoint))
	rs.SupplementState(st)
	if err := rs.Launch(); err != nil {
		r.Fail("resolver-launch", "%s: timeout resolver: %v", who, err)
	}
	switch {
	case len(sw.inputs) == 1:
		inp := sw.inputs[0]
		lt, _ := inp.RequiredLockTime()
		if lt < h.RefundTimeout {
			r.Fail("timeout-locktime", "%s: offered HTLC (expiry %d) is timed out with locktime %d", who, h.RefundTimeout, lt)
		}
		if err := zzSpendInput(fp.Signer, inp, outs); err != nil {
			r.Fail("htlc-invalid-witness", "%s: timeout spend of offered HTLC output (%v) fails script validation: %v", who, inp.WitnessType(), err)
		}
		r.Count("script_validations")
		r.Count("probe_timeout_via_sweeper")
	case len(sw.inputs) == 0 && res.SignedTimeoutTx != nil:
		// pre-anchor local commitment: the pre-signed second-level tx is broadcast as is
		tx := res.SignedTimeoutTx
		if tx.LockTime < h.RefundTimeout {
			r.Fail("timeout-locktime", "%s: HTLC-timeout tx has locktime %d, expiry is %d", who, tx.LockTime, h.RefundTimeout)
		}
		if err := zzVerifyInput(tx, 0, outs); err != nil {
			r.Fail("htlc-invalid-witness", "%s: signed HTLC-timeout transaction fails script validation: %v", who, err)
		}
		r.Count("script_validations")
		r.Count("probe_timeout_presigned_tx")
	default:
		r.Fail("resolver-launch", "%s: timeout resolver offered %d inputs and has no signed timeout tx", who, len(sw.inputs))
	}
	if res.SignedTimeoutTx != nil {
		zzSecondStage(r, who, fp, st, res.SignedTimeoutTx, res.ClaimOutpoint, &res.SweepSignDesc, res.CsvDelay, false)
	}
}

// zzIncoming: received HTLC claimed with the preimage.
func zzIncoming(r *simcore.Run, who string, fp *chansim.Party, st *channeldb.OpenChannel, res lnwallet.IncomingHtlcResolution,
	h channeldb.HTLC, preimage [32]byte, outs map[wire.OutPoint]*wire.TxOut, chanPoint wire.OutPoint, ours bool) {

	if sha256.Sum256(preimage[:]) != h.RHash {
		r.Harness("preimage mismatch")
	}
	res.Preimage = preimage
	sw := &zzRecSweeper{}
	rs := newSuccessResolver(res, 700000, h, st.ChanType, zzResolverCfg(sw, chanPoint))
	rs.SupplementState(st)
	if err := rs.Launch(); err != nil {
		r.Fail("resolver-launch", "%s: success resolver: %v", who, err)
	}
	switch {
	case len(sw.inputs) == 1:
		inp := sw.inputs[0]
		if err := zzSpendInput(fp.Signer, inp, outs); err != nil {
			r.Fail("htlc-invalid-witness", "%s: preimage spend of received HTLC output (%v) fails script validation: %v", who, inp.WitnessType(), err)
		}
		r.Count("script_validations")
		r.Count("probe_success_via_sweeper")
	case len(sw.inputs) == 0 && res.SignedSuccessTx != nil:
		// pre-anchor local commitment: insert the preimage into the
		// pre-signed HTLC-success transaction (BOLT 3 witness:
		// 0 <remotesig> <localsig> <preimage> <script>)
		tx := res.SignedSuccessTx.Copy()
		if len(tx.TxIn[0].Witness) != 5 {
			r.Fail("htlc-invalid-witness", "%s: signed HTLC-success tx has %d witness items", who, len(tx.TxIn[0].Witness))
		}
		tx.TxIn[0].Witness[3] = preimage[:]
		if err := zzVerifyInput(tx, 0, outs); err != nil {
			r.Fail("htlc-invalid-witness", "%s: signed HTLC-success transaction fails script validation: %v", who, err)
		}
		r.Count("script_validations")
		r.Count("probe_success_presigned_tx")
	default:
		r.Fail("resolver-launch", "%s: success resolver offered %d inputs and has no signed success tx", who, len(sw.inputs))
	}
	if res.SignedSuccessTx != nil {
		zzSecondStage(r, who, fp, st, res.SignedSuccessTx, res.ClaimOutpoint, &res.SweepSignDesc, res.CsvDelay, true)
	}
}

// zzSecondStage: the delayed output of a second-level transaction, swept
// after the CSV delay with the witness types the resolvers/nursery use.
func zzSecondStage(r *simcore.Run, who string, fp *chansim.Party, st *channeldb.OpenChannel, second *wire.MsgTx,
	claim wire.OutPoint, sd *input.SignDescriptor, csv uint32, success bool) {

	outs := zzOuts(second)
	if _, ok := outs[claim]; !ok {
		r.Fail("resolution-index", "%s: second-level claim outpoint %v is not an output of the second-level tx %v", who, claim, second.TxHash())
	}
	if csv != uint32(st.LocalChanCfg.CsvDelay) {
		r.Fail("csv-delay", "%s: second-level output is swept with delay %d, our CSV delay is %d", who, csv, st.LocalChanCfg.CsvDelay)
	}
	taproot := st.ChanType.IsTaproot()
	final := st.ChanType.IsTaprootFinal()
	lease := st.ChanType.HasLeaseExpiration() && st.IsInitiator
	var wt input.StandardWitnessType
	switch {
	case success && final:
		wt = input.TaprootHtlcAcceptedSuccessSecondLevelFinal
	case success && taproot:
		wt = input.TaprootHtlcAcceptedSuccessSecondLevel
	case success && lease:
		wt = input.LeaseHtlcAcceptedSuccessSecondLevel
	case success:
		wt = input.HtlcAcceptedSuccessSecondLevel
	case final:
		wt = input.TaprootHtlcOfferedTimeoutSecondLevelFinal
	case taproot:
		wt = input.TaprootHtlcOfferedTimeoutSecondLevel
	case lease:
		wt = input.LeaseHtlcOfferedTimeoutSecondLevel
	default:
		wt = input.HtlcOfferedTimeoutSecondLevel
	}
	var inp input.Input
	if lease {
		inp = input.NewCsvInputWithCltv(&claim, wt, sd, 700000, csv, st.ThawHeight)
	} else {
		inp = input.NewCsvInput(&claim, wt, sd, 700000, csv)
	}
	if err := zzSpendInput(fp.Signer, inp, outs); err != nil {
		r.Fail("second-level-invalid-witness", "%s: sweep of the second-level output (%v) fails script validation: %v", who, wt, err)
	}
	r.Count("script_validations")
	r.Count("probe_second_level_sweep")
}

var _ = simcore.ErrSimIO
