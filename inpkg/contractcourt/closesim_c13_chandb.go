package contractcourt

// closesim C13, part 4: the channel database and the chain arbitrator's
// ResolveContract are REAL.
//
// A real channeldb (channeldb.CreateWithBackend) lives on the SAME SimKV file
// as the arbitrator log, so CloseChannel, MarkCommitmentBroadcasted,
// MarkChanFullyClosed and WipeHistory are numbered write transactions of the
// same crash-point enumeration as the log's own writes. The simulated channel
// has a real open-channel record (SyncPending + MarkAsOpen with dummy keys and
// transactions; the arbitrator never looks at them).
//
//   - at every boot the harness decides "active / pending close / gone" the
//     way ChainArbitrator.Start does: loadOpenChannels (FetchAllChannels) and
//     loadPendingCloseChannels (FetchClosedChannels(true); CloseType and
//     CloseHeight from the stored close summary);
//   - cfg.MarkChannelClosed / cfg.MarkCommitmentBroadcasted of an active
//     channel are what newActiveChannelArbitrator installs: the methods of the
//     *chanstate.OpenChannel that was loaded at boot; a pending-close
//     arbitrator gets none (loadPendingCloseChannels);
//   - a NotifyChannelResolved signal is answered by the real
//     (*ChainArbitrator).ResolveContract on a ChainArbitrator value that holds
//     just what that method touches (chanSource, activeChannels,
//     activeWatchers).
//
// The file is compiled only into the C13 engine's world (zzWorld.hooks is nil
// for C12).

import (
	"crypto/sha256"
	"errors"
	"fmt"
	"net"
	"os"
	"path/filepath"
	"sync"

	"github.com/btcsuite/btcd/btcec/v2"
	"github.com/btcsuite/btcd/chainhash/v2"
	"github.com/btcsuite/btcd/wire/v2"
	"github.com/lightningnetwork/lnd/channeldb"
	"github.com/lightningnetwork/lnd/chanstate"
	"github.com/lightningnetwork/lnd/keychain"
	"github.com/lightningnetwork/lnd/lntypes"
	"github.com/lightningnetwork/lnd/lnwire"
	"github.com/lightningnetwork/lnd/shachain"
)

var (
	zzC13DummySig = []byte{
		0x30, 0x44, 0x02, 0x20, 0x4e, 0x45, 0xe1, 0x69, 0x32, 0xb8, 0xaf, 0x51, 0x49, 0x61, 0xa1, 0xd3,
		0xa1, 0xa2, 0x5f, 0xdf, 0x3f, 0x4f, 0x77, 0x32, 0xe9, 0xd6, 0x24, 0xc6, 0xc6, 0x15, 0x48, 0xab,
		0x5f, 0xb8, 0xcd, 0x41, 0x02, 0x20, 0x18, 0x15, 0x22, 0xec, 0x8e, 0xca, 0x07, 0xde, 0x48, 0x60,
		0xa4, 0xac, 0xdd, 0x12, 0x90, 0x9d, 0x83, 0x1c, 0xc5, 0x6c, 0xbb, 0xac, 0x46, 0x22, 0x08, 0x22,
		0x21, 0xa8, 0x76, 0x8d, 0x1d, 0x09,
	}
	zzC13DummyTx = &wire.MsgTx{
		Version: 2,
		TxIn: []*wire.TxIn{{
			PreviousOutPoint: wire.OutPoint{Index: 0xffffffff},
			SignatureScript:  []byte{0x04, 0x31, 0xdc, 0x00, 0x1b, 0x01, 0x62},
			Sequence:         0xffffffff,
		}},
		TxOut:    []*wire.TxOut{{Value: 5000000000, PkScript: []byte{0x51}}},
		LockTime: 5,
	}

	zzC13KeysOnce sync.Once
	zzC13KeysVal  []*btcec.PublicKey
)

// zzC13Keys: twelve fixed public keys (a pure function of nothing; derived
// once per process).
func zzC13Keys() []*btcec.PublicKey {
	zzC13KeysOnce.Do(func() {
		for i := 0; i < 12; i++ {
			h := sha256.Sum256([]byte(fmt.Sprintf("closesim-c13-key-%d", i)))
			priv, _ := btcec.PrivKeyFromBytes(h[:])
			zzC13KeysVal = append(zzC13KeysVal, priv.PubKey())
		}
	})
	return zzC13KeysVal
}

func zzC13ChanCfg(keys []*btcec.PublicKey, csv uint16) channeldb.ChannelConfig {
	return channeldb.ChannelConfig{
		ChannelStateBounds: channeldb.ChannelStateBounds{
			MaxPendingAmount: lnwire.NewMSatFromSatoshis(1_000_000),
			ChanReserve:      1000,
			MaxAcceptedHtlcs: 30,
		},
		CommitmentParams:    channeldb.CommitmentParams{DustLimit: 354, CsvDelay: csv},
		MultiSigKey:         keychain.KeyDescriptor{PubKey: keys[0]},
		RevocationBasePoint: keychain.KeyDescriptor{PubKey: keys[1]},
		PaymentBasePoint:    keychain.KeyDescriptor{PubKey: keys[2]},
		DelayBasePoint:      keychain.KeyDescriptor{PubKey: keys[3]},
		HtlcBasePoint:       keychain.KeyDescriptor{PubKey: keys[4]},
	}
}

func zzC13Commit() channeldb.ChannelCommitment {
	return channeldb.ChannelCommitment{
		LocalBalance:  lnwire.NewMSatFromSatoshis(500_000),
		RemoteBalance: lnwire.NewMSatFromSatoshis(490_000),
		CommitFee:     10_000,
		FeePerKw:      6000,
		CommitTx:      zzC13DummyTx,
		CommitSig:     zzC13DummySig,
	}
}

// zzC13ChanDB is the real channel database of one execution. The *channeldb.DB
// value is stateless above its backend, and the backend is the SimKV (whose
// Reopen swaps the bolt handle underneath): the same value serves every
// process incarnation. What an incarnation holds in memory (the loaded
// channel record, the ChainArbitrator) is rebuilt at every boot.
type zzC13ChanDB struct {
	ex *zzC13Exec
	w  *zzWorld
	db *channeldb.DB

	// the live incarnation
	epoch      int
	chainArb   *ChainArbitrator
	channel    *chanstate.OpenChannel // nil unless the channel was loaded as active
	registered bool

	// close summary as last read, valid while no write transaction was
	// attempted since (reading it means parsing eight public keys)
	sumKey   [2]int
	sumValid bool
	sum      *channeldb.ChannelCloseSummary
}

// zzC13TemplateName is the snapshot of the database file right after the
// channel record was written: identical for every execution of one run
// (funding outpoint, short channel id and channel type are fixed per run).
const zzC13TemplateName = "channel.db.c13-template"

// zzC13PlaceTemplate puts a copy of the run's database snapshot where
// zzNewWorld is about to open its SimKV. Returns false if there is none yet.
func zzC13PlaceTemplate(ex *zzC13Exec) bool {
	dir := ex.r.SubDir("arb")
	data, err := os.ReadFile(filepath.Join(dir, zzC13TemplateName))
	if err != nil {
		return false
	}
	ex.r.Must(os.WriteFile(filepath.Join(dir, "channel.db"), data, 0o600), "copy channel database snapshot")
	return true
}

// zzC13OpenChanDB opens the channel database on the world's SimKV. The first
// execution of a run creates it and writes the open-channel record (before
// any crash is armed; the SimKV is reopened afterwards so that the write
// numbering of the first epoch starts with the first write of the node under
// test) and snapshots the file; later executions start from a copy of that
// snapshot (fromTemplate) and write nothing here.
func zzC13OpenChanDB(ex *zzC13Exec, w *zzWorld, fromTemplate bool) *zzC13ChanDB {
	r := w.r
	if fromTemplate {
		db, err := channeldb.CreateWithBackend(w.kv, channeldb.OptionNoMigration(true))
		r.Must(err, "channeldb.CreateWithBackend")
		if n := w.kv.Writes(); n != 0 {
			r.Harness("opening the channel database wrote %d transactions", n)
		}
		return &zzC13ChanDB{ex: ex, w: w, db: db}
	}
	db, err := channeldb.CreateWithBackend(w.kv)
	r.Must(err, "channeldb.CreateWithBackend")
	d := &zzC13ChanDB{ex: ex, w: w, db: db}

	keys := zzC13Keys()
	local, remote := keys[:6], keys[6:]
	ct := channeldb.SingleFunderTweaklessBit
	if w.m.anchors {
		ct |= channeldb.AnchorOutputsBit | channeldb.ZeroHtlcTxFeeBit
	}
	var root chainhash.Hash
	copy(root[:], w.chanPoint.Hash[:])
	st := &chanstate.OpenChannel{
		ChanType:                ct,
		LocalChanCfg:            zzC13ChanCfg(local, uint16(w.m.csv)),
		RemoteChanCfg:           zzC13ChanCfg(remote, uint16(w.m.csv)),
		IdentityPub:             remote[5],
		FundingOutpoint:         w.chanPoint,
		ShortChannelID:          w.scid,
		IsInitiator:             true,
		Capacity:                1_000_000,
		RemoteCurrentRevocation: remote[4],
		RemoteNextRevocation:    remote[3],
		RevocationProducer:      shachain.NewRevocationProducer(root),
		RevocationStore:         shachain.NewRevocationStore(),
		LocalCommitment:         zzC13Commit(),
		RemoteCommitment:        zzC13Commit(),
		Db:                      db.ChannelStateDB(),
		FundingTxn:              zzC13DummyTx,
	}
	addr := &net.TCPAddr{IP: net.ParseIP("127.0.0.1"), Port: 18013}
	r.Must(st.SyncPending(addr, w.m.startH), "SyncPending")
	r.Must(st.MarkAsOpen(w.scid), "MarkAsOpen")
	r.Must(w.kv.Reopen(), "reopen simkv after channel setup")
	f, err := os.Create(filepath.Join(filepath.Dir(w.kv.Path()), zzC13TemplateName))
	r.Must(err, "create channel database snapshot")
	err = w.kv.Copy(f)
	f.Close()
	r.Must(err, "write channel database snapshot")
	return d
}

// zzC13DBView is what the channel database says about the channel.
type zzC13DBView struct {
	open    *chanstate.OpenChannel         // loadOpenChannels would start an active arbitrator
	pending *channeldb.ChannelCloseSummary // loadPendingCloseChannels would start a pending-close one
	closed  *channeldb.ChannelCloseSummary // the close summary, pending or not
}

// load reads the database the way ChainArbitrator.Start does (once per boot).
func (d *zzC13ChanDB) load() (v zzC13DBView) {
	w, r := d.w, d.w.r
	sdb := d.db.ChannelStateDB()

	// loadOpenChannels
	chans, err := sdb.FetchAllChannels()
	r.Must(err, "FetchAllChannels")
	for _, c := range chans {
		if c.FundingOutpoint == w.chanPoint {
			v.open = c
		}
	}
	// loadPendingCloseChannels
	closing, err := sdb.FetchClosedChannels(true)
	r.Must(err, "FetchClosedChannels")
	for _, s := range closing {
		if s.ChanPoint == w.chanPoint {
			v.pending = s
		}
	}
	v.closed, _ = d.summary()
	switch {
	case v.open != nil && v.closed != nil:
		r.Harness("channel database: %v is open and has a close summary", w.chanPoint)
	case v.open == nil && v.closed == nil:
		r.Harness("channel database: %v is neither open nor closed", w.chanPoint)
	case v.closed != nil && (v.pending != nil) != v.closed.IsPending:
		r.Harness("channel database: close summary of %v pending=%v, listed by FetchClosedChannels(true)=%v",
			w.chanPoint, v.closed.IsPending, v.pending != nil)
	}
	return v
}

// summary reads the channel's close summary (nil if it has none). ok is false
// while the node is down (reads bounce off the fence).
func (d *zzC13ChanDB) summary() (sum *channeldb.ChannelCloseSummary, ok bool) {
	w := d.w
	if w.kv.Fenced() {
		return nil, false
	}
	key := [2]int{d.ex.restarts, w.kv.Writes()}
	if d.sumValid && d.sumKey == key {
		return d.sum, true
	}
	s, err := d.db.ChannelStateDB().FetchClosedChannel(&w.chanPoint)
	switch {
	case err == nil:
	case w.kv.Fenced():
		return nil, false
	case errors.Is(err, channeldb.ErrClosedChannelNotFound):
		s = nil
	default:
		w.r.Harness("FetchClosedChannel: %v", err)
	}
	d.sumKey, d.sumValid, d.sum = key, true, s
	return s, true
}

// closedInfo implements zzWorldHooks: zzWorld.closedInfo from the real
// database (CloseType, CloseHeight, IsPending of the stored close summary).
func (d *zzC13ChanDB) closedInfo() (closed bool, ct channeldb.ClosureType, height uint32, fully bool) {
	s, ok := d.summary()
	if !ok || s == nil {
		return false, 0, 0, false
	}
	return true, s.CloseType, s.CloseHeight, !s.IsPending
}

// configure implements zzWorldHooks: called by zzWorld.boot with the
// arbitrator config it built, before the arbitrator is created.
func (d *zzC13ChanDB) configure(inc *zzIncarnation, cfg *ChannelArbitratorConfig) {
	w := d.w
	if w.kv.Fenced() {
		w.r.Harness("boot while the database is fenced")
	}
	v := d.load()
	d.epoch, d.registered, d.channel = inc.epoch, false, v.open
	if n := d.ex.nurse; n != nil {
		// server.go: ChainArbitratorConfig.IncubateOutputs = utxoNursery.IncubateOutputs
		cfg.IncubateOutputs = n.incubateFn(inc)
	}
	// NewChainArbitrator, minus everything ResolveContract does not touch
	d.chainArb = &ChainArbitrator{
		activeChannels: make(map[wire.OutPoint]*ChannelArbitrator),
		activeWatchers: make(map[wire.OutPoint]*chainWatcher),
		chanSource:     d.db,
	}
	if v.open == nil {
		// loadPendingCloseChannels: no channel, no close callbacks; close
		// type and height from the stored summary
		if v.pending == nil {
			w.r.Harness("boot of a fully closed channel")
		}
		cfg.IsPendingClose = true
		cfg.ClosingHeight = v.pending.CloseHeight
		cfg.CloseType = v.pending.CloseType
		d.realLoader(v.pending)
		cfg.MarkCommitmentBroadcasted = nil
		cfg.MarkChannelClosed = nil
		return
	}
	cfg.IsPendingClose = false
	// newActiveChannelArbitrator
	channel := v.open
	cfg.MarkCommitmentBroadcasted = func(tx *wire.MsgTx, who lntypes.ChannelParty) error {
		if err := channel.MarkCommitmentBroadcasted(tx, who); err != nil {
			return err
		}
		inc.effect(zzEffect{kind: "bcast", what: tx.TxHash().String()})
		return nil
	}
	cfg.MarkChannelClosed = func(summary *channeldb.ChannelCloseSummary, statuses ...channeldb.ChannelStatus) error {
		// The simulator plays the chain watcher that built the summary:
		// what the watcher copies from its channel record is filled in here.
		s := *summary
		if s.RemotePub == nil {
			s.RemotePub = channel.IdentityPub
		}
		if s.Capacity == 0 {
			s.Capacity = channel.Capacity
		}
		if err := channel.CloseChannel(&s, statuses...); err != nil {
			return err
		}
		inc.effect(zzEffect{kind: "closed", what: fmt.Sprintf("type=%d height=%d", s.CloseType, s.CloseHeight)})
		return nil
	}
}

// realLoader runs lnd's own ChainArbitrator.loadPendingCloseChannels on the
// database the node restarts from (it only reads). ORACLE ("after restart it
// resumes from the recorded stage"): whatever kind of close it was, a channel
// that is pending close must get an arbitrator again - pending close, with the
// stored close type and height - or nothing ever drives it to "fully closed".
// The arbitrator that runs is the simulator's (it needs the simulator's seams);
// this one is only looked at.
func (d *zzC13ChanDB) realLoader(pending *channeldb.ChannelCloseSummary) {
	w, r := d.w, d.w.r
	ca := &ChainArbitrator{
		activeChannels: make(map[wire.OutPoint]*ChannelArbitrator),
		activeWatchers: make(map[wire.OutPoint]*chainWatcher),
		chanSource:     d.db,
	}
	if err := ca.loadPendingCloseChannels(); err != nil {
		r.Fail("restart-start-error", "%s: ChainArbitrator.loadPendingCloseChannels fails on the restarted database: %v", d.ex.where(), err)
	}
	r.Count("probe_real_pending_close_loader_ran")
	a := ca.activeChannels[w.chanPoint]
	switch {
	case a == nil:
		r.Fail("restart-no-arbitrator", "%s: the channel is pending close in the channel database (close type %d, height %d) but ChainArbitrator.loadPendingCloseChannels "+
			"creates no arbitrator for it: nothing will ever mark it fully closed", d.ex.where(), pending.CloseType, pending.CloseHeight)
	case !a.cfg.IsPendingClose || a.cfg.CloseType != pending.CloseType || a.cfg.ClosingHeight != pending.CloseHeight:
		r.Fail("restart-arbitrator-config", "%s: loadPendingCloseChannels builds the arbitrator with pendingClose=%v closeType=%d closingHeight=%d, the close record says type %d height %d",
			d.ex.where(), a.cfg.IsPendingClose, a.cfg.CloseType, a.cfg.ClosingHeight, pending.CloseType, pending.CloseHeight)
	}
	if pending.CloseType == channeldb.CooperativeClose {
		r.Count("probe_restart_of_pending_coop_close")
	}
}

// startError implements zzWorldHooks: ChannelArbitrator.Start failed. In lnd
// that fails ChainArbitrator.Start, i.e. the node does not come up.
func (d *zzC13ChanDB) startError(inc *zzIncarnation, err error) {
	if d.ex.restarts == 0 {
		return // first boot: the caller reports harness trouble
	}
	d.w.r.Fail("restart-start-error", "%s: the arbitrator does not start after the restart: %v", d.ex.where(), err)
}

// broadcastedCommitment is what ChainArbitrator.republishClosingTxs would
// republish for the channel loaded at this boot.
func (d *zzC13ChanDB) broadcastedCommitment() *wire.MsgTx {
	if d.channel == nil || !d.channel.HasChanStatus(channeldb.ChanStatusCommitBroadcasted) {
		return nil
	}
	tx, err := d.channel.BroadcastedCommitment()
	if err != nil {
		if d.w.kv.Fenced() {
			return nil
		}
		d.w.r.Harness("BroadcastedCommitment: %v", err)
	}
	return tx
}

// resolveContract starts the real ChainArbitrator.ResolveContract for the
// channel, as ChainArbitrator.resolveContracts does on a resolved signal, and
// waits for quiescence. It runs on its own goroutine (it stops the arbitrator
// and waits for it); the result arrives on the returned channel.
func (d *zzC13ChanDB) resolveContract(inc *zzIncarnation) chan error {
	w := d.w
	if !d.registered {
		// loadOpenChannels / loadPendingCloseChannels
		d.chainArb.activeChannels[w.chanPoint] = inc.arb
		d.registered = true
	}
	ca := d.chainArb
	res := make(chan error, 1)
	go func() { res <- ca.ResolveContract(w.chanPoint) }()
	w.settle()
	return res
}
