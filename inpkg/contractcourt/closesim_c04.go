package contractcourt

import (
	"bytes"
	"errors"
	"fmt"
	"sort"
	"strings"

	"github.com/btcsuite/btcd/btcutil/v2"
	"github.com/btcsuite/btcd/wire/v2"
	"github.com/lightningnetwork/lnd/chainntnfs"
	"github.com/lightningnetwork/lnd/channeldb"
	"github.com/lightningnetwork/lnd/fn/v2"
	"github.com/lightningnetwork/lnd/input"
	"github.com/lightningnetwork/lnd/lntest/mock"
	"github.com/lightningnetwork/lnd/lnwallet"
	"github.com/lightningnetwork/lnd/lnwallet/chainfee"
	"github.com/lightningnetwork/lnd/lnwire"

	"verif/chansim"
	"verif/simcore"
)

// zzRevoked is what the cheater could broadcast for one revoked height.
type zzRevoked struct {
	side   int // the cheater
	height uint64
	commit channeldb.ChannelCommitment
	// second-level transactions of the cheater keyed by HTLC output index
	second map[int32]*wire.MsgTx
}

// zzRunC04: a chansim history with reloads; every commitment a side revokes is
// recorded as the actual transaction it could broadcast; then each side must
// be able to punish every height it holds the revocation for, from a
// reloaded copy of its database only.
func zzRunC04(r *simcore.Run) {
	cfg := chansim.DrawConfig(r.Tape)
	cfg.NoRevLogAmt = r.Tape.CfgDraw(3) == 0
	mode := chansim.Mode{Cuts: r.Tape.CfgDraw(2) == 0, MaxSteps: 50 + 30*r.Tape.CfgDraw(3), MaxHtlcs: []int{4, 8, 14}[r.Tape.CfgDraw(3)], MediumDen: 48, MediumHtlcs: 40, MediumSteps: 2}
	withSpendTxOnly := cfg.NoRevLogAmt
	r.Arm = fmt.Sprintf("%s/amt=%v/cuts=%v", cfg.TypeName, !cfg.NoRevLogAmt, mode.Cuts)
	var revoked []*zzRevoked
	var pre *zzRevoked
	mode.OnPreRevoke = func(s *chansim.Sim, side int) {
		p := s.P[side]
		st := p.Chan.State()
		old := st.LocalCommitment
		pre = &zzRevoked{side: side, height: old.CommitHeight, commit: old, second: map[int32]*wire.MsgTx{}}
		if old.CommitHeight == 0 {
			return // placeholder commitment 0: no funding flow simulated
		}
		sum, err := lnwallet.NewLocalForceCloseSummary(st, p.Signer, old.CommitTx, 0, old.CommitHeight,
			fn.None[lnwallet.AuxLeafStore](), fn.None[lnwallet.AuxContractResolver]())
		if err != nil {
			r.Fail("forceclose-summary", "%s: cannot derive the force-close summary of its own commitment %d: %v", p.Name, old.CommitHeight, err)
		}
		sum.ContractResolutions.WhenSome(func(cr lnwallet.ContractResolutions) {
			if cr.HtlcResolutions == nil {
				return
			}
			for _, h := range cr.HtlcResolutions.OutgoingHTLCs {
				if h.SignedTimeoutTx != nil {
					pre.second[int32(h.SignedTimeoutTx.TxIn[0].PreviousOutPoint.Index)] = h.SignedTimeoutTx
				}
			}
			for _, h := range cr.HtlcResolutions.IncomingHTLCs {
				if h.SignedSuccessTx != nil {
					pre.second[int32(h.SignedSuccessTx.TxIn[0].PreviousOutPoint.Index)] = h.SignedSuccessTx
				}
			}
		})
	}
	mode.OnRevoke = func(s *chansim.Sim, side int, h uint64, tx []byte, snap *chansim.RevokedSnap) {
		if pre == nil || pre.side != side || pre.height != h {
			r.Harness("pre-revoke snapshot mismatch")
		}
		if h > 0 {
			revoked = append(revoked, pre)
		}
		pre = nil
	}
	checks := 0
	punish := func(s *chansim.Sim, when string) {
		for victim := 0; victim < 2; victim++ {
			var todo []*zzRevoked
			for _, rv := range revoked {
				// the victim can punish what it holds the secret for
				if rv.side != victim && rv.height < s.M.S[victim].RemoteTail.Height {
					todo = append(todo, rv)
				}
			}
			if len(todo) == 0 {
				continue
			}
			// seeded sample in quick, all in thorough
			max := 3
			if r.Tier == "thorough" {
				max = 12
			}
			for len(todo) > max {
				i := r.Draw(len(todo))
				todo = append(todo[:i], todo[i+1:]...)
			}
			vp := s.ForkParty(victim)
			for _, rv := range todo {
				zzPunish(r, s, vp, rv, withSpendTxOnly)
				checks++
			}
			vp.KV.Close()
		}
		// The state whose revocation is on the wire right now: the cheater
		// broadcasts it at the moment its revoke_and_ack reaches the victim,
		// and the victim's link persists the revocation between two database
		// reads of the chain watcher that is handling the spend.
		for victim := 0; victim < 2; victim++ {
			q := s.Q[1-victim]
			if len(q) == 0 {
				continue
			}
			rev, ok := q[0].(*lnwire.RevokeAndAck)
			if !ok {
				continue
			}
			for _, rv := range revoked {
				if rv.side != victim && rv.height == s.M.S[victim].RemoteTail.Height {
					vp := s.ForkParty(victim)
					zzPunishRace(r, vp, rv, rev)
					vp.KV.Close()
				}
			}
		}
		r.Logf("punish check (%s): %d revoked states known", when, len(revoked))
	}
	mode.OnFinish = func(s *chansim.Sim) {
		if r.Step() {
			r.Kind("punish-mid")
			punish(s, "before wind-down")
		}
	}
	s := chansim.NewSim(r, cfg, mode)
	s.Run()
	if r.Step() {
		r.Kind("punish-end")
		punish(s, "after wind-down")
	}
	r.Add("revoked_states_checked", int64(checks))
	r.Nontrivial = checks > 0
}

// zzPunish checks one revoked height against the victim's reloaded database.
func zzPunish(r *simcore.Run, s *chansim.Sim, vp *chansim.Party, rv *zzRevoked, spendTxOnly bool) {
	tx := rv.commit.CommitTx
	h := rv.height
	st := vp.Chan.State()
	who := fmt.Sprintf("victim %s vs revoked height %d of %s", vp.Name, h, [...]string{"A", "B"}[rv.side])

	// 1. state recognition from the broadcast transaction
	var obf [lnwallet.StateHintSize]byte
	if st.IsInitiator {
		obf = lnwallet.DeriveStateHintObfuscator(st.LocalChanCfg.PaymentBasePoint.PubKey, st.RemoteChanCfg.PaymentBasePoint.PubKey)
	} else {
		obf = lnwallet.DeriveStateHintObfuscator(st.RemoteChanCfg.PaymentBasePoint.PubKey, st.LocalChanCfg.PaymentBasePoint.PubKey)
	}
	if got := lnwallet.GetStateNumHint(tx, obf); got != h {
		r.Fail("state-hint", "%s: state hint of the revoked transaction decodes to %d", who, got)
	}
	var got []*lnwallet.BreachRetribution
	w, sub := zzNewWatcher(r, vp, func(b *lnwallet.BreachRetribution) error {
		got = append(got, b)
		return nil
	})
	defer sub.Cancel()
	if err := w.handleCommitSpend(zzSpendDetail(tx, 700000, st.FundingOutpoint)); err != nil {
		r.Fail("breach-not-recognised", "%s: chain watcher fails on the revoked commitment: %v", who, err)
	}
	if len(got) != 1 {
		r.Fail("breach-not-recognised", "%s: chain watcher did not hand a breach retribution to the breach arbitrator (%d handed)", who, len(got))
	}
	select {
	case <-sub.ContractBreach:
	default:
		r.Fail("breach-not-recognised", "%s: no ContractBreach event was dispatched", who)
	}
	ret := got[0]
	if ret.BreachTxHash != tx.TxHash() || ret.RevokedStateNum != h {
		r.Fail("breach-not-recognised", "%s: retribution names tx %v state %d", who, ret.BreachTxHash, ret.RevokedStateNum)
	}
	zzCheckRetribution(r, who, ret, rv, vp)

	// 2. without the spend tx (only possible when amounts are stored)
	ret2, err := lnwallet.NewBreachRetribution(st, h, 700000, nil, fn.None[lnwallet.AuxLeafStore](), fn.None[lnwallet.AuxContractResolver]())
	switch {
	case err == nil:
		zzCheckRetribution(r, who+" (no spend tx)", ret2, rv, vp)
		r.Count("probe_retribution_without_spendtx")
	case spendTxOnly && errors.Is(err, lnwallet.ErrRevLogDataMissing):
		r.Count("probe_revlog_without_amounts")
	default:
		r.Fail("retribution-error", "%s: NewBreachRetribution without the spend transaction: %v", who, err)
	}
}

// zzPunishRace: the revocation of rv is delivered to the victim's channel
// (a separate object on the same database, as the link's is) at the entry of
// the k-th read transaction the chain watcher performs while it handles the
// spend of rv's commitment. Whatever the watcher read before is older than
// what it reads after. Either verdict is right - the commitment it saw as
// current (a remote force close), or a breach with a valid retribution - but
// it must reach one of them.
func zzPunishRace(r *simcore.Run, vp *chansim.Party, rv *zzRevoked, rev *lnwire.RevokeAndAck) {
	if vp.Aged == nil {
		return
	}
	if vp.Aged.ChanType.IsTaproot() {
		// a freshly loaded taproot channel has no musig2 session to refresh
		// before channel_reestablish; the scenario is run on the other types
		r.Count("probe_watcher_race_skipped_taproot")
		return
	}
	who := fmt.Sprintf("victim %s, revocation of height %d of %s persisted while the spend is handled", vp.Name, rv.height, [...]string{"A", "B"}[rv.side])
	tx := rv.commit.CommitTx
	var got []*lnwallet.BreachRetribution
	notifier := &mock.ChainNotifier{
		SpendChan: make(chan *chainntnfs.SpendDetail, 1),
		EpochChan: make(chan *chainntnfs.BlockEpoch, 1),
		ConfChan:  make(chan *chainntnfs.TxConfirmation, 1),
	}
	w, err := newChainWatcher(chainWatcherConfig{
		chanState: vp.Aged,
		notifier:  notifier,
		signer:    vp.Signer,
		contractBreach: func(b *lnwallet.BreachRetribution) error {
			got = append(got, b)
			return nil
		},
		extractStateNumHint: lnwallet.GetStateNumHint,
		auxLeafStore:        fn.None[lnwallet.AuxLeafStore](),
		auxResolver:         fn.None[lnwallet.AuxContractResolver](),
	})
	r.Must(err, "newChainWatcher")
	sub := w.SubscribeChannelEvents()
	defer sub.Cancel()

	at := 1 + r.Draw(4)
	reads, fired := 0, false
	var revErr error
	vp.KV.OnTx = func(write bool) {
		if write || fired {
			return
		}
		reads++
		if reads == at {
			fired = true
			_, _, revErr = vp.Chan.ReceiveRevocation(rev)
		}
	}
	err = w.handleCommitSpend(zzSpendDetail(tx, 700000, vp.Aged.FundingOutpoint))
	vp.KV.OnTx = nil
	if !fired {
		r.Count("probe_watcher_race_not_reached")
		return
	}
	if revErr != nil {
		r.Harness("%s: the in-flight revocation is refused: %v", who, revErr)
	}
	r.Count("fault_revocation_persisted_between_watcher_reads")
	if err != nil {
		r.Fail("breach-not-recognised", "%s (before the watcher's read #%d): the chain watcher fails on the spend: %v", who, at, err)
	}
	select {
	case <-sub.ContractBreach:
		if len(got) != 1 {
			r.Fail("breach-not-recognised", "%s: ContractBreach dispatched but %d retributions handed to the breach arbitrator", who, len(got))
		}
		if got[0].BreachTxHash != tx.TxHash() || got[0].RevokedStateNum != rv.height {
			r.Fail("breach-not-recognised", "%s: retribution names tx %v state %d", who, got[0].BreachTxHash, got[0].RevokedStateNum)
		}
		zzCheckRetribution(r, who, got[0], rv, vp)
		r.Count("probe_watcher_race_judged_breach")
	default:
		select {
		case <-sub.RemoteUnilateralClosure:
			r.Count("probe_watcher_race_judged_current_state")
		default:
			r.Fail("breach-not-recognised", "%s (before the watcher's read #%d): neither a breach nor a remote force close was dispatched", who, at)
		}
	}
}

func zzCheckRetribution(r *simcore.Run, who string, ret *lnwallet.BreachRetribution, rv *zzRevoked, vp *chansim.Party) {
	tx := rv.commit.CommitTx
	txid := tx.TxHash()
	prev := map[wire.OutPoint]*wire.TxOut{}
	for i, o := range tx.TxOut {
		prev[wire.OutPoint{Hash: txid, Index: uint32(i)}] = o
	}
	matchOut := func(what string, op wire.OutPoint, sd *input.SignDescriptor) {
		if op.Hash != txid || int(op.Index) >= len(tx.TxOut) {
			r.Fail("retribution-index", "%s: %s outpoint %v is not an output of the revoked transaction", who, what, op)
		}
		o := tx.TxOut[op.Index]
		if sd.Output == nil || sd.Output.Value != o.Value || !bytes.Equal(sd.Output.PkScript, o.PkScript) {
			var v int64 = -1
			if sd.Output != nil {
				v = sd.Output.Value
			}
			r.Fail("retribution-amount", "%s: %s recorded as output %d value %d, but the revoked transaction has value %d there (or another script)", who, what, op.Index, v, o.Value)
		}
	}
	covered := map[uint32]bool{}
	if ret.LocalOutputSignDesc != nil {
		matchOut("our to-remote output", ret.LocalOutpoint, ret.LocalOutputSignDesc)
		covered[ret.LocalOutpoint.Index] = true
	}
	if ret.RemoteOutputSignDesc != nil {
		matchOut("their to-local output", ret.RemoteOutpoint, ret.RemoteOutputSignDesc)
		covered[ret.RemoteOutpoint.Index] = true
	}
	for i := range ret.HtlcRetributions {
		hr := &ret.HtlcRetributions[i]
		matchOut(fmt.Sprintf("HTLC %d", i), hr.OutPoint, &hr.SignDesc)
		if covered[hr.OutPoint.Index] {
			r.Fail("retribution-index", "%s: output %d is claimed twice", who, hr.OutPoint.Index)
		}
		covered[hr.OutPoint.Index] = true
	}
	// every non-dust HTLC of the cheater's own record must be covered
	for _, h := range rv.commit.Htlcs {
		if h.OutputIndex >= 0 && !covered[uint32(h.OutputIndex)] {
			r.Fail("retribution-missing-htlc", "%s: HTLC output %d (amt %d) of the revoked commitment has no retribution", who, h.OutputIndex, h.Amt)
		}
	}
	// everything else may only be anchors
	anchors := 0
	for i, o := range tx.TxOut {
		if covered[uint32(i)] {
			continue
		}
		if !ret.ChanType.HasAnchors() || btcutil.Amount(o.Value) != lnwallet.AnchorSize {
			r.Fail("retribution-missing-output", "%s: output %d (value %d) of the revoked commitment is neither punished nor an anchor", who, i, o.Value)
		}
		anchors++
	}
	if anchors > 2 {
		r.Fail("retribution-missing-output", "%s: %d unclaimed anchor-sized outputs", who, anchors)
	}

	// justice transactions built by the real breach arbitrator code
	brar := NewBreachArbitrator(&BreachConfig{
		Estimator: chainfee.NewStaticEstimator(253, 0),
		GenSweepScript: func() fn.Result[lnwallet.AddrWithKey] {
			return fn.Ok(lnwallet.AddrWithKey{DeliveryAddress: append([]byte{0x51, 0x20}, bytes.Repeat([]byte{0x42}, 32)...)})
		},
		Signer: vp.Signer,
	})
	chanPoint := vp.Chan.State().FundingOutpoint
	info := newRetributionInfo(&chanPoint, ret)
	if len(info.breachedOutputs) != len(covered) {
		r.Fail("justice-missing-input", "%s: breach arbitrator prepared %d inputs for %d punishable outputs", who, len(info.breachedOutputs), len(covered))
	}
	variants, err := brar.createJusticeTx(info.breachedOutputs)
	if err != nil {
		r.Fail("justice-build", "%s: createJusticeTx: %v", who, err)
	}
	validate := func(name string, jc *justiceTxCtx, prevOuts map[wire.OutPoint]*wire.TxOut, wantInputs int) {
		if jc == nil {
			if wantInputs > 0 {
				r.Fail("justice-build", "%s: no %s justice transaction although %d inputs qualify", who, name, wantInputs)
			}
			return
		}
		if len(jc.justiceTx.TxIn) != wantInputs {
			r.Fail("justice-missing-input", "%s: %s justice transaction has %d inputs, expected %d", who, name, len(jc.justiceTx.TxIn), wantInputs)
		}
		for i := range jc.justiceTx.TxIn {
			if err := zzVerifyInput(jc.justiceTx, i, prevOuts); err != nil {
				// Structural signature for known-finding matching:
				// channel kind / witness type / error class.
				sig := ""
				if ret.ChanType.HasLeaseExpiration() && jc.inputs[i].WitnessType() == input.CommitmentToRemoteConfirmed &&
					strings.Contains(err.Error(), "locktime requirement not satisfied") {
					sig = "lease/own-to-remote/cltv-locktime-unset"
				}
				r.FailOrKnown("justice-invalid-witness", sig, "%s: %s justice tx input %d (%v, %v) fails script validation: %v", who, name, i,
					jc.justiceTx.TxIn[i].PreviousOutPoint, jc.inputs[i].WitnessType(), err)
			}
			r.Count("script_validations")
		}
	}
	nHtlc := len(ret.HtlcRetributions)
	validate("spend-all", variants.spendAll, prev, len(covered))
	validate("commit-outputs", variants.spendCommitOuts, prev, len(covered)-nHtlc)
	validate("htlc-outputs", variants.spendHTLCs, prev, nHtlc)

	// The breach arbitrator persists the retribution before it acts and works
	// from the stored copy after a restart: the same three transactions must
	// be valid when built from what RetributionStore gives back.
	if vp.DB != nil {
		store := NewRetributionStore(vp.DB.Backend)
		if err := store.Add(info); err != nil {
			r.Fail("retribution-store", "%s: RetributionStore.Add: %v", who, err)
		}
		var restored *retributionInfo
		err := NewRetributionStore(vp.DB.Backend).ForAll(func(ri *retributionInfo) error {
			if ri.chanPoint == chanPoint {
				restored = ri
			}
			return nil
		}, func() { restored = nil })
		if err != nil {
			r.Fail("retribution-store", "%s: RetributionStore.ForAll after Add: %v", who, err)
		}
		if restored == nil {
			r.Fail("retribution-store", "%s: the stored retribution is not found again", who)
		}
		if len(restored.breachedOutputs) != len(info.breachedOutputs) {
			r.Fail("justice-missing-input", "%s: %d breached outputs stored, %d restored", who, len(info.breachedOutputs), len(restored.breachedOutputs))
		}
		rvs, err := brar.createJusticeTx(restored.breachedOutputs)
		if err != nil {
			r.Fail("justice-build", "%s: createJusticeTx on the restored retribution: %v", who, err)
		}
		validate("spend-all(after restart)", rvs.spendAll, prev, len(covered))
		validate("commit-outputs(after restart)", rvs.spendCommitOuts, prev, len(covered)-nHtlc)
		validate("htlc-outputs(after restart)", rvs.spendHTLCs, prev, nHtlc)
		if err := store.Remove(&chanPoint); err != nil {
			r.Fail("retribution-store", "%s: RetributionStore.Remove: %v", who, err)
		}
		r.Count("probe_retribution_store_round_trip")
		if ret.ChanType.IsTaproot() && nHtlc >= 2 {
			r.Count("probe_taproot_retribution_restored_with_several_htlcs")
		}
	}

	// the cheater advances HTLCs to the second level first
	if nHtlc > 0 && len(rv.second) > 0 {
		idxs := make([]int, 0, len(info.breachedOutputs))
		for i := range info.breachedOutputs {
			bo := &info.breachedOutputs[i]
			isHtlc := false
			switch bo.witnessType {
			case input.HtlcAcceptedRevoke, input.HtlcOfferedRevoke, input.TaprootHtlcAcceptedRevoke, input.TaprootHtlcOfferedRevoke:
				isHtlc = true
			}
			if _, ok := rv.second[int32(bo.outpoint.Index)]; ok && isHtlc {
				idxs = append(idxs, i)
			}
		}
		sort.Ints(idxs)
		if len(idxs) > 0 {
			pick := idxs[r.Draw(len(idxs))]
			bo := &info.breachedOutputs[pick]
			stx := rv.second[int32(bo.outpoint.Index)]
			convertToSecondLevelRevoke(bo, info, &chainntnfs.SpendDetail{SpendingTx: stx, SpenderInputIndex: 0})
			v2, err := brar.createJusticeTx(info.breachedOutputs)
			if err != nil {
				r.Fail("justice-build", "%s: createJusticeTx after second-level advance: %v", who, err)
			}
			prev2 := map[wire.OutPoint]*wire.TxOut{}
			for k, v := range prev {
				prev2[k] = v
			}
			sh := stx.TxHash()
			for i, o := range stx.TxOut {
				prev2[wire.OutPoint{Hash: sh, Index: uint32(i)}] = o
			}
			if len(v2.spendSecondLevelHTLCs) != 1 {
				r.Fail("justice-build", "%s: %d second-level justice transactions after one HTLC was advanced", who, len(v2.spendSecondLevelHTLCs))
			}
			validate("second-level", v2.spendSecondLevelHTLCs[0], prev2, 1)
			validate("spend-all(after second level)", v2.spendAll, prev2, len(covered))
			r.Count("probe_second_level_revoke")
		}
	}
	if ret.ChanType.IsTaproot() {
		r.Count("probe_taproot_justice")
	}
	if nHtlc > 0 {
		r.Count("probe_justice_with_htlcs")
	}
	_ = simcore.ErrSimIO
}
