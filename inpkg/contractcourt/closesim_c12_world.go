package contractcourt

// closesim part 2 (properties C12 and C13): a real ChannelArbitrator with its
// real bolt-backed log and real contract resolvers, driven one stimulus at a
// time inside a testing/synctest bubble. Everything below the arbitrator
// (chain notifier, sweeper, nursery, switch, invoice registry, preimage
// beacon, channel database flags) is a recording stub.
//
// Determinism: lnd starts several goroutines per stimulus (one per resolver).
// Every stub with an externally visible effect first PARKS its caller under a
// stable key (outpoint, txid, ...); the driver waits for quiescence
// (synctest.Wait) and releases parked goroutines one at a time in key order,
// so exactly one goroutine of the arbitrator makes progress at any time.

import (
	"bytes"
	"context"
	"crypto/sha256"
	"encoding/binary"
	"fmt"
	"io"
	"sort"
	"sync"
	"testing"
	"testing/synctest"
	"time"

	"github.com/btcsuite/btcd/btcutil/v2"
	"github.com/btcsuite/btcd/chainhash/v2"
	"github.com/btcsuite/btcd/txscript/v2"
	"github.com/btcsuite/btcd/wire/v2"
	sphinx "github.com/lightningnetwork/lightning-onion"
	"github.com/lightningnetwork/lnd/chainio"
	"github.com/lightningnetwork/lnd/chainntnfs"
	"github.com/lightningnetwork/lnd/channeldb"
	"github.com/lightningnetwork/lnd/chanstate"
	"github.com/lightningnetwork/lnd/clock"
	"github.com/lightningnetwork/lnd/fn/v2"
	"github.com/lightningnetwork/lnd/graph/db/models"
	"github.com/lightningnetwork/lnd/htlcswitch/hop"
	"github.com/lightningnetwork/lnd/input"
	"github.com/lightningnetwork/lnd/invoices"
	"github.com/lightningnetwork/lnd/kvdb"
	"github.com/lightningnetwork/lnd/lntypes"
	"github.com/lightningnetwork/lnd/lnwallet"
	"github.com/lightningnetwork/lnd/lnwallet/chainfee"
	"github.com/lightningnetwork/lnd/lnwire"
	"github.com/lightningnetwork/lnd/sweep"

	"verif/simcore"
)

// ---------------------------------------------------------------------------
// bubble

type zzBubbleTrouble struct{ msg string }

// zzInBubble runs f inside a synctest bubble and carries panics out of it.
func zzInBubble(t *testing.T, r *simcore.Run, f func()) {
	var pv interface{}
	func() {
		defer func() {
			if p := recover(); p != nil && pv == nil {
				pv = zzBubbleTrouble{fmt.Sprint(p)}
			}
		}()
		synctest.Test(t, func(t *testing.T) {
			defer func() {
				if p := recover(); p != nil {
					pv = p
				}
			}()
			f()
		})
	}()
	switch p := pv.(type) {
	case nil:
	case zzBubbleTrouble:
		// goroutines left behind at the end of the bubble: the run itself
		// completed and was judged; only count it.
		r.Count("bubble_leftover_goroutines")
		r.Logf("bubble: %s", p.msg)
	default:
		panic(p)
	}
}

// ---------------------------------------------------------------------------
// scheduler

type zzParked struct {
	key string
	ch  chan struct{}
}

type zzSched struct {
	mu     sync.Mutex
	parked []*zzParked
	dead   bool
	ties   int
}

// park blocks the calling goroutine of the code under test until the driver
// releases it.
func (s *zzSched) park(key string) {
	s.mu.Lock()
	if s.dead {
		s.mu.Unlock()
		return
	}
	p := &zzParked{key: key, ch: make(chan struct{})}
	s.parked = append(s.parked, p)
	s.mu.Unlock()
	<-p.ch
}

// settle waits for quiescence, releasing parked goroutines one at a time in
// key order, until nothing is parked and everything is durably blocked.
func (s *zzSched) settle(logf func(string, ...interface{})) {
	for {
		synctest.Wait()
		s.mu.Lock()
		if len(s.parked) == 0 {
			s.mu.Unlock()
			return
		}
		sort.SliceStable(s.parked, func(i, j int) bool { return s.parked[i].key < s.parked[j].key })
		if len(s.parked) > 1 && s.parked[0].key == s.parked[1].key {
			s.ties++
		}
		p := s.parked[0]
		s.parked = s.parked[1:]
		s.mu.Unlock()
		if logf != nil {
			logf("  run %s", p.key)
		}
		close(p.ch)
	}
}

// kill releases everything; later park calls return at once.
func (s *zzSched) kill() {
	s.mu.Lock()
	s.dead = true
	ps := s.parked
	s.parked = nil
	s.mu.Unlock()
	for _, p := range ps {
		close(p.ch)
	}
}

// ---------------------------------------------------------------------------
// scenario model: HTLCs and the three commitments

const (
	zzSetL = 0
	zzSetR = 1
	zzSetP = 2
)

var zzSetName = [3]string{"local", "remote", "remote-pending"}
var zzSetKeys = [3]HtlcSetKey{LocalHtlcSet, RemoteHtlcSet, RemotePendingHtlcSet}

type zzHtlc struct {
	uid      int
	incoming bool
	id       uint64
	amt      lnwire.MilliSatoshi
	expiry   uint32
	hashNo   int
	fwd      bool // offered: forwarded for an upstream peer (else our own payment)
	exit     bool // received: we are the final hop
	dust     [3]bool
	in       [3]bool
	everL    bool
	everR    bool
	gone     bool
	// removal intents
	weRemove   bool // received: we settled/failed it (leaves the remote commitment first)
	theyRemove bool // offered: they settled/failed it (leaves our commitment first)
}

func (h *zzHtlc) String() string {
	d := "offered"
	if h.incoming {
		d = "received"
	}
	return fmt.Sprintf("%s#%d(uid%d exp=%d hash%d)", d, h.id, h.uid, h.expiry, h.hashNo)
}

const (
	zzKnowNone    = 0
	zzKnowBeacon  = 1 // preimage in the witness cache
	zzKnowInvoice = 2 // invoice with preimage
	zzKnowHodl    = 3 // invoice without preimage (hodl): NOT known
)

type zzModel struct {
	htlcs   []*zzHtlc
	hasP    bool
	nextOut uint64
	nextIn  uint64
	know    []int // per hashNo
	// shape of the world
	anchors   bool
	csv       uint32
	ourBalL   bool // we have a non-dust balance output on our commitment
	ourBalR   bool
	stateNum  [3]uint32 // bumps whenever the set changes (distinct txids)
	baseAmt   lnwire.MilliSatoshi
	startH    uint32
	maxHtlcs  int
	expiryMin int
	expiryMax int
	outDelta  uint32
	inDelta   uint32
}

func zzPreimageOf(hashNo int) lntypes.Preimage {
	var b [8]byte
	binary.BigEndian.PutUint64(b[:], uint64(hashNo))
	return lntypes.Preimage(sha256.Sum256(append([]byte("zz-c12-preimage-"), b[:]...)))
}

func zzHashOf(hashNo int) lntypes.Hash { p := zzPreimageOf(hashNo); return p.Hash() }

func (m *zzModel) known(hashNo int) bool {
	k := m.know[hashNo]
	return k == zzKnowBeacon || k == zzKnowInvoice
}

// newHtlc draws a fresh HTLC (not yet on any commitment).
func (m *zzModel) newHtlc(draw func(int) int, incoming bool, height uint32) *zzHtlc {
	h := &zzHtlc{uid: len(m.htlcs), incoming: incoming}
	if incoming {
		h.id = m.nextIn
		m.nextIn++
	} else {
		h.id = m.nextOut
		m.nextOut++
	}
	h.amt = m.baseAmt + lnwire.MilliSatoshi(1000*(1+draw(5000)))
	// expiries are placed around the broadcast cut-off of their direction
	span := m.expiryMax - m.expiryMin + 1
	delta := m.outDelta
	if incoming {
		delta = m.inDelta
	}
	h.expiry = uint32(int(height) + int(delta) + m.expiryMin + draw(span))
	// hash: sometimes a duplicate of an existing one
	if len(m.know) > 0 && draw(5) == 0 {
		h.hashNo = draw(len(m.know))
	} else {
		h.hashNo = len(m.know)
		m.know = append(m.know, []int{zzKnowNone, zzKnowNone, zzKnowBeacon, zzKnowInvoice, zzKnowHodl}[draw(5)])
	}
	h.fwd = draw(3) != 0
	h.exit = draw(4) == 0
	dl := draw(4) == 0
	dr := dl
	if draw(4) == 0 {
		dr = !dr
	}
	dp := dr
	if draw(8) == 0 {
		dp = !dp
	}
	h.dust = [3]bool{dl, dr, dp}
	m.htlcs = append(m.htlcs, h)
	return h
}

// signRemote: we sign a new commitment for the peer (creates the pending one).
func (m *zzModel) signRemote(draw func(int) int, height uint32) {
	if m.hasP {
		return
	}
	m.hasP = true
	// optionally offer new HTLCs
	nNew := draw(3)
	for i := 0; i < nNew && m.live() < m.maxHtlcs; i++ {
		h := m.newHtlc(draw, false, height)
		h.in[zzSetP] = true
	}
	for _, h := range m.htlcs {
		if h.gone || (!h.in[zzSetL] && !h.in[zzSetR] && !h.in[zzSetP]) {
			continue
		}
		switch {
		case !h.incoming && h.in[zzSetR]:
			// offered, on their commitment: stays unless they removed it
			// and we already dropped it from ours
			h.in[zzSetP] = !(h.everL && !h.in[zzSetL])
		case h.incoming && h.in[zzSetL] && !h.everR:
			h.in[zzSetP] = true
		case h.incoming && h.in[zzSetR]:
			if !h.weRemove && draw(3) == 0 {
				h.weRemove = true
			}
			h.in[zzSetP] = !h.weRemove
		}
	}
	m.stateNum[zzSetP]++
}

// remoteRevoke: the peer revokes; the pending commitment becomes current.
func (m *zzModel) remoteRevoke() {
	if !m.hasP {
		return
	}
	for _, h := range m.htlcs {
		if h.gone {
			continue
		}
		h.in[zzSetR] = h.in[zzSetP]
		h.dust[zzSetR] = h.dust[zzSetP]
		if h.in[zzSetR] {
			h.everR = true
		}
		h.in[zzSetP] = false
	}
	m.hasP = false
	m.stateNum[zzSetR]++
	m.collect()
}

// localAdvance: the peer signs a new commitment for us and we revoke.
func (m *zzModel) localAdvance(draw func(int) int, height uint32) {
	for _, h := range m.htlcs {
		if h.gone {
			continue
		}
		switch {
		case !h.incoming && h.in[zzSetR] && !h.everL:
			h.in[zzSetL], h.everL = true, true
		case !h.incoming && h.in[zzSetL]:
			if draw(3) == 0 {
				h.theyRemove = true
				h.in[zzSetL] = false
			}
		case h.incoming && h.in[zzSetL] && h.everR && !h.in[zzSetR] && !h.in[zzSetP]:
			h.in[zzSetL] = false
		}
	}
	nNew := draw(3)
	for i := 0; i < nNew && m.live() < m.maxHtlcs; i++ {
		h := m.newHtlc(draw, true, height)
		h.in[zzSetL], h.everL = true, true
	}
	m.stateNum[zzSetL]++
	m.collect()
}

func (m *zzModel) collect() {
	for _, h := range m.htlcs {
		if !h.gone && !h.in[0] && !h.in[1] && !h.in[2] {
			h.gone = true
		}
	}
}

func (m *zzModel) live() int {
	n := 0
	for _, h := range m.htlcs {
		if !h.gone {
			n++
		}
	}
	return n
}

// members returns the HTLCs on one commitment.
func (m *zzModel) members(set int) []*zzHtlc {
	var out []*zzHtlc
	for _, h := range m.htlcs {
		if !h.gone && h.in[set] {
			out = append(out, h)
		}
	}
	return out
}

const zzHtlcOutBase = 4 // outputs 0..3: balances and anchors

// outputIndex gives every non-dust HTLC of a commitment a distinct output
// index; the order differs per commitment so that the same HTLC sits at
// different indices on different commitments.
func (m *zzModel) outputIndex(set int) map[int]int32 {
	var nd []*zzHtlc
	for _, h := range m.members(set) {
		if !h.dust[set] {
			nd = append(nd, h)
		}
	}
	sort.Slice(nd, func(i, j int) bool {
		switch set {
		case zzSetL:
			return nd[i].uid < nd[j].uid
		case zzSetR:
			return nd[i].uid > nd[j].uid
		default:
			if nd[i].amt != nd[j].amt {
				return nd[i].amt < nd[j].amt
			}
			return nd[i].uid < nd[j].uid
		}
	})
	idx := map[int]int32{}
	for i, h := range nd {
		idx[h.uid] = int32(zzHtlcOutBase + i)
	}
	return idx
}

func (m *zzModel) dbHtlc(h *zzHtlc, outIdx int32) channeldb.HTLC {
	d := channeldb.HTLC{
		RHash:         zzHashOf(h.hashNo),
		Amt:           h.amt,
		RefundTimeout: h.expiry,
		OutputIndex:   outIdx,
		Incoming:      h.incoming,
		HtlcIndex:     h.id,
		LogIndex:      uint64(h.uid),
	}
	binary.BigEndian.PutUint32(d.OnionBlob[0:4], 0x7a7a0000|uint32(h.uid))
	return d
}

// dbSet is the HTLC list of one commitment as the link / chain watcher report it.
func (m *zzModel) dbSet(set int) []channeldb.HTLC {
	idx := m.outputIndex(set)
	var out []channeldb.HTLC
	for _, h := range m.members(set) {
		oi := int32(-1)
		if v, ok := idx[h.uid]; ok {
			oi = v
		}
		out = append(out, m.dbHtlc(h, oi))
	}
	return out
}

func (m *zzModel) byUID(uid int) *zzHtlc {
	if uid >= 0 && uid < len(m.htlcs) {
		return m.htlcs[uid]
	}
	return nil
}

// ---------------------------------------------------------------------------
// synthetic commitments and their resolutions

func zzScript(tag byte, uid int, extra byte) []byte {
	s := []byte{txscript.OP_DUP, tag, byte(uid >> 8), byte(uid), extra}
	return s
}

func zzP2WSH(script []byte) []byte {
	pk, err := input.WitnessScriptHash(script)
	if err != nil {
		panic("verif: zzP2WSH: " + err.Error())
	}
	return pk
}

var zzDummySig = bytes.Repeat([]byte{0x30}, 71)

type zzCommitment struct {
	set     int
	tx      *wire.MsgTx
	txid    chainhash.Hash
	htlcs   []channeldb.HTLC
	outIdx  map[int]int32
	res     lnwallet.HtlcResolutions
	commit  *lnwallet.CommitOutputResolution
	anchor  *lnwallet.AnchorResolution
	secondL map[wire.OutPoint]int // HTLC outpoint -> uid
}

// buildCommitment materialises one of the three commitments of the model.
func (m *zzModel) buildCommitment(set int, funding wire.OutPoint) *zzCommitment {
	c := &zzCommitment{set: set, outIdx: m.outputIndex(set), secondL: map[wire.OutPoint]int{}}
	c.htlcs = m.dbSet(set)
	tx := wire.NewMsgTx(2)
	tx.AddTxIn(&wire.TxIn{PreviousOutPoint: funding, Sequence: 0x80000000 | uint32(set)<<16 | m.stateNum[set]&0xffff,
		Witness: wire.TxWitness{{}, zzDummySig, zzDummySig, {0x52}}})
	tx.LockTime = 0x20000000 | uint32(set)
	nOut := zzHtlcOutBase
	for _, i := range c.outIdx {
		if int(i)+1 > nOut {
			nOut = int(i) + 1
		}
	}
	for i := 0; i < nOut; i++ {
		tx.AddTxOut(&wire.TxOut{Value: 0, PkScript: zzP2WSH([]byte{txscript.OP_TRUE, byte(i)})})
	}
	local := set == zzSetL
	// our balance output (index 0)
	hasBal := m.ourBalL
	if !local {
		hasBal = m.ourBalR
	}
	var balScript []byte
	if local {
		balScript = []byte{txscript.OP_IF, 0x01, byte(set)}
	} else {
		balScript = []byte{txscript.OP_DATA_1, 0x02, byte(set)}
	}
	if hasBal {
		tx.TxOut[0] = &wire.TxOut{Value: 50_000, PkScript: zzP2WSH(balScript)}
	}
	if m.anchors {
		tx.TxOut[2] = &wire.TxOut{Value: 330, PkScript: zzP2WSH([]byte{txscript.OP_TRUE, 0xa0, byte(set)})}
		tx.TxOut[3] = &wire.TxOut{Value: 330, PkScript: zzP2WSH([]byte{txscript.OP_TRUE, 0xa1, byte(set)})}
	}
	for _, h := range m.members(set) {
		oi, ok := c.outIdx[h.uid]
		if !ok {
			continue
		}
		ws := zzScript(0x10, h.uid, byte(set))
		tx.TxOut[oi] = &wire.TxOut{Value: int64(h.amt.ToSatoshis()), PkScript: zzP2WSH(ws)}
	}
	c.tx = tx
	c.txid = tx.TxHash()

	if hasBal {
		delay := m.csv
		if !local {
			delay = 0
			if m.anchors {
				delay = 1
			}
		}
		c.commit = &lnwallet.CommitOutputResolution{
			SelfOutPoint: wire.OutPoint{Hash: c.txid, Index: 0},
			SelfOutputSignDesc: input.SignDescriptor{
				WitnessScript: balScript,
				Output:        tx.TxOut[0],
				HashType:      txscript.SigHashAll,
			},
			MaturityDelay: delay,
		}
	}
	if m.anchors {
		c.anchor = &lnwallet.AnchorResolution{
			AnchorSignDescriptor: input.SignDescriptor{
				WitnessScript: []byte{txscript.OP_TRUE, 0xa0, byte(set)},
				Output:        tx.TxOut[2],
				HashType:      txscript.SigHashAll,
			},
			CommitAnchor: wire.OutPoint{Hash: c.txid, Index: 2},
			CommitFee:    1000,
			CommitWeight: 1200,
		}
	}
	for _, h := range m.members(set) {
		oi, ok := c.outIdx[h.uid]
		if !ok {
			continue
		}
		op := wire.OutPoint{Hash: c.txid, Index: uint32(oi)}
		c.secondL[op] = h.uid
		ws := zzScript(0x10, h.uid, byte(set))
		out := tx.TxOut[oi]
		second := zzScript(0x20, h.uid, byte(set))
		var sd *input.SignDetails
		if m.anchors {
			sd = &input.SignDetails{
				SignDesc: input.SignDescriptor{
					WitnessScript: ws,
					Output:        out,
					HashType:      txscript.SigHashAll,
				},
				SigHashType: txscript.SigHashSingle | txscript.SigHashAnyOneCanPay,
				PeerSig:     testSig,
			}
		}
		switch {
		case !h.incoming && local:
			ttx := wire.NewMsgTx(2)
			ttx.AddTxIn(&wire.TxIn{PreviousOutPoint: op, Sequence: 1,
				Witness: wire.TxWitness{{}, zzDummySig, zzDummySig, {}, ws}})
			ttx.AddTxOut(&wire.TxOut{Value: out.Value - 100, PkScript: zzP2WSH(second)})
			ttx.LockTime = h.expiry
			c.res.OutgoingHTLCs = append(c.res.OutgoingHTLCs, lnwallet.OutgoingHtlcResolution{
				Expiry:          h.expiry,
				SignedTimeoutTx: ttx,
				SignDetails:     sd,
				CsvDelay:        m.csv,
				ClaimOutpoint:   wire.OutPoint{Hash: ttx.TxHash(), Index: 0},
				SweepSignDesc: input.SignDescriptor{
					WitnessScript: second, Output: ttx.TxOut[0], HashType: txscript.SigHashAll,
				},
			})
		case !h.incoming && !local:
			csv := uint32(0)
			if m.anchors {
				csv = 1
			}
			c.res.OutgoingHTLCs = append(c.res.OutgoingHTLCs, lnwallet.OutgoingHtlcResolution{
				Expiry:        h.expiry,
				CsvDelay:      csv,
				ClaimOutpoint: op,
				SweepSignDesc: input.SignDescriptor{
					WitnessScript: ws, Output: out, HashType: txscript.SigHashAll,
				},
			})
		case h.incoming && local:
			stx := wire.NewMsgTx(2)
			stx.AddTxIn(&wire.TxIn{PreviousOutPoint: op, Sequence: 1,
				Witness: wire.TxWitness{{}, zzDummySig, zzDummySig, {}, ws}})
			stx.AddTxOut(&wire.TxOut{Value: out.Value - 100, PkScript: zzP2WSH(second)})
			c.res.IncomingHTLCs = append(c.res.IncomingHTLCs, lnwallet.IncomingHtlcResolution{
				SignedSuccessTx: stx,
				SignDetails:     sd,
				CsvDelay:        m.csv,
				ClaimOutpoint:   wire.OutPoint{Hash: stx.TxHash(), Index: 0},
				SweepSignDesc: input.SignDescriptor{
					WitnessScript: second, Output: stx.TxOut[0], HashType: txscript.SigHashAll,
				},
			})
		default:
			csv := uint32(0)
			if m.anchors {
				csv = 1
			}
			c.res.IncomingHTLCs = append(c.res.IncomingHTLCs, lnwallet.IncomingHtlcResolution{
				CsvDelay:      csv,
				ClaimOutpoint: op,
				SweepSignDesc: input.SignDescriptor{
					WitnessScript: ws, Output: out, HashType: txscript.SigHashAll,
				},
			})
		}
	}
	return c
}

// ---------------------------------------------------------------------------
// the world around one arbitrator

// zzEffect is one externally visible action of the node.
type zzEffect struct {
	kind  string // fc, msg-fail, msg-settle, final, publish, sweep, incubate, resolved, closed, bcast, insert, swap, resolve, state
	idx   uint64 // htlc index where applicable
	ok    bool   // settled flag for "final"
	what  string // free-form identity (outpoint, txid, state name)
	stim  int    // stimulus number during which it happened
	epoch int    // process incarnation
}

type zzInsert struct {
	stim      int
	epoch     int
	reports   int
	resolvers []ContractResolver
}

type zzWorldCfg struct {
	outDelta, inDelta uint32
	grace             time.Duration
	perBlock          time.Duration
}

type zzWorld struct {
	linkUps int // UpdateContractSignals deliveries so far
	r   *simcore.Run
	t   *testing.T
	m   *zzModel
	cfg zzWorldCfg

	kv        *simcore.SimKV
	chanPoint wire.OutPoint
	scid      lnwire.ShortChannelID
	clk       *clock.TestClock
	t0        time.Time
	startedAt time.Time

	height uint32
	stim   int
	epoch  int

	// the live incarnation
	inc *zzIncarnation

	// frozen once the link is gone (force close requested or channel closed)
	frozen bool
	// commitments as of the freeze / close
	commits [3]*zzCommitment

	effects []zzEffect
	inserts []zzInsert
	logbuf  []zzEffect
	finals  map[string]bool // durable final HTLC outcomes (own store, not a crash point)

	closeDelivered string // "", local, remote, remote-pending, breach, coop
	closeHeight    uint32
	userAsked      bool

	// chain state (C13 chain script; C12 never spends anything)
	spent      map[wire.OutPoint]*chainntnfs.SpendDetail
	learned    []int
	breachSubs []chan struct{}
	breachDone bool
	onPublish  func(*wire.MsgTx)
	onIncubate func(wire.OutPoint, fn.Option[lnwallet.OutgoingHtlcResolution], fn.Option[lnwallet.IncomingHtlcResolution])

	trace bool

	// hooks, when set (C13), replace the channel-database stubs below by a
	// real channel database (closesim_c13_chandb.go). Always nil for C12.
	hooks zzWorldHooks
}

// zzWorldHooks: see closesim_c13_chandb.go.
type zzWorldHooks interface {
	closedInfo() (closed bool, ct channeldb.ClosureType, height uint32, fully bool)
	configure(inc *zzIncarnation, cfg *ChannelArbitratorConfig)
	startError(inc *zzIncarnation, err error)
}

// zzIncarnation is one process lifetime of the arbitrator.
type zzIncarnation struct {
	w     *zzWorld
	epoch int
	sched *zzSched
	arb   *ChannelArbitrator
	log   *zzArbLog
	chain *zzChain
	sw    *zzSweeper
	bcn   *zzBeacon
	dead  bool
	// set by NotifyChannelResolved, acted upon by the driver
	resolvedSignal int
	attendantGone  bool
}

func (i *zzIncarnation) alive() bool { return !i.dead && !i.w.kv.Fenced() }

func (w *zzWorld) logf(f string, a ...interface{}) {
	w.flushEffects()
	w.r.Logf(f, a...)
}

// flushEffects writes buffered effect lines. Consecutive effects of the same
// kind are sorted first: lnd produces such groups by ranging over Go maps
// (e.g. one final outcome per received dust HTLC), whose order is not
// reproducible and carries no meaning.
func (w *zzWorld) flushEffects() {
	if len(w.logbuf) == 0 {
		return
	}
	b := w.logbuf
	w.logbuf = nil
	sort.SliceStable(b, func(i, j int) bool {
		if b[i].idx != b[j].idx {
			return b[i].idx < b[j].idx
		}
		if b[i].ok != b[j].ok {
			return !b[i].ok
		}
		return b[i].what < b[j].what
	})
	for _, e := range b {
		w.r.Logf("  effect %s idx=%d ok=%v %s", e.kind, e.idx, e.ok, e.what)
	}
}

func (i *zzIncarnation) effect(e zzEffect) {
	if !i.alive() {
		return
	}
	w := i.w
	e.stim, e.epoch = w.stim, i.epoch
	w.effects = append(w.effects, e)
	if len(w.logbuf) > 0 && w.logbuf[0].kind != e.kind {
		w.flushEffects()
	}
	w.logbuf = append(w.logbuf, e)
}

// ---------------------------------------------------------------------------
// "channel database" flags kept in the same bolt file as the arbitrator log

var (
	zzChanBucket   = []byte("zz-chan")
	zzReportBucket = []byte("zz-reports")
	zzFinalBucket  = []byte("zz-final")
)

func (w *zzWorld) dbPut(bucket, key, val []byte) error {
	return kvdb.Update(w.kv, func(tx kvdb.RwTx) error {
		b, err := tx.CreateTopLevelBucket(bucket)
		if err != nil {
			return err
		}
		return b.Put(key, val)
	}, func() {})
}

func (w *zzWorld) dbGet(bucket, key []byte) []byte {
	var out []byte
	_ = kvdb.View(w.kv, func(tx kvdb.RTx) error {
		b := tx.ReadBucket(bucket)
		if b == nil {
			return nil
		}
		if v := b.Get(key); v != nil {
			out = append([]byte(nil), v...)
		}
		return nil
	}, func() { out = nil })
	return out
}

func (w *zzWorld) dbAll(bucket []byte) map[string]string {
	out := map[string]string{}
	_ = kvdb.View(w.kv, func(tx kvdb.RTx) error {
		b := tx.ReadBucket(bucket)
		if b == nil {
			return nil
		}
		return b.ForEach(func(k, v []byte) error {
			out[string(k)] = string(v)
			return nil
		})
	}, func() { out = map[string]string{} })
	return out
}

// ---------------------------------------------------------------------------
// arbitrator log wrapper (records calls, real bolt log underneath)

type zzArbLog struct {
	*boltArbitratorLog
	inc *zzIncarnation
}

func zzResolverName(res ContractResolver) string {
	switch x := res.(type) {
	case *htlcTimeoutResolver:
		return fmt.Sprintf("timeout(htlc#%d %v)", x.htlc.HtlcIndex, x.outpoint())
	case *htlcOutgoingContestResolver:
		return fmt.Sprintf("outgoing-contest(htlc#%d %v)", x.htlc.HtlcIndex, x.outpoint())
	case *htlcSuccessResolver:
		return fmt.Sprintf("success(htlc#%d %v)", x.htlc.HtlcIndex, x.outpoint())
	case *htlcIncomingContestResolver:
		return fmt.Sprintf("incoming-contest(htlc#%d %v)", x.htlc.HtlcIndex, x.outpoint())
	case *commitSweepResolver:
		return fmt.Sprintf("commit-sweep(%v)", x.commitResolution.SelfOutPoint)
	case *anchorResolver:
		return fmt.Sprintf("anchor(%v)", x.anchor)
	case *breachResolver:
		return "breach"
	default:
		return fmt.Sprintf("%T", res)
	}
}

func (l *zzArbLog) CommitState(s ArbitratorState) error {
	err := l.boltArbitratorLog.CommitState(s)
	if err == nil {
		l.inc.effect(zzEffect{kind: "state", what: s.String()})
	}
	return err
}

func (l *zzArbLog) InsertUnresolvedContracts(reports []*channeldb.ResolverReport,
	resolvers ...ContractResolver) error {

	err := l.boltArbitratorLog.InsertUnresolvedContracts(reports, resolvers...)
	if err == nil && l.inc.alive() {
		var names []string
		for _, r := range resolvers {
			names = append(names, zzResolverName(r))
		}
		sort.Strings(names)
		l.inc.w.inserts = append(l.inc.w.inserts, zzInsert{
			stim: l.inc.w.stim, epoch: l.inc.epoch, reports: len(reports), resolvers: resolvers,
		})
		l.inc.effect(zzEffect{kind: "insert", what: fmt.Sprintf("reports=%d %v", len(reports), names)})
	}
	return err
}

func (l *zzArbLog) SwapContract(o, n ContractResolver) error {
	err := l.boltArbitratorLog.SwapContract(o, n)
	if err == nil {
		l.inc.effect(zzEffect{kind: "swap", what: zzResolverName(o) + " -> " + zzResolverName(n)})
	}
	return err
}

func (l *zzArbLog) ResolveContract(res ContractResolver) error {
	err := l.boltArbitratorLog.ResolveContract(res)
	if err == nil {
		l.inc.effect(zzEffect{kind: "resolve", what: zzResolverName(res)})
	}
	return err
}

// ---------------------------------------------------------------------------
// chain: notifier + best block

type zzSpendReg struct {
	op   wire.OutPoint
	ch   chan *chainntnfs.SpendDetail
	sent bool
	dead bool
	seq  int
}

type zzEpochReg struct {
	ch   chan *chainntnfs.BlockEpoch
	dead bool
	seq  int
}

type zzChain struct {
	inc    *zzIncarnation
	mu     sync.Mutex
	spends []*zzSpendReg
	epochs []*zzEpochReg
	seq    int
}

var _ chainntnfs.ChainNotifier = (*zzChain)(nil)

func (c *zzChain) RegisterConfirmationsNtfn(txid *chainhash.Hash, pkScript []byte,
	numConfs, heightHint uint32, opts ...chainntnfs.NotifierOption) (*chainntnfs.ConfirmationEvent, error) {

	return &chainntnfs.ConfirmationEvent{
		Confirmed: make(chan *chainntnfs.TxConfirmation, 1),
		Cancel:    func() {},
	}, nil
}

func (c *zzChain) RegisterSpendNtfn(op *wire.OutPoint, pkScript []byte, heightHint uint32) (*chainntnfs.SpendEvent, error) {
	c.inc.sched.park("spend-reg " + op.String())
	c.mu.Lock()
	defer c.mu.Unlock()
	c.seq++
	reg := &zzSpendReg{op: *op, ch: make(chan *chainntnfs.SpendDetail, 1), seq: c.seq}
	c.spends = append(c.spends, reg)
	if d := c.inc.w.spentDetail(*op); d != nil {
		reg.sent = true
		reg.ch <- d
	}
	return &chainntnfs.SpendEvent{
		Spend: reg.ch,
		Cancel: func() {
			c.mu.Lock()
			reg.dead = true
			c.mu.Unlock()
		},
	}, nil
}

func (c *zzChain) RegisterBlockEpochNtfn(*chainntnfs.BlockEpoch) (*chainntnfs.BlockEpochEvent, error) {
	c.mu.Lock()
	defer c.mu.Unlock()
	c.seq++
	reg := &zzEpochReg{ch: make(chan *chainntnfs.BlockEpoch, 256), seq: c.seq}
	c.epochs = append(c.epochs, reg)
	// the real notifier delivers the current tip right after registration
	reg.ch <- &chainntnfs.BlockEpoch{Height: int32(c.inc.w.height)}
	return &chainntnfs.BlockEpochEvent{
		Epochs: reg.ch,
		Cancel: func() {
			c.mu.Lock()
			reg.dead = true
			c.mu.Unlock()
		},
	}, nil
}

func (c *zzChain) Start() error  { return nil }
func (c *zzChain) Started() bool { return true }
func (c *zzChain) Stop() error   { return nil }

// BlockChainIO (only GetBestBlock is used by the resolvers)
type zzChainIO struct{ w *zzWorld }

func (c *zzChainIO) GetBestBlock() (*chainhash.Hash, int32, error) {
	return &chainhash.Hash{}, int32(c.w.height), nil
}
func (c *zzChainIO) GetUtxo(*wire.OutPoint, []byte, uint32, <-chan struct{}) (*wire.TxOut, error) {
	return nil, fmt.Errorf("not simulated")
}
func (c *zzChainIO) GetBlockHash(int64) (*chainhash.Hash, error)        { return &chainhash.Hash{}, nil }
func (c *zzChainIO) GetBlock(*chainhash.Hash) (*wire.MsgBlock, error)    { return nil, fmt.Errorf("not simulated") }
func (c *zzChainIO) GetBlockHeader(*chainhash.Hash) (*wire.BlockHeader, error) {
	return nil, fmt.Errorf("not simulated")
}

// spentDetail is overridden by the C13 chain script; C12 never spends.
func (w *zzWorld) spentDetail(op wire.OutPoint) *chainntnfs.SpendDetail {
	if w.spent == nil {
		return nil
	}
	return w.spent[op]
}

// ---------------------------------------------------------------------------
// sweeper / nursery

type zzSweepReq struct {
	op     wire.OutPoint
	inp    input.Input
	params sweep.Params
	res    chan sweep.Result
	epoch  int
	height uint32
}

type zzSweeper struct {
	inc  *zzIncarnation
	mu   sync.Mutex
	reqs []*zzSweepReq
}

func (s *zzSweeper) SweepInput(inp input.Input, p sweep.Params) (chan sweep.Result, error) {
	op := inp.OutPoint()
	s.inc.sched.park("sweep " + op.String())
	ch := make(chan sweep.Result, 1)
	if !s.inc.alive() {
		return ch, nil
	}
	s.mu.Lock()
	s.reqs = append(s.reqs, &zzSweepReq{op: op, inp: inp, params: p, res: ch, epoch: s.inc.epoch, height: s.inc.w.height})
	s.mu.Unlock()
	s.inc.effect(zzEffect{kind: "sweep", what: fmt.Sprintf("%v %v", op, inp.WitnessType())})
	return ch, nil
}

func (s *zzSweeper) RelayFeePerKW() chainfee.SatPerKWeight { return 253 }

func (s *zzSweeper) UpdateParams(op wire.OutPoint, p sweep.Params) (chan sweep.Result, error) {
	return make(chan sweep.Result, 1), nil
}

// ---------------------------------------------------------------------------
// preimage beacon, registry, onion processor

type zzBeaconSub struct {
	ch   chan lntypes.Preimage
	dead bool
}

type zzBeacon struct {
	inc  *zzIncarnation
	mu   sync.Mutex
	subs []*zzBeaconSub
}

func (b *zzBeacon) SubscribeUpdates(lnwire.ShortChannelID, *channeldb.HTLC, *hop.Payload, []byte) (*WitnessSubscription, error) {
	b.mu.Lock()
	defer b.mu.Unlock()
	s := &zzBeaconSub{ch: make(chan lntypes.Preimage, 64)}
	b.subs = append(b.subs, s)
	return &WitnessSubscription{
		WitnessUpdates: s.ch,
		CancelSubscription: func() {
			b.mu.Lock()
			s.dead = true
			b.mu.Unlock()
		},
	}, nil
}

func (b *zzBeacon) LookupPreimage(h lntypes.Hash) (lntypes.Preimage, bool) {
	m := b.inc.w.m
	for no, k := range m.know {
		if k == zzKnowBeacon && zzHashOf(no) == h {
			return zzPreimageOf(no), true
		}
	}
	return lntypes.Preimage{}, false
}

func (b *zzBeacon) AddPreimages(ps ...lntypes.Preimage) error {
	if !b.inc.alive() {
		return nil
	}
	m := b.inc.w.m
	for _, p := range ps {
		for no := range m.know {
			if zzHashOf(no) == p.Hash() {
				// the witness cache is durable in lnd (own database)
				m.know[no] = zzKnowBeacon
				b.inc.w.learned = append(b.inc.w.learned, no)
			}
		}
		b.inc.effect(zzEffect{kind: "preimage-learned", what: p.Hash().String()[:16]})
	}
	return nil
}

type zzRegistry struct{ inc *zzIncarnation }

func (g *zzRegistry) hashNo(h lntypes.Hash) int {
	for no := range g.inc.w.m.know {
		if zzHashOf(no) == h {
			return no
		}
	}
	return -1
}

func (g *zzRegistry) LookupInvoice(_ context.Context, h lntypes.Hash) (invoices.Invoice, error) {
	no := g.hashNo(h)
	if no < 0 {
		return invoices.Invoice{}, invoices.ErrInvoiceNotFound
	}
	switch g.inc.w.m.know[no] {
	case zzKnowInvoice:
		// The preimage is what matters to the arbitrator, whatever state
		// the invoice is in: a regular invoice is settled the moment its
		// HTLC is accepted, long before the settle is exchanged with the
		// peer (the usual state here); a hold invoice the user settled is
		// too. The state is fixed per scenario and hash, without a draw.
		p := zzPreimageOf(no)
		st := []invoices.ContractState{invoices.ContractSettled, invoices.ContractOpen,
			invoices.ContractAccepted}[(no+int(g.inc.w.m.startH))%3]
		return invoices.Invoice{State: st, Terms: invoices.ContractTerm{PaymentPreimage: &p}}, nil
	case zzKnowHodl:
		return invoices.Invoice{}, nil
	}
	return invoices.Invoice{}, invoices.ErrInvoiceNotFound
}

func (g *zzRegistry) NotifyExitHopHtlc(h lntypes.Hash, amt lnwire.MilliSatoshi, expiry uint32,
	height int32, key models.CircuitKey, hodl chan<- interface{}, _ lnwire.CustomRecords,
	_ invoices.Payload) (invoices.HtlcResolution, error) {

	no := g.hashNo(h)
	if no < 0 {
		return invoices.NewFailResolution(key, height, invoices.ResultInvoiceNotFound), nil
	}
	switch g.inc.w.m.know[no] {
	case zzKnowInvoice:
		return invoices.NewSettleResolution(zzPreimageOf(no), key, height, invoices.ResultSettled), nil
	case zzKnowHodl:
		return nil, nil // accepted, held
	}
	return invoices.NewFailResolution(key, height, invoices.ResultInvoiceNotFound), nil
}

func (g *zzRegistry) HodlUnsubscribeAll(chan<- interface{}) {}

type zzHopIter struct {
	hop.Iterator
	h *zzHtlc
}

func (i *zzHopIter) HopPayload() (*hop.Payload, hop.RouteRole, error) {
	var next [8]byte
	if !i.h.exit {
		next = [8]byte{0x01}
	}
	return hop.NewLegacyPayload(&sphinx.HopData{
		NextAddress:   next,
		ForwardAmount: uint64(i.h.amt),
		OutgoingCltv:  i.h.expiry,
	}), hop.RouteRoleCleartext, nil
}

func (i *zzHopIter) EncodeNextHop(io.Writer) error { return nil }

type zzOnion struct {
	w   *zzWorld
	inc *zzIncarnation
}

func (o *zzOnion) ReconstructHopIterator(r io.Reader, rHash []byte, _ hop.ReconstructBlindingInfo) (hop.Iterator, error) {
	var b [4]byte
	defer func() {
		// identifiable entry point of the incoming contest resolver's
		// goroutines: park so that they run one at a time
		if inc := o.inc; inc != nil {
			inc.sched.park(fmt.Sprintf("onion %08x", binary.BigEndian.Uint32(b[:])))
		}
	}()
	if _, err := io.ReadFull(r, b[:]); err != nil {
		return nil, err
	}
	v := binary.BigEndian.Uint32(b[:])
	if v&0xffff0000 != 0x7a7a0000 {
		return nil, fmt.Errorf("unknown onion")
	}
	h := o.w.m.byUID(int(v & 0xffff))
	if h == nil {
		return nil, fmt.Errorf("unknown onion uid")
	}
	return &zzHopIter{h: h}, nil
}

// ---------------------------------------------------------------------------
// ArbChannel

type zzArbChannel struct{ inc *zzIncarnation }

func (c *zzArbChannel) ForceCloseChan() (*wire.MsgTx, error) {
	w := c.inc.w
	if !c.inc.alive() {
		return nil, simcore.ErrSimCrashed
	}
	w.freeze()
	c.inc.effect(zzEffect{kind: "fc", what: fmt.Sprintf("height=%d", w.height)})
	return w.commits[zzSetL].tx, nil
}

func (c *zzArbChannel) NewAnchorResolutions() (*lnwallet.AnchorResolutions, error) {
	w := c.inc.w
	w.freeze()
	a := &lnwallet.AnchorResolutions{}
	if !w.m.anchors {
		return a, nil
	}
	a.Local = w.commits[zzSetL].anchor
	a.Remote = w.commits[zzSetR].anchor
	if w.commits[zzSetP] != nil {
		a.RemotePending = w.commits[zzSetP].anchor
	}
	return a, nil
}

// freeze fixes the three commitments (the link is gone, no more updates).
func (w *zzWorld) freeze() {
	if w.frozen {
		return
	}
	w.frozen = true
	w.commits[zzSetL] = w.m.buildCommitment(zzSetL, w.chanPoint)
	w.commits[zzSetR] = w.m.buildCommitment(zzSetR, w.chanPoint)
	if w.m.hasP {
		w.commits[zzSetP] = w.m.buildCommitment(zzSetP, w.chanPoint)
	}
}

// ---------------------------------------------------------------------------
// building / starting / killing an incarnation

type zzMockHtlcNotifier struct{}

func (zzMockHtlcNotifier) NotifyFinalHtlcEvent(models.CircuitKey, channeldb.FinalHtlcInfo) {}

func zzNewWorld(r *simcore.Run, t *testing.T, m *zzModel, cfg zzWorldCfg) *zzWorld {
	w := &zzWorld{r: r, t: t, m: m, cfg: cfg, height: m.startH}
	kv, err := simcore.OpenSimKV(r.SubDir("arb"), "channel.db")
	r.Must(err, "open simkv")
	w.kv = kv
	r.Cleanup(func() { w.kv.Close() })
	var fh chainhash.Hash
	hh := sha256.Sum256([]byte(fmt.Sprintf("zz-funding-%d", r.Seed)))
	copy(fh[:], hh[:])
	w.chanPoint = wire.OutPoint{Hash: fh, Index: uint32(r.Seed % 3)}
	w.scid = lnwire.NewShortChanIDFromInt(uint64(700000)<<40 | uint64(r.Seed%1000)<<16 | 1)
	w.t0 = time.Unix(1_700_000_000, 0)
	w.clk = clock.NewTestClock(w.t0)
	return w
}

// closedInfo reads the durable close flag.
func (w *zzWorld) closedInfo() (closed bool, ct channeldb.ClosureType, height uint32, fully bool) {
	if w.hooks != nil {
		return w.hooks.closedInfo()
	}
	if v := w.dbGet(zzChanBucket, []byte("fully")); v != nil {
		fully = true
	}
	v := w.dbGet(zzChanBucket, []byte("closed"))
	if v == nil || len(v) < 5 {
		return false, 0, 0, fully
	}
	return true, channeldb.ClosureType(v[0]), binary.BigEndian.Uint32(v[1:5]), fully
}

// boot creates and starts a new incarnation from what is on disk.
func (w *zzWorld) boot() *zzIncarnation {
	w.epoch++
	inc := &zzIncarnation{w: w, epoch: w.epoch, sched: &zzSched{}}
	inc.chain = &zzChain{inc: inc}
	inc.sw = &zzSweeper{inc: inc}
	inc.bcn = &zzBeacon{inc: inc}
	w.inc = inc

	closed, closeType, closeHeight, fully := w.closedInfo()
	if fully {
		return inc // nothing to start: the channel is gone
	}

	chainCfg := ChainArbitratorConfig{
		ChainIO: &zzChainIO{w: w},
		PublishTx: func(tx *wire.MsgTx, _ string) error {
			inc.sched.park("publish " + tx.TxHash().String())
			if !inc.alive() {
				return simcore.ErrSimCrashed
			}
			inc.effect(zzEffect{kind: "publish", what: tx.TxHash().String()})
			w.published(tx)
			return nil
		},
		DeliverResolutionMsg: func(msgs ...ResolutionMsg) error {
			if !inc.alive() {
				return simcore.ErrSimCrashed
			}
			// one call may carry several messages built from a Go set:
			// the switch treats them independently, sort them.
			ms := append([]ResolutionMsg(nil), msgs...)
			sort.Slice(ms, func(i, j int) bool { return ms[i].HtlcIndex < ms[j].HtlcIndex })
			for _, m := range ms {
				k := "msg-fail"
				if m.PreImage != nil {
					k = "msg-settle"
				}
				if m.Failure == nil && m.PreImage == nil {
					k = "msg-empty"
				}
				if m.Failure != nil && m.PreImage != nil {
					k = "msg-both"
				}
				what := ""
				if m.SourceChan != w.scid {
					what = "WRONG-SOURCE " + m.SourceChan.String()
				}
				inc.effect(zzEffect{kind: k, idx: m.HtlcIndex, what: what})
			}
			return nil
		},
		OutgoingBroadcastDelta: w.cfg.outDelta,
		IncomingBroadcastDelta: w.cfg.inDelta,
		Notifier:               inc.chain,
		IncubateOutputs: func(_ wire.OutPoint, out fn.Option[lnwallet.OutgoingHtlcResolution],
			in fn.Option[lnwallet.IncomingHtlcResolution], _ uint32, _ fn.Option[int32], _ ...IncubateOption) error {

			var op wire.OutPoint
			kind := ""
			out.WhenSome(func(o lnwallet.OutgoingHtlcResolution) { op = o.HtlcPoint(); kind = "out" })
			in.WhenSome(func(i lnwallet.IncomingHtlcResolution) { op = i.HtlcPoint(); kind = "in" })
			inc.sched.park("incubate " + op.String())
			if !inc.alive() {
				return simcore.ErrSimCrashed
			}
			inc.effect(zzEffect{kind: "incubate", what: kind + " " + op.String()})
			w.incubated(op, out, in)
			return nil
		},
		OnionProcessor: &zzOnion{w: w, inc: inc},
		IsForwardedHTLC: func(_ lnwire.ShortChannelID, idx uint64) bool {
			for _, h := range w.m.htlcs {
				if !h.incoming && h.id == idx {
					return h.fwd
				}
			}
			return false
		},
		SubscribeBreachComplete: func(op *wire.OutPoint, c chan struct{}) (bool, error) {
			inc.sched.park("breach-sub " + op.String())
			w.breachSubs = append(w.breachSubs, c)
			return w.breachDone, nil
		},
		Clock:        w.clk,
		Sweeper:      inc.sw,
		HtlcNotifier: zzMockHtlcNotifier{},
		PutFinalHtlcOutcome: func(_ lnwire.ShortChannelID, id uint64, settled bool) error {
			// Durable, but kept outside the crash-injected database:
			// lnd writes one record per HTLC in map order, which is
			// not reproducible; the quantifier of C13 does not list
			// these writes as stop points.
			if !inc.alive() {
				return simcore.ErrSimCrashed
			}
			if w.finals == nil {
				w.finals = map[string]bool{}
			}
			w.finals[fmt.Sprintf("%d/%v", id, settled)] = true
			inc.effect(zzEffect{kind: "final", idx: id, ok: settled})
			return nil
		},
		Budget:                        *DefaultBudgetConfig(),
		PreimageDB:                    inc.bcn,
		Registry:                      &zzRegistry{inc: inc},
		QueryIncomingCircuit:          func(models.CircuitKey) *models.CircuitKey { return nil },
		PaymentsExpirationGracePeriod: w.cfg.grace,
	}

	arbCfg := ChannelArbitratorConfig{
		ChanPoint:   w.chanPoint,
		ShortChanID: w.scid,
		Channel:     &zzArbChannel{inc: inc},
		NotifyChannelResolved: func() {
			if !inc.alive() {
				return
			}
			inc.resolvedSignal++
			inc.effect(zzEffect{kind: "resolved-signal"})
		},
		MarkCommitmentBroadcasted: func(tx *wire.MsgTx, _ lntypes.ChannelParty) error {
			if err := w.dbPut(zzChanBucket, []byte("bcast"), []byte{1}); err != nil {
				return err
			}
			inc.effect(zzEffect{kind: "bcast", what: tx.TxHash().String()})
			return nil
		},
		MarkChannelClosed: func(s *channeldb.ChannelCloseSummary, _ ...channeldb.ChannelStatus) error {
			v := make([]byte, 5)
			v[0] = byte(s.CloseType)
			binary.BigEndian.PutUint32(v[1:], s.CloseHeight)
			if err := w.dbPut(zzChanBucket, []byte("closed"), v); err != nil {
				return err
			}
			inc.effect(zzEffect{kind: "closed", what: fmt.Sprintf("type=%d height=%d", s.CloseType, s.CloseHeight)})
			return nil
		},
		IsPendingClose:        closed,
		ClosingHeight:         closeHeight,
		CloseType:             closeType,
		ChainArbitratorConfig: chainCfg,
		ChainEvents: &ChainEventSubscription{
			ChanPoint:               w.chanPoint,
			RemoteUnilateralClosure: make(chan *RemoteUnilateralCloseInfo, 1),
			LocalUnilateralClosure:  make(chan *LocalUnilateralCloseInfo, 1),
			CooperativeClosure:      make(chan *CooperativeCloseInfo, 1),
			ContractBreach:          make(chan *BreachCloseInfo, 1),
		},
		PutResolverReport: func(tx kvdb.RwTx, rep *channeldb.ResolverReport) error {
			key := []byte(fmt.Sprintf("%v|type=%d|outcome=%d", rep.OutPoint, rep.ResolverType, rep.ResolverOutcome))
			val := []byte("-")
			if rep.SpendTxID != nil {
				val = []byte(rep.SpendTxID.String())
			}
			if tx == nil {
				if err := w.dbPut(zzReportBucket, key, val); err != nil {
					return err
				}
				inc.effect(zzEffect{kind: "report", what: string(key)})
				return nil
			}
			b, err := tx.CreateTopLevelBucket(zzReportBucket)
			if err != nil {
				return err
			}
			return b.Put(key, val)
		},
		FetchHistoricalChannel: func() (*chanstate.OpenChannel, error) {
			ct := channeldb.SingleFunderTweaklessBit
			if w.m.anchors {
				ct |= channeldb.AnchorOutputsBit | channeldb.ZeroHtlcTxFeeBit
			}
			return &chanstate.OpenChannel{ChanType: ct, IsInitiator: true}, nil
		},
		FindOutgoingHTLCDeadline: func(h channeldb.HTLC) fn.Option[int32] {
			for _, x := range w.m.htlcs {
				if !x.incoming && x.id == h.HtlcIndex && x.fwd {
					return fn.Some(int32(h.RefundTimeout + 40))
				}
			}
			return fn.None[int32]()
		},
	}
	if closed {
		// pending-close channels get an arbitrator without chain events
		// or channel (chain_arbitrator.go loadPendingCloseChannels)
		arbCfg.ChainEvents = &ChainEventSubscription{}
		arbCfg.Channel = nil
	}
	if w.hooks != nil {
		w.hooks.configure(inc, &arbCfg)
	}

	bl, err := newBoltArbitratorLog(w.kv, arbCfg, chainhash.Hash{}, w.chanPoint)
	w.r.Must(err, "newBoltArbitratorLog")
	inc.log = &zzArbLog{boltArbitratorLog: bl, inc: inc}

	sets := map[HtlcSetKey]htlcSet{}
	if !closed {
		sets[LocalHtlcSet] = newHtlcSet(w.m.dbSet(zzSetL))
		sets[RemoteHtlcSet] = newHtlcSet(w.m.dbSet(zzSetR))
		if w.m.hasP {
			sets[RemotePendingHtlcSet] = newHtlcSet(w.m.dbSet(zzSetP))
		}
	}
	inc.arb = NewChannelArbitrator(arbCfg, sets, inc.log)
	w.startedAt = w.clk.Now()
	w.logf("boot epoch=%d height=%d pendingClose=%v closeType=%d", inc.epoch, w.height, closed, closeType)
	if err := inc.arb.Start(nil, newBeatFromHeight(int32(w.height))); err != nil {
		if w.hooks != nil {
			w.hooks.startError(inc, err)
		}
		w.r.Harness("arbitrator start: %v", err)
	}
	w.settle()
	return inc
}

func (w *zzWorld) settle() {
	var lf func(string, ...interface{})
	if w.trace {
		lf = w.logf
	}
	w.inc.sched.settle(lf)
	w.flushEffects()
}

// kill ends the current incarnation (graceful stop or after a crash).
func (w *zzWorld) kill() {
	inc := w.inc
	if inc == nil || inc.dead {
		return
	}
	inc.dead = true
	inc.sched.kill()
	if inc.arb != nil {
		done := make(chan struct{})
		go func() {
			_ = inc.arb.Stop()
			close(done)
		}()
		synctest.Wait()
		select {
		case <-done:
		default:
			w.r.Count("stop_blocked")
		}
	}
}

// ---------------------------------------------------------------------------
// stimuli

func (w *zzWorld) nextStim(what string) {
	w.stim++
	w.logf("stim %d @%d: %s", w.stim, w.height, what)
}

// beat delivers a block beat for the current height to the arbitrator.
func (w *zzWorld) beat() {
	inc := w.inc
	if inc.arb == nil || inc.dead {
		return
	}
	b := newBeatFromHeight(int32(w.height))
	go func() { _ = inc.arb.ProcessBlock(chainio.Blockbeat(b)) }()
	w.settle()
}

func (w *zzWorld) sendUpdates(sets ...int) {
	for _, s := range sets {
		w.inc.arb.notifyContractUpdate(&ContractUpdate{HtlcKey: zzSetKeys[s], Htlcs: w.m.dbSet(s)})
	}
}

// linkUp: the channel's link comes up (peer (re)connected) and announces itself
// to the arbitrator the way channelLink.Start does (UpdateContractSignals).
// Nothing about deadlines, up-time or HTLC sets may change because of it.
func (w *zzWorld) linkUp() {
	inc := w.inc
	if inc.arb == nil || inc.dead {
		return
	}
	go inc.arb.UpdateContractSignals(&ContractSignals{ShortChanID: w.scid})
	w.settle()
}

// userClose asks for a force close like ChainArbitrator.ForceCloseContract.
func (w *zzWorld) userClose() {
	inc := w.inc
	errc := make(chan error, 1)
	txc := make(chan *wire.MsgTx, 1)
	go func() {
		select {
		case inc.arb.forceCloseReqs <- &forceCloseReq{errResp: errc, closeTx: txc}:
		case <-inc.arb.quit:
		}
	}()
	w.settle()
}

func zzCloseSummary(w *zzWorld, ct channeldb.ClosureType, txid chainhash.Hash) channeldb.ChannelCloseSummary {
	return channeldb.ChannelCloseSummary{
		ChanPoint:   w.chanPoint,
		ClosingTXID: txid,
		CloseType:   ct,
		CloseHeight: w.closeHeight,
		IsPending:   true,
		ShortChanID: w.scid,
	}
}

func (w *zzWorld) commitSet(conf int) CommitSet {
	cs := CommitSet{ConfCommitKey: fn.Some(zzSetKeys[conf]), HtlcSets: map[HtlcSetKey][]channeldb.HTLC{}}
	for s := 0; s < 3; s++ {
		if w.commits[s] != nil {
			cs.HtlcSets[zzSetKeys[s]] = append([]channeldb.HTLC(nil), w.commits[s].htlcs...)
		}
	}
	return cs
}

func zzCopyRes(r lnwallet.HtlcResolutions) *lnwallet.HtlcResolutions {
	c := &lnwallet.HtlcResolutions{}
	for _, o := range r.OutgoingHTLCs {
		if o.SignedTimeoutTx != nil {
			o.SignedTimeoutTx = o.SignedTimeoutTx.Copy()
		}
		c.OutgoingHTLCs = append(c.OutgoingHTLCs, o)
	}
	for _, i := range r.IncomingHTLCs {
		if i.SignedSuccessTx != nil {
			i.SignedSuccessTx = i.SignedSuccessTx.Copy()
		}
		c.IncomingHTLCs = append(c.IncomingHTLCs, i)
	}
	return c
}

// deliverClose hands the close event for the commitment that confirmed to the
// arbitrator, exactly as the chain watcher would build it.
func (w *zzWorld) deliverClose(kind string) {
	inc := w.inc
	ev := inc.arb.cfg.ChainEvents
	w.freeze()
	spendOf := func(c *zzCommitment) *chainntnfs.SpendDetail {
		h := c.txid
		return &chainntnfs.SpendDetail{
			SpentOutPoint: &w.chanPoint, SpenderTxHash: &h, SpendingTx: c.tx,
			SpendingHeight: int32(w.closeHeight),
		}
	}
	switch kind {
	case "local":
		c := w.commits[zzSetL]
		sum := zzCloseSummary(w, channeldb.LocalForceClose, c.txid)
		ev.LocalUnilateralClosure <- &LocalUnilateralCloseInfo{
			SpendDetail: spendOf(c),
			LocalForceCloseSummary: &lnwallet.LocalForceCloseSummary{
				ChanPoint: w.chanPoint,
				CloseTx:   c.tx,
				ContractResolutions: fn.Some(lnwallet.ContractResolutions{
					CommitResolution: c.commit,
					AnchorResolution: c.anchor,
					HtlcResolutions:  zzCopyRes(c.res),
				}),
			},
			ChannelCloseSummary: &sum,
			CommitSet:           w.commitSet(zzSetL),
		}
	case "remote", "remote-pending":
		set := zzSetR
		if kind == "remote-pending" {
			set = zzSetP
		}
		c := w.commits[set]
		ev.RemoteUnilateralClosure <- &RemoteUnilateralCloseInfo{
			UnilateralCloseSummary: &lnwallet.UnilateralCloseSummary{
				SpendDetail:         spendOf(c),
				ChannelCloseSummary: zzCloseSummary(w, channeldb.RemoteForceClose, c.txid),
				CommitResolution:    c.commit,
				HtlcResolutions:     zzCopyRes(c.res),
				AnchorResolution:    c.anchor,
			},
			CommitSet: w.commitSet(set),
		}
	case "breach":
		// a revoked commitment of the peer: unrelated to the three live ones
		var bh chainhash.Hash
		bh[0], bh[1] = 0xbe, 0xef
		var anchor *lnwallet.AnchorResolution
		if w.m.anchors {
			a := *w.commits[zzSetR].anchor
			a.CommitAnchor.Hash = bh
			anchor = &a
		}
		ev.ContractBreach <- &BreachCloseInfo{
			BreachResolution: &BreachResolution{FundingOutPoint: w.chanPoint},
			AnchorResolution: anchor,
			CommitHash:       bh,
			CommitSet:        w.commitSet(zzSetR),
			CloseSummary:     zzCloseSummary(w, channeldb.BreachClose, bh),
		}
	case "coop":
		var ch chainhash.Hash
		ch[0], ch[1] = 0xc0, 0x0b
		sum := zzCloseSummary(w, channeldb.CooperativeClose, ch)
		ev.CooperativeClosure <- &CooperativeCloseInfo{ChannelCloseSummary: &sum}
	default:
		w.r.Harness("unknown close kind %q", kind)
	}
	w.settle()
}

// hooks filled in by the C13 chain script (no-ops for C12)
func (w *zzWorld) published(tx *wire.MsgTx) {
	if w.onPublish != nil {
		w.onPublish(tx)
	}
}

func (w *zzWorld) incubated(op wire.OutPoint, out fn.Option[lnwallet.OutgoingHtlcResolution], in fn.Option[lnwallet.IncomingHtlcResolution]) {
	if w.onIncubate != nil {
		w.onIncubate(op, out, in)
	}
}

var _ = btcutil.Amount(0)
