package contractcourt

import "verif/simcore"

func zzRunC13(r *simcore.Run) { r.Harness("C13 not built yet") }
