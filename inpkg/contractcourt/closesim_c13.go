package contractcourt

// Property C13: contract resolution survives restarts — same outcome, nothing
// skipped or repeated.
//
// Built on the C12 world (closesim_c12_world.go): a real ChannelArbitrator,
// its real bolt-backed log and the real contract resolvers run inside a
// testing/synctest bubble against recording stubs. The log's database is a
// simcore.SimKV, so every durable write of the closing state machine is one
// numbered write transaction.
//
// One run =
//   1. a seeded close scenario (C12 model: HTLC sets, heights, close trigger)
//      plus a CHAIN SCRIPT (closesim_c13_chain.go) that is fixed by the tape
//      before anything executes: who spends which HTLC output, when, and how
//      long every sweep needs to confirm;
//   2. the REFERENCE execution of that scenario, uninterrupted, to its
//      terminal state (W = number of write transactions it performed);
//   3. one further execution of the same script per chosen crash point
//      (CrashBefore(k) / CrashAfter(k), k in 1..W; optionally a second crash
//      after the restart): at the crash the database is fenced, the old
//      arbitrator is stopped, the SimKV is reopened and a new arbitrator is
//      built from disk the way ChainArbitrator.Start does it (the channel
//      database is a real channeldb on the same SimKV file, ResolveContract is
//      the real one: closesim_c13_chandb.go); the chain script continues
//      unchanged;
//   4. the comparison of every such execution with the reference
//      (closesim_c13_oracle.go).
//
// Each execution runs in its own bubble and its own world.
//
// Arm "legacy+nursery" (closesim_c13_nursery.go): for one pre-anchor scenario
// in four the node also runs lnd's UtxoNursery over a NurseryStore in the same
// database instead of the chain script's nursery model; the store's write
// transactions are crash points of the same enumeration.

import (
	"fmt"
	"os"
	"runtime"
	"sort"
	"strings"
	"testing"
	"time"

	"github.com/btcsuite/btcd/chainhash/v2"
	"github.com/btcsuite/btcd/wire/v2"
	"github.com/lightningnetwork/lnd/kvdb"

	"verif/simcore"
)

func zzRunC13(r *simcore.Run) {
	t := zzGetT()
	zzC13Main(r, t)
}

// ---------------------------------------------------------------------------
// scenario script

// zzC13Op is one recorded stimulus of the scenario with the draws it consumed.
type zzC13Op struct {
	kind string
	vals []int
}

// zzC13Src serves draws: in the reference execution from the tape (recording
// them), in every other execution from the recording.
type zzC13Src struct {
	r   *simcore.Run
	rec bool
	ops []zzC13Op
	cur *zzC13Op
	pos int
}

func (s *zzC13Src) begin(kind string) {
	if s.rec {
		s.ops = append(s.ops, zzC13Op{kind: kind})
		s.cur = &s.ops[len(s.ops)-1]
	}
	s.pos = 0
}

func (s *zzC13Src) draw(n int) int {
	if n <= 0 {
		return 0
	}
	if s.rec {
		v := s.r.Draw(n)
		s.cur.vals = append(s.cur.vals, v)
		return v
	}
	if s.cur == nil || s.pos >= len(s.cur.vals) {
		s.pos++
		return 0
	}
	v := s.cur.vals[s.pos]
	s.pos++
	if v < 0 {
		v = -v
	}
	return v % n
}

type zzC13Scenario struct {
	model   *zzModel // pristine; every execution works on a copy
	cfg     zzC12Cfg
	maxPre  int
	ops     []zzC13Op
	closeAt int // index in ops of the close trigger, -1 if none
	// nursery: the node runs lnd's UtxoNursery on a NurseryStore in the same
	// database (closesim_c13_nursery.go) instead of the chain script's
	// nursery model. Pre-anchor channels only.
	nursery bool
}

// zzC13Normalize narrows the C12 model where C12's subject (or an lnd quirk
// that exists without any restart) would otherwise leak into C13:
//
//   - every offered HTLC counts as forwarded. For our own payments the
//     arbitrator waits until its uptime exceeds the grace period before it
//     goes on chain; a restart resets the uptime, so "the same decision after
//     a restart" would not hold by design;
//   - a received HTLC is an exit hop only if no other HTLC shares its hash,
//     and what we know about an exit-hop hash is what the invoice registry
//     knows (invoice / hodl invoice / nothing) while for forwarded HTLCs it is
//     what the witness beacon knows. With the preimage in the beacon but no
//     invoice, htlcIncomingContestResolver.Launch claims the HTLC (beacon
//     lookup) while its Resolve abandons it at expiry (registry lookup) —
//     with or without a restart.
func zzC13Normalize(m *zzModel) {
	uses := map[int]int{}
	for _, h := range m.htlcs {
		uses[h.hashNo]++
		if !h.incoming {
			h.fwd = true
		}
	}
	exitHash := map[int]bool{}
	for _, h := range m.htlcs {
		if h.incoming && h.exit {
			if uses[h.hashNo] > 1 {
				h.exit = false
			} else {
				exitHash[h.hashNo] = true
			}
		}
	}
	for no, k := range m.know {
		switch {
		case exitHash[no] && k == zzKnowBeacon:
			m.know[no] = zzKnowInvoice
		case !exitHash[no] && k == zzKnowInvoice:
			m.know[no] = zzKnowBeacon
		case !exitHash[no] && k == zzKnowHodl:
			m.know[no] = zzKnowNone
		}
	}
}

// zzC13ExitHash reports whether some received exit-hop HTLC pays to hash no.
func zzC13ExitHash(m *zzModel, no int) bool {
	for _, h := range m.htlcs {
		if h.incoming && h.exit && h.hashNo == no {
			return true
		}
	}
	return false
}

func zzC13CloneModel(m *zzModel) *zzModel {
	c := *m
	c.htlcs = make([]*zzHtlc, len(m.htlcs))
	for i, h := range m.htlcs {
		hc := *h
		c.htlcs[i] = &hc
	}
	c.know = append([]int(nil), m.know...)
	zzC13Normalize(&c)
	return &c
}

// ---------------------------------------------------------------------------
// crash plan

type zzC13Crash struct {
	k     int  // 1-based write index within the epoch
	after bool // CrashAfter (the write commits) instead of CrashBefore
}

func (c zzC13Crash) String() string {
	if c.after {
		return fmt.Sprintf("after-write-%d", c.k)
	}
	return fmt.Sprintf("before-write-%d", c.k)
}

// ---------------------------------------------------------------------------
// one execution

type zzC13Exec struct {
	r   *simcore.Run
	t   *testing.T
	sc  *zzC13Scenario
	src *zzC13Src
	ref *zzC13Outcome // nil while executing the reference

	w     *zzWorld
	chain *zzC13Chain
	cdb   *zzC13ChanDB  // real channel database + ChainArbitrator.ResolveContract
	nurse *zzC13Nursery // real utxo nursery; nil unless sc.nursery

	crashes []zzC13Crash // crash i is armed in epoch i+1
	fired   []string     // descriptions of the crashes that fired
	// downtime arm: down[i] blocks are mined between crash i+1 and the
	// restart that follows it (the chain moves on while the node is down)
	down       []int
	downBlocks int // blocks actually mined with the node down

	// write labels per epoch: labels[e][k] = where write k of epoch e+1 came from
	labels   []map[int]string
	inLabel  bool
	writesIn []int // write transactions attempted per finished epoch

	// bookkeeping
	resolvedSeen map[int]int // epoch -> resolved signals handled
	learnedSeen  int
	restarts     int
	crashStims   []int    // stimulus number at which crash i was noticed
	crashStates  []string // arbitrator state (in memory) when crash i was noticed
	diskStates   []string // arbitrator state found on disk at restart i
	keysSeen     map[string]bool
	// resolver key -> name, for resolvers found persisted as "resolved"
	// in the unresolved-contracts bucket at a restart
	resolvedAtRestart map[string]string
	postBlocks        int
	terminalAt        int // stimulus at which the channel was marked fully closed
	markAttempts      int
	closeStim         int // stimulus in which the close event was delivered
	earlyMark         string
	slackUsed         int
	nurseCrashes      int // crashes that landed in a nursery-store write
	skippedOps        int
	localCommitUp     bool

	out *zzC13Outcome
}

func zzC13Main(r *simcore.Run, t *testing.T) {
	m, cfg := zzDrawModel(r)
	tp := r.Tape
	// Uptime versus PaymentsExpirationGracePeriod is C12's subject. Here it
	// would make "the same decision again after a restart" depend on the
	// uptime counter that a restart legitimately resets.
	cfg.world.grace = 0
	sc := &zzC13Scenario{model: m, cfg: cfg, closeAt: -1}
	sc.maxPre = 2 + tp.CfgDraw(8)
	r.Arm = map[bool]string{true: "anchors", false: "legacy"}[m.anchors]
	// LAST configuration draw (replay files recorded before it existed read 0
	// here = the nursery model): one pre-anchor scenario in four runs the real
	// utxo nursery.
	nd := tp.CfgDraw(4)
	if os.Getenv("VERIF_C13_NURSERY_ALL") == "1" {
		// experiment knob (never set by the registered command): every
		// pre-anchor scenario runs the real nursery
		nd = 3
	}
	if nd == 3 && !m.anchors {
		sc.nursery = true
		r.Arm = "legacy+nursery"
		r.Count("probe_nursery_real_arm")
	}

	// ---- reference execution
	ref := &zzC13Exec{r: r, t: t, sc: sc, src: &zzC13Src{r: r, rec: true}}
	r.Logf("=== reference execution")
	ref.execute()
	sc.ops = ref.src.ops
	refOut := ref.out
	W := refOut.writes[0]
	r.Add("ref_writes", int64(W))
	r.Logf("=== reference done: %s", refOut.summary())
	if refOut.closeKind == "" || W == 0 {
		// nothing was closed (short replay tape): nothing to enumerate
		return
	}
	r.Count("probe_ref_close_" + refOut.closeKind)
	if refOut.fully {
		r.Count("probe_ref_fully_resolved")
	} else {
		r.Count("probe_ref_not_terminal")
	}
	if len(refOut.reports) > 0 {
		r.Count("probe_ref_with_reports")
	}

	// ---- crash points
	nPoints := 2 * W
	single, double := nPoints, W
	if r.Tier != "thorough" {
		// quick tier: a seeded sample when the scenario has many writes
		if single > 14 {
			single = 14
		}
		double = 3
	}
	tested := map[int]bool{}
	w2 := map[int]int{} // point -> writes of the epoch after the first restart
	// real-nursery arm: which writes of the reference are the nursery store's
	nurseWrite := map[int]bool{}
	if sc.nursery {
		for k := 1; k <= W; k++ {
			if zzC13IsNurseLabel(refOut.label(0, k)) {
				nurseWrite[k] = true
			}
		}
		if len(nurseWrite) > 0 {
			r.Count("probe_nursery_ref_with_store_writes")
			r.Add("nursery_ref_store_writes", int64(len(nurseWrite)))
		}
	}
	pick := func(d int, nurseOnly bool) int {
		for i := 0; i < nPoints; i++ {
			p := (d + i) % nPoints
			if !tested[p] && (!nurseOnly || nurseWrite[p/2+1]) {
				return p
			}
		}
		if nurseOnly {
			for i := 0; i < nPoints; i++ {
				if p := (d + i) % nPoints; !tested[p] {
					return p
				}
			}
		}
		return -1
	}
	point := func(p int) zzC13Crash { return zzC13Crash{k: p/2 + 1, after: p%2 == 1} }
	completed := 0
	for i := 0; i < single && r.Step(); i++ {
		// in the nursery arm two sampled points in three are placed at writes
		// of the nursery store (thorough enumerates every point anyway)
		p := pick(r.Draw(nPoints), len(nurseWrite) > 0 && i%3 != 2)
		if p < 0 {
			r.Kind("crash-none")
			break
		}
		tested[p] = true
		c := point(p)
		r.Kind("crash-" + c.String())
		ex := &zzC13Exec{r: r, t: t, sc: sc, ref: refOut, crashes: []zzC13Crash{c},
			src: &zzC13Src{r: r, ops: sc.ops}}
		r.Logf("=== crash execution %s (%s)", c, refOut.label(0, c.k))
		ex.execute()
		if len(ex.fired) > 0 {
			completed++
			if c.after {
				r.Count("fault_crash_after")
			} else {
				r.Count("fault_crash_before")
			}
			if len(ex.out.writes) > 1 {
				w2[p] = ex.out.writes[1]
			}
		} else {
			r.Count("crash_point_not_reached")
		}
	}
	// second crash after the restart
	for i := 0; i < double && r.Step(); i++ {
		p := r.Draw(nPoints)
		if len(nurseWrite) > 0 && r.Tier != "thorough" && i%3 != 2 {
			// first crash at a write of the nursery store
			for j := 0; j < nPoints; j++ {
				if q := (p + j) % nPoints; nurseWrite[q/2+1] {
					p = q
					break
				}
			}
		}
		c1 := point(p)
		n2, ok := w2[p]
		if !ok {
			// need the length of the second epoch first
			pre := &zzC13Exec{r: r, t: t, sc: sc, ref: refOut, crashes: []zzC13Crash{c1},
				src: &zzC13Src{r: r, ops: sc.ops}}
			r.Logf("=== crash execution %s (%s) [for second-crash planning]", c1, refOut.label(0, c1.k))
			pre.execute()
			if len(pre.out.writes) > 1 {
				n2 = pre.out.writes[1]
			}
			w2[p] = n2
			if len(pre.fired) > 0 && !tested[p] {
				tested[p] = true
				completed++
				if c1.after {
					r.Count("fault_crash_after")
				} else {
					r.Count("fault_crash_before")
				}
			}
		}
		if n2 == 0 {
			r.Kind("crash2-none")
			r.Count("second_epoch_without_writes")
			continue
		}
		c2 := zzC13Crash{k: 1 + r.Draw(n2), after: r.Draw(2) == 1}
		r.Kind("crash2-" + c1.String() + "+" + c2.String())
		ex := &zzC13Exec{r: r, t: t, sc: sc, ref: refOut, crashes: []zzC13Crash{c1, c2},
			src: &zzC13Src{r: r, ops: sc.ops}}
		if c2.k%3 == 0 {
			// one double crash in three: the chain moves on for 1-5 blocks
			// after the SECOND crash (no draw: older tapes keep their layout)
			ex.down = []int{0, 1 + c2.k%5}
		}
		r.Logf("=== double crash execution %s then %s", c1, c2)
		ex.execute()
		if len(ex.fired) > 1 {
			completed++
			r.Count("fault_second_crash")
			if ex.downBlocks > 0 {
				r.Count("fault_restart_after_downtime")
				r.Count("probe_downtime_after_second_crash")
				r.Add("fault_downtime_blocks", int64(ex.downBlocks))
			}
		}
	}
	// ---- downtime arm: one crash, then the chain moves on for a few blocks
	// before the node comes back. (Draws appended after everything older
	// replay files recorded.) The counterparty's claims, confirmations of what
	// the node had broadcast, preimages and the breach remedy keep their
	// absolute heights, so the terminal outcome may legitimately differ from
	// the uninterrupted run: these executions are judged by the conditions
	// that hold whatever the chain did meanwhile (judgeAfterDowntime).
	nDown := 4
	if r.Tier == "thorough" {
		nDown = W
		if nDown > 24 {
			nDown = 24
		}
	}
	for i := 0; i < nDown && r.Step(); i++ {
		p := r.Draw(nPoints)
		if len(nurseWrite) > 0 && i%2 == 0 {
			for j := 0; j < nPoints; j++ {
				if q := (p + j) % nPoints; nurseWrite[q/2+1] {
					p = q
					break
				}
			}
		}
		c := point(p)
		// mostly short outages; one in four is longer than any CSV delay or
		// confirmation lag of the script
		d := 1 + r.Draw(4)
		if r.Draw(4) == 0 {
			d = 5 + r.Draw(12)
		}
		r.Kind(fmt.Sprintf("crashdown-%s+%d", c.String(), d))
		ex := &zzC13Exec{r: r, t: t, sc: sc, ref: refOut, crashes: []zzC13Crash{c}, down: []int{d},
			src: &zzC13Src{r: r, ops: sc.ops}}
		r.Logf("=== downtime execution %s (%s), %d block(s) down", c, refOut.label(0, c.k), d)
		ex.execute()
		if len(ex.fired) > 0 {
			completed++
			if ex.downBlocks > 0 {
				r.Count("fault_restart_after_downtime")
				r.Add("fault_downtime_blocks", int64(ex.downBlocks))
			} else {
				r.Count("downtime_crash_before_close")
			}
		} else {
			r.Count("crash_point_not_reached")
		}
	}
	r.Add("crash_executions", int64(completed))
	// non-trivial: a channel was closed with at least one durable write, and
	// at least one execution crashed, restarted and was compared to the end.
	r.Nontrivial = completed > 0
}

// execute runs the scenario once (in its own bubble and world).
func (ex *zzC13Exec) execute() {
	zzInBubble(ex.t, ex.r, ex.run)
}

func (ex *zzC13Exec) run() {
	r, sc := ex.r, ex.sc
	m := zzC13CloneModel(sc.model)
	fromTemplate := zzC13PlaceTemplate(ex)
	w := zzNewWorld(r, ex.t, m, sc.cfg.world)
	ex.w = w
	ex.cdb = zzC13OpenChanDB(ex, w, fromTemplate)
	w.hooks = ex.cdb
	w.trace = ex.ref == nil
	ex.chain = zzC13NewChain(ex)
	if sc.nursery {
		ex.nurse = zzC13NewNursery(ex)
	}
	ex.resolvedSeen = map[int]int{}
	ex.keysSeen = map[string]bool{}
	ex.resolvedAtRestart = map[string]string{}
	ex.labels = []map[int]string{{}}
	w.spent = ex.chain.spent
	w.onPublish = ex.chain.onPublish
	w.onIncubate = ex.chain.onIncubate
	w.kv.OnTx = ex.onTx
	defer func() {
		w.kv.OnTx = nil
		w.kill()
		if ex.nurse != nil {
			ex.nurse.kill()
		}
		path := w.kv.Path()
		w.kv.Close()
		os.Remove(path)
	}()
	if len(ex.crashes) > 0 {
		ex.arm(ex.crashes[0])
	}

	if ex.ref == nil {
		r.Logf("cfg anchors=%v outDelta=%d inDelta=%d grace=%v perBlock=%v csv=%d startH=%d htlcs=%d hasP=%v maxPre=%d realNursery=%v",
			m.anchors, sc.cfg.world.outDelta, sc.cfg.world.inDelta, sc.cfg.world.grace, sc.cfg.world.perBlock,
			m.csv, m.startH, m.live(), m.hasP, sc.maxPre, sc.nursery)
		ex.logSets()
	}

	w.nextStim("start")
	if ex.nurse != nil {
		// server.go: utxoNursery.Start comes before chainArb.Start
		ex.nurse.boot()
	}
	w.boot()
	ex.pump()

	if ex.ref == nil {
		ex.runReference()
	} else {
		ex.runReplay()
	}
	ex.finish()
}

func (ex *zzC13Exec) arm(c zzC13Crash) {
	if c.after {
		ex.w.kv.CrashAfter(c.k)
	} else {
		ex.w.kv.CrashBefore(c.k)
	}
}

func (ex *zzC13Exec) logSets() {
	m := ex.w.m
	for s := 0; s < 3; s++ {
		if s == zzSetP && !m.hasP {
			continue
		}
		var parts []string
		for _, h := range m.members(s) {
			d := ""
			if h.dust[s] {
				d = " dust"
			}
			k := ""
			if m.known(h.hashNo) {
				k = " known"
			}
			f := ""
			if !h.incoming && h.fwd {
				f = " fwd"
			}
			parts = append(parts, fmt.Sprintf("%v%s%s%s", h, d, k, f))
		}
		ex.r.Logf("  set %s: %v", zzSetName[s], parts)
	}
}

// ---------------------------------------------------------------------------
// the reference execution draws the script from the tape

func (ex *zzC13Exec) enabledPre(force bool) []string {
	w, m := ex.w, ex.w.m
	var ops []string
	if !force {
		ops = []string{"block", "block", "skip"}
		if !w.frozen {
			if m.hasP {
				ops = append(ops, "proto-revoke")
			} else {
				ops = append(ops, "proto-sign")
			}
			ops = append(ops, "proto-local")
			for _, k := range m.know {
				if k == zzKnowNone {
					ops = append(ops, "learn")
					break
				}
			}
		}
		if !w.userAsked {
			ops = append(ops, "user")
			if ex.sc.nursery {
				// the nursery only ever sees outputs of OUR commitment:
				// make the road to a local force close wider in this arm
				ops = append(ops, "user", "user")
			}
		}
		// close triggers are the rarer choice (a zeroed draw means none)
		if !ex.r.Chance(1, 3) {
			return ops
		}
	}
	ops = append(ops, "close-remote", "close-remote")
	hasP := m.hasP
	if w.frozen {
		hasP = w.commits[zzSetP] != nil
	}
	if hasP {
		ops = append(ops, "close-remote-pending")
	}
	if ex.localCommitUp {
		ops = append(ops, "close-local", "close-local", "close-local")
		if ex.sc.nursery {
			ops = append(ops, "close-local", "close-local", "close-local", "close-local", "close-local", "close-local")
		}
	}
	ops = append(ops, "close-breach")
	if m.live() == 0 && !ex.localCommitUp {
		ops = append(ops, "close-coop")
	}
	return ops
}

func (ex *zzC13Exec) runReference() {
	r, w := ex.r, ex.w
	steps := 0
	for w.closeDelivered == "" && r.Step() {
		steps++
		ops := ex.enabledPre(steps > ex.sc.maxPre)
		op := ops[r.Draw(len(ops))]
		r.Kind(op)
		ex.src.begin(op)
		ex.apply(op)
	}
	if w.closeDelivered == "" {
		return
	}
	ex.sc.closeAt = len(ex.src.ops) - 1
	max := ex.chain.postBudget()
	for ex.postBlocks < max && !ex.terminal() && r.Step() {
		r.Kind("block")
		ex.src.begin("block")
		ex.apply("block")
	}
}

func (ex *zzC13Exec) runReplay() {
	for i := range ex.sc.ops {
		op := &ex.sc.ops[i]
		ex.src.cur = op
		ex.src.pos = 0
		if ex.terminal() && op.kind == "block" && ex.w.closeDelivered != "" {
			continue
		}
		ex.apply(op.kind)
	}
	// The property promises the same outcome, not the same block count: an
	// execution that restarted gets a few more blocks than the reference
	// needed before "never reaches the terminal state" is concluded.
	if ex.ref.fully && ex.w.closeDelivered != "" {
		// (after downtime: the outage's length on top, generously twice)
		for i := 0; i < 6+2*ex.downBlocks && !ex.terminal(); i++ {
			ex.slackUsed++
			ex.src.cur = nil
			ex.apply("block")
		}
	}
}

// arbGone: the channel is fully closed, there is no arbitrator any more.
func (ex *zzC13Exec) arbGone() bool {
	return ex.terminalAt > 0 || (ex.w.inc != nil && ex.w.inc.arb == nil)
}

// terminal: nothing is left to happen. With the real nursery that also
// means that the nursery, which outlives the arbitrator, is done with the
// channel.
func (ex *zzC13Exec) terminal() bool {
	if !ex.arbGone() {
		return false
	}
	return ex.nurse == nil || ex.nurse.idle()
}

// apply executes one scenario stimulus.
func (ex *zzC13Exec) apply(op string) {
	w, m := ex.w, ex.w.m
	draw := ex.src.draw
	switch op {
	case "block":
		if w.closeDelivered == "" {
			ex.preBlock(1)
		} else {
			ex.postBlock()
		}
	case "skip":
		n := 2 + draw(6)
		if w.closeDelivered != "" {
			ex.skippedOps++
			return
		}
		ex.preBlock(n)
	case "proto-sign":
		if w.frozen || m.hasP {
			ex.skippedOps++
			return
		}
		w.nextStim("we sign a new remote commitment")
		m.signRemote(draw, w.height)
		zzC13Normalize(m)
		w.sendUpdates(zzSetP)
	case "proto-revoke":
		if w.frozen || !m.hasP {
			ex.skippedOps++
			return
		}
		w.nextStim("peer revokes")
		m.remoteRevoke()
		w.sendUpdates(zzSetR)
	case "proto-local":
		if w.frozen {
			ex.skippedOps++
			return
		}
		w.nextStim("peer signs, we revoke")
		m.localAdvance(draw, w.height)
		zzC13Normalize(m)
		w.sendUpdates(zzSetL)
	case "learn":
		var cand []int
		for no, k := range m.know {
			if k == zzKnowNone {
				cand = append(cand, no)
			}
		}
		d1, d2 := draw(len(cand)), draw(2)
		if len(cand) == 0 {
			ex.skippedOps++
			return
		}
		no := cand[d1%len(cand)]
		m.know[no] = []int{zzKnowBeacon, zzKnowInvoice}[d2]
		zzC13Normalize(m)
		w.nextStim(fmt.Sprintf("preimage of hash%d becomes known (%d)", no, m.know[no]))
	case "user":
		if w.closeDelivered != "" || ex.arbGone() {
			ex.skippedOps++
			return
		}
		w.nextStim("user requests force close")
		w.userAsked = true
		w.userClose()
		ex.pump()
	default:
		if !strings.HasPrefix(op, "close-") {
			ex.r.Harness("unknown scenario op %q", op)
		}
		kind := op[len("close-"):]
		if w.closeDelivered != "" || ex.arbGone() {
			ex.skippedOps++
			return
		}
		w.freeze()
		if kind == "remote-pending" && w.commits[zzSetP] == nil {
			ex.skippedOps++
			return
		}
		if kind == "local" && !ex.localCommitUp {
			// the reference had broadcast by now, this execution has not:
			// the difference is judged by the comparison at the end
			ex.skippedOps++
			return
		}
		// The commitment confirms in a new block. The arbitrator sees that
		// block first (with the HTLC sets as they are now), so that the
		// decision it would take on its own at this height with these sets
		// has been taken — and made durable — before the close event
		// arrives; a restart at this height re-takes the same decision.
		ex.preBlock(1)
		if ex.arbGone() {
			ex.skippedOps++
			return
		}
		if kind == "coop" && ex.localCommitUp {
			ex.skippedOps++
			return
		}
		w.closeHeight = w.height
		w.nextStim("close event: " + kind + " commitment confirmed")
		w.closeDelivered = kind
		ex.closeStim = w.stim
		ex.chain.closeConfirmed(kind, draw)
		w.deliverClose(kind)
		ex.pump()
	}
}

// preBlock: blocks before any commitment confirmed (nothing happens on chain).
func (ex *zzC13Exec) preBlock(n int) {
	w := ex.w
	w.height += uint32(n)
	w.clk.SetTime(w.clk.Now().Add(time.Duration(n) * w.cfg.perBlock))
	w.nextStim(fmt.Sprintf("block height=%d", w.height))
	ex.beat()
}

func (ex *zzC13Exec) beat() {
	if ex.arbGone() {
		return
	}
	ex.w.beat()
	ex.pump()
}

// postBlock: one block after the close; the chain script decides its content.
func (ex *zzC13Exec) postBlock() {
	w := ex.w
	ex.postBlocks++
	w.height++
	w.clk.SetTime(w.clk.Now().Add(w.cfg.perBlock))
	w.nextStim(fmt.Sprintf("block height=%d", w.height))
	epoch := ex.restarts
	ex.chain.block()
	if ex.restarts != epoch {
		// the node went down while this block was being delivered; it
		// came back at this height (Start re-delivers the tip)
		return
	}
	ex.beat()
	ex.snapshotKeys()
	ex.r.State(fmt.Sprintf("%s/%s/unres%d", w.closeDelivered, ex.arbState(), len(ex.contractKeys())))
}

func (ex *zzC13Exec) arbState() string {
	inc := ex.w.inc
	if inc == nil || inc.arb == nil {
		return "none"
	}
	return inc.arb.state.String()
}

// ---------------------------------------------------------------------------
// pump: everything the environment does in reaction to the node, until
// nothing is left to do. Returns true if the node was restarted.

func (ex *zzC13Exec) pump() bool {
	restarted := false
	for iter := 0; ; iter++ {
		if iter > 500 {
			ex.r.Harness("C13 pump does not converge")
		}
		if ex.w.kv.Fenced() {
			ex.restart()
			restarted = true
			continue
		}
		if ex.nurse != nil {
			ex.nurse.raise()
			if ex.nurse.deliverConf() {
				continue
			}
		}
		if ex.chain.handleSweeps() {
			continue
		}
		if ex.handleLearned() {
			continue
		}
		if ex.handleResolved() {
			continue
		}
		break
	}
	ex.snapshotKeys()
	if ex.nurse != nil {
		ex.nurse.observe()
		ex.nurse.raise()
	}
	return restarted
}

// handleLearned: the witness beacon notifies its subscribers of preimages the
// node itself added (AddPreimages after a remote claim).
func (ex *zzC13Exec) handleLearned() bool {
	w := ex.w
	if ex.learnedSeen >= len(w.learned) {
		return false
	}
	no := w.learned[ex.learnedSeen]
	ex.learnedSeen++
	return ex.chain.pushPreimage(no)
}

// handleResolved plays ChainArbitrator.resolveContracts for a
// NotifyChannelResolved signal: it calls the real ChainArbitrator.ResolveContract
// (mark the channel fully closed in the channel database, stop the arbitrator,
// wipe its log — in whatever order and with whatever writes lnd does it).
func (ex *zzC13Exec) handleResolved() bool {
	w := ex.w
	inc := w.inc
	if inc == nil || inc.arb == nil || inc.dead {
		return false
	}
	if inc.resolvedSignal <= ex.resolvedSeen[inc.epoch] {
		return false
	}
	ex.resolvedSeen[inc.epoch] = inc.resolvedSignal
	ex.markAttempts++
	// ORACLE (statement: "the channel is marked fully resolved only after
	// all contracts are resolved"): the unresolved-contracts bucket must be
	// empty when the arbitrator reports the channel resolved, i.e. at the
	// moment ResolveContract is entered.
	if keys := ex.contractKeys(); len(keys) > 0 && ex.earlyMark == "" {
		ex.earlyMark = fmt.Sprintf("%d unresolved contract(s) %v still in the log (arbitrator state %v)", len(keys), keys, inc.arb.state)
	}
	if ex.nurse != nil {
		ex.nurse.atResolve()
	}
	w.logf("chain arbitrator: ResolveContract")
	res := ex.cdb.resolveContract(inc)
	var err error
	select {
	case err = <-res:
	default:
		// ResolveContract is stuck in ChannelArbitrator.Stop: release
		// whatever the stubs still hold and look again
		ex.r.Count("stop_blocked")
		inc.dead = true
		inc.sched.kill()
		w.settle()
		select {
		case err = <-res:
		default:
			w.logf("chain arbitrator: ResolveContract does not return")
		}
	}
	switch {
	case w.kv.Fenced():
		// the node died inside ResolveContract; the restart reads what
		// reached the disk
		return true
	case err != nil:
		w.logf("chain arbitrator: ResolveContract failed: %v", err)
		if ex.ref == nil {
			// uninterrupted run, no fault injected: the simulated
			// channel database does not fit the arbitrator
			ex.r.Harness("ResolveContract in the uninterrupted run: %v", err)
		}
		ex.r.Count("probe_resolve_contract_error_after_restart")
		return true
	}
	// lnd is done with the channel; the process lives on without it
	w.kill()
	if _, _, _, fully := w.closedInfo(); fully {
		ex.terminalAt = w.stim
	}
	return true
}

// ---------------------------------------------------------------------------
// crash and restart

func (ex *zzC13Exec) restart() {
	w, r := ex.w, ex.r
	ex.restarts++
	if ex.restarts > 4 {
		r.Harness("C13: more restarts than armed crashes")
	}
	n := w.kv.Writes()
	desc := fmt.Sprintf("epoch %d crashed at write %d (%s), arbitrator state in memory %s",
		w.epoch, n, ex.labelOf(len(ex.labels)-1, n), ex.arbState())
	if ex.restarts <= len(ex.crashes) {
		desc = ex.crashes[ex.restarts-1].String() + ": " + desc
	}
	ex.fired = append(ex.fired, desc)
	if l := ex.labelOf(len(ex.labels)-1, n); l != "?" {
		r.Count("probe_crash_at_" + l[:strings.Index(l, "<")])
		if zzC13IsNurseLabel(l) {
			// the crash landed in a write transaction of the nursery store
			r.Count("fault_crash_in_nursery_store_write")
			r.Count("fault_crash_nursery_" + l[:strings.Index(l, "<")])
			ex.nurseCrashes++
		}
		if ex.ref != nil && ex.restarts == 1 && len(ex.crashes) > 0 {
			// the last write that committed and the first that did not,
			// as the uninterrupted run numbered them
			c := ex.crashes[0]
			done, lost := c.k-1, c.k
			if c.after {
				done, lost = c.k, c.k+1
			}
			if zzC13IsNurseLabel(ex.ref.label(0, done)) && zzC13IsNurseLabel(ex.ref.label(0, lost)) {
				r.Count("probe_nursery_crash_between_two_store_writes")
			}
		}
	}
	ex.crashStims = append(ex.crashStims, w.stim)
	ex.crashStates = append(ex.crashStates, ex.arbState())
	ex.writesIn = append(ex.writesIn, n)
	w.logf("CRASH %s", desc)
	r.State("crash/" + w.closeDelivered + "/" + ex.arbState())

	w.kill()
	if ex.nurse != nil {
		ex.nurse.kill()
	}
	ex.chain.gate = 0
	r.Must(w.kv.Reopen(), "reopen simkv")
	ex.labels = append(ex.labels, map[int]string{})
	if ex.restarts < len(ex.crashes) {
		ex.arm(ex.crashes[ex.restarts])
	}

	// ChainArbitrator.Start: read every arbitrator's start state in one read
	// transaction, then Start(startState). A failure there takes the whole
	// node down. ORACLE ("after restart it resumes from the recorded stage"):
	// the persisted state must be loadable.
	if _, _, _, fully := w.closedInfo(); fully {
		ex.diskStates = append(ex.diskStates, "fully-closed")
	} else {
		bl, err := newBoltArbitratorLog(w.kv, ChannelArbitratorConfig{ChanPoint: w.chanPoint}, chainhash.Hash{}, w.chanPoint)
		r.Must(err, "newBoltArbitratorLog")
		probe := &ChannelArbitrator{log: bl}
		disk := "?"
		wasClosed, _, _, _ := w.closedInfo()
		ex.inLabel = true
		err = kvdb.View(w.kv, func(tx kvdb.RTx) error {
			st, err := probe.getStartState(tx)
			if err == nil {
				disk = st.currentState.String()
				if !wasClosed && st.commitSet != nil {
					// the confirmed commit set is on disk but the
					// channel was not yet marked closed
					disk += "(commit-set-logged,channel-open)"
				}
			}
			return err
		}, func() {})
		ex.inLabel = false
		ex.diskStates = append(ex.diskStates, disk)
		w.logf("restart: arbitrator state on disk %s", disk)
		if err != nil {
			r.Fail("restart-start-error", "%s: the arbitrator's start state cannot be loaded after the restart: %v", ex.where(), err)
		}
		// what the log holds at this restart (observation only): resolvers
		// whose durable record already says "resolved"
		ex.inLabel = true
		cs, err := bl.FetchUnresolvedContracts()
		ex.inLabel = false
		if err == nil {
			for _, c := range cs {
				if k := c.ResolverKey(); len(k) == resolverIDLen && c.IsResolved() {
					var op wire.OutPoint
					copy(op.Hash[:], k[:32])
					op.Index = endian.Uint32(k[32:])
					ex.resolvedAtRestart[op.String()] = zzResolverName(c)
					r.Count("probe_restart_with_resolved_resolver_in_log")
				}
			}
		}
	}

	// Downtime arm: the chain moves on while the node is down (only once a
	// commitment has confirmed: before that nothing happens on chain and the
	// question "does it still go on chain in time" is C12's).
	if i := ex.restarts - 1; i < len(ex.down) && ex.down[i] > 0 && w.closeDelivered != "" {
		if _, _, _, fully := w.closedInfo(); !fully {
			for b := 0; b < ex.down[i]; b++ {
				w.height++
				w.clk.SetTime(w.clk.Now().Add(w.cfg.perBlock))
				w.logf("block height=%d (node is down)", w.height)
				ex.chain.advance(false)
				ex.downBlocks++
			}
			r.State(fmt.Sprintf("down%d/%s", ex.down[i], w.closeDelivered))
		}
	}

	w.nextStim(fmt.Sprintf("restart at height %d", w.height))
	if ex.nurse != nil {
		// server.go: utxoNursery.Start comes before chainArb.Start
		ex.nurse.boot()
		if w.kv.Fenced() {
			return
		}
	}
	w.boot()
	if w.inc.arb == nil || w.kv.Fenced() {
		return
	}
	closed, _, _, _ := w.closedInfo()
	switch {
	case closed:
		// pending-close channel: no chain watcher, nothing re-delivered
	case w.closeDelivered != "":
		// the chain watcher finds the funding outpoint already spent and
		// dispatches the close event again
		w.logf("chain watcher: re-dispatching %s close", w.closeDelivered)
		w.deliverClose(w.closeDelivered)
	case ex.cdb.broadcastedCommitment() != nil && w.frozen:
		// ChainArbitrator.republishClosingTxs: the stored closing tx of a
		// channel with status ChanStatusCommitBroadcasted
		ex.chain.onPublish(ex.cdb.broadcastedCommitment())
	}
	if w.kv.Fenced() {
		return
	}
	if w.userAsked && !closed && w.closeDelivered == "" && w.inc.arb.state == StateDefault {
		// the user's request died with the process; the user asks again
		w.logf("user repeats the force close request")
		w.userClose()
	}
}

func (ex *zzC13Exec) where() string {
	if len(ex.fired) == 0 {
		return "uninterrupted execution"
	}
	if ex.downBlocks > 0 {
		return fmt.Sprintf("crash %s, node down for %d block(s)", strings.Join(ex.fired, " ; then "), ex.downBlocks)
	}
	return "crash " + strings.Join(ex.fired, " ; then ")
}

// ---------------------------------------------------------------------------
// write labels (which code performed write k): used for messages and for the
// structural signature of findings

func (ex *zzC13Exec) onTx(write bool) {
	if !write || ex.inLabel {
		return
	}
	ex.inLabel = true
	defer func() { ex.inLabel = false }()
	if ex.w.kv.Fenced() {
		return
	}
	k := ex.w.kv.Writes() + 1
	ex.labels[len(ex.labels)-1][k] = zzC13WriteLabel()
	// the log as it stands between two writes
	for _, key := range ex.contractKeys() {
		ex.keysSeen[key] = true
	}
	if ex.nurse != nil {
		ex.nurse.observe()
	}
}

func (ex *zzC13Exec) labelOf(epochIdx, k int) string {
	if epochIdx < 0 || epochIdx >= len(ex.labels) {
		return "?"
	}
	if l, ok := ex.labels[epochIdx][k]; ok {
		return l
	}
	return "?"
}

// zzC13WriteLabel names the log method and the lnd function that called it.
func zzC13WriteLabel() string {
	pcs := make([]uintptr, 40)
	n := runtime.Callers(3, pcs)
	frames := runtime.CallersFrames(pcs[:n])
	method, caller := "", ""
	for {
		f, more := frames.Next()
		name := f.Function
		if i := strings.LastIndex(name, "contractcourt."); i >= 0 {
			short := name[i+len("contractcourt."):]
			switch {
			case strings.Contains(short, "boltArbitratorLog)."):
				if method == "" {
					method = short[strings.Index(short, ").")+2:]
				}
			case strings.Contains(short, "NurseryStore)."):
				// the nursery store's own write transactions
				if method == "" {
					method = short[strings.Index(short, ").")+2:]
				}
			case strings.Contains(short, "zzWorld).dbPut"):
				// resolver reports written outside a log transaction
				if method == "" {
					method = "PutResolverReport"
				}
			case strings.Contains(short, "zz"):
				// simulator frames (stub closures, drivers)
			case strings.Contains(short, ".func"):
				// closures (Checkpoint, config callbacks): keep looking
			default:
				if caller == "" {
					caller = strings.NewReplacer("(*", "", ")", "").Replace(short)
				}
			}
		}
		// the real channel database: the outermost method of the channel
		// state store / the channel record that led to this write
		if caller == "" {
			for _, recv := range []string{"channeldb.(*ChannelStateDB).", "chanstate.(*OpenChannel)."} {
				if i := strings.LastIndex(name, recv); i >= 0 {
					method = name[i+len(recv):]
				}
			}
		}
		if !more || (method != "" && caller != "") {
			break
		}
	}
	if i := strings.Index(method, "."); i >= 0 {
		method = method[:i]
	}
	return method + "<" + caller
}

// ---------------------------------------------------------------------------
// observation of the durable contract bucket

// contractKeys lists the resolver keys currently in the unresolved-contracts
// bucket of the arbitrator log (sorted, hex).
func (ex *zzC13Exec) contractKeys() []string {
	w := ex.w
	scope, err := newLogScope(chainhash.Hash{}, w.chanPoint)
	if err != nil {
		ex.r.Harness("log scope: %v", err)
	}
	var keys []string
	prev := ex.inLabel
	ex.inLabel = true
	_ = kvdb.View(w.kv, func(tx kvdb.RTx) error {
		sb := tx.ReadBucket(scope[:])
		if sb == nil {
			return nil
		}
		cb := sb.NestedReadBucket(contractsBucketKey)
		if cb == nil {
			return nil
		}
		return cb.ForEach(func(k, v []byte) error {
			if len(k) == resolverIDLen {
				var op wire.OutPoint
				copy(op.Hash[:], k[:32])
				op.Index = endian.Uint32(k[32:])
				keys = append(keys, op.String())
			}
			return nil
		})
	}, func() { keys = nil })
	ex.inLabel = prev
	sort.Strings(keys)
	return keys
}

func (ex *zzC13Exec) snapshotKeys() {
	if ex.w.kv.Fenced() {
		return
	}
	for _, k := range ex.contractKeys() {
		ex.keysSeen[k] = true
	}
}
