# Table / manifest entries for property C12 (engine closesim, compiled into package contractcourt).

C12_STUB = {
    "contractcourt.ChannelArbitrator (Start, block epochs, advanceState/stateStep, checkLocal/Remote/Dangling/DiffActions, shouldGoOnChain, abandonForwards, failIncomingDust, prepContractResolutions)": "real, started inside a testing/synctest bubble",
    "contract resolvers (timeout, success, incoming/outgoing contest, commit sweep, anchor) Launch/Resolve loops": "real, against simulator chain/sweeper stubs",
    "arbitrator log": "real boltArbitratorLog on a bbolt file",
    "HTLC sets of the three commitments": "simulator model: subsets/supersets as the protocol allows, dust per commitment, offered/received, expiries around the current height, preimage knowledge per hash, forwarded vs own",
    "chain notifier, sweeper, switch (DeliverResolutionMsg), registry, witness beacon, ForceCloseChan, PutFinalHtlcOutcome": "simulator stubs that record every effect (force close invoked, resolvers inserted, resolution messages, final outcomes, sweeps, publishes); an invoice whose preimage the registry holds is returned in state Settled, Open or Accepted (fixed per scenario and hash: a regular invoice is settled the moment its HTLC is accepted, long before the settle reaches the peer)",
    "chain watcher": "not run in this engine (close events are delivered by the simulator as the chain watcher would); commitment recognition is C04/C05",
}
C12_ASSUME = [
    "heights >= 1000 so that expiry - delta cannot wrap",
    "two one-sided conditions (must close / must not close) are judged only where the property is unambiguous; an offered HTLC that exists only on a non-confirmed commitment and whose preimage is known is an open case (counted, not judged)",
    "breach and cooperative close: only failures for unknown HTLCs are judged (the property lists the three commitments for the disposition rule)",
    "bbolt atomicity; a clean batch is evidence, not proof",
]

CHECK = {
    "C12": dict(
        bin="run_close", build="inpkg", pkg="contractcourt", level="exploration",
        run_args=["-test.run=^TestVerifRun$", "-test.timeout=0"],
        quick=dict(runs=300000, wall=90), thorough=dict(runs=12000000, wall=1500),
        rule="one evaluation = one seeded history against a real ChannelArbitrator: HTLC sets for the local / remote / remote-pending commitments (0-6 HTLCs, offered and "
             "received, dust per commitment, expiries around the current height, preimage knowledge, forwarded vs own, anchors or legacy), broadcast deltas, grace period and uptime "
             "drawn per run; then stimuli: block epochs (incl. skipped heights), ContractUpdates replacing the sets, preimage learned, user force close, up to two graceful restarts with 0-8 blocks of downtime while the node has not gone on chain yet (the arbitrator is stopped, the chain moves on, a new arbitrator is built from the log with the HTLC sets the channel holds now and started at the new height; its uptime starts again), and one close event (local / "
             "remote / remote-pending / breach / coop confirmed) at an arbitrary height, possibly after the arbitrator already broadcast. After every stimulus to quiescence: "
             "must-close / must-not-close; after the close event: resolvers vs HTLC outputs of the confirmed commitment, upstream fail-backs, received-dust outcomes. "
             "non-trivial = a close event was delivered with at least one HTLC on some commitment, or a must-close cell was reached; distinct = distinct event-trace hash",
        states_measure="distinct (arbitrator state, height offset, set sizes, close kind) tuples",
        expected_probes=["fault_restart_with_downtime", "probe_restart_past_a_broadcast_cut_off", "probe_must_close_cell", "probe_chain_triggered_force_close", "probe_user_force_close", "probe_close_local", "probe_close_remote",
                         "probe_close_remote-pending", "probe_close_breach", "probe_close_after_broadcast", "probe_confirmed_with_htlc_outputs",
                         "probe_offered_dust_on_confirmed", "probe_offered_only_on_unconfirmed", "probe_received_dust_on_confirmed",
                         "probe_unclaimable_received_past_cutoff_no_close", "probe_preimage_learned",
                         "probe_breach_offered_on_peer_commitment", "probe_breach_offered_only_on_peer_pending_commitment"],
        real_vs_stub=C12_STUB, assumptions=C12_ASSUME,
        simulated_time="block heights are simulator events; the synctest fake clock covers uptime vs grace period",
        determinism="actor engine in a synctest bubble, one stimulus at a time to quiescence; effects are canonicalised (sorted per stimulus) before hashing",
    ),
}

TEXT = {
    "C12": dict(engine="closesim", design_ref="DESIGN.md 5 C12",
                technique="deterministic simulation (synctest bubble): seeded HTLC-set/height/preimage/close-trigger histories against the real ChannelArbitrator and resolvers; one-sided must-close / must-not-close oracles and one-disposition-per-HTLC oracle over recorded effects",
                level_text="Seeded exploration over the cross product the property names: three HTLC sets x direction x dust x preimage knowledge x height relative to each expiry x "
                           "forwarded/own x broadcast deltas x every close trigger. Judged: (must close) once an offered HTLC on the local commitment is within OutgoingBroadcastDelta of "
                           "expiry (own payments only after the grace period) or a received HTLC with known preimage is within IncomingBroadcastDelta, ForceCloseChan has been invoked by "
                           "the time that block is processed; (must not close) no force close while nothing is past its cut-off and nobody asked, in particular never for an unclaimable "
                           "received HTLC; after a commitment confirms: exactly one resolver of the right kind per HTLC output and none for anything else; offered HTLCs that are dust "
                           "there or only on a non-confirmed commitment (preimage unknown) are failed back exactly once over the whole run; never a fail-back for an HTLC that has an "
                           "output on the confirmed commitment; received dust gets exactly one final 'failed' outcome and nothing else; when a revoked commitment confirms (breach) every "
                           "offered HTLC on the peer's current or pending commitment whose preimage is unknown is failed back upstream.",
                level_note="Trusted: synctest quiescence; the simulator's HTLC-set model; stubs for chain/sweeper/switch. Known findings (open, see known_findings.json): dust fail-backs "
                           "are decided only in StateDefault, which is wrong when another commitment than the broadcast one confirms (3 signatures)."),
}
