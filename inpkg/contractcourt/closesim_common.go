package contractcourt

// closesim: simulators for the on-chain side (properties C04, C05, C12, C13).
// These files are compiled INTO package contractcourt by
// /verif/inpkg_build.py (go test -overlay); they are not part of lnd.

import (
	"fmt"
	"os"
	"testing"

	"github.com/btcsuite/btcd/chainhash/v2"
	"github.com/btcsuite/btcd/txscript/v2"
	"github.com/btcsuite/btcd/wire/v2"
	"github.com/lightningnetwork/lnd/chainntnfs"
	"github.com/lightningnetwork/lnd/fn/v2"
	"github.com/lightningnetwork/lnd/input"
	"github.com/lightningnetwork/lnd/lntest/mock"
	"github.com/lightningnetwork/lnd/lnwallet"

	"verif/chansim"
	"verif/simcore"
)

// zzEngineFlags are the standard script verification flags.
const zzEngineFlags = txscript.StandardVerifyFlags

// zzVerifyInput runs the Bitcoin script interpreter on input idx of tx
// against the given previous outputs.
func zzVerifyInput(tx *wire.MsgTx, idx int, prevOuts map[wire.OutPoint]*wire.TxOut) error {
	fetcher := txscript.NewMultiPrevOutFetcher(prevOuts)
	for i, in := range tx.TxIn {
		if _, ok := prevOuts[in.PreviousOutPoint]; !ok {
			return fmt.Errorf("input %d spends unknown outpoint %v", i, in.PreviousOutPoint)
		}
	}
	prev := prevOuts[tx.TxIn[idx].PreviousOutPoint]
	hc := txscript.NewTxSigHashes(tx, fetcher)
	vm, err := txscript.NewEngine(prev.PkScript, tx, idx, zzEngineFlags, nil, hc, prev.Value, fetcher)
	if err != nil {
		return fmt.Errorf("engine: %w", err)
	}
	return vm.Execute()
}

// zzNewWatcher builds a real chainWatcher over the given channel state; no
// goroutines are started, the simulator calls handleCommitSpend itself.
func zzNewWatcher(r *simcore.Run, p *chansim.Party, onBreach func(*lnwallet.BreachRetribution) error) (*chainWatcher, *ChainEventSubscription) {
	notifier := &mock.ChainNotifier{
		SpendChan: make(chan *chainntnfs.SpendDetail, 1),
		EpochChan: make(chan *chainntnfs.BlockEpoch, 1),
		ConfChan:  make(chan *chainntnfs.TxConfirmation, 1),
	}
	// Half of the watchers get the channel record a real chain watcher has:
	// the one loaded at start-up (aged), not a freshly loaded one.
	st := p.Chan.State()
	if p.Aged != nil && r.Draw(2) == 1 {
		st = p.Aged
		r.Count("probe_watcher_with_aged_handle")
	}
	w, err := newChainWatcher(chainWatcherConfig{
		chanState:           st,
		notifier:            notifier,
		signer:              p.Signer,
		contractBreach:      onBreach,
		extractStateNumHint: lnwallet.GetStateNumHint,
		auxLeafStore:        fn.None[lnwallet.AuxLeafStore](),
		auxResolver:         fn.None[lnwallet.AuxContractResolver](),
	})
	r.Must(err, "newChainWatcher")
	sub := w.SubscribeChannelEvents()
	return w, sub
}

func zzSpendDetail(tx *wire.MsgTx, height int32, funding wire.OutPoint) *chainntnfs.SpendDetail {
	h := tx.TxHash()
	return &chainntnfs.SpendDetail{
		SpentOutPoint:     &funding,
		SpenderTxHash:     &h,
		SpendingTx:        tx,
		SpenderInputIndex: 0,
		SpendingHeight:    height,
	}
}

var _ = chainhash.Hash{}
var _ input.Signer

// TestVerifRun is the worker entry point (never returns).
func TestVerifRun(t *testing.T) {
	prop := os.Getenv("VERIF_PROP")
	if prop == "" {
		t.Skip("not a verif worker invocation")
	}
	var run func(r *simcore.Run)
	switch prop {
	case "C04":
		run = zzRunC04
	case "C05":
		run = zzRunC05
	case "C12":
		run = zzRunC12
	case "C13":
		run = zzRunC13
	default:
		t.Fatalf("unknown VERIF_PROP %q", prop)
	}
	simcore.WorkerMain(simcore.Spec{Property: prop, Engine: "closesim", Run: run})
}

func zzSigHashes(tx *wire.MsgTx, fetcher txscript.PrevOutputFetcher) *txscript.TxSigHashes {
	return txscript.NewTxSigHashes(tx, fetcher)
}
