package contractcourt

// Property C12: the node goes on chain before HTLC deadlines and disposes of
// every HTLC once. See closesim_c12_world.go for the machinery.

import (
	"fmt"
	"sort"
	"sync"
	"testing"
	"time"

	"github.com/btcsuite/btcd/wire/v2"

	"verif/simcore"
)

// ---------------------------------------------------------------------------
// a *testing.T for testing/synctest (the worker entry point owns the real one
// and never returns; we obtain a second one the same way `go test` does)

var (
	zzTOnce sync.Once
	zzTVal  *testing.T
)

func zzGetT() *testing.T {
	zzTOnce.Do(func() {
		ready := make(chan struct{})
		go testing.RunTests(
			func(pat, str string) (bool, error) { return true, nil },
			[]testing.InternalTest{{Name: "TestVerifRun", F: func(t *testing.T) {
				zzTVal = t
				close(ready)
				select {} // lives as long as the worker
			}}},
		)
		<-ready
	})
	return zzTVal
}

func zzRunC12(r *simcore.Run) {
	t := zzGetT()
	zzInBubble(t, r, func() { zzC12Run(r, t) })
}

// ---------------------------------------------------------------------------
// configuration (swarm)

type zzC12Cfg struct {
	world     zzWorldCfg
	maxSteps  int
	initSteps int
}

func zzDrawModel(r *simcore.Run) (*zzModel, zzC12Cfg) {
	tp := r.Tape
	m := &zzModel{}
	var c zzC12Cfg
	m.anchors = tp.CfgDraw(2) == 0
	c.world.outDelta = []uint32{0, 1, 3, 5, 10}[tp.CfgDraw(5)]
	c.world.inDelta = []uint32{0, 1, 4, 10, 12}[tp.CfgDraw(5)]
	c.world.grace = []time.Duration{0, 30 * time.Minute, 2 * time.Hour}[tp.CfgDraw(3)]
	c.world.perBlock = []time.Duration{0, 10 * time.Minute, 45 * time.Minute}[tp.CfgDraw(3)]
	m.csv = uint32(1 + tp.CfgDraw(20))
	m.expiryMin = -2
	m.expiryMax = 3 + 5*tp.CfgDraw(3)
	m.outDelta, m.inDelta = c.world.outDelta, c.world.inDelta
	m.maxHtlcs = []int{2, 4, 7}[tp.CfgDraw(3)]
	m.startH = uint32(1000 + tp.CfgDraw(500))
	m.ourBalL = tp.CfgDraw(4) != 0
	m.ourBalR = tp.CfgDraw(4) != 0
	m.baseAmt = 1_000_000
	c.initSteps = tp.CfgDraw(10)
	c.maxSteps = 10 + tp.CfgDraw(16)
	for i := 0; i < c.initSteps; i++ {
		switch tp.CfgDraw(3) {
		case 0:
			if m.hasP {
				m.remoteRevoke()
			} else {
				m.signRemote(tp.CfgDraw, m.startH)
			}
		case 1:
			m.localAdvance(tp.CfgDraw, m.startH)
		default:
			if m.hasP {
				m.remoteRevoke()
			}
		}
	}
	return m, c
}

// ---------------------------------------------------------------------------
// the run

type zzC12 struct {
	ioFaults int  // injected write failures so far
	ioFired  int  // ... that met a write
	ioBlock  bool // the block being processed runs with a failing write armed
	r        *simcore.Run
	w        *zzWorld

	closeStim   int
	restarts    int // graceful restarts (with downtime) so far
	sawFC       bool
	postBlocks  int
	lastFCCount int
}

func (x *zzC12) fcCount() int {
	n := 0
	for _, e := range x.w.effects {
		if e.kind == "fc" {
			n++
		}
	}
	return n
}

func zzC12Run(r *simcore.Run, t *testing.T) {
	m, cfg := zzDrawModel(r)
	r.Arm = map[bool]string{true: "anchors", false: "legacy"}[m.anchors]
	w := zzNewWorld(r, t, m, cfg.world)
	w.trace = true
	x := &zzC12{r: r, w: w}
	defer w.kill()

	r.Logf("cfg anchors=%v outDelta=%d inDelta=%d grace=%v perBlock=%v csv=%d startH=%d htlcs=%d hasP=%v",
		m.anchors, cfg.world.outDelta, cfg.world.inDelta, cfg.world.grace, cfg.world.perBlock, m.csv, m.startH, m.live(), m.hasP)
	x.logSets()

	// stimulus 1: the arbitrator starts at the current height
	w.nextStim("start")
	w.boot()
	x.afterBlockLike(0)

	steps := 0
	for steps < cfg.maxSteps && r.Step() {
		steps++
		if w.closeDelivered != "" {
			// after the close: a few more blocks, then stop
			if x.postBlocks >= 3 {
				r.Kind("idle")
				break
			}
			x.postBlocks++
			r.Kind("block")
			x.block(1)
			continue
		}
		ops := x.enabled()
		op := ops[r.Draw(len(ops))]
		r.Kind(op)
		x.apply(op)
	}
	x.finalChecks()

	total := len(m.htlcs)
	r.Nontrivial = (x.fcCount() > 0 || w.closeDelivered != "") && total > 0
	if w.inc != nil && w.inc.sched.ties > 0 {
		r.Add("sched_ties", int64(w.inc.sched.ties))
	}
}

func (x *zzC12) logSets() {
	m := x.w.m
	for s := 0; s < 3; s++ {
		if s == zzSetP && !m.hasP {
			continue
		}
		var parts []string
		for _, h := range m.members(s) {
			d := ""
			if h.dust[s] {
				d = " dust"
			}
			k := ""
			if m.known(h.hashNo) {
				k = " known"
			}
			f := ""
			if !h.incoming && h.fwd {
				f = " fwd"
			}
			parts = append(parts, fmt.Sprintf("%v%s%s%s", h, d, k, f))
		}
		x.r.Logf("  set %s: %v", zzSetName[s], parts)
	}
}

func (x *zzC12) enabled() []string {
	w, m := x.w, x.w.m
	ops := []string{"block", "block", "block", "skip"}
	fc := x.fcCount()
	if !w.frozen {
		if m.hasP {
			ops = append(ops, "proto-revoke")
		} else {
			ops = append(ops, "proto-sign")
		}
		ops = append(ops, "proto-local")
		if fc == 0 {
			for _, k := range m.know {
				if k == zzKnowNone {
					ops = append(ops, "learn")
					break
				}
			}
		}
	}
	if !w.frozen && w.linkUps < 6 {
		// appended after the ops older tapes know
		ops = append(ops, "link-up")
	}
	if !w.frozen && x.ioFaults < 2 {
		ops = append(ops, "block!io")
	}
	// Restart with downtime (always the LAST op of the list, so that the
	// indexes older tapes recorded keep their meaning): the node is stopped,
	// 0-8 blocks pass, it is started again at the new height. Only while it
	// has not gone on chain: "does it still go on chain in time" is the
	// question; what happens to a close that is under way is C13's.
	canRestart := !w.frozen && fc == 0 && x.restarts < 2
	// close triggers are the rarer choice (a zeroed draw means none)
	if !x.r.Chance(1, 3) {
		if canRestart {
			ops = append(ops, "restart")
		}
		return ops
	}
	if !w.userAsked {
		ops = append(ops, "user")
	}
	ops = append(ops, "close-remote")
	hasP := m.hasP
	if w.frozen {
		hasP = w.commits[zzSetP] != nil
	}
	if hasP {
		ops = append(ops, "close-remote-pending")
	}
	if fc > 0 {
		ops = append(ops, "close-local", "close-local")
	}
	ops = append(ops, "close-breach")
	if m.live() == 0 && fc == 0 {
		ops = append(ops, "close-coop")
	}
	if canRestart {
		ops = append(ops, "restart")
	}
	return ops
}

func (x *zzC12) block(n int) {
	w := x.w
	w.height += uint32(n)
	w.clk.SetTime(w.clk.Now().Add(time.Duration(n) * w.cfg.perBlock))
	w.nextStim(fmt.Sprintf("block height=%d uptime=%v", w.height, w.clk.Now().Sub(w.startedAt)))
	before := x.fcCount()
	w.beat()
	x.afterBlockLike(before)
}

func (x *zzC12) apply(op string) {
	w, m, r := x.w, x.w.m, x.r
	switch op {
	case "block":
		x.block(1)
	case "skip":
		x.block(2 + r.Draw(6))
	case "block!io":
		// the database fails one write while this block is processed (disk
		// error); the node keeps running. The block itself is excused,
		// every later block is judged as usual: the node has to try again.
		x.ioFaults++
		w.kv.FailWrite(1)
		x.ioBlock = true
		x.block(1)
		x.ioBlock = false
		if w.kv.FiredFail > 0 {
			r.Count("fault_arbitrator_log_write_failed")
			x.ioFired++
		}
		w.kv.FiredFail = 0
		w.kv.Disarm()
	case "restart":
		// graceful stop, downtime, start: the arbitrator is rebuilt from
		// its log (StateDefault) with the HTLC sets the channel holds now
		// and is handed the current height; its uptime starts again.
		d := r.Draw(9)
		x.restarts++
		w.kill()
		w.height += uint32(d)
		w.clk.SetTime(w.clk.Now().Add(time.Duration(d) * w.cfg.perBlock))
		w.nextStim(fmt.Sprintf("node restarts after %d block(s) of downtime, height=%d", d, w.height))
		r.Count("fault_restart_with_downtime")
		if x.mustClose() != "" {
			r.Count("probe_restart_past_a_broadcast_cut_off")
		}
		before := x.fcCount()
		w.boot()
		x.afterBlockLike(before)
	case "link-up":
		w.nextStim("the channel's link comes up (peer reconnected)")
		w.linkUps++
		w.linkUp()
		r.Count("probe_link_came_up_again")
	case "proto-sign":
		w.nextStim("we sign a new remote commitment")
		m.signRemote(r.Draw, w.height)
		w.sendUpdates(zzSetP)
		x.logSets()
	case "proto-revoke":
		w.nextStim("peer revokes")
		m.remoteRevoke()
		w.sendUpdates(zzSetR)
		x.logSets()
	case "proto-local":
		w.nextStim("peer signs, we revoke")
		m.localAdvance(r.Draw, w.height)
		w.sendUpdates(zzSetL)
		x.logSets()
	case "learn":
		var cand []int
		for no, k := range m.know {
			if k == zzKnowNone {
				cand = append(cand, no)
			}
		}
		no := cand[r.Draw(len(cand))]
		m.know[no] = []int{zzKnowBeacon, zzKnowInvoice}[r.Draw(2)]
		w.nextStim(fmt.Sprintf("preimage of hash%d becomes known (%d)", no, m.know[no]))
		r.Count("probe_preimage_learned")
	case "user":
		w.nextStim("user requests force close")
		w.userAsked = true
		before := x.fcCount()
		w.userClose()
		if x.fcCount() > before {
			r.Count("probe_user_force_close")
		}
	default:
		kind := op[len("close-"):]
		w.closeHeight = w.height
		w.nextStim("close event: " + kind + " commitment confirmed")
		w.closeDelivered = kind
		x.closeStim = w.stim
		if x.fcCount() > 0 {
			r.Count("probe_close_after_broadcast")
		}
		w.deliverClose(kind)
		r.Count("probe_close_" + kind)
		x.afterClose()
	}
}

// ---------------------------------------------------------------------------
// oracle 1 and 2: must close / must not close

// cutoffPassed: expiry - delta <= height (heights >= 1000, no wrap).
func zzPast(expiry, delta, height uint32) bool { return expiry-delta <= height }

func (x *zzC12) uptime() time.Duration { return x.w.clk.Now().Sub(x.w.startedAt) }

// mustClose returns the HTLC of the LOCAL commitment that obliges the node to
// have gone on chain by now (empty string: none).
func (x *zzC12) mustClose() string {
	w, m := x.w, x.w.m
	for _, h := range m.members(zzSetL) {
		if !h.incoming {
			if zzPast(h.expiry, w.cfg.outDelta, w.height) && (h.fwd || x.uptime() > w.cfg.grace) {
				return h.String()
			}
		} else if m.known(h.hashNo) && zzPast(h.expiry, w.cfg.inDelta, w.height) {
			return h.String()
		}
	}
	return ""
}

// mayClose returns a justification for going on chain at this height, looking
// at all three commitments (one-sided: anything that could justify it).
func (x *zzC12) mayClose() (string, bool) {
	w, m := x.w, x.w.m
	onlyOwnInGrace := true
	why := ""
	for s := 0; s < 3; s++ {
		for _, h := range m.members(s) {
			if !h.incoming && zzPast(h.expiry, w.cfg.outDelta, w.height) {
				why = h.String()
				if h.fwd || x.uptime() >= w.cfg.grace {
					onlyOwnInGrace = false
				}
			}
			if h.incoming && m.known(h.hashNo) && zzPast(h.expiry, w.cfg.inDelta, w.height) {
				why = h.String()
				onlyOwnInGrace = false
			}
		}
	}
	return why, why != "" && onlyOwnInGrace
}

// afterBlockLike judges a delivered height (start-up or block beat).
func (x *zzC12) afterBlockLike(fcBefore int) {
	w, r := x.w, x.r
	fc := x.fcCount()
	r.State(fmt.Sprintf("%v/L%d/R%d/P%d/%s", w.inc.arb.state, len(w.m.members(0)), len(w.m.members(1)), len(w.m.members(2)), w.closeDelivered))
	if w.closeDelivered != "" {
		return
	}
	if why := x.mustClose(); why != "" {
		r.Count("probe_must_close_cell")
		if fc == 0 && x.ioBlock && w.kv.FiredFail > 0 {
			r.Count("probe_must_close_excused_by_write_failure")
		} else if fc == 0 {
			r.Fail("no-force-close", "height %d processed, %s on the local commitment is past its broadcast cut-off "+
				"(outDelta=%d inDelta=%d uptime=%v grace=%v) but ForceCloseChan was never invoked (arbitrator state %v)",
				w.height, why, w.cfg.outDelta, w.cfg.inDelta, x.uptime(), w.cfg.grace, w.inc.arb.state)
		}
	}
	if fc > fcBefore && !w.userAsked {
		why, inGrace := x.mayClose()
		if why == "" {
			x.logSets()
			r.Fail("needless-force-close", "ForceCloseChan invoked at height %d although no offered HTLC and no received HTLC "+
				"with a known preimage is past its cut-off on any commitment (outDelta=%d inDelta=%d)",
				w.height, w.cfg.outDelta, w.cfg.inDelta)
		}
		if inGrace {
			r.Fail("force-close-within-grace", "ForceCloseChan invoked at height %d: the only HTLCs past their cut-off are our own "+
				"payments (e.g. %s) and the node is up for %v < grace period %v", w.height, why, x.uptime(), w.cfg.grace)
		}
		r.Count("probe_chain_triggered_force_close")
	}
	if fc == 0 {
		// expired but unclaimable received HTLC present and no close: the interesting negative cell
		for _, h := range w.m.members(zzSetL) {
			if h.incoming && !w.m.known(h.hashNo) && zzPast(h.expiry, w.cfg.inDelta, w.height) {
				r.Count("probe_unclaimable_received_past_cutoff_no_close")
				break
			}
		}
	}
}

// ---------------------------------------------------------------------------
// oracle 3: after a commitment confirmed

func (x *zzC12) confSet() int {
	switch x.w.closeDelivered {
	case "local":
		return zzSetL
	case "remote":
		return zzSetR
	case "remote-pending":
		return zzSetP
	}
	return -1
}

type zzResKey struct {
	incoming bool
	id       uint64
	op       wire.OutPoint
}

func zzHtlcResolverKey(res ContractResolver) (zzResKey, bool) {
	switch v := res.(type) {
	case *htlcTimeoutResolver:
		return zzResKey{false, v.htlc.HtlcIndex, v.HtlcPoint()}, true
	case *htlcOutgoingContestResolver:
		return zzResKey{false, v.htlc.HtlcIndex, v.HtlcPoint()}, true
	case *htlcSuccessResolver:
		return zzResKey{true, v.htlc.HtlcIndex, v.HtlcPoint()}, true
	case *htlcIncomingContestResolver:
		return zzResKey{true, v.htlc.HtlcIndex, v.HtlcPoint()}, true
	}
	return zzResKey{}, false
}

func (x *zzC12) afterClose() {
	x.checkResolvers()
	x.checkFailBacks(false)
}

func (x *zzC12) expectedResolvers() map[zzResKey]*zzHtlc {
	w := x.w
	conf := x.confSet()
	exp := map[zzResKey]*zzHtlc{}
	c := w.commits[conf]
	for _, h := range w.m.members(conf) {
		oi, ok := c.outIdx[h.uid]
		if !ok {
			continue
		}
		exp[zzResKey{h.incoming, h.id, wire.OutPoint{Hash: c.txid, Index: uint32(oi)}}] = h
	}
	return exp
}

func (x *zzC12) checkResolvers() {
	w, r := x.w, x.r
	conf := x.confSet()
	if conf < 0 {
		return
	}
	exp := x.expectedResolvers()
	var batch *zzInsert
	for i := range w.inserts {
		if w.inserts[i].stim >= x.closeStim {
			batch = &w.inserts[i]
			break
		}
	}
	name := zzSetName[conf]
	if batch == nil {
		if len(exp) > 0 {
			r.Fail("htlc-without-resolver", "%s commitment confirmed with %d HTLC output(s) but no contract resolvers were inserted "+
				"(arbitrator state %v)", name, len(exp), w.inc.arb.state)
		}
		return
	}
	seen := map[zzResKey]int{}
	for _, res := range batch.resolvers {
		k, ok := zzHtlcResolverKey(res)
		if !ok {
			continue
		}
		seen[k]++
		if _, want := exp[k]; !want {
			r.Fail("resolver-for-nothing", "%s commitment confirmed: resolver %s does not correspond to an HTLC output of that commitment",
				name, zzResolverName(res))
		}
		if seen[k] > 1 {
			r.Fail("duplicate-resolver", "%s commitment confirmed: %d resolvers for %s", name, seen[k], zzResolverName(res))
		}
	}
	var missing []string
	for k, h := range exp {
		if seen[k] == 0 {
			missing = append(missing, fmt.Sprintf("%v@%v", h, k.op.Index))
		}
	}
	sort.Strings(missing)
	if len(missing) > 0 {
		r.Fail("htlc-without-resolver", "%s commitment confirmed: HTLC output(s) %v got no on-chain resolver", name, missing)
	}
	if len(exp) > 0 {
		r.Count("probe_confirmed_with_htlc_outputs")
	}
	// later inserts (checkpoints) may only concern the same contracts
	for _, ins := range w.inserts {
		if ins.stim < x.closeStim {
			for _, res := range ins.resolvers {
				r.Fail("resolver-before-close", "resolver %s inserted before any commitment confirmed", zzResolverName(res))
			}
			continue
		}
		for _, res := range ins.resolvers {
			if k, ok := zzHtlcResolverKey(res); ok {
				if _, want := exp[k]; !want {
					r.Fail("resolver-for-nothing", "%s commitment confirmed: resolver %s checkpointed later does not correspond to an HTLC output",
						name, zzResolverName(res))
				}
			}
		}
	}
}

// checkFailBacks compares the upstream failures delivered so far with the
// expectation; final=true additionally demands that nothing is missing.
func (x *zzC12) checkFailBacks(final bool) {
	w, r, m := x.w, x.r, x.w.m
	conf := x.confSet()
	fails := map[uint64]int{}
	for _, e := range w.effects {
		switch e.kind {
		case "msg-fail":
			fails[e.idx]++
			if e.what != "" {
				r.Fail("wrong-resolution-msg", "resolution message for htlc %d: %s", e.idx, e.what)
			}
		case "msg-settle", "msg-both", "msg-empty":
			r.Fail("wrong-resolution-msg", "%s delivered for htlc %d although nothing was spent on chain", e.kind, e.idx)
		}
	}
	if conf < 0 {
		// breach / coop / none: only look for failures of unknown HTLCs
		for idx, n := range fails {
			if n > 1 && w.closeDelivered == "breach" {
				r.Count("probe_breach_duplicate_fail_back")
			}
			found := false
			for _, h := range m.htlcs {
				if !h.incoming && h.id == idx {
					found = true
				}
			}
			if !found {
				r.Fail("fail-back-unknown-htlc", "upstream failure for offered HTLC index %d which never existed", idx)
			}
		}
		// A revoked commitment confirmed: none of the three live commitments
		// did, so every offered HTLC of theirs exists only on a non-confirmed
		// commitment and is failed back upstream (unless its preimage is
		// already known). lnd documents this for the HTLCs on either of the
		// peer's commitments (current and pending), which is every offered
		// HTLC that can still be live: an offered HTLC enters the peer's
		// commitment first and leaves it last.
		if w.closeDelivered == "breach" {
			for _, h := range m.htlcs {
				if h.incoming || h.gone {
					continue
				}
				onR := w.commits[zzSetR] != nil && h.in[zzSetR]
				onP := w.commits[zzSetP] != nil && h.in[zzSetP]
				if !onR && !onP {
					continue
				}
				if m.known(h.hashNo) {
					r.Count("probe_breach_offered_with_known_preimage")
					continue
				}
				r.Count("probe_breach_offered_on_peer_commitment")
				if !onR {
					r.Count("probe_breach_offered_only_on_peer_pending_commitment")
				}
				if fails[h.id] == 0 {
					where := "the peer's current commitment"
					if !onR {
						where = "the peer's pending commitment only"
					}
					r.Fail("fail-back-missing", "a revoked commitment confirmed (breach): %v is on %s, i.e. on no confirmed commitment, its preimage is unknown, but it was never failed back upstream", h, where)
				}
			}
		}
		return
	}
	name := zzSetName[conf]
	for _, h := range m.htlcs {
		if h.incoming {
			continue
		}
		onC := !h.gone && h.in[conf]
		onOther := false
		for s := 0; s < 3; s++ {
			if s != conf && w.commits[s] != nil && !h.gone && h.in[s] {
				onOther = true
			}
		}
		n := fails[h.id]
		delete(fails, h.id)
		switch {
		case onC && !h.dust[conf]:
			if n > 0 {
				r.FailOrKnown("fail-back-claimable", zzFailSig(x, h, conf),
					"%s commitment confirmed: %v still has an output on it but was failed back upstream %d time(s)", name, h, n)
			}
		case onC && h.dust[conf]:
			r.Count("probe_offered_dust_on_confirmed")
			if n > 1 && n <= 1+x.ioFired {
				// a stage whose state commit failed is executed again at the
				// next block and repeats its (identical) fail-back
				r.Count("probe_fail_back_repeated_after_write_failure")
			} else if n > 1 {
				r.Fail("fail-back-twice", "%s commitment confirmed: dust %v failed back upstream %d times", name, h, n)
			}
			if n == 0 {
				r.FailOrKnown("fail-back-missing", zzFailSig(x, h, conf),
					"%s commitment confirmed: %v is dust on it but was never failed back upstream", name, h)
			}
		case onOther && !m.known(h.hashNo):
			r.Count("probe_offered_only_on_unconfirmed")
			if n > 1 && n <= 1+x.ioFired {
				r.Count("probe_fail_back_repeated_after_write_failure")
			} else if n > 1 {
				r.Fail("fail-back-twice", "%s commitment confirmed: %v (only on a non-confirmed commitment) failed back upstream %d times", name, h, n)
			}
			if n == 0 {
				r.FailOrKnown("fail-back-missing", zzFailSig(x, h, conf),
					"%s commitment confirmed: %v exists only on a non-confirmed commitment, its preimage is unknown, "+
						"but it was never failed back upstream", name, h)
			}
		case onOther:
			r.Count("probe_open_case_dangling_with_preimage")
		default:
			if n > 0 && x.ioFired > 0 {
				r.FailOrKnown("fail-back-unknown-htlc", "commit-failed/removed-later",
					"%v is on none of the commitments but was failed back upstream %d time(s) (a state commit had failed earlier in this run)", h, n)
			} else if n > 0 {
				r.Fail("fail-back-unknown-htlc", "%v is on none of the commitments but was failed back upstream %d time(s)", h, n)
			}
		}
	}
	for idx, n := range fails {
		r.Fail("fail-back-unknown-htlc", "upstream failure (%d) for offered HTLC index %d which never existed", n, idx)
	}
	// received dust on the confirmed commitment
	finals := map[uint64][2]int{}
	for _, e := range w.effects {
		if e.kind == "final" {
			v := finals[e.idx]
			if e.ok {
				v[1]++
			} else {
				v[0]++
			}
			finals[e.idx] = v
		}
	}
	for _, h := range m.members(conf) {
		if !h.incoming || !h.dust[conf] {
			continue
		}
		r.Count("probe_received_dust_on_confirmed")
		v := finals[h.id]
		if v[1] > 0 {
			r.Fail("dust-settled", "%s commitment confirmed: received dust %v recorded as settled on chain", name, h)
		}
		if v[0] != 1 {
			r.Fail("received-dust-outcome", "%s commitment confirmed: received dust %v got %d final 'failed' outcomes, want exactly 1", name, h, v[0])
		}
	}
	_ = final
}

// zzFailSig is a structural signature of a fail-back anomaly (for recorded
// findings): which commitment confirmed, where the HTLC is dust, whether the
// node had already broadcast its own commitment.
func zzFailSig(x *zzC12, h *zzHtlc, conf int) string {
	class := ""
	onC := !h.gone && h.in[conf]
	switch {
	case onC && h.dust[conf]:
		class = "dust-on-confirmed"
	case onC:
		class = "output-on-confirmed"
	default:
		class = "dangling-dust"
		for s := 0; s < 3; s++ {
			if s != conf && x.w.commits[s] != nil && !h.gone && h.in[s] && !h.dust[s] {
				class = "dangling-output"
			}
		}
	}
	pre := "default"
	if x.ioFired > 0 {
		// a state commit failed while the node was deciding to go on chain:
		// what that stage had already done (dust fail-backs) stands, the
		// broadcast did not follow
		pre = "commit-failed"
	}
	for _, e := range x.w.effects {
		if e.kind == "fc" && e.stim < x.closeStim {
			pre = "broadcast"
		}
	}
	return pre + "/" + class
}

func (x *zzC12) finalChecks() {
	if x.w.closeDelivered == "" {
		return
	}
	if x.confSet() >= 0 {
		x.checkResolvers()
	}
	x.checkFailBacks(true)
}
