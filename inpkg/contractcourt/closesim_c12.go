package contractcourt

import "verif/simcore"

func zzRunC12(r *simcore.Run) { r.Harness("C12 not built yet") }
