package contractcourt

// closesim C13, part 5: the REAL utxo nursery (arm "legacy+nursery").
//
// In this arm the hand-written nursery model of the chain script
// (zzC13Nurse / onIncubate / nurseryTick) is not used. The node runs lnd's
// UtxoNursery over lnd's NurseryStore on the SAME channel database (same SimKV
// file) as the arbitrator log, built the way lnd's server builds it:
//
//	NewNurseryStore(&chainHash, db); NewUtxoNursery(&NurseryConfig{...}); Start()
//
// and ChainArbitratorConfig.IncubateOutputs is nursery.IncubateOutputs. Every
// write transaction of the store (Incubate, CribToKinder, PreschoolToKinder,
// GraduateKinder, RemoveChannel) is therefore a numbered write of the same
// crash-point enumeration as the arbitrator log's writes.
//
// Process model. lnd's server starts the nursery before the chain arbitrator
// and the nursery outlives every channel arbitrator; so here: the nursery
// process is started before zzWorld.boot at the first start and at every
// restart, dies with the node at a crash, and lives on when the channel's
// arbitrator is gone (ResolveContract). An execution is over when the channel
// is fully closed AND the nursery has nothing left that can still happen for
// the channel.
//
// Seams (all simulator): ChainIO (best block = world height), the notifier
// (confirmations of the transactions the chain script confirms; block epochs
// for every simulated block; historical confirmations are dispatched after
// the registration returned, one at a time, like every other notification),
// PublishTransaction (into the chain script's mempool), SweepInput (the chain
// script's sweeper: broadcasts when the input is mature, answers when the
// sweep - or somebody else's spend - confirms, answers at once when the
// input is already spent), FetchClosedChannel(s) (the real channel database).
//
// Scheduling. No stub called by the nursery parks: the nursery calls them
// while holding its mutex, and a goroutine blocked on a mutex is not durably
// blocked for synctest. Determinism comes from the driver: exactly one
// notification is delivered at a time, followed by quiescence; calls of
// IncubateOutputs are serialised by the arbitrator world's scheduler before
// they enter the nursery.

import (
	"bytes"
	"errors"
	"fmt"
	"os"
	"sort"
	"strings"
	"sync"
	"testing/synctest"

	"github.com/btcsuite/btcd/chainhash/v2"
	"github.com/btcsuite/btcd/wire/v2"
	"github.com/lightningnetwork/lnd/chainntnfs"
	"github.com/lightningnetwork/lnd/fn/v2"
	graphdb "github.com/lightningnetwork/lnd/graph/db"
	"github.com/lightningnetwork/lnd/input"
	"github.com/lightningnetwork/lnd/kvdb"
	"github.com/lightningnetwork/lnd/lnwallet"
	"github.com/lightningnetwork/lnd/sweep"

	"verif/simcore"
)

// ---------------------------------------------------------------------------
// one process lifetime of the nursery

type zzNurseConfReg struct {
	txid chainhash.Hash
	hint uint32
	ch   chan *chainntnfs.TxConfirmation
	sent bool
	dead bool
}

type zzNurseProc struct {
	n     *zzC13Nursery
	epoch int // number of restarts before this process
	dead  bool

	nursery *UtxoNursery

	mu     sync.Mutex
	confs  []*zzNurseConfReg
	epochs []*zzEpochReg
	sweeps []*zzSweepReq // everything offered to the sweeper by this process
	swSeen int
	swLive []*zzSweepReq // offered, neither answered nor dropped

	starting bool // inside UtxoNursery.Start
}

func (p *zzNurseProc) alive() bool { return !p.dead && !p.n.ex.w.kv.Fenced() }

var _ chainntnfs.ChainNotifier = (*zzNurseProc)(nil)

func (p *zzNurseProc) RegisterConfirmationsNtfn(txid *chainhash.Hash, _ []byte, numConfs,
	heightHint uint32, _ ...chainntnfs.NotifierOption) (*chainntnfs.ConfirmationEvent, error) {

	if !p.alive() {
		return nil, simcore.ErrSimCrashed
	}
	if heightHint == 0 {
		// the real notifiers refuse this
		return nil, chainntnfs.ErrNoHeightHint
	}
	reg := &zzNurseConfReg{txid: *txid, hint: heightHint, ch: make(chan *chainntnfs.TxConfirmation, 1)}
	p.mu.Lock()
	p.confs = append(p.confs, reg)
	p.mu.Unlock()
	if p.starting {
		p.n.ex.r.Count("probe_nursery_start_registers_conf")
	}
	p.n.ex.w.logf("  nursery: waits for confirmation of %v (hint %d)", *txid, heightHint)
	return &chainntnfs.ConfirmationEvent{
		Confirmed: reg.ch,
		Cancel: func() {
			p.mu.Lock()
			reg.dead = true
			p.mu.Unlock()
		},
	}, nil
}

func (p *zzNurseProc) RegisterSpendNtfn(*wire.OutPoint, []byte, uint32) (*chainntnfs.SpendEvent, error) {
	return nil, fmt.Errorf("the utxo nursery does not register spend notifications")
}

func (p *zzNurseProc) RegisterBlockEpochNtfn(best *chainntnfs.BlockEpoch) (*chainntnfs.BlockEpochEvent, error) {
	if !p.alive() {
		return nil, simcore.ErrSimCrashed
	}
	reg := &zzEpochReg{ch: make(chan *chainntnfs.BlockEpoch, 256)}
	tip := int32(p.n.ex.w.height)
	if best == nil {
		// no best block given: the current tip is delivered at once
		reg.ch <- &chainntnfs.BlockEpoch{Height: tip}
	} else {
		// the backlog of blocks the client has missed
		for h := best.Height + 1; h <= tip; h++ {
			reg.ch <- &chainntnfs.BlockEpoch{Height: h}
		}
	}
	p.mu.Lock()
	p.epochs = append(p.epochs, reg)
	p.mu.Unlock()
	return &chainntnfs.BlockEpochEvent{
		Epochs: reg.ch,
		Cancel: func() {
			p.mu.Lock()
			reg.dead = true
			p.mu.Unlock()
		},
	}, nil
}

func (p *zzNurseProc) Start() error  { return nil }
func (p *zzNurseProc) Started() bool { return true }
func (p *zzNurseProc) Stop() error   { return nil }

// publish: NurseryConfig.PublishTransaction
func (p *zzNurseProc) publish(tx *wire.MsgTx, _ string) error {
	if !p.alive() {
		return simcore.ErrSimCrashed
	}
	n := p.n
	w, c := n.ex.w, n.ex.chain
	txid := tx.TxHash()
	n.effect(p, "npublish", txid.String())
	if p.starting {
		n.ex.r.Count("probe_nursery_start_republishes")
	}
	// ORACLE (consensus): a transaction with an absolute lock time cannot be
	// mined before that height has passed; broadcasting it earlier gets it
	// rejected as non-final.
	if tx.LockTime != 0 && tx.LockTime < 500_000_000 && w.height < tx.LockTime {
		n.flag("nursery-premature-publish", "the nursery broadcast %v (lock time %d) at height %d", txid, tx.LockTime, w.height)
	}
	for _, in := range tx.TxIn {
		if d := c.spent[in.PreviousOutPoint]; d != nil && *d.SpenderTxHash != txid {
			n.ex.r.Count("probe_nursery_publish_double_spend")
			return lnwallet.ErrDoubleSpend
		}
	}
	c.broadcast(tx, "nursery", false, tx.TxIn[0].PreviousOutPoint)
	return nil
}

// sweepInput: NurseryConfig.SweepInput
func (p *zzNurseProc) sweepInput(inp input.Input, params sweep.Params) (chan sweep.Result, error) {
	ch := make(chan sweep.Result, 1)
	if !p.alive() {
		return ch, nil
	}
	n := p.n
	w, c := n.ex.w, n.ex.chain
	op := inp.OutPoint()
	lt, _ := inp.RequiredLockTime()
	ws := inp.SignDesc().WitnessScript
	desc := fmt.Sprintf("%v %v csv=%d conf=%d locktime=%d value=%d script=%x", op, inp.WitnessType(),
		inp.BlocksToMaturity(), inp.HeightHint(), lt, inp.SignDesc().Output.Value, ws)
	n.effect(p, "nsweep", desc)
	if p.starting {
		n.ex.r.Count("probe_nursery_start_resweeps")
	}
	// ORACLE (kidOutput / NurseryStorer doc: a kindergarten output's maturity
	// height is its confirmation height plus its CSV delay): the output the
	// nursery offers must carry the height at which it really confirmed,
	// the sweeper times the relative lock from it.
	if inp.BlocksToMaturity() > 0 {
		h, ok := c.confirmed[op.Hash]
		switch {
		case !ok:
			n.flag("nursery-sweeps-unconfirmed-output", "the nursery offered %v to the sweeper but transaction %v has not confirmed", op, op.Hash)
		case h != inp.HeightHint():
			n.flag("nursery-wrong-maturity", "the nursery offered %v to the sweeper with confirmation height %d, it confirmed at %d (csv %d)",
				op, inp.HeightHint(), h, inp.BlocksToMaturity())
		}
	}
	p.mu.Lock()
	p.sweeps = append(p.sweeps, &zzSweepReq{op: op, inp: inp, params: params, res: ch, epoch: p.epoch, height: w.height})
	p.mu.Unlock()
	return ch, nil
}

// ---------------------------------------------------------------------------
// the nursery of one execution (all process lifetimes)

type zzNurseSnap struct {
	present bool
	outs    map[wire.OutPoint]string // states of the output in the channel bucket, "+"-joined
}

func (s zzNurseSnap) String() string {
	if !s.present {
		return "-"
	}
	var parts []string
	for op, st := range s.outs {
		parts = append(parts, fmt.Sprintf("%v=%s", op, st))
	}
	sort.Strings(parts)
	return "[" + strings.Join(parts, " ") + "]"
}

type zzNurseFirst struct {
	htlcOp  wire.OutPoint
	firstTx chainhash.Hash
	out     bool
}

type zzC13Nursery struct {
	ex        *zzC13Exec
	chainHash chainhash.Hash
	proc      *zzNurseProc

	// durable side, observed between any two write transactions
	last zzNurseSnap
	hist map[wire.OutPoint][]string // distinct successive states per output ("" = not in the store)

	// first violation noticed on a goroutine of the node (raised by the driver)
	badCode, badMsg string

	// ResolveContract entered while an output was neither swept nor beyond reach
	early string
}

func zzC13NewNursery(ex *zzC13Exec) *zzC13Nursery {
	return &zzC13Nursery{ex: ex, hist: map[wire.OutPoint][]string{}}
}

func (n *zzC13Nursery) flag(code, f string, a ...interface{}) {
	if n.badCode == "" {
		n.badCode, n.badMsg = code, fmt.Sprintf(f, a...)
		n.ex.w.logf("  nursery: ORACLE %s: %s", code, n.badMsg)
	}
}

// raise reports what flag recorded; driver goroutine only.
func (n *zzC13Nursery) raise() {
	if n.badCode != "" {
		code, msg := n.badCode, n.badMsg
		n.badCode = ""
		n.ex.r.Fail(code, "%s: %s", n.ex.where(), msg)
	}
}

func (n *zzC13Nursery) effect(p *zzNurseProc, kind, what string) {
	w := n.ex.w
	w.flushEffects()
	w.effects = append(w.effects, zzEffect{kind: kind, what: what, stim: w.stim, epoch: p.epoch})
	w.r.Logf("  nursery effect %s %s", kind, what)
}

// boot starts a new nursery process from what is on disk (server.go:
// utxoNursery.Start, before chainArb.Start).
func (n *zzC13Nursery) boot() {
	ex, w, r := n.ex, n.ex.w, n.ex.r
	if w.kv.Fenced() {
		r.Harness("nursery boot while the database is fenced")
	}
	n.observe()
	if ex.restarts > 0 {
		if n.last.present {
			r.Count("probe_nursery_restart_with_nonempty_store")
			seen := map[string]bool{}
			for _, st := range n.last.outs {
				for _, s := range strings.Split(st, "+") {
					if !seen[s] {
						seen[s] = true
						r.Count("probe_nursery_restart_with_" + s + "_output")
					}
				}
			}
		} else {
			r.Count("probe_nursery_restart_with_empty_store")
		}
	}
	store, err := NewNurseryStore(&n.chainHash, ex.cdb.db)
	r.Must(err, "NewNurseryStore")
	p := &zzNurseProc{n: n, epoch: ex.restarts}
	sdb := ex.cdb.db.ChannelStateDB()
	p.nursery = NewUtxoNursery(&NurseryConfig{
		ChainIO:             &zzChainIO{w: w},
		ConfDepth:           1,
		FetchClosedChannels: sdb.FetchClosedChannels,
		FetchClosedChannel:  sdb.FetchClosedChannel,
		Notifier:            p,
		PublishTransaction:  p.publish,
		Store:               store,
		SweepInput:          p.sweepInput,
		Budget:              DefaultBudgetConfig(),
	})
	n.proc = p
	w.logf("nursery start epoch=%d height=%d store=%v", p.epoch, w.height, n.last)
	p.starting = true
	err = p.nursery.Start()
	p.starting = false
	synctest.Wait()
	n.observe()
	if err != nil {
		if w.kv.Fenced() {
			return // the node died while starting
		}
		if ex.restarts == 0 {
			r.Harness("utxo nursery start: %v", err)
		}
		// ORACLE ("after restart it resumes from the recorded stage"): lnd
		// does not come up when the nursery does not start.
		r.Fail("restart-start-error", "%s: the utxo nursery does not start after the restart: %v", ex.where(), err)
	}
}

// kill ends the live nursery process (crash or end of the execution).
func (n *zzC13Nursery) kill() {
	p := n.proc
	if p == nil || p.dead {
		return
	}
	p.dead = true
	done := make(chan struct{})
	go func() {
		_ = p.nursery.Stop()
		close(done)
	}()
	synctest.Wait()
	select {
	case <-done:
	default:
		n.ex.r.Count("nursery_stop_blocked")
	}
}

// incubateFn is ChainArbitratorConfig.IncubateOutputs of one arbitrator
// incarnation.
func (n *zzC13Nursery) incubateFn(inc *zzIncarnation) func(wire.OutPoint, fn.Option[lnwallet.OutgoingHtlcResolution],
	fn.Option[lnwallet.IncomingHtlcResolution], uint32, fn.Option[int32], ...IncubateOption) error {

	return func(chanPoint wire.OutPoint, out fn.Option[lnwallet.OutgoingHtlcResolution],
		in fn.Option[lnwallet.IncomingHtlcResolution], bh uint32, dl fn.Option[int32], opts ...IncubateOption) error {

		var op wire.OutPoint
		kind := ""
		out.WhenSome(func(o lnwallet.OutgoingHtlcResolution) { op = o.HtlcPoint(); kind = "out" })
		in.WhenSome(func(i lnwallet.IncomingHtlcResolution) { op = i.HtlcPoint(); kind = "in" })
		inc.sched.park("incubate " + op.String())
		p := n.proc
		if !inc.alive() || p == nil || !p.alive() {
			return simcore.ErrSimCrashed
		}
		inc.effect(zzEffect{kind: "incubate", what: kind + " " + op.String()})
		inc.w.flushEffects()
		n.ex.r.Count("probe_nursery_incubate_" + kind)
		return p.nursery.IncubateOutputs(chanPoint, out, in, bh, dl, opts...)
	}
}

// ---------------------------------------------------------------------------
// observation of the store

func (n *zzC13Nursery) chanKey() []byte {
	var b bytes.Buffer
	_ = graphdb.WriteOutpoint(&b, &n.ex.w.chanPoint)
	return b.Bytes()
}

var zzNurseStates = [][]byte{cribPrefix, psclPrefix, kndrPrefix, gradPrefix}

// read takes the channel's entries out of the store (channel index and height
// index). ok is false while the node is down.
func (n *zzC13Nursery) read() (snap zzNurseSnap, incons string, ok bool) {
	w := n.ex.w
	if w.kv.Fenced() {
		return snap, "", false
	}
	root, _ := prefixChainKey(utxnChainPrefix, &n.chainHash)
	ck := n.chanKey()
	chanKeys, hghtKeys := map[string]bool{}, map[string]bool{}
	hghts := map[string][]uint32{}
	prev := n.ex.inLabel
	n.ex.inLabel = true
	err := kvdb.View(w.kv, func(tx kvdb.RTx) error {
		cb := tx.ReadBucket(root)
		if cb == nil {
			return nil
		}
		if ci := cb.NestedReadBucket(channelIndexKey); ci != nil {
			if b := ci.NestedReadBucket(ck); b != nil {
				snap.present = true
				if err := b.ForEach(func(k, _ []byte) error {
					chanKeys[string(k)] = true
					return nil
				}); err != nil {
					return err
				}
			}
		}
		hi := cb.NestedReadBucket(heightIndexKey)
		if hi == nil {
			return nil
		}
		return hi.ForEach(func(hk, v []byte) error {
			if v != nil || len(hk) != 4 {
				return nil
			}
			hb := hi.NestedReadBucket(hk)
			if hb == nil {
				return nil
			}
			hcb := hb.NestedReadBucket(ck)
			if hcb == nil {
				return nil
			}
			return hcb.ForEach(func(k, _ []byte) error {
				hghtKeys[string(k)] = true
				hghts[string(k)] = append(hghts[string(k)], byteOrder.Uint32(hk))
				return nil
			})
		})
	}, func() {
		snap = zzNurseSnap{}
		chanKeys, hghtKeys = map[string]bool{}, map[string]bool{}
		hghts = map[string][]uint32{}
	})
	n.ex.inLabel = prev
	if err != nil {
		if w.kv.Fenced() {
			return snap, "", false
		}
		n.ex.r.Harness("reading the nursery store: %v", err)
	}
	snap.outs = map[wire.OutPoint]string{}
	name := func(k string) (wire.OutPoint, string) {
		var op wire.OutPoint
		if len(k) < 4 || graphdb.ReadOutpoint(bytes.NewReader([]byte(k[4:])), &op) != nil {
			return op, "?" + fmt.Sprintf("%x", k)
		}
		return op, k[:4]
	}
	for _, pfx := range zzNurseStates {
		for k := range chanKeys {
			if !strings.HasPrefix(k, string(pfx)) {
				continue
			}
			op, st := name(k)
			if cur := snap.outs[op]; cur != "" {
				snap.outs[op] = cur + "+" + st
			} else {
				snap.outs[op] = st
			}
		}
	}
	// The documented hierarchy (nursery_store.go, "HEIGHT INDEX"): a crib or
	// kindergarten output has an entry in the height index, and an entry of
	// the height index names an output that can be found in the channel index.
	var bad []string
	for k := range chanKeys {
		_, st := name(k)
		if (st == string(cribPrefix) || st == string(kndrPrefix)) && !hghtKeys[k] {
			op, _ := name(k)
			bad = append(bad, fmt.Sprintf("%s output %v has no entry in the height index", st, op))
		}
	}
	for k := range hghtKeys {
		if !chanKeys[k] {
			op, st := name(k)
			bad = append(bad, fmt.Sprintf("the height index (heights %v) names %s output %v, which is not in the channel index", hghts[k], st, op))
		}
	}
	sort.Strings(bad)
	return snap, strings.Join(bad, "; "), true
}

// observe compares the store with what it held at the previous observation.
// Called at the entry of every write transaction (so two successive
// observations are at most one committed write transaction apart) and at
// quiescent points.
func (n *zzC13Nursery) observe() {
	snap, incons, ok := n.read()
	if !ok {
		return
	}
	r := n.ex.r
	if incons != "" {
		n.flag("nursery-store-inconsistent", "nursery store of the channel: %s", incons)
	}
	prev := n.last
	n.last = snap
	// ORACLE (closeAndRemoveIfMature / RemoveChannel doc: a channel is removed
	// from the store if and only if all of its outputs have graduated; an
	// output leaves the store in no other way)
	if prev.present && !snap.present {
		for op, st := range prev.outs {
			if st != string(gradPrefix) {
				n.flag("nursery-removed-immature-channel", "the channel was removed from the nursery store while output %v was in state %s", op, st)
			}
		}
		r.Count("probe_nursery_channel_removed")
	}
	ops := map[wire.OutPoint]bool{}
	for op := range prev.outs {
		ops[op] = true
	}
	for op := range snap.outs {
		ops[op] = true
	}
	for op := range ops {
		was, is := prev.outs[op], snap.outs[op]
		if was == is {
			continue
		}
		n.hist[op] = append(n.hist[op], is)
		if is == "" && snap.present && was != string(gradPrefix) {
			n.flag("nursery-output-vanished", "output %v left the nursery store from state %s while the channel is still incubating", op, was)
		}
		has := func(s string, pfx []byte) bool { return strings.Contains(s, string(pfx)) }
		switch {
		case has(was, cribPrefix) && !has(is, cribPrefix) && has(is, kndrPrefix):
			r.Count("probe_nursery_crib_promoted")
		case has(was, psclPrefix) && !has(is, psclPrefix) && has(is, kndrPrefix):
			r.Count("probe_nursery_preschool_promoted")
		case has(was, kndrPrefix) && !has(is, kndrPrefix) && has(is, gradPrefix):
			r.Count("probe_nursery_kinder_graduated")
		}
		if was != "" && !has(was, cribPrefix) && has(is, cribPrefix) {
			// the timeout resolver hands its HTLC over again at every
			// start; the store only ignores it while it is still in the crib
			r.Count("probe_nursery_promoted_output_back_in_crib")
		}
	}
}

// first maps an output the nursery incubates (second-level output) to the
// HTLC output of our commitment and the pre-signed transaction that creates it.
func (n *zzC13Nursery) first(op wire.OutPoint) (zzNurseFirst, bool) {
	cm := n.ex.w.commits[zzSetL]
	if cm == nil {
		return zzNurseFirst{}, false
	}
	for _, o := range cm.res.OutgoingHTLCs {
		if o.SignedTimeoutTx != nil && o.ClaimOutpoint == op {
			return zzNurseFirst{htlcOp: o.SignedTimeoutTx.TxIn[0].PreviousOutPoint, firstTx: o.SignedTimeoutTx.TxHash(), out: true}, true
		}
	}
	for _, i := range cm.res.IncomingHTLCs {
		if i.SignedSuccessTx != nil && i.ClaimOutpoint == op {
			return zzNurseFirst{htlcOp: i.SignedSuccessTx.TxIn[0].PreviousOutPoint, firstTx: i.SignedSuccessTx.TxHash()}, true
		}
	}
	return zzNurseFirst{}, false
}

// beyondReach: the counterparty took the HTLC output, the second-level
// transaction can never confirm and the output will never exist.
func (n *zzC13Nursery) beyondReach(op wire.OutPoint) bool {
	f, ok := n.first(op)
	if !ok {
		return false
	}
	d := n.ex.chain.spent[f.htlcOp]
	return d != nil && *d.SpenderTxHash != f.firstTx
}

// idle: nothing can happen any more in the nursery for this channel: every
// output it holds has graduated or is beyond reach. (A channel whose outputs
// have all graduated is removed in the same breath by an uninterrupted run;
// after a crash between the two writes only a later start removes it, and
// only while the channel is still pending close.)
func (n *zzC13Nursery) idle() bool {
	if n.ex.w.kv.Fenced() {
		return false
	}
	for op, st := range n.last.outs {
		if st != string(gradPrefix) && !n.beyondReach(op) && n.ex.chain.spent[op] == nil {
			return false
		}
	}
	return true
}

// atResolve is called when the arbitrator reports the channel fully resolved.
// ORACLE ("the channel is marked fully resolved only after all contracts are
// resolved"; a contract handed to the nursery is resolved once its output has
// been swept): every output the nursery still holds ungraduated must already
// be spent on chain, or be beyond reach.
func (n *zzC13Nursery) atResolve() {
	n.observe()
	if n.early != "" || !n.last.present {
		return
	}
	for op, st := range n.last.outs {
		if st == string(gradPrefix) || n.beyondReach(op) || n.ex.chain.spent[op] != nil {
			continue
		}
		n.early = fmt.Sprintf("nursery output %v (state %s) has not been swept", op, st)
		return
	}
}

// ---------------------------------------------------------------------------
// deliveries (driver goroutine)

// deliverConf hands one due confirmation to the live nursery process.
// Confirmations of the block being delivered are held back until their turn
// (gate), everything older is historical and due at once.
func (n *zzC13Nursery) deliverConf() bool {
	p := n.proc
	if p == nil || !p.alive() {
		return false
	}
	c := n.ex.chain
	var hit *zzNurseConfReg
	var height uint32
	p.mu.Lock()
	for _, reg := range p.confs {
		if reg.sent || reg.dead {
			continue
		}
		h, ok := c.confirmed[reg.txid]
		if !ok || (c.gate != 0 && h >= c.gate) {
			continue
		}
		if h < reg.hint {
			// a real notifier scans from the hint on: it never finds it
			reg.sent = true
			n.ex.r.Count("probe_nursery_conf_missed_by_height_hint")
			continue
		}
		hit, height = reg, h
		hit.sent = true
		break
	}
	p.mu.Unlock()
	if hit == nil {
		return false
	}
	if height < n.ex.w.height {
		n.ex.r.Count("probe_nursery_historical_conf")
	}
	n.ex.w.logf("notifier -> nursery: %v confirmed at %d", hit.txid, height)
	select {
	case hit.ch <- &chainntnfs.TxConfirmation{BlockHeight: height}:
	default:
	}
	n.ex.w.settle()
	n.observe()
	return true
}

// deliverEpochs hands the block epoch of the current height to the nursery.
// Returns true if the node restarted meanwhile.
func (n *zzC13Nursery) deliverEpochs(epoch int) bool {
	ex := n.ex
	p := n.proc
	if p == nil || !p.alive() {
		return false
	}
	p.mu.Lock()
	regs := append([]*zzEpochReg(nil), p.epochs...)
	p.mu.Unlock()
	for _, reg := range regs {
		p.mu.Lock()
		dead := reg.dead
		p.mu.Unlock()
		if dead || !p.alive() {
			continue
		}
		select {
		case reg.ch <- &chainntnfs.BlockEpoch{Height: int32(ex.w.height)}:
		default:
		}
		ex.w.settle()
		n.observe()
		if ex.pump() || ex.restarts != epoch {
			return true
		}
	}
	return false
}

// ---------------------------------------------------------------------------
// outcome

type zzNurseOutcome struct {
	final     map[string]string // output -> disposition
	hist      map[string]string
	publishes map[string]int
	sweeps    map[string]map[string]int // outpoint -> descriptor -> count
	report    string
	early     string
	swept     map[string]bool // output is spent on chain at the end
	beyond    map[string]bool // output can never exist (the counterparty took the HTLC)
	idle      bool            // nothing left to happen in the nursery at the end
}

func zzNurseDisposition(h []string) string {
	if len(h) == 0 {
		return "never-stored"
	}
	last := h[len(h)-1]
	switch {
	case last == string(gradPrefix):
		return "graduated"
	case last == "" && len(h) > 1 && h[len(h)-2] == string(gradPrefix):
		return "graduated"
	case last == "":
		return "gone"
	}
	return last
}

func (n *zzC13Nursery) outcome() *zzNurseOutcome {
	ex := n.ex
	n.observe()
	o := &zzNurseOutcome{final: map[string]string{}, hist: map[string]string{}, publishes: map[string]int{},
		sweeps: map[string]map[string]int{}, early: n.early}
	o.swept = map[string]bool{}
	o.beyond = map[string]bool{}
	o.idle = n.idle()
	for op, h := range n.hist {
		o.beyond[op.String()] = n.beyondReach(op)
		o.final[op.String()] = zzNurseDisposition(h)
		o.hist[op.String()] = strings.Join(h, ">")
		o.swept[op.String()] = ex.chain.spent[op] != nil
	}
	for _, e := range ex.w.effects {
		switch e.kind {
		case "npublish":
			o.publishes[e.what]++
		case "nsweep":
			f := strings.SplitN(e.what, " ", 2)
			if o.sweeps[f[0]] == nil {
				o.sweeps[f[0]] = map[string]int{}
			}
			o.sweeps[f[0]][f[1]]++
		}
	}
	// NurseryReport against the store. ORACLE (NurseryReport doc: "an
	// output's funds are always in limbo until reaching the graduate state";
	// ErrContractNotFound when the store has nothing for the channel).
	if !ex.w.kv.Fenced() {
		store, err := NewNurseryStore(&n.chainHash, ex.cdb.db)
		ex.r.Must(err, "NewNurseryStore")
		u := NewUtxoNursery(&NurseryConfig{Store: store})
		prev := ex.inLabel
		ex.inLabel = true
		rep, err := u.NurseryReport(&ex.w.chanPoint)
		ex.inLabel = prev
		switch {
		case errors.Is(err, ErrContractNotFound):
			o.report = "none"
			if n.last.present && len(n.last.outs) > 0 {
				ex.r.Fail("nursery-report-inconsistent", "%s: NurseryReport knows nothing about the channel, the store holds %v", ex.where(), n.last)
			}
		case err != nil:
			ex.r.Fail("nursery-report-inconsistent", "%s: NurseryReport fails on the stored outputs %v: %v", ex.where(), n.last, err)
		default:
			limbo, grad := 0, 0
			for _, st := range n.last.outs {
				for _, s := range strings.Split(st, "+") {
					if s == string(gradPrefix) {
						grad++
					} else {
						limbo++
					}
				}
			}
			o.report = fmt.Sprintf("htlcs=%d limbo=%v recovered=%v", len(rep.Htlcs), rep.LimboBalance > 0, rep.RecoveredBalance > 0)
			if !n.last.present || len(rep.Htlcs) != limbo+grad || (rep.LimboBalance > 0) != (limbo > 0) || (rep.RecoveredBalance > 0) != (grad > 0) {
				ex.r.Fail("nursery-report-inconsistent", "%s: NurseryReport says %s (limbo %v, recovered %v), the store holds %v",
					ex.where(), o.report, rep.LimboBalance, rep.RecoveredBalance, n.last)
			}
		}
	}
	return o
}

// judgeSelf: what every execution must satisfy on its own.
func (n *zzC13Nursery) judgeSelf(o *zzNurseOutcome) {
	ex, r := n.ex, n.ex.r
	n.raise()
	if o.early != "" {
		r.Fail("marked-resolved-early", "%s: the arbitrator reported the channel fully resolved while %s", ex.where(), o.early)
	}
	// ORACLE ("exactly one disposition per output"): offering the identical
	// input again (after a restart) is fine, the sweeper de-duplicates; two
	// different inputs for one outpoint mean two different sweeps.
	var ops []string
	for op := range o.sweeps {
		ops = append(ops, op)
	}
	sort.Strings(ops)
	for _, op := range ops {
		if len(o.sweeps[op]) > 1 {
			var ds []string
			for d := range o.sweeps[op] {
				ds = append(ds, d)
			}
			sort.Strings(ds)
			r.Fail("nursery-sweep-contradiction", "%s: the nursery offered output %s to the sweeper as different inputs: %v", ex.where(), op, ds)
		}
		total := 0
		for _, c := range o.sweeps[op] {
			total += c
		}
		if total > 1 {
			r.Count("probe_nursery_resweep_after_restart")
		}
	}
	for _, c := range o.publishes {
		if c > 1 {
			r.Count("probe_nursery_republish_after_restart")
			break
		}
	}
}

// judgeAgainstReference: what the nursery is responsible for in "reaches the
// same terminal outcome as an uninterrupted run".
func (n *zzC13Nursery) judgeAgainstReference(o, ref *zzNurseOutcome) {
	ex, r := n.ex, n.ex.r
	where, sig := ex.where(), ex.sig()
	var ops []string
	for op := range ref.final {
		ops = append(ops, op)
	}
	sort.Strings(ops)
	for _, op := range ops {
		want, got := ref.final[op], o.final[op]
		switch {
		case got == "":
			// no output lost on the way into the nursery
			r.FailOrKnown("nursery-output-lost", sig, "%s: output %s was incubated by the nursery of the uninterrupted run (%s), here it never reached the nursery store",
				where, op, ref.hist[op])
		case want == "graduated" && got != "graduated" && !o.swept[op]:
			// none stuck in the crib or in kindergarten: the uninterrupted
			// run swept this output, here it sits unswept in the store
			r.FailOrKnown("nursery-output-not-graduated", sig, "%s: output %s was swept and graduated in the uninterrupted run (%s), here it ends as %q (%s) and is unspent on chain",
				where, op, ref.hist[op], got, o.hist[op])
		case want == "graduated" && got != "graduated":
			// The output HAS been swept (and had graduated), yet the store
			// ends with an ungraduated entry for it: a restarted timeout
			// resolver hands its HTLC over again and NurseryStore.Incubate
			// ignores a duplicate only while it is still in the crib. The
			// entry is scheduled at a height that has passed, so nothing
			// happens to it before the next start of the nursery. No funds
			// are involved and the property does not speak of it: counted,
			// judged only on request (VERIF_C13_NURSERY_STRICT=1).
			r.Count("probe_nursery_stale_entry_for_swept_output")
			ex.w.logf("note: nursery store ends with %q for output %s, which was swept (%s)", got, op, o.hist[op])
			if os.Getenv("VERIF_C13_NURSERY_STRICT") == "1" {
				r.FailOrKnown("nursery-stale-entry", sig, "%s: output %s was swept and graduated (uninterrupted run: %s), yet the nursery store ends with state %q for it (%s)",
					where, op, ref.hist[op], got, o.hist[op])
			}
		}
	}
	for op := range o.final {
		if _, ok := ref.final[op]; !ok {
			r.Count("probe_nursery_output_not_in_reference")
			ex.w.logf("note: output %s in the nursery store here (%s), never in the uninterrupted run", op, o.hist[op])
		}
	}
	// every second-level transaction the reference's nursery broadcast and
	// every output it offered to the sweeper
	var miss []string
	for tx := range ref.publishes {
		if o.publishes[tx] == 0 {
			miss = append(miss, tx)
		}
	}
	sort.Strings(miss)
	if len(miss) > 0 {
		r.FailOrKnown("nursery-publish-missing", sig, "%s: transaction(s) %v broadcast by the nursery of the uninterrupted run were never broadcast", where, miss)
	}
	miss = nil
	for op, ds := range ref.sweeps {
		if len(o.sweeps[op]) == 0 {
			miss = append(miss, op)
			continue
		}
		for d := range ds {
			if o.sweeps[op][d] == 0 {
				var got []string
				for g := range o.sweeps[op] {
					got = append(got, g)
				}
				r.FailOrKnown("nursery-sweep-differs", sig, "%s: output %s was offered to the sweeper as %q in the uninterrupted run, here as %v", where, op, d, got)
			}
		}
	}
	sort.Strings(miss)
	if len(miss) > 0 {
		r.FailOrKnown("nursery-sweep-missing", sig, "%s: output(s) %v swept by the nursery of the uninterrupted run were never offered to the sweeper", where, miss)
	}
	if o.report != ref.report {
		// covered output by output above; kept as a counter
		r.Count("probe_nursery_report_differs_from_reference")
	}
}

// judgeAfterDowntime: the nursery's part of an execution in which the chain
// moved on while the node was down (see zzC13Exec.judgeAfterDowntime). The
// counterparty may have taken an HTLC meanwhile, then its second-level output
// never exists; everything else the nursery holds must still be swept: "none
// stuck in the crib or in kindergarten" whatever height the node comes back at.
func (n *zzC13Nursery) judgeAfterDowntime(o, ref *zzNurseOutcome, where, sig string) {
	r := n.ex.r
	if !ref.idle {
		// the uninterrupted run did not get that far either
		return
	}
	var ops []string
	for op := range o.final {
		ops = append(ops, op)
	}
	sort.Strings(ops)
	for _, op := range ops {
		got := o.final[op]
		if got == "graduated" || o.swept[op] || o.beyond[op] {
			continue
		}
		r.FailOrKnown("nursery-output-not-graduated", sig, "%s: output %s ends as %q (%s) in the nursery store, unspent on chain and still claimable; "+
			"the nursery of the uninterrupted run ends with nothing left to do", where, op, got, o.hist[op])
	}
	for op := range ref.final {
		if _, ok := o.final[op]; !ok {
			r.Count("probe_downtime_nursery_output_never_stored")
		}
	}
}

// zzC13IsNurseLabel: write labels of the nursery store's transactions.
func zzC13IsNurseLabel(l string) bool { return strings.Contains(l, "<UtxoNursery.") }
