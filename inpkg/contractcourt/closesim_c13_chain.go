package contractcourt

// closesim C13, part 2: the chain script.
//
// Everything outside the node that matters after a commitment confirmed is a
// pure function of the scenario and of numbers drawn when the close trigger
// is delivered ("fates"), never of a crash:
//
//   * per offered HTLC on the confirmed commitment: whether and at which
//     height the counterparty claims it with the preimage;
//   * per received HTLC: whether and at which height the counterparty takes
//     it back through the timeout path;
//   * per hash we do not know yet: whether and when the preimage turns up in
//     the witness beacon;
//   * for a breach: when the breach arbitrator reports justice served;
//   * per outpoint: how many extra blocks a transaction of ours spending it
//     needs to confirm once it is broadcast (derived from a drawn salt).
//
// The chain state (confirmed transactions, spent outpoints, the mempool, what
// the nursery was handed, which sweep transactions are ours) belongs to the
// world and survives a crash of the node; the sweeper's pending inputs and
// all notifier registrations die with the process and come back only if the
// restarted node registers them again. On registration the notifier reports
// a spend that is already on chain with its historical details, and the
// sweeper answers an input that is already spent at once.
//
// In the arm with the real utxo nursery (closesim_c13_nursery.go) the model of
// the nursery below (zzC13Nurse, onIncubate, nurseryTick) is idle: lnd's
// nursery is a second client of the notifier and of the sweeper, and what it
// was handed is durable in ITS store, inside the crash-injected database.
//
// Inside one block everything is delivered to the node ONE notification at a
// time, in a fixed order, each followed by quiescence: spends (sorted by
// outpoint), sweep results, beacon updates, breach completion, block epochs
// (in registration order), then the block beat for the arbitrator.

import (
	"strings"
	"crypto/sha256"
	"encoding/binary"
	"fmt"
	"sort"

	"github.com/btcsuite/btcd/chainhash/v2"
	"github.com/btcsuite/btcd/wire/v2"
	"github.com/lightningnetwork/lnd/chainntnfs"
	"github.com/lightningnetwork/lnd/fn/v2"
	"github.com/lightningnetwork/lnd/input"
	"github.com/lightningnetwork/lnd/lntypes"
	"github.com/lightningnetwork/lnd/lnwallet"
	"github.com/lightningnetwork/lnd/sweep"
)

type zzC13MTx struct {
	tx      *wire.MsgTx
	txid    chainhash.Hash
	minedAt uint32
	ours    bool   // a sweep transaction recorded in the sweeper's store
	who     string // sweeper, publish, nursery, remote
}

type zzC13Remote struct {
	op   wire.OutPoint
	uid  int
	at   uint32
	kind string // claim (preimage), timeout
	done bool
}

type zzC13Nurse struct {
	htlcOp  wire.OutPoint
	first   *wire.MsgTx // second-level transaction (published by the nursery for timeouts)
	publish bool        // the nursery broadcasts `first` itself
	cltv    uint32
	csv     uint32
	claim   wire.OutPoint
	claimTx *wire.MsgTx
}

type zzC13Chain struct {
	ex *zzC13Exec

	spent     map[wire.OutPoint]*chainntnfs.SpendDetail
	byRemote  map[wire.OutPoint]bool // spent by a transaction of the counterparty
	confirmed map[chainhash.Hash]uint32
	mempool   []*zzC13MTx
	known     map[chainhash.Hash]bool // ever broadcast
	ourSweeps map[chainhash.Hash]bool
	nursery   []*zzC13Nurse

	// fates
	salt     int
	remote   []*zzC13Remote
	learnAt  map[int]uint32
	breachAt uint32
	maxH     uint32

	// sweeper view of the live incarnation
	swEpoch int
	swSeen  int
	swLive  []*zzSweepReq // offered, neither answered nor dropped

	// real-nursery arm: confirmations at or above this height are not yet due
	// for the nursery (the block is being delivered); 0 = everything is due
	gate uint32
}

func zzC13NewChain(ex *zzC13Exec) *zzC13Chain {
	return &zzC13Chain{
		ex:        ex,
		spent:     map[wire.OutPoint]*chainntnfs.SpendDetail{},
		byRemote:  map[wire.OutPoint]bool{},
		confirmed: map[chainhash.Hash]uint32{},
		known:     map[chainhash.Hash]bool{},
		ourSweeps: map[chainhash.Hash]bool{},
		learnAt:   map[int]uint32{},
	}
}

func (c *zzC13Chain) extra(op wire.OutPoint) uint32 {
	var b [8]byte
	binary.BigEndian.PutUint64(b[:], uint64(c.salt))
	h := sha256.Sum256(append(b[:], []byte(op.String())...))
	return uint32(h[0]) % 3
}

var zzC13Sig = append([]byte{0x30, 0x44}, make([]byte, 69)...)

// ---------------------------------------------------------------------------
// the close trigger: a commitment confirms, the fates are drawn

func (c *zzC13Chain) confSet() int {
	switch c.ex.w.closeDelivered {
	case "local":
		return zzSetL
	case "remote":
		return zzSetR
	case "remote-pending":
		return zzSetP
	}
	return -1
}

func (c *zzC13Chain) closeConfirmed(kind string, draw func(int) int) {
	w := c.ex.w
	H := w.height
	c.salt = draw(1 << 16)
	c.maxH = H
	set := c.confSet()
	if set >= 0 {
		cm := w.commits[set]
		c.confirmed[cm.txid] = H
		c.spent[w.chanPoint] = &chainntnfs.SpendDetail{
			SpentOutPoint: &w.chanPoint, SpenderTxHash: &cm.txid, SpendingTx: cm.tx, SpendingHeight: int32(H),
		}
		// HTLC outputs in uid order
		var uids []int
		byUID := map[int]wire.OutPoint{}
		for op, uid := range cm.secondL {
			uids = append(uids, uid)
			byUID[uid] = op
		}
		sort.Ints(uids)
		for _, uid := range uids {
			h := w.m.byUID(uid)
			if h.expiry > c.maxH {
				c.maxH = h.expiry
			}
			at := uint32(0)
			if !h.incoming {
				// the counterparty may know the preimage of what we offered
				switch draw(4) {
				case 1:
					at = H + 1 + uint32(draw(3))
				case 2:
					at = h.expiry - 2 + uint32(draw(5))
				case 3:
					at = h.expiry + 3 + uint32(draw(4))
				}
				if at != 0 {
					if at <= H {
						at = H + 1
					}
					// the claim reveals the preimage to us: same race as
					// below (learnAt) with a received HTLC of that hash
					for tie := true; tie; {
						tie = false
						for _, u2 := range uids {
							if h2 := w.m.byUID(u2); h2.incoming && h2.hashNo == h.hashNo && h2.expiry == at {
								at++
								tie = true
							}
						}
					}
					c.remote = append(c.remote, &zzC13Remote{op: byUID[uid], uid: uid, at: at, kind: "claim"})
				}
			} else {
				// the counterparty may take back what it offered once expired
				switch draw(3) {
				case 1:
					at = h.expiry + uint32(draw(3))
				case 2:
					at = h.expiry + 4 + uint32(draw(6))
				}
				if at != 0 {
					if at <= H {
						at = H + 1
					}
					c.remote = append(c.remote, &zzC13Remote{op: byUID[uid], uid: uid, at: at, kind: "timeout"})
				}
			}
		}
		// preimages that turn up later
		for no, k := range w.m.know {
			if k != zzKnowNone {
				continue
			}
			if zzC13ExitHash(w.m, no) {
				// an invoice-less exit hop: nothing turns up in the beacon
				continue
			}
			if draw(3) != 0 {
				at := H + 1 + uint32(draw(10))
				// Not in the very block in which a received HTLC with
				// this hash expires: whether the preimage or the block
				// reaches the contest resolver first is then a race in
				// lnd (both orders legal, different outcomes), and a
				// restart in that block picks the other order.
				for tie := true; tie; {
					tie = false
					for _, uid := range uids {
						if h := w.m.byUID(uid); h.incoming && h.hashNo == no && h.expiry == at {
							at++
							tie = true
						}
					}
				}
				c.learnAt[no] = at
			}
		}
	}
	if kind == "breach" {
		c.breachAt = H + 1 + uint32(draw(6))
	}
	w.logf("chain script: salt=%d remote=%v learnAt=%v breachAt=%d", c.salt, c.remoteString(), c.learnString(), c.breachAt)
}

func (c *zzC13Chain) remoteString() []string {
	var out []string
	for _, r := range c.remote {
		out = append(out, fmt.Sprintf("%s uid%d @%d", r.kind, r.uid, r.at))
	}
	return out
}

func (c *zzC13Chain) learnString() []string {
	var nos []int
	for no := range c.learnAt {
		nos = append(nos, no)
	}
	sort.Ints(nos)
	var out []string
	for _, no := range nos {
		out = append(out, fmt.Sprintf("hash%d@%d", no, c.learnAt[no]))
	}
	return out
}

// postBudget bounds the number of blocks after the close.
func (c *zzC13Chain) postBudget() int {
	w := c.ex.w
	n := int(w.m.csv) + 14
	if c.maxH > w.closeHeight {
		n += int(c.maxH - w.closeHeight)
	}
	if n > 110 {
		n = 110
	}
	return n
}

// ---------------------------------------------------------------------------
// transactions entering the mempool

func (c *zzC13Chain) exists(op wire.OutPoint) bool {
	if op == c.ex.w.chanPoint {
		return true
	}
	_, ok := c.confirmed[op.Hash]
	return ok
}

func (c *zzC13Chain) broadcast(tx *wire.MsgTx, who string, ours bool, key wire.OutPoint) {
	txid := tx.TxHash()
	if c.known[txid] {
		return
	}
	c.known[txid] = true
	if ours {
		c.ourSweeps[txid] = true
	}
	c.mempool = append(c.mempool, &zzC13MTx{
		tx: tx, txid: txid, who: who, ours: ours,
		minedAt: c.ex.w.height + 1 + c.extra(key),
	})
}

// onPublish: ChainArbitratorConfig.PublishTx
func (c *zzC13Chain) onPublish(tx *wire.MsgTx) {
	w := c.ex.w
	if w.frozen && w.commits[zzSetL] != nil && tx.TxHash() == w.commits[zzSetL].txid {
		// our commitment: its confirmation is a scenario event
		c.ex.localCommitUp = true
		return
	}
	c.broadcast(tx, "publish", false, tx.TxIn[0].PreviousOutPoint)
}

// onIncubate: the utxo nursery takes over an HTLC of a pre-anchor channel
// (durable in its own store once the call returned).
func (c *zzC13Chain) onIncubate(op wire.OutPoint, out fn.Option[lnwallet.OutgoingHtlcResolution],
	in fn.Option[lnwallet.IncomingHtlcResolution]) {

	for _, n := range c.nursery {
		if n.htlcOp == op {
			return
		}
	}
	out.WhenSome(func(o lnwallet.OutgoingHtlcResolution) {
		if o.SignedTimeoutTx == nil {
			return
		}
		c.nursery = append(c.nursery, &zzC13Nurse{
			htlcOp: op, first: o.SignedTimeoutTx, publish: true, cltv: o.Expiry, csv: o.CsvDelay, claim: o.ClaimOutpoint,
		})
	})
	in.WhenSome(func(i lnwallet.IncomingHtlcResolution) {
		if i.SignedSuccessTx == nil {
			return
		}
		c.nursery = append(c.nursery, &zzC13Nurse{
			htlcOp: op, first: i.SignedSuccessTx, csv: i.CsvDelay, claim: i.ClaimOutpoint,
		})
	})
}

func (c *zzC13Chain) plainSweep(op wire.OutPoint, wit wire.TxWitness, tag string) *wire.MsgTx {
	tx := wire.NewMsgTx(2)
	tx.AddTxIn(&wire.TxIn{PreviousOutPoint: op, Witness: wit})
	tx.AddTxOut(&wire.TxOut{Value: 1000, PkScript: zzP2WSH([]byte(tag + op.String()))})
	return tx
}

func (c *zzC13Chain) nurseryTick() {
	H := c.ex.w.height
	for _, n := range c.nursery {
		ftx := n.first.TxHash()
		if n.publish && !c.known[ftx] && c.spent[n.htlcOp] == nil && c.exists(n.htlcOp) && H+1 >= n.cltv {
			c.broadcast(n.first, "nursery", false, n.htlcOp)
		}
		fh, ok := c.confirmed[ftx]
		if !ok || c.spent[n.claim] != nil || H+1 < fh+n.csv {
			continue
		}
		if n.claimTx == nil {
			n.claimTx = c.plainSweep(n.claim, wire.TxWitness{zzC13Sig, {0x01}}, "nursery-sweep ")
		}
		c.broadcast(n.claimTx, "nursery", false, n.claim)
	}
}

// ---------------------------------------------------------------------------
// the sweeper

// lockHeight is the first height at which a transaction spending the input
// can be mined.
func zzC13LockHeight(inp input.Input) uint32 {
	lock := uint32(0)
	if bm := inp.BlocksToMaturity(); bm > 0 {
		lock = inp.HeightHint() + bm
	}
	if lt, ok := inp.RequiredLockTime(); ok && lt > lock {
		lock = lt
	}
	return lock
}

func (c *zzC13Chain) sweepTx(req *zzSweepReq) *wire.MsgTx {
	inp := req.inp
	op := inp.OutPoint()
	if sl, ok := inp.(*input.HtlcSecondLevelAnchorInput); ok {
		// the pre-signed second-level transaction, re-signed with fees
		// attached: same input witness shape, the required output at the
		// index of the input
		tx := wire.NewMsgTx(2)
		wit := make(wire.TxWitness, len(sl.SignedTx.TxIn[0].Witness))
		for i, e := range sl.SignedTx.TxIn[0].Witness {
			wit[i] = append([]byte(nil), e...)
		}
		sl.Preimage().WhenSome(func(p lntypes.Preimage) {
			if len(wit) > 3 {
				wit[3] = append([]byte(nil), p[:]...)
			}
		})
		tx.AddTxIn(&wire.TxIn{PreviousOutPoint: op, Witness: wit, Sequence: 1})
		o := *sl.RequiredTxOut()
		tx.AddTxOut(&o)
		tx.LockTime = sl.SignedTx.LockTime
		// The pre-signed transaction carries no fee; the sweeper attaches a
		// wallet input and a change output (SIGHASH_SINGLE|ANYONECANPAY), so
		// the transaction that confirms is usually NOT the pre-signed one and
		// the second-level output sits in a transaction whose id nobody knew
		// in advance. Decided per output by the chain script's salt.
		var sb [8]byte
		binary.BigEndian.PutUint64(sb[:], uint64(c.salt))
		fh := sha256.Sum256(append(append(sb[:], []byte("fee-input ")...), []byte(op.String())...))
		if fh[0]%3 != 0 {
			var wh chainhash.Hash
			copy(wh[:], fh[:])
			wh[31] = 0xfe
			c.confirmed[wh] = 0 // a confirmed wallet coin
			tx.AddTxIn(&wire.TxIn{PreviousOutPoint: wire.OutPoint{Hash: wh, Index: 0}, Witness: wire.TxWitness{zzC13Sig, {0x02}}})
			tx.AddTxOut(&wire.TxOut{Value: 5000, PkScript: zzP2WSH([]byte("sweeper change " + op.String()))})
			c.ex.r.Count("probe_second_level_tx_with_fee_input")
		}
		return tx
	}
	ws := inp.SignDesc().WitnessScript
	wit := wire.TxWitness{zzC13Sig, ws}
	if set := c.confSet(); set >= 0 {
		if uid, ok := c.ex.w.commits[set].secondL[op]; ok {
			h := c.ex.w.m.byUID(uid)
			if h.incoming {
				// direct claim with the preimage on their commitment
				var pre []byte
				inp.Preimage().WhenSome(func(p lntypes.Preimage) { pre = append([]byte(nil), p[:]...) })
				wit = wire.TxWitness{zzC13Sig, pre, ws}
			} else {
				// direct timeout on their commitment
				wit = wire.TxWitness{zzC13Sig, {}, ws}
			}
		}
	}
	return c.plainSweep(op, wit, "sweep ")
}

func (c *zzC13Chain) answer(req *zzSweepReq, d *chainntnfs.SpendDetail) {
	res := sweep.Result{Tx: d.SpendingTx}
	if !c.ourSweeps[*d.SpenderTxHash] {
		res.Err = sweep.ErrRemoteSpend
	}
	select {
	case req.res <- res:
	default:
	}
}

// handleSweeps looks at what the live incarnation offered to the sweeper.
// Returns true if something was delivered to the node (and settled).
func (c *zzC13Chain) handleSweeps() bool {
	if c.handleNurseSweeps() {
		return true
	}
	w := c.ex.w
	inc := w.inc
	if inc == nil || inc.dead || inc.sw == nil {
		return false
	}
	if c.swEpoch != inc.epoch {
		// a new process: the old pending inputs are gone
		c.swEpoch, c.swSeen, c.swLive = inc.epoch, 0, nil
	}
	inc.sw.mu.Lock()
	reqs := append([]*zzSweepReq(nil), inc.sw.reqs...)
	inc.sw.mu.Unlock()
	for c.swSeen < len(reqs) {
		req := reqs[c.swSeen]
		c.swSeen++
		if d := c.spent[req.op]; d != nil {
			// already spent on chain: the sweeper finds out at once
			w.logf("sweeper: %v already spent by %v", req.op, d.SpenderTxHash)
			c.answer(req, d)
			w.settle()
			return true
		}
		c.swLive = append(c.swLive, req)
		c.trySweep(req)
	}
	return false
}

// handleNurseSweeps: the same for what the live nursery process offered.
func (c *zzC13Chain) handleNurseSweeps() bool {
	n := c.ex.nurse
	if n == nil || n.proc == nil || !n.proc.alive() {
		return false
	}
	p, w := n.proc, c.ex.w
	p.mu.Lock()
	reqs := append([]*zzSweepReq(nil), p.sweeps...)
	p.mu.Unlock()
	for p.swSeen < len(reqs) {
		req := reqs[p.swSeen]
		p.swSeen++
		if d := c.spent[req.op]; d != nil {
			w.logf("sweeper -> nursery: %v already spent by %v", req.op, d.SpenderTxHash)
			c.ex.r.Count("probe_nursery_sweep_already_spent")
			c.answer(req, d)
			w.settle()
			n.observe()
			return true
		}
		p.swLive = append(p.swLive, req)
		c.trySweep(req)
	}
	return false
}

// nurseSweepResults answers the nursery's pending sweep requests for op,
// which was spent in the block being delivered.
func (c *zzC13Chain) nurseSweepResults(op wire.OutPoint, epoch int) {
	ex := c.ex
	n := ex.nurse
	if n == nil {
		return
	}
	d := c.spent[op]
	for {
		p := n.proc
		if ex.restarts != epoch || p == nil || !p.alive() {
			return
		}
		idx := -1
		for i, req := range p.swLive {
			if req.op == op {
				idx = i
				break
			}
		}
		if idx < 0 {
			return
		}
		req := p.swLive[idx]
		p.swLive = append(p.swLive[:idx:idx], p.swLive[idx+1:]...)
		ex.w.logf("sweeper -> nursery: %v spent by %v", op, d.SpenderTxHash)
		c.answer(req, d)
		ex.w.settle()
		n.observe()
		ex.pump()
	}
}

func (c *zzC13Chain) trySweep(req *zzSweepReq) {
	if !c.exists(req.op) || c.spent[req.op] != nil {
		return
	}
	if c.ex.w.height+1 < zzC13LockHeight(req.inp) {
		return
	}
	c.broadcast(c.sweepTx(req), "sweeper", true, req.op)
}

// ---------------------------------------------------------------------------
// one block

func (c *zzC13Chain) remoteTx(r *zzC13Remote) *wire.MsgTx {
	w := c.ex.w
	h := w.m.byUID(r.uid)
	local := c.confSet() == zzSetL
	ws := zzScript(0x10, r.uid, byte(c.confSet()))
	var mid []byte
	if r.kind == "claim" {
		p := zzPreimageOf(h.hashNo)
		mid = p[:]
	}
	var wit wire.TxWitness
	if local {
		// they spend an output of OUR commitment directly
		wit = wire.TxWitness{zzC13Sig, mid, ws}
	} else {
		// they spend an output of THEIR commitment through their second level
		wit = wire.TxWitness{{}, zzC13Sig, zzC13Sig, mid, ws}
	}
	return c.plainSweep(r.op, wit, "remote "+r.kind+" ")
}

func (c *zzC13Chain) confirm(tx *wire.MsgTx, who string) []wire.OutPoint {
	w := c.ex.w
	txid := tx.TxHash()
	c.confirmed[txid] = w.height
	var ops []wire.OutPoint
	for i, in := range tx.TxIn {
		op := in.PreviousOutPoint
		h := txid
		c.spent[op] = &chainntnfs.SpendDetail{
			SpentOutPoint: &op, SpenderTxHash: &h, SpendingTx: tx,
			SpenderInputIndex: uint32(i), SpendingHeight: int32(w.height),
		}
		ops = append(ops, op)
		if strings.HasPrefix(who, "remote") {
			c.byRemote[op] = true
		}
		w.logf("chain: %v spent by %s tx %v", op, who, txid)
	}
	return ops
}

// block applies the chain script for the current height and delivers the
// notifications. It returns early if the node crashed and was restarted.
func (c *zzC13Chain) block() {
	ex, w := c.ex, c.ex.w
	H := w.height
	epoch := ex.restarts
	newly, nos, breachNow := c.advance(true)
	c.deliver(H, epoch, newly, nos, breachNow)
}

// advance applies the chain script for the current height: what the
// counterparty does, which of the node's broadcast transactions confirm, what
// the rest of the world learns. With nodeUp false the node's process is down
// (downtime arm): nothing that runs inside that process - its sweeper, the
// nursery model - acts, and nothing is delivered; a node that comes back finds
// all of it on the chain.
func (c *zzC13Chain) advance(nodeUp bool) (newly []wire.OutPoint, nos []int, breachNow bool) {
	ex, w := c.ex, c.ex.w
	H := w.height

	// 1. the counterparty
	sort.SliceStable(c.remote, func(i, j int) bool { return c.remote[i].op.String() < c.remote[j].op.String() })
	for _, r := range c.remote {
		if r.done || r.at > H || !c.exists(r.op) {
			continue
		}
		r.done = true
		if c.spent[r.op] != nil {
			continue
		}
		newly = append(newly, c.confirm(c.remoteTx(r), "remote "+r.kind)...)
		if !nodeUp {
			ex.r.Count("probe_downtime_counterparty_acted_while_down")
		}
	}
	// 2. our transactions
	sort.SliceStable(c.mempool, func(i, j int) bool { return c.mempool[i].txid.String() < c.mempool[j].txid.String() })
	var keep []*zzC13MTx
	for _, m := range c.mempool {
		valid, ready := true, m.minedAt <= H
		for _, in := range m.tx.TxIn {
			if c.spent[in.PreviousOutPoint] != nil {
				valid = false
			}
			if !c.exists(in.PreviousOutPoint) {
				ready = false
			}
		}
		switch {
		case !valid:
			w.logf("chain: mempool drops %s tx %v (input spent)", m.who, m.txid)
		case ready:
			newly = append(newly, c.confirm(m.tx, m.who)...)
			if !nodeUp {
				ex.r.Count("probe_downtime_own_tx_confirmed_while_down")
			}
		default:
			keep = append(keep, m)
		}
	}
	c.mempool = keep
	// 3. what becomes broadcastable with this block (the sweeper and the
	// nursery model live inside the node's process)
	if nodeUp {
		c.nurseryTick()
		for _, req := range c.swLive {
			c.trySweep(req)
		}
		if n := ex.nurse; n != nil && n.proc != nil && n.proc.alive() {
			for _, req := range n.proc.swLive {
				c.trySweep(req)
			}
		}
	}

	// 4. the rest of the world at this height (state first, deliveries after:
	// a node that is down during this block finds all of it when it is back)
	for no, at := range c.learnAt {
		if at <= H && w.m.know[no] == zzKnowNone {
			nos = append(nos, no)
		}
	}
	sort.Ints(nos)
	for _, no := range nos {
		w.m.know[no] = zzKnowBeacon
		w.logf("beacon: preimage of hash%d turns up", no)
		if !nodeUp {
			ex.r.Count("probe_downtime_preimage_turned_up_while_down")
		}
	}
	breachNow = c.breachAt != 0 && c.breachAt <= H && !w.breachDone
	if breachNow {
		w.breachDone = true
		w.logf("breach arbitrator: justice served")
	}
	return newly, nos, breachNow
}

// deliver hands the notifications of the block at height H to the node, one
// at a time. It returns early if the node crashed and was restarted.
func (c *zzC13Chain) deliver(H uint32, epoch int, newly []wire.OutPoint, nos []int, breachNow bool) {
	ex, w := c.ex, c.ex.w

	// ---- notifications, one at a time
	//
	// Real-nursery arm: the nursery is a second client of the notifier and of
	// the sweeper. Which client hears of an event first is not defined; the
	// chain script's salt fixes it per scenario (nurseFirst).
	nurse := ex.nurse
	nurseFirst := nurse != nil && c.salt&1 == 1
	if nurse != nil {
		c.gate = H
		defer func() { c.gate = 0 }()
	}
	nurseConfs := func() bool {
		if nurse == nil {
			return false
		}
		c.gate = 0
		for nurse.deliverConf() {
			if ex.pump() || ex.restarts != epoch {
				return true
			}
		}
		return ex.restarts != epoch
	}
	sort.Slice(newly, func(i, j int) bool { return newly[i].String() < newly[j].String() })
	if nurseFirst && nurseConfs() {
		return
	}
	for _, op := range newly {
		if nurseFirst {
			c.nurseSweepResults(op, epoch)
			if ex.restarts != epoch {
				return
			}
		}
		c.notifySpend(op)
		if ex.restarts != epoch {
			return
		}
		if !nurseFirst {
			c.nurseSweepResults(op, epoch)
			if ex.restarts != epoch {
				return
			}
		}
	}
	if !nurseFirst && nurseConfs() {
		return
	}
	for _, no := range nos {
		c.pushPreimage(no)
		if ex.pump() || ex.restarts != epoch {
			return
		}
	}
	if breachNow {
		subs := w.breachSubs
		w.breachSubs = nil
		for _, ch := range subs {
			close(ch)
		}
		w.settle()
		if ex.pump() || ex.restarts != epoch {
			return
		}
	}
	// block epochs
	if nurseFirst && nurse.deliverEpochs(epoch) {
		return
	}
	if c.arbEpochs(epoch) {
		return
	}
	if nurse != nil && !nurseFirst && nurse.deliverEpochs(epoch) {
		return
	}
}

// arbEpochs delivers the block epoch of the current height to the clients of
// the live arbitrator incarnation. Returns true if the node restarted.
func (c *zzC13Chain) arbEpochs(epoch int) bool {
	ex, w := c.ex, c.ex.w
	H := w.height
	inc := w.inc
	if inc == nil || inc.dead || inc.arb == nil {
		return false
	}
	inc.chain.mu.Lock()
	regs := append([]*zzEpochReg(nil), inc.chain.epochs...)
	inc.chain.mu.Unlock()
	for _, reg := range regs {
		inc.chain.mu.Lock()
		dead := reg.dead
		inc.chain.mu.Unlock()
		if dead {
			continue
		}
		select {
		case reg.ch <- &chainntnfs.BlockEpoch{Height: int32(H)}:
		default:
		}
		w.settle()
		if ex.pump() || ex.restarts != epoch {
			return true
		}
	}
	return false
}

// notifySpend delivers the confirmed spend of op to the live incarnation.
func (c *zzC13Chain) notifySpend(op wire.OutPoint) bool {
	ex, w := c.ex, c.ex.w
	epoch := ex.restarts
	d := c.spent[op]
	did := false
	for {
		inc := w.inc
		if inc == nil || inc.dead || inc.arb == nil || ex.restarts != epoch {
			return did
		}
		var hit *zzSpendReg
		inc.chain.mu.Lock()
		for _, reg := range inc.chain.spends {
			if reg.op == op && !reg.sent && !reg.dead {
				hit = reg
				break
			}
		}
		if hit != nil {
			hit.sent = true
		}
		inc.chain.mu.Unlock()
		if hit == nil {
			break
		}
		select {
		case hit.ch <- d:
		default:
		}
		did = true
		w.settle()
		ex.pump()
	}
	// sweeper results
	for {
		if ex.restarts != epoch || w.inc == nil || w.inc.dead {
			return did
		}
		idx := -1
		for i, req := range c.swLive {
			if req.op == op {
				idx = i
				break
			}
		}
		if idx < 0 {
			break
		}
		req := c.swLive[idx]
		c.swLive = append(c.swLive[:idx:idx], c.swLive[idx+1:]...)
		c.answer(req, d)
		did = true
		w.settle()
		ex.pump()
	}
	return did
}

// pushPreimage hands a preimage to the live subscribers of the beacon.
func (c *zzC13Chain) pushPreimage(no int) bool {
	w := c.ex.w
	inc := w.inc
	if inc == nil || inc.dead || inc.bcn == nil {
		return false
	}
	inc.bcn.mu.Lock()
	subs := append([]*zzBeaconSub(nil), inc.bcn.subs...)
	inc.bcn.mu.Unlock()
	did := false
	for _, s := range subs {
		inc.bcn.mu.Lock()
		dead := s.dead
		inc.bcn.mu.Unlock()
		if dead || w.inc != inc || inc.dead {
			continue
		}
		select {
		case s.ch <- zzPreimageOf(no):
		default:
		}
		did = true
		w.settle()
		if w.kv.Fenced() {
			break
		}
	}
	return did
}
