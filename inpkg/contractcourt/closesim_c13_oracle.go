package contractcourt

// closesim C13, part 3: what is observed of one execution and how an
// execution that crashed and restarted is compared with the uninterrupted
// reference. Every check cites the sentence of the property it decides.
//
// Relaxations (all narrow, all from the property text):
//   R1  identical duplicates of an upstream resolution, of a publish or of a
//       sweep request are allowed ("re-executing a stage" is allowed, the
//       switch and the sweeper de-duplicate) — counted as probes;
//   R2  the number of blocks needed is not compared (the property promises
//       the outcome, not the timing): a restarted execution gets up to six
//       more blocks than the reference used;
//   R5  a publish or sweep request that the uninterrupted run never made is
//       counted, not judged (the statement speaks of stages skipped, contracts,
//       upstream resolutions and the resolved mark); a MISSING one is judged;
//   R6  an uninterrupted run that already issues contradictory upstream
//       resolutions (C12's dust fail-back finding) is not judged here; a
//       contradiction that only the restarted execution shows is;
//   R4  the report of the anchor resolver is not compared: that resolver is
//       not a contract of the log (no resolver key, never persisted,
//       re-created at every start); whether it sees its sweep before the
//       channel is fully resolved and the arbitrator stopped is a race in the
//       uninterrupted run already;
//   R3  handing an offered HTLC of a pre-anchor channel to the utxo nursery
//       again after a restart is not judged: that hand-off carries no stage
//       information (htlcTimeoutResolver.resolveSecondLevelTxLegacy repeats
//       it unconditionally by design and the nursery keys by outpoint).
//
// What the real utxo nursery (arm "legacy+nursery") adds to both judgements is
// in closesim_c13_nursery.go (judgeSelf / judgeAgainstReference there), with
// one relaxation of its own:
//   R7  a store entry left behind for an output that HAS been swept (R3's
//       repeated hand-off re-inserts an output that had already graduated) is
//       counted, not judged; an output left UNSWEPT is judged.

import (
	"fmt"
	"sort"
	"strings"

	"github.com/btcsuite/btcd/chainhash/v2"
	"github.com/btcsuite/btcd/wire/v2"
	"github.com/lightningnetwork/lnd/channeldb"
)

type zzC13Outcome struct {
	closeKind string
	terminal  string // arbitrator state on disk, or "fully-closed"
	fully     bool
	closedRec string
	left      []string // resolver keys still in the log at the end
	keys      []string // resolver keys ever seen in the log
	reports   map[string]string
	msgs      map[uint64]map[string]int // offered htlc index -> fail/settle -> count
	finals    map[string]bool
	published map[string]int
	sweeps    map[string]int
	incubated map[string]int
	writes    []int // write transactions per epoch
	labels    []map[int]string
	attempts  int
	earlyMark string
	nurse     *zzNurseOutcome // real-nursery arm only
}

func (o *zzC13Outcome) label(epochIdx, k int) string {
	if epochIdx < len(o.labels) {
		if l, ok := o.labels[epochIdx][k]; ok {
			return l
		}
	}
	return "?"
}

func (o *zzC13Outcome) summary() string {
	return fmt.Sprintf("close=%s terminal=%s fully=%v writes=%v reports=%d keys=%d left=%d msgs=%d published=%d sweeps=%d",
		o.closeKind, o.terminal, o.fully, o.writes, len(o.reports), len(o.keys), len(o.left), len(o.msgs), len(o.published), len(o.sweeps))
}

// finish collects the outcome and, for a crash execution, judges it.
func (ex *zzC13Exec) finish() {
	w, r := ex.w, ex.r
	if w.kv.Fenced() {
		ex.pump()
	}
	w.flushEffects()
	o := &zzC13Outcome{
		closeKind: w.closeDelivered,
		reports:   w.dbAll(zzReportBucket),
		msgs:      map[uint64]map[string]int{},
		finals:    map[string]bool{},
		published: map[string]int{},
		sweeps:    map[string]int{},
		incubated: map[string]int{},
		labels:    ex.labels,
		attempts:  ex.markAttempts,
		earlyMark: ex.earlyMark,
	}
	ex.out = o
	o.writes = append(append([]int(nil), ex.writesIn...), w.kv.Writes())
	closed, ct, ch, fully := w.closedInfo()
	o.fully = fully
	if closed {
		o.closedRec = fmt.Sprintf("type=%d height=%d", ct, ch)
	}
	ex.snapshotKeys()
	o.left = ex.contractKeys()
	for k := range ex.keysSeen {
		o.keys = append(o.keys, k)
	}
	sort.Strings(o.keys)
	if fully {
		o.terminal = "fully-closed"
	} else if w.inc != nil && w.inc.log != nil {
		ex.inLabel = true
		s, err := w.inc.log.CurrentState(nil)
		ex.inLabel = false
		if err != nil {
			r.Harness("read final state: %v", err)
		}
		o.terminal = s.String()
	}
	for k, v := range w.finals {
		o.finals[k] = v
	}
	for _, e := range w.effects {
		switch e.kind {
		case "msg-fail", "msg-settle":
			// ORACLE (well-formedness of what goes upstream)
			if e.what != "" {
				r.Fail("wrong-resolution-msg", "%s: resolution message for htlc %d: %s", ex.where(), e.idx, e.what)
			}
			if o.msgs[e.idx] == nil {
				o.msgs[e.idx] = map[string]int{}
			}
			o.msgs[e.idx][e.kind[len("msg-"):]]++
		case "msg-both", "msg-empty":
			r.Fail("wrong-resolution-msg", "%s: %s delivered for htlc %d", ex.where(), e.kind, e.idx)
		case "publish":
			o.published[e.what]++
		case "sweep":
			o.sweeps[e.what]++
		case "incubate":
			o.incubated[e.what]++
		}
	}
	if ex.nurse != nil {
		o.nurse = ex.nurse.outcome()
	}
	if ex.ref == nil {
		r.Logf("  outcome: %s", o.summary())
		if o.nurse != nil {
			var ops []string
			for op, h := range o.nurse.hist {
				ops = append(ops, op+" "+h)
			}
			sort.Strings(ops)
			r.Logf("  nursery outcome: outputs=%v publishes=%d sweeps=%d report=%s", ops, len(o.nurse.publishes), len(o.nurse.sweeps), o.nurse.report)
		}
	}
	r.Add("write_txs", int64(w.kv.Writes()))
	if w.inc != nil && w.inc.sched.ties > 0 {
		r.Add("sched_ties", int64(w.inc.sched.ties))
	}
	if ex.skippedOps > 0 {
		r.Add("replay_ops_not_applicable", int64(ex.skippedOps))
	}

	ex.judgeSelf()
	if ex.ref != nil && len(ex.fired) > 0 {
		if ex.downBlocks > 0 {
			ex.judgeAfterDowntime()
		} else {
			ex.judgeAgainstReference()
		}
	}
}

// sig is the structural signature of a finding: the durable arbitrator state
// the node found at its restart(s). (Which write the crash was placed at is
// in the message; several adjacent crash points lead to the same state on
// disk and to the same behaviour after the restart.)
func (ex *zzC13Exec) sig() string {
	if len(ex.diskStates) == 0 {
		return "uninterrupted"
	}
	seen := map[string]bool{}
	var parts []string
	for _, s := range ex.diskStates {
		if !seen[s] {
			seen[s] = true
			parts = append(parts, s)
		}
	}
	// A state whose restart handling is itself a recorded, open finding
	// (C13-F3): whatever else happened in this execution, the node was
	// restarted in that state. (A restart in StateContractClosed used to be
	// listed here for C13-F2; that defect is repaired - 7215c77 - and such
	// executions are judged like any other again.)
	for _, root := range []string{
		StateDefault.String() + "(commit-set-logged,channel-open)",
	} {
		if seen[root] {
			return "restart-in-" + root
		}
	}
	sort.Strings(parts)
	return "restart-in-" + strings.Join(parts, "+")
}

// judgeSelf: conditions every execution must satisfy on its own.
func (ex *zzC13Exec) judgeSelf() {
	r, o := ex.r, ex.out
	// "each upstream HTLC is settled or failed back the same way ... never
	// issues contradictory upstream resolutions"
	for idx, m := range o.msgs {
		if m["fail"] > 0 && m["settle"] > 0 {
			// An uninterrupted run that contradicts itself (dust failed
			// back while in StateDefault, then claimed on the commitment
			// that actually confirmed) is C12's finding, not a restart
			// effect: judged here only if the restart introduced it.
			if ex.ref == nil {
				r.Count("probe_ref_contradictory_upstream_c12")
			} else if ex.downBlocks > 0 && (!ex.contradictionAfterClose(idx) || ex.dustOnOurs(idx)) {
				// Downtime arm: a fail-back issued BEFORE any commitment
				// confirmed (dust on our own commitment, failed back when
				// we broadcast) followed by a settle because the outage
				// let the counterparty's claim on ITS commitment win is
				// the same C12 finding, brought out by the outage instead
				// of by the script; so is the fail-back of an HTLC that is
				// dust on our commitment by a node that comes back past
				// the HTLC's expiry with nothing of the close on disk yet
				// (it broadcasts on its own, in StateDefault, before the
				// chain watcher tells it again). Judged is a contradiction
				// among the resolutions issued after the close for an HTLC
				// that is not dust on our own commitment.
				r.Count("probe_downtime_contradiction_with_pre_close_fail_back_c12")
			} else if rm := ex.ref.msgs[idx]; !(rm["fail"] > 0 && rm["settle"] > 0) {
				r.FailOrKnown("upstream-contradiction", ex.sig(), "%s: offered HTLC %d was both failed back (%d) and settled (%d) upstream; "+
					"the uninterrupted run: %s", ex.where(), idx, m["fail"], m["settle"], zzC13MsgKind(rm))
			}
		}
		if m["fail"]+m["settle"] > 1 {
			r.Count("probe_duplicate_upstream_resolution")
		}
	}
	for k := range o.finals {
		var id uint64
		var s bool
		fmt.Sscanf(k, "%d/%t", &id, &s)
		if s && o.finals[fmt.Sprintf("%d/%v", id, false)] {
			r.Fail("final-outcome-contradiction", "%s: received HTLC %d recorded both as settled and as failed on chain", ex.where(), id)
		}
	}
	// "the channel is marked fully resolved only after all contracts are resolved"
	if o.earlyMark != "" {
		r.Fail("marked-resolved-early", "%s: the arbitrator reported the channel fully resolved while %s", ex.where(), o.earlyMark)
	}
	if o.fully && len(o.left) > 0 {
		r.Fail("marked-resolved-early", "%s: channel marked fully closed but contracts %v are still in the log", ex.where(), o.left)
	}
	if ex.nurse != nil {
		ex.nurse.judgeSelf(o.nurse)
	}
}

func zzC13SetDiff(a, b map[string]int) (onlyA []string) {
	for k := range a {
		if _, ok := b[k]; !ok {
			onlyA = append(onlyA, k)
		}
	}
	sort.Strings(onlyA)
	return
}

// judgeAgainstReference: the statement's "reaches the same terminal outcome
// as an uninterrupted run".
func (ex *zzC13Exec) judgeAgainstReference() {
	r, o, ref := ex.r, ex.out, ex.ref
	where, sig := ex.where(), ex.sig()

	if ex.slackUsed > 0 {
		r.Count("probe_restart_needed_more_blocks")
	}
	if o.closeKind != ref.closeKind {
		// the close trigger of the script could not be applied (e.g. our
		// commitment was never re-broadcast): the scenario itself diverged
		r.FailOrKnown("scenario-diverged", sig, "%s: the reference reached the close trigger %q, this execution %q",
			where, ref.closeKind, o.closeKind)
		return
	}

	// --- same terminal state; marked fully resolved if the reference was
	if ref.fully && !o.fully {
		// structural signature: are the contracts that remain exactly the
		// ones whose durable record said "resolved" when the node restarted?
		nsig := sig
		if len(o.left) > 0 {
			all := true
			for _, k := range o.left {
				if _, ok := ex.resolvedAtRestart[k]; !ok {
					all = false
				}
			}
			if all {
				nsig = "resolver-persisted-as-resolved-but-not-removed"
			}
		}
		r.FailOrKnown("never-marked-resolved", nsig,
			"%s: the uninterrupted run ends with the channel marked fully resolved; after the restart the channel stays in state %s "+
				"with unresolved contracts %v (reports so far %d of %d)", where, o.terminal, o.left, len(o.reports), len(ref.reports))
	} else if o.terminal != ref.terminal {
		r.FailOrKnown("terminal-state-differs", sig, "%s: terminal arbitrator state %s, uninterrupted run %s (unresolved %v vs %v)",
			where, o.terminal, ref.terminal, o.left, ref.left)
	}
	if o.closedRec != ref.closedRec {
		r.FailOrKnown("close-summary-differs", sig, "%s: channel close record %q, uninterrupted run %q", where, o.closedRec, ref.closedRec)
	}

	// --- "the same contracts are resolved": no resolver lost, none invented
	refKeys, keys := map[string]int{}, map[string]int{}
	for _, k := range ref.keys {
		refKeys[k] = 1
	}
	for _, k := range o.keys {
		keys[k] = 1
	}
	if lost := zzC13SetDiff(refKeys, keys); len(lost) > 0 {
		r.FailOrKnown("resolver-lost", sig, "%s: contract resolver(s) %v of the uninterrupted run never appear in the log", where, lost)
	}
	if extra := zzC13SetDiff(keys, refKeys); len(extra) > 0 {
		r.FailOrKnown("resolver-invented", sig, "%s: contract resolver(s) %v do not exist in the uninterrupted run", where, extra)
	}
	// reports: same (outpoint, type, outcome) -> spend txid
	var diffs []string
	anchorTag := fmt.Sprintf("|type=%d|", channeldb.ResolverTypeAnchor)
	for k, v := range ref.reports {
		if strings.Contains(k, anchorTag) {
			continue // R4
		}
		if ov, ok := o.reports[k]; !ok {
			diffs = append(diffs, "missing "+k)
		} else if ov != v {
			diffs = append(diffs, fmt.Sprintf("%s spent by %s instead of %s", k, ov, v))
		}
	}
	for k := range o.reports {
		if strings.Contains(k, anchorTag) {
			if _, ok := ref.reports[k]; !ok {
				r.Count("probe_anchor_report_only_after_restart")
			}
			continue // R4
		}
		if _, ok := ref.reports[k]; !ok {
			diffs = append(diffs, "extra "+k)
		}
	}
	sort.Strings(diffs)
	if len(diffs) > 0 && !(ref.fully && !o.fully) {
		r.FailOrKnown("reports-differ", sig, "%s: resolver reports differ from the uninterrupted run: %v", where, diffs)
	}

	// --- "each upstream HTLC is settled or failed back the same way"
	var idxs []uint64
	seen := map[uint64]bool{}
	for i := range ref.msgs {
		if !seen[i] {
			seen[i] = true
			idxs = append(idxs, i)
		}
	}
	for i := range o.msgs {
		if !seen[i] {
			seen[i] = true
			idxs = append(idxs, i)
		}
	}
	sort.Slice(idxs, func(a, b int) bool { return idxs[a] < idxs[b] })
	for _, i := range idxs {
		want, got := zzC13MsgKind(ref.msgs[i]), zzC13MsgKind(o.msgs[i])
		switch {
		case want == got:
		case got == "":
			r.FailOrKnown("upstream-resolution-lost", sig, "%s: offered HTLC %d is %s upstream in the uninterrupted run but never resolved upstream here",
				where, i, want)
		case want == "":
			r.FailOrKnown("upstream-resolution-extra", sig, "%s: offered HTLC %d is %s upstream here but never in the uninterrupted run", where, i, got)
		default:
			r.FailOrKnown("upstream-resolution-differs", sig, "%s: offered HTLC %d is %s upstream here but %s in the uninterrupted run", where, i, got, want)
		}
	}
	// final outcomes of received HTLCs
	var fd []string
	for k := range ref.finals {
		if !o.finals[k] {
			fd = append(fd, "missing "+k)
		}
	}
	for k := range o.finals {
		if !ref.finals[k] {
			fd = append(fd, "extra "+k)
		}
	}
	sort.Strings(fd)
	if len(fd) > 0 && !(ref.fully && !o.fully) {
		r.FailOrKnown("final-outcome-differs", sig, "%s: final on-chain outcomes of received HTLCs (id/settled) differ: %v", where, fd)
	}

	// --- set of published transactions / sweep requests (duplicates allowed, R1)
	if d := zzC13SetDiff(ref.published, o.published); len(d) > 0 && !(ref.fully && !o.fully) {
		r.FailOrKnown("publish-missing", sig, "%s: transaction(s) %v published by the uninterrupted run were never published", where, d)
	}
	if d := zzC13SetDiff(o.published, ref.published); len(d) > 0 {
		// not judged: the statement speaks of stages skipped, contracts,
		// upstream resolutions and the resolved mark — an additional
		// (re-)broadcast is none of them
		r.Count("probe_publish_not_in_reference")
		ex.w.logf("note: published here but never by the uninterrupted run: %v", d)
	}
	if d := zzC13SetDiff(ref.sweeps, o.sweeps); len(d) > 0 && !(ref.fully && !o.fully) {
		r.FailOrKnown("sweep-missing", sig, "%s: input(s) %v offered to the sweeper by the uninterrupted run were never offered", where, d)
	}
	if d := zzC13SetDiff(o.sweeps, ref.sweeps); len(d) > 0 {
		r.Count("probe_sweep_not_in_reference")
		ex.w.logf("note: offered to the sweeper here but never by the uninterrupted run: %v", d)
	}
	for k, n := range o.published {
		if n > ref.published[k] && ref.published[k] > 0 {
			r.Count("probe_republish_after_restart")
			break
		}
	}
	for k, n := range o.sweeps {
		if n > ref.sweeps[k] && ref.sweeps[k] > 0 {
			r.Count("probe_resweep_after_restart")
			break
		}
	}

	ex.judgeStages()
	if ex.nurse != nil && ref.nurse != nil && o.fully == ref.fully {
		ex.nurse.judgeAgainstReference(o.nurse, ref.nurse)
	}
}

// judgeAfterDowntime: an execution in which the chain moved on while the node
// was down. What the counterparty did meanwhile, what confirmed and which
// preimages turned up keep their heights, so WHO ends up with an output - and
// with it the resolver reports, the direction of an upstream resolution, the
// transactions published - may legitimately differ from the uninterrupted
// run. Judged is what C13 promises whatever the chain did: the node comes
// back, "resumes from the recorded stage", "never loses a resolver" and still
// "reaches the terminal outcome": every contract of the uninterrupted run is
// a contract here, every offered HTLC that was resolved upstream there is
// resolved upstream here (either way, never both: judgeSelf) unless its
// preimage is known by the end (lnd does not fail back a dangling or dust HTLC
// whose preimage it holds: checkRemoteDanglingActions / checkLocalDanglingActions;
// a preimage that turned up during the outage changes that decision), no nursery
// output is left unswept, and the channel is marked fully resolved - within
// the reference's number of blocks plus twice the outage plus six.
func (ex *zzC13Exec) judgeAfterDowntime() {
	r, o, ref := ex.r, ex.out, ex.ref
	where, sig := ex.where(), ex.sig()
	if o.closeKind != ref.closeKind {
		r.Count("probe_downtime_scenario_diverged")
		return
	}
	if ref.fully && !o.fully && ex.lostRaceOnly(o.left) {
		r.Count("probe_downtime_resolver_stuck_after_counterparty_won_output")
	} else if ref.fully && !o.fully {
		nsig := sig
		if len(o.left) > 0 {
			all := true
			for _, k := range o.left {
				if _, ok := ex.resolvedAtRestart[k]; !ok {
					all = false
				}
			}
			if all {
				nsig = "resolver-persisted-as-resolved-but-not-removed"
			}
		}
		r.FailOrKnown("never-marked-resolved", nsig,
			"%s: the uninterrupted run ends with the channel marked fully resolved; after the restart the channel stays in state %s "+
				"with unresolved contracts %v for %d blocks beyond the reference's last block", where, o.terminal, o.left, ex.slackUsed+ex.downBlocks)
	}
	refKeys, keys := map[string]int{}, map[string]int{}
	for _, k := range ref.keys {
		refKeys[k] = 1
	}
	for _, k := range o.keys {
		keys[k] = 1
	}
	if lost := zzC13SetDiff(refKeys, keys); len(lost) > 0 {
		r.FailOrKnown("resolver-lost", sig, "%s: contract resolver(s) %v of the uninterrupted run never appear in the log", where, lost)
	}
	differs := false
	for i, rm := range ref.msgs {
		want, got := zzC13MsgKind(rm), zzC13MsgKind(o.msgs[i])
		if want != "" && got == "" && o.fully && !ex.preimageKnown(i) && ex.dustOnConfirmed(i) {
			// no output, no resolver: failing it back is a decision of the
			// state machine at a height (HtlcFailDustAction: C12 and its
			// recorded finding - never executed once the node has
			// broadcast on its own, which a node that comes back late does)
			r.Count("probe_downtime_dust_fail_back_not_repeated_c12")
		} else if want != "" && got == "" && o.fully && !ex.preimageKnown(i) {
			r.FailOrKnown("upstream-resolution-lost", sig, "%s: offered HTLC %d is %s upstream in the uninterrupted run, here the channel is fully resolved and the HTLC was never resolved upstream",
				where, i, want)
		}
		if want != got {
			differs = true
		}
	}
	for k, v := range ref.reports {
		if o.reports[k] != v {
			differs = true
		}
	}
	if differs {
		// reach: the outage did change who got what
		r.Count("probe_downtime_outcome_differs_from_reference")
	}
	if ex.slackUsed > 6 {
		r.Count("probe_downtime_needed_more_than_six_blocks")
	}
	ex.judgeStages()
	if ex.nurse != nil && o.nurse != nil && ref.nurse != nil {
		ex.nurse.judgeAfterDowntime(o.nurse, ref.nurse, where, sig)
	}
}

// contradictionAfterClose: was offered HTLC idx both failed and settled
// upstream by resolutions issued after the close event was first delivered?
func (ex *zzC13Exec) contradictionAfterClose(idx uint64) bool {
	fail, settle := false, false
	for _, e := range ex.w.effects {
		if e.idx != idx || ex.closeStim == 0 || e.stim < ex.closeStim {
			continue
		}
		switch e.kind {
		case "msg-fail":
			fail = true
		case "msg-settle":
			settle = true
		}
	}
	return fail && settle
}

// lostRaceOnly: every contract left in the log is an HTLC output that the
// counterparty took. A resolver that waits for its own second-level claim
// after the counterparty's transaction won the output (legacy success path:
// resolveLegacySuccessTx hands the output to the nursery and waits for a
// second-level output that will never exist) is stuck in an uninterrupted run
// with the same chain events too; the outage only changed who won the race.
func (ex *zzC13Exec) lostRaceOnly(left []string) bool {
	if len(left) == 0 {
		return false
	}
	for _, k := range left {
		hit := false
		for op := range ex.chain.byRemote {
			if op.String() == k {
				hit = true
			}
		}
		if !hit {
			return false
		}
	}
	return true
}

func (ex *zzC13Exec) offered(idx uint64) *zzHtlc {
	for _, h := range ex.w.m.htlcs {
		if !h.incoming && h.id == idx {
			return h
		}
	}
	return nil
}

// dustOnOurs: offered HTLC idx has no output on our own commitment while
// another commitment confirmed.
func (ex *zzC13Exec) dustOnOurs(idx uint64) bool {
	h := ex.offered(idx)
	return h != nil && h.dust[zzSetL] && ex.w.closeDelivered != "local"
}

// dustOnConfirmed: offered HTLC idx has no output on the commitment that
// confirmed and lnd's action for it is HtlcFailDustAction: dust on the
// confirmed commitment, or absent from it and dust on a commitment that holds it.
func (ex *zzC13Exec) dustOnConfirmed(idx uint64) bool {
	h := ex.offered(idx)
	set := ex.chain.confSet()
	if h == nil || set < 0 {
		return false
	}
	if h.in[set] {
		return h.dust[set]
	}
	// Not on the confirmed commitment at all: lnd classifies it by the
	// commitment it found it on - HtlcFailDustAction if it is dust there
	// (same recorded C12 finding), HtlcFailDanglingAction otherwise (executed
	// in StateContractClosed, judged).
	for s := 0; s < 3; s++ {
		if h.in[s] && h.dust[s] {
			return true
		}
	}
	return false
}

// preimageKnown: does the node hold the preimage of offered HTLC idx at the
// end of the execution?
func (ex *zzC13Exec) preimageKnown(idx uint64) bool {
	m := ex.w.m
	for _, h := range m.htlcs {
		if !h.incoming && h.id == idx {
			return m.known(h.hashNo)
		}
	}
	return false
}

func zzC13MsgKind(m map[string]int) string {
	switch {
	case m == nil:
		return ""
	case m["fail"] > 0 && m["settle"] > 0:
		return "failed+settled"
	case m["fail"] > 0:
		return "failed"
	case m["settle"] > 0:
		return "settled"
	}
	return ""
}

// judgeStages: "after restart it resumes from the recorded stage ... never
// loses a resolver or its checkpointed progress". Observed through what the
// node offers for an HTLC of OUR commitment that is claimed in two stages:
// once the node was seen — at a quiescent point, i.e. with every write of
// that stimulus done — working on stage two (it offered the output of the
// confirmed second-level transaction to the sweeper, or, pre-anchor success
// path, had handed the HTLC to the nursery), a crash in a LATER stimulus must
// not send it back to stage one (offering the HTLC output itself again /
// handing it to the nursery again).
func (ex *zzC13Exec) judgeStages() {
	w, r := ex.w, ex.r
	if w.closeDelivered != "local" || w.commits[zzSetL] == nil || len(ex.crashStims) == 0 {
		return
	}
	htlcOps := w.commits[zzSetL].secondL
	type st struct {
		stage2Stim int // stimulus in which stage two work was first seen
	}
	stage := map[wire.OutPoint]*st{}
	opOf := func(what string) (wire.OutPoint, bool) {
		f := strings.Fields(what)
		for _, s := range f {
			if i := strings.LastIndexByte(s, ':'); i == 64 {
				var op wire.OutPoint
				if h, err := chainhash.NewHashFromStr(s[:64]); err == nil {
					op.Hash = *h
					fmt.Sscanf(s[65:], "%d", &op.Index)
					return op, true
				}
			}
		}
		return wire.OutPoint{}, false
	}
	for _, e := range w.effects {
		if e.kind != "sweep" && e.kind != "incubate" {
			continue
		}
		op, ok := opOf(e.what)
		if !ok {
			continue
		}
		// which HTLC of our commitment is this about?
		var htlcOp wire.OutPoint
		first := false
		if _, is := htlcOps[op]; is {
			htlcOp, first = op, true
		} else {
			for hop := range htlcOps {
				if d := ex.chain.spent[hop]; d != nil && *d.SpenderTxHash == op.Hash && ex.chain.known[op.Hash] {
					htlcOp = hop
				}
			}
			if htlcOp == (wire.OutPoint{}) {
				continue
			}
		}
		s := stage[htlcOp]
		if s == nil {
			s = &st{}
			stage[htlcOp] = s
		}
		quiescent := true // did the stimulus of this effect end without a crash?
		for _, cs := range ex.crashStims {
			if cs == e.stim {
				quiescent = false
			}
		}
		if e.kind == "incubate" {
			if strings.HasPrefix(e.what, "out ") {
				continue // R3
			}
			// pre-anchor success path: the hand-off is the checkpointed step
			if s.stage2Stim == 0 {
				if quiescent {
					s.stage2Stim = e.stim
				}
				continue
			}
			if ex.crashAfterStim(s.stage2Stim, e.stim) {
				r.FailOrKnown("stage-one-repeated", ex.sig(), "%s: received HTLC output %v had been handed to the nursery (checkpointed) in stimulus %d, "+
					"yet after the restart it was handed over again in stimulus %d", ex.where(), htlcOp, s.stage2Stim, e.stim)
			}
			continue
		}
		if !first {
			if s.stage2Stim == 0 && quiescent {
				s.stage2Stim = e.stim
				r.Count("probe_two_stage_htlc_reached_stage_two")
			}
			continue
		}
		// a stage-one offer
		if s.stage2Stim != 0 && ex.crashAfterStim(s.stage2Stim, e.stim) {
			r.FailOrKnown("stage-one-repeated", ex.sig(), "%s: HTLC output %v was in stage two (second-level output offered to the sweeper in stimulus %d), "+
				"yet after the restart the first-stage input was offered again (%s, stimulus %d)", ex.where(), htlcOp, s.stage2Stim, e.what, e.stim)
		}
	}
}

// crashAfterStim reports whether a crash was noticed in a stimulus strictly
// after `from` and not after `to`.
func (ex *zzC13Exec) crashAfterStim(from, to int) bool {
	for _, cs := range ex.crashStims {
		if cs > from && cs <= to {
			return true
		}
	}
	return false
}
