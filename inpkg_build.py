#!/usr/bin/env python3
"""inpkg_build.py <lnd package dir relative to repo> <out binary> [file ...]

Compiles simulator files from /verif/inpkg/<pkg>/ INTO the lnd package as
extra _test.go files, using `go test -c -overlay -modfile`. Nothing is written
to /repo. The resulting test binary is the worker for that engine.
"""
import json, os, subprocess, sys, glob

VERIF = os.path.dirname(os.path.abspath(__file__))
REPO = os.environ.get("VERIF_REPO", "/repo")


def main():
    pkg, out = sys.argv[1], os.path.abspath(sys.argv[2])
    files = sys.argv[3:] or sorted(glob.glob(os.path.join(VERIF, "inpkg", pkg, "*.go")))
    files = [f if os.path.isabs(f) else os.path.join(VERIF, "inpkg", pkg, f) for f in files]
    bdir = os.path.join(os.environ.get("VERIF_BIN", os.path.join(VERIF, "build")), "inpkg-" + pkg.replace("/", "_"))
    os.makedirs(bdir, exist_ok=True)
    mod = open(os.path.join(REPO, "go.mod")).read()
    mod += "\nrequire verif v0.0.0\n\nreplace verif => %s\n" % os.environ.get("VERIF_SIM", os.path.join(VERIF, "sim"))
    # porcupine is required by the verif module; make it resolvable here too
    if "anishathalye/porcupine" not in mod:
        mod += "\nrequire github.com/anishathalye/porcupine v1.3.0\n"
    modpath = os.path.join(bdir, "go.mod")
    if not os.path.exists(modpath) or open(modpath).read() != mod:
        open(modpath, "w").write(mod)
    sums = open(os.path.join(REPO, "go.sum")).read()
    extra = os.path.join(os.environ.get("VERIF_SIM", os.path.join(VERIF, "sim")), "go.sum")
    if os.path.exists(extra):
        sums += open(extra).read()
    sums = "".join(sorted(set(l + "\n" for l in sums.splitlines() if l.strip())))
    sumpath = os.path.join(bdir, "go.sum")
    if not os.path.exists(sumpath) or open(sumpath).read() != sums:
        open(sumpath, "w").write(sums)
    overlay = {"Replace": {}}
    for f in files:
        base = os.path.basename(f)
        if base.endswith(".go"):
            base = base[:-3]
        overlay["Replace"][os.path.join(REPO, pkg, "zz_verif_%s_test.go" % base)] = f
    ovpath = os.path.join(bdir, "overlay.json")
    json.dump(overlay, open(ovpath, "w"), indent=1)
    env = dict(os.environ)
    env["GOFLAGS"] = "-mod=mod"
    env["GOPROXY"] = "off"
    env.pop("GOSUMDB", None)
    cmd = ["go", "test", "-c", "-vet=off", "-modfile=" + modpath, "-overlay=" + ovpath, "-o", out, "./" + pkg]
    r = subprocess.run(cmd, cwd=REPO, env=env)
    sys.exit(r.returncode)


if __name__ == "__main__":
    main()
