package circuitsim

import (
	"crypto/sha256"
	"errors"
	"fmt"
	"os"
	"sort"
	"strings"

	"github.com/btcsuite/btcd/btcec/v2"
	"github.com/lightningnetwork/lnd/channeldb"
	"github.com/lightningnetwork/lnd/htlcswitch"
	"github.com/lightningnetwork/lnd/htlcswitch/hop"
	"github.com/lightningnetwork/lnd/lnwire"

	"verif/simcore"
)

// World is the system under test: the real circuit map on a SimKV database
// that also holds the node's real channel-state records (as in lnd, where the
// switch and the channel state share channel.db).
type World struct {
	R   *simcore.Run
	KV  *simcore.SimKV
	DB  *channeldb.DB
	CM  htlcswitch.CircuitMap
	NCh int
	NIn int

	Chans [MaxCh + 1]*chanRec
	Env   Env
	// pendingTip[ch]: a signed-but-unrevoked remote commitment exists.
	pendingTip [MaxCh + 1]bool

	objs    map[*htlcswitch.PaymentCircuit]uint16
	nextObj uint16
	Epoch   int

	// cur is non-nil while a simulated concurrent client runs; the SimKV
	// transaction hook parks that client.
	onTx func(write bool)
	// lockYields counts scheduling points reached before a mutex acquisition
	lockYields int
}

var hashes [NHash][32]byte

func init() {
	for i := range hashes {
		hashes[i] = sha256.Sum256([]byte(fmt.Sprintf("circuitsim-hash-%d", i)))
	}
}

func (w *World) scid(ch int) lnwire.ShortChannelID {
	if ch == 0 {
		return hop.Source
	}
	return scidOf(ch)
}

func (w *World) inKey(ik int) htlcswitch.CircuitKey {
	return htlcswitch.CircuitKey{ChanID: w.scid(ikCh(ik)), HtlcID: uint64(ikID(ik))}
}

func (w *World) outKey(ok int) htlcswitch.CircuitKey {
	return htlcswitch.CircuitKey{ChanID: scidOf(okCh(ok)), HtlcID: uint64(okID(ok))}
}

func (w *World) chOfScid(s lnwire.ShortChannelID) int {
	if s == hop.Source {
		return 0
	}
	for ch := 1; ch <= MaxCh; ch++ {
		if scidOf(ch) == s {
			return ch
		}
	}
	return -1
}

// ikOfKey maps a circuit key back to the universe (-2: not in the universe).
func (w *World) ikOfKey(k htlcswitch.CircuitKey) int {
	ch := w.chOfScid(k.ChanID)
	if ch < 0 || k.HtlcID >= NInMax {
		return -2
	}
	return ikOf(ch, int(k.HtlcID))
}

func (w *World) okOfKey(k htlcswitch.CircuitKey) int {
	ch := w.chOfScid(k.ChanID)
	if ch < 1 || k.HtlcID >= MaxOut {
		return -2
	}
	return okOf(ch, int(k.HtlcID))
}

// NewWorld creates the database, nCh open channels and a first circuit map.
func NewWorld(r *simcore.Run, nCh, nIn int) *World {
	w := &World{R: r, NCh: nCh, NIn: nIn, objs: map[*htlcswitch.PaymentCircuit]uint16{}}
	kv, err := simcore.OpenSimKV(r.SubDir("node"), "channel.db")
	r.Must(err, "open simkv")
	w.KV = kv
	r.Cleanup(func() { w.KV.Close() })
	kv.OnTx = func(write bool) {
		if w.onTx != nil {
			w.onTx(write)
		}
	}
	// Second kind of scheduling point: before every mutex acquisition in
	// circuit_map.go (the check compiles an instrumented copy of that file,
	// see lock_yield_overlay in /verif/check). A goroutine about to take
	// cm.mtx holds nothing, so parking it there cannot block the others.
	htlcswitch.ZzLockYield = func() {
		if w.onTx != nil {
			w.lockYields++
			w.onTx(false)
		}
	}
	r.Cleanup(func() { htlcswitch.ZzLockYield = nil })
	db, err := channeldb.CreateWithBackend(kv)
	r.Must(err, "channeldb create")
	w.DB = db
	w.Env.NCh = nCh
	for ch := 1; ch <= nCh; ch++ {
		w.Chans[ch] = createChannel(r, db, ch)
		w.Env.Status[ch] = ChOpen
	}
	w.CM, err = w.newCircuitMap(w.KV)
	r.Must(err, "NewCircuitMap on an empty database")
	return w
}

func (w *World) cmConfig(kv *simcore.SimKV, withChannels bool) *htlcswitch.CircuitMapConfig {
	cfg := &htlcswitch.CircuitMapConfig{
		DB: kv,
		ExtractErrorEncrypter: func(*btcec.PublicKey) (hop.ErrorEncrypter, lnwire.FailCode) {
			return htlcswitch.NewMockObfuscator(), lnwire.CodeNone
		},
	}
	if withChannels {
		cfg.FetchAllOpenChannels = w.DB.ChannelStateDB().FetchAllOpenChannels
		cfg.FetchClosedChannels = w.DB.ChannelStateDB().FetchClosedChannels
		cfg.CheckResolutionMsg = func(k *htlcswitch.CircuitKey) error {
			ok := w.okOfKey(*k)
			if ok >= 0 && w.Env.ResMsg[ok] {
				return nil
			}
			return errors.New("resolution message not found")
		}
	} else {
		cfg.FetchAllOpenChannels = func() ([]*channeldb.OpenChannel, error) { return nil, nil }
		cfg.FetchClosedChannels = func(bool) ([]*channeldb.ChannelCloseSummary, error) { return nil, nil }
		cfg.CheckResolutionMsg = func(*htlcswitch.CircuitKey) error { return errors.New("none") }
	}
	return cfg
}

func (w *World) newCircuitMap(kv *simcore.SimKV) (htlcswitch.CircuitMap, error) {
	return htlcswitch.NewCircuitMap(w.cmConfig(kv, true))
}

// RebootWith closes the database handle and starts a new process epoch on the
// same file: channeldb is reopened, channel records are re-read, and a new
// circuit map is built. arm (may be nil) is called right before NewCircuitMap
// so that faults hit the circuit map's own start-up writes. The returned error
// is NewCircuitMap's.
func (w *World) RebootWith(arm func()) error {
	w.Epoch++
	w.R.Must(w.KV.Reopen(), "reopen database")
	db, err := channeldb.CreateWithBackend(w.KV)
	w.R.Must(err, "channeldb reopen")
	w.DB = db
	open, err := db.ChannelStateDB().FetchAllOpenChannels()
	w.R.Must(err, "FetchAllOpenChannels")
	for ch := 1; ch <= w.NCh; ch++ {
		w.Chans[ch].state = nil
	}
	for _, oc := range open {
		ch := w.chOfScid(oc.ShortChanID())
		if ch < 1 {
			w.R.Harness("unknown channel %v in database", oc.ShortChanID())
		}
		w.Chans[ch].state = oc
	}
	// cross-check the harness' idea of the channel database
	for ch := 1; ch <= w.NCh; ch++ {
		if (w.Env.Status[ch] == ChOpen) != (w.Chans[ch].state != nil) {
			w.R.Harness("channel %d: status %d but open-record present=%v", ch, w.Env.Status[ch], w.Chans[ch].state != nil)
		}
		if st := w.Chans[ch].state; st != nil {
			n, err := st.NextLocalHtlcIndex()
			w.R.Must(err, "NextLocalHtlcIndex")
			if int(n) != w.Env.Next[ch] {
				// chanstate.OpenChannel.NextLocalHtlcIndex is the cut-off
				// the circuit map trims with (an anchor of the property):
				// it must be the local HTLC index of the newest remote
				// commitment that was persisted (pending tip if any).
				w.R.Fail("next-htlc-index", "channel %d reloaded from disk: NextLocalHtlcIndex=%d, but the newest persisted remote commitment (pending tip: %v) covers local HTLC ids below %d", ch, n, w.pendingTip[ch], w.Env.Next[ch])
			}
		}
	}
	w.objs = map[*htlcswitch.PaymentCircuit]uint16{}
	w.CM = nil
	if arm != nil {
		arm()
	}
	cm, err := w.newCircuitMap(w.KV)
	if err != nil {
		return err
	}
	w.CM = cm
	return nil
}

// --- channel events (real channeldb writes) --------------------------------

func (w *World) Sign(ch, next int) {
	c := w.Chans[ch]
	if w.pendingTip[ch] {
		w.R.Must(c.revoke(), "AdvanceCommitChainTail")
		w.pendingTip[ch] = false
	}
	w.R.Must(c.sign(uint64(next)), "AppendRemoteCommitChain")
	w.pendingTip[ch] = true
	w.Env.Next[ch] = next
}

func (w *World) Revoke(ch int) {
	if !w.pendingTip[ch] {
		return
	}
	w.R.Must(w.Chans[ch].revoke(), "AdvanceCommitChainTail")
	w.pendingTip[ch] = false
}

// CloseChan moves the channel out of the open bucket (pending=true: closing
// transaction confirmed but contracts unresolved; false: fully closed).
func (w *World) CloseChan(ch int, pending bool) {
	c := w.Chans[ch]
	w.R.Must(c.state.CloseChannel(c.summary(pending)), "CloseChannel")
	if pending {
		w.Env.Status[ch] = ChPendingClose
	} else {
		w.Env.Status[ch] = ChClosed
	}
}

func (w *World) FullyClose(ch int) {
	c := w.Chans[ch]
	w.R.Must(w.DB.ChannelStateDB().MarkChanFullyClosed(&c.point), "MarkChanFullyClosed")
	w.Env.Status[ch] = ChClosed
}

// --- circuit map calls ------------------------------------------------------

func classify(err error) ErrClass {
	switch {
	case err == nil:
		return ENil
	case errors.Is(err, htlcswitch.ErrUnknownCircuit):
		return EUnknownCircuit
	case errors.Is(err, htlcswitch.ErrCircuitClosing):
		return ECircuitClosing
	case errors.Is(err, htlcswitch.ErrDuplicateKeystone):
		return EDupKeystone
	}
	return EOther
}

func (w *World) newCircuit(ik int) (*htlcswitch.PaymentCircuit, uint16) {
	w.nextObj++
	obj := w.nextObj
	c := &htlcswitch.PaymentCircuit{
		AddRef:         channeldb.AddRef{Height: uint64(obj), Index: uint16(ik)},
		Incoming:       w.inKey(ik),
		PaymentHash:    hashes[hashOfObj(obj)],
		IncomingAmount: lnwire.MilliSatoshi(uint64(obj)*1000 + uint64(ik)),
		OutgoingAmount: lnwire.MilliSatoshi(uint64(obj)*1000 + uint64(ik) - 1),
	}
	if ikCh(ik) != 0 {
		c.ErrorEncrypter = htlcswitch.NewMockObfuscator()
	}
	w.objs[c] = obj
	return c, obj
}

// NextObj reserves object identities for a commit batch.
func (w *World) PeekObj(n int) []uint16 {
	out := make([]uint16, n)
	for i := range out {
		out[i] = w.nextObj + uint16(i) + 1
	}
	return out
}

// describeCircuit renders a circuit returned by the API in the model's
// vocabulary and validates every field against what was committed.
func (w *World) describeCircuit(c *htlcswitch.PaymentCircuit, wantKey int) string {
	if c == nil {
		return "nil"
	}
	ik := w.ikOfKey(c.Incoming)
	if ik != wantKey {
		return fmt.Sprintf("WRONG-INKEY(%v)", c.Incoming)
	}
	obj := uint16(uint64(c.IncomingAmount) / 1000)
	bad := ""
	if uint64(c.IncomingAmount)%1000 != uint64(ik) || c.OutgoingAmount != c.IncomingAmount-1 {
		bad = "CORRUPT-AMOUNT"
	}
	if c.PaymentHash != hashes[hashOfObj(obj)] {
		bad = "CORRUPT-HASH"
	}
	if c.AddRef.Height != uint64(obj) || c.AddRef.Index != uint16(ik) {
		bad = "CORRUPT-ADDREF"
	}
	if (c.ErrorEncrypter == nil) != (ikCh(ik) == 0) {
		bad = "CORRUPT-ENCRYPTER"
	}
	if known, ok := w.objs[c]; ok && known != obj {
		bad = "OBJECT-MUTATED"
	}
	if bad != "" {
		return bad
	}
	s := fmt.Sprintf("#%d", obj)
	if _, ok := w.objs[c]; !ok && !c.LoadedFromDisk {
		// neither the object the caller committed in this epoch nor marked
		// as restored from disk
		s += "(unmarked-copy)"
	}
	if c.Outgoing != nil {
		ok := w.okOfKey(*c.Outgoing)
		if ok < 0 {
			return fmt.Sprintf("WRONG-OUTKEY(%v)", *c.Outgoing)
		}
		s += ">" + okStr(ok)
	}
	if c.LoadedFromDisk {
		s += "L"
	}
	return s
}

// Exec performs one call on the real circuit map and renders the result.
func (w *World) Exec(in Input) Output {
	cm := w.CM
	out := Output{N: -1}
	switch in.Kind {
	case OpCommit:
		circuits := make([]*htlcswitch.PaymentCircuit, len(in.Keys))
		for i, ik := range in.Keys {
			c, obj := w.newCircuit(ik)
			if obj != in.Objs[i] {
				w.R.Harness("object id drift: %d vs %d", obj, in.Objs[i])
			}
			circuits[i] = c
		}
		actions, err := cm.CommitCircuits(circuits...)
		out.Err = classify(err)
		cls := make([]byte, len(circuits))
		if actions == nil {
			for i := range cls {
				cls[i] = '-'
			}
			out.Cls = string(cls)
			break
		}
		// the switch's own in-order scan (ForwardPackets)
		adds, drops, fails := actions.Adds, actions.Drops, actions.Fails
		for i, c := range circuits {
			switch {
			case len(adds) > 0 && adds[0] == c:
				cls[i] = 'A'
				adds = adds[1:]
			case len(drops) > 0 && drops[0] == c:
				cls[i] = 'D'
				drops = drops[1:]
			case len(fails) > 0 && fails[0] == c:
				cls[i] = 'F'
				fails = fails[1:]
			default:
				cls[i] = '?'
			}
		}
		out.Cls = string(cls)
		if len(adds)+len(drops)+len(fails) != 0 {
			out.Cls += "+extra"
		}

	case OpOpen:
		ks := make([]htlcswitch.Keystone, len(in.Ks))
		for i, k := range in.Ks {
			ks[i] = htlcswitch.Keystone{InKey: w.inKey(k.In), OutKey: w.outKey(k.Out)}
		}
		out.Err = classify(cm.OpenCircuits(ks...))

	case OpTrim:
		out.Err = classify(cm.TrimOpenCircuits(scidOf(in.Ch), uint64(in.Start)))

	case OpClose:
		c, err := cm.CloseCircuit(w.outKey(in.Keys[0]))
		out.Err = classify(err)
		if err == nil {
			if c == nil {
				out.N = -3
			} else {
				out.N = w.ikOfKey(c.Incoming)
			}
		}

	case OpFail:
		c, err := cm.FailCircuit(w.inKey(in.Keys[0]))
		out.Err = classify(err)
		if err == nil {
			if c == nil {
				out.N = -3
			} else {
				out.N = w.ikOfKey(c.Incoming)
			}
		}

	case OpDelete:
		keys := make([]htlcswitch.CircuitKey, len(in.Keys))
		for i, ik := range in.Keys {
			keys[i] = w.inKey(ik)
		}
		out.Err = classify(cm.DeleteCircuits(keys...))

	case OpLookupIn:
		out.Cls = w.describeCircuit(cm.LookupCircuit(w.inKey(in.Keys[0])), in.Keys[0])

	case OpLookupOut:
		out.N = w.lookupOut(cm, in.Keys[0])

	case OpNumPending:
		out.N = cm.NumPending()

	case OpNumOpen:
		out.N = cm.NumOpen()

	case OpByHash:
		out.Cls = w.byHash(cm, in.Ch)

	case OpSnapshot:
		out.Cls = w.SnapshotOf(cm)
		if !judgeHashIndex {
			out.Cls = coreView(out.Cls)
		}
	}
	return out
}

func (w *World) lookupOut(cm htlcswitch.CircuitMap, ok int) int {
	c := cm.LookupOpenCircuit(w.outKey(ok))
	if c == nil {
		return -1
	}
	if c.Outgoing == nil || w.okOfKey(*c.Outgoing) != ok {
		return -4 // indexed under an outgoing key the circuit does not carry
	}
	return w.ikOfKey(c.Incoming)
}

func (w *World) byHash(cm htlcswitch.CircuitMap, h int) string {
	var l []string
	for _, c := range cm.LookupByPaymentHash(hashes[h]) {
		l = append(l, ikStr(w.ikOfKey(c.Incoming)))
	}
	sort.Strings(l)
	return strings.Join(l, ",")
}

// SnapshotOf renders everything the lookup API of cm shows, in the same
// canonical form as MState.Snapshot.
func (w *World) SnapshotOf(cm htlcswitch.CircuitMap) string {
	var b strings.Builder
	fmt.Fprintf(&b, "P%d O%d|", cm.NumPending(), cm.NumOpen())
	for ik := 0; ik < NInKeys; ik++ {
		if c := cm.LookupCircuit(w.inKey(ik)); c != nil {
			fmt.Fprintf(&b, "%s=%s ", ikStr(ik), w.describeCircuit(c, ik))
		}
	}
	b.WriteByte('|')
	for ok := 0; ok < NOut; ok++ {
		if ik := w.lookupOut(cm, ok); ik != -1 {
			fmt.Fprintf(&b, "%s<%s ", okStr(ok), ikStr(ik))
		}
	}
	b.WriteByte('|')
	for h := 0; h < NHash; h++ {
		fmt.Fprintf(&b, "h%d:%s ", h, w.byHash(cm, h))
	}
	return b.String()
}

// DiskView forks the database file and loads it with a circuit map that knows
// no channels (nothing is purged or trimmed): the raw durable content as the
// real loader sees it.
func (w *World) DiskView(tag string) string {
	fork, err := w.KV.Fork(w.R.SubDir(fmt.Sprintf("fork-%s-%d", tag, w.R.StepNo())))
	w.R.Must(err, "fork database")
	defer fork.Close()
	cm, err := htlcswitch.NewCircuitMap(w.cmConfig(fork, false))
	if err != nil {
		w.R.Fail("reload-error", "a copy of the database (%s) cannot be loaded by NewCircuitMap: %v", tag, err)
	}
	return w.SnapshotOf(cm)
}

// The snapshot's last section lists LookupByPaymentHash. That call is not
// among the property's observation points (LookupCircuit / LookupOpenCircuit /
// NumPending / NumOpen) and has no caller in lnd outside tests, so a stale
// hash index is recorded as a probe and only judged when VERIF_C07_HASHINDEX=1.
func coreView(snap string) string {
	if i := strings.LastIndex(snap, "|h0:"); i >= 0 {
		return snap[:i]
	}
	return snap
}

var judgeHashIndex = os.Getenv("VERIF_C07_HASHINDEX") == "1"

func sameView(r *simcore.Run, got, want, where string) bool {
	if got == want {
		return true
	}
	if coreView(got) != coreView(want) {
		return false
	}
	if judgeHashIndex {
		r.Fail("hash-index-stale", "%s LookupByPaymentHash disagrees with the open circuits\n got:  %s\n want: %s", where, got, want)
	}
	r.Count("probe_hash_index_stale")
	return true
}
