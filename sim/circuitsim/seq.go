package circuitsim

import (
	"fmt"
	"os"
	"strings"

	"verif/simcore"
)

// Seq is the single-client driver: one call at a time, the reference model is
// compared with every return value and with the complete lookup view after
// every call; restarts, channel closes, write failures and crashes are woven
// into the call sequence.
type Seq struct {
	R *simcore.Run
	W *World
	M MState
	D DState

	Faulty bool
	Strict bool
	Gaps   bool // the mailbox may expire (FailCircuit) and the incoming link delete an open circuit whose HTLC never reached a commitment
	K      knobs

	nextID       [MaxCh + 1]int // outgoing link's next HTLC id (volatile)
	routed       [NInKeys]int   // outgoing channel whose mailbox holds the Add (volatile)
	commitFailed [NInKeys]bool  // CommitCircuits said "fail" in this epoch

	// run-long invariants, computed from observed results only
	fwdLive  [NInKeys]bool
	respLive [NInKeys]bool

	faults     int
	opsAfter   int
	restarts   int
	restartsNE int
	mustReboot string

	// Scenario knobs for the two known shortfalls of start-up trimming; in
	// all other runs the generator keeps clear of them.
	wc bool // a channel may go to pending-close while it has uncommitted keystones
	pg bool // a channel may be fully closed while its circuits hold uncommitted keystones elsewhere
}

type knobs struct {
	commitW, openW, signW, closeW, failW, deleteW, flapW, chanW, restartW int
	maxSteps                                                              int
	faultDen                                                              int
}

func drawKnobs(t *simcore.Tape, faulty bool) knobs {
	k := knobs{
		commitW:  []int{3, 5, 8}[t.CfgDraw(3)],
		openW:    []int{3, 6}[t.CfgDraw(2)],
		signW:    []int{2, 4}[t.CfgDraw(2)],
		closeW:   []int{2, 4}[t.CfgDraw(2)],
		failW:    []int{1, 2}[t.CfgDraw(2)],
		deleteW:  []int{2, 4}[t.CfgDraw(2)],
		flapW:    []int{1, 2}[t.CfgDraw(2)],
		chanW:    []int{0, 1, 1}[t.CfgDraw(3)],
		restartW: []int{1, 1, 2}[t.CfgDraw(3)],
		maxSteps: 30 + 30*t.CfgDraw(3),
	}
	if faulty {
		k.faultDen = []int{8, 12, 20}[t.CfgDraw(3)]
	}
	return k
}

// RunSeq is one simulated execution of a sequential arm.
func RunSeq(r *simcore.Run, faulty, thorough bool) {
	t := r.Tape
	nCh := 2 + t.CfgDraw(2)
	nIn := 4 + t.CfgDraw(3)
	s := &Seq{R: r, Faulty: faulty}
	s.Strict = t.CfgDraw(3) == 0
	s.K = drawKnobs(t, faulty)
	if thorough {
		s.K.maxSteps *= 2
	}
	s.wc = t.CfgChance(1, 8)
	s.pg = t.CfgChance(1, 8)
	s.Gaps = s.pg || os.Getenv("VERIF_C07_GAPS") == "1"
	s.W = NewWorld(r, nCh, nIn)
	s.W.Env.TrimPendingClose = true
	s.M, s.D = newMState(), newDState()
	mode := "loose"
	if s.Strict {
		mode = "strict"
	}
	if faulty {
		r.Arm = "seq/faulty/" + mode
	} else {
		r.Arm = "seq/fault-free/" + mode
	}
	r.Logf("config: arm=%s nCh=%d nIn=%d pendingCloseUncommitted=%v keystoneGaps=%v knobs=%+v", r.Arm, nCh, nIn, s.wc, s.pg, s.K)
	s.compareState("initial")

	for steps := 0; steps < s.K.maxSteps && r.Step(); steps++ {
		s.step()
		s.noteState()
	}
	// Wind-down: a final clean restart; what is durable must come back.
	if r.Step() {
		r.Kind("final-restart")
	}
	s.restart(0, 0)
	s.R.Count("final_restart")
	if faulty {
		r.Nontrivial = s.faults > 0 && s.opsAfter > 0
	} else {
		r.Nontrivial = s.restartsNE > 0 && s.opsAfter >= 3
	}
}

type cand struct {
	kind   string
	weight int
}

func (s *Seq) step() {
	r, w := s.R, s.W
	if s.mustReboot != "" {
		r.Kind("restart:forced")
		r.Logf("forced restart (%s)", s.mustReboot)
		s.mustReboot = ""
		s.restart(0, 0)
		return
	}
	var ev []cand
	add := func(k string, wgt int, ok bool) {
		if ok && wgt > 0 {
			ev = append(ev, cand{k, wgt})
		}
	}
	add("commit", s.K.commitW, true)
	add("open", s.K.openW, len(s.openChans()) > 0)
	add("sign", s.K.signW, len(s.signable()) > 0)
	add("revoke", 1, s.anyTip())
	add("close", s.K.closeW, true)
	add("fail", s.K.failW, true)
	add("delete", s.K.deleteW, true)
	add("flap", s.K.flapW, s.anyStatus(ChOpen))
	add("chanclose", s.K.chanW, len(s.closable()) > 0)
	add("fullyclose", s.K.chanW, len(s.fullyClosable()) > 0)
	add("resmsg", s.K.chanW, len(s.resCands()) > 0)
	add("restart", s.K.restartW, true)
	total := 0
	for _, e := range ev {
		total += e.weight
	}
	pick := r.Draw(total)
	kind := ""
	for _, e := range ev {
		if pick < e.weight {
			kind = e.kind
			break
		}
		pick -= e.weight
	}
	switch kind {
	case "commit":
		chs := []int{0}
		for ch := 1; ch <= w.NCh; ch++ {
			if w.Env.Status[ch] == ChOpen {
				chs = append(chs, ch)
			}
		}
		a := chs[r.Draw(len(chs))]
		n := 1 + r.Draw(4)
		in := Input{Kind: OpCommit, Objs: w.PeekObj(n)}
		for i := 0; i < n; i++ {
			in.Keys = append(in.Keys, ikOf(a, r.Draw(w.NIn)))
		}
		out, ok := s.call(in, true)
		if ok {
			for i, ik := range in.Keys {
				switch out.Cls[i] {
				case 'A':
					s.routed[ik] = 1 + r.Draw(w.NCh)
				case 'F':
					s.commitFailed[ik] = true
				}
			}
		}

	case "open":
		chs := s.openChans()
		c := chs[r.Draw(len(chs))]
		cands := s.openCands(c)
		n := 1 + r.Draw(min(3, len(cands)))
		if s.nextID[c]+n > MaxOut {
			n = MaxOut - s.nextID[c]
		}
		in := Input{Kind: OpOpen}
		for i := 0; i < n; i++ {
			j := i + r.Draw(len(cands)-i)
			cands[i], cands[j] = cands[j], cands[i]
			in.Ks = append(in.Ks, ksPair{In: cands[i], Out: okOf(c, s.nextID[c]+i)})
		}
		if !s.Strict && s.nextID[c]+n < MaxOut {
			switch r.Draw(10) {
			case 8: // a keystone for a circuit that was never committed
				if abs := s.absentKeys(); len(abs) > 0 {
					in.Ks = append(in.Ks, ksPair{In: abs[r.Draw(len(abs))], Out: okOf(c, s.nextID[c]+n)})
					r.Count("probe_open_unknown_circuit")
				}
			case 9: // an outgoing key that is already bound
				if opened := s.openedKeys(); len(opened) > 0 {
					inK := -1
					if n < len(cands) {
						inK = cands[n]
					} else if abs := s.absentKeys(); len(abs) > 0 {
						inK = abs[0]
					}
					if inK >= 0 {
						in.Ks = append(in.Ks, ksPair{In: inK, Out: opened[r.Draw(len(opened))]})
						r.Count("probe_open_duplicate_keystone")
					}
				}
			}
		}
		out, ok := s.call(in, true)
		if ok && out.Err == ENil {
			s.nextID[c] += n
		}

	case "sign":
		cs := s.signable()
		c := cs[r.Draw(len(cs))]
		r.Kind(fmt.Sprintf("sign:%d", c))
		w.Sign(c, s.nextID[c])
		for ik := range s.M.P {
			if p := s.M.P[ik]; p.Present && p.Out >= 0 && okCh(int(p.Out)) == c {
				s.routed[ik] = 0 // Add packet acked out of the mailbox
			}
		}
		r.Logf("sign ch%d: NextLocalHtlcIndex=%d", c, s.nextID[c])
		s.opsAfter++

	case "revoke":
		for ch := 1; ch <= w.NCh; ch++ {
			if w.pendingTip[ch] && w.Env.Status[ch] == ChOpen {
				r.Kind(fmt.Sprintf("revoke:%d", ch))
				w.Revoke(ch)
				r.Logf("revoke ch%d", ch)
				break
			}
		}

	case "close":
		var cands []int
		for c := 1; c <= w.NCh; c++ {
			for id := 0; id <= s.nextID[c]+1 && id < MaxOut; id++ {
				ok := okOf(c, id)
				if s.Strict {
					if ik := s.M.openedBy(ok); ik >= 0 && id >= w.Env.Next[c] {
						continue // the peer cannot answer an HTLC it never saw
					}
				}
				cands = append(cands, ok)
			}
		}
		// favour keys that are actually open
		var open []int
		for _, ok := range cands {
			if s.M.openedBy(ok) >= 0 {
				open = append(open, ok)
			}
		}
		if len(open) > 0 && r.Draw(4) != 3 {
			cands = open
		}
		s.call(Input{Kind: OpClose, Keys: []int{cands[r.Draw(len(cands))]}}, false)

	case "fail":
		var cands []int
		for ch := 0; ch <= w.NCh; ch++ {
			for id := 0; id < w.NIn; id++ {
				ik := ikOf(ch, id)
				p := s.M.P[ik]
				if s.Strict {
					// FailCircuit comes from the outgoing mailbox: for an Add
					// it still holds (never delivered, or - after the link
					// stopped and ResetPackets - delivered and bound to a
					// keystone but not yet on a commitment); duplicates.
					legal := !p.Present || p.Closed || (p.Out < 0 && s.routed[ik] != 0) ||
						(s.Gaps && p.Out >= 0 && s.routed[ik] != 0 && okID(int(p.Out)) >= w.Env.Next[okCh(int(p.Out))])
					if !legal {
						continue
					}
				}
				cands = append(cands, ik)
			}
		}
		var pres []int
		for _, ik := range cands {
			if s.M.P[ik].Present {
				pres = append(pres, ik)
			}
		}
		if len(pres) > 0 && r.Draw(4) != 3 {
			cands = pres
		}
		if len(cands) == 0 {
			r.Kind("noop")
			return
		}
		ik := cands[r.Draw(len(cands))]
		out, ok := s.call(Input{Kind: OpFail, Keys: []int{ik}}, false)
		if ok && out.Err == ENil {
			s.routed[ik] = 0 // FailAdd removed the packet from the mailbox
		}

	case "delete":
		a := r.Draw(w.NCh + 1)
		var cands []int
		for id := 0; id < w.NIn; id++ {
			ik := ikOf(a, id)
			p := s.M.P[ik]
			if p.Present && p.Out >= 0 && !s.Gaps {
				c := okCh(int(p.Out))
				if okID(int(p.Out)) >= w.Env.Next[c] {
					// Deleting an open circuit whose HTLC never reached a
					// commitment breaks the documented "no disjoint
					// segments" precondition of TrimOpenCircuits. lnd can do
					// it (mailbox expiry while the link is down); that
					// scenario is confined to the keystoneGaps runs.
					continue
				}
			}
			if s.Strict && p.Present && !p.Closed && !s.commitFailed[ik] {
				continue
			}
			cands = append(cands, ik)
		}
		if len(cands) == 0 {
			r.Kind("noop")
			return
		}
		n := 1 + r.Draw(3)
		in := Input{Kind: OpDelete}
		for i := 0; i < n; i++ {
			in.Keys = append(in.Keys, cands[r.Draw(len(cands))])
		}
		out, ok := s.call(in, true)
		if ok && out.Err == ENil {
			for _, ik := range in.Keys {
				s.routed[ik] = 0
				s.commitFailed[ik] = false
			}
		}

	case "flap":
		var chs []int
		for ch := 1; ch <= w.NCh; ch++ {
			if w.Env.Status[ch] == ChOpen {
				chs = append(chs, ch)
			}
		}
		c := chs[r.Draw(len(chs))]
		start := w.Env.Next[c]
		if !s.Strict && r.Draw(6) == 5 {
			// any start for which the documented precondition (keystones
			// at/above start form one contiguous run) holds
			var ok []int
			for s0 := 0; s0 <= s.nextID[c]; s0++ {
				if s.trimDefined(c, s0) {
					ok = append(ok, s0)
				}
			}
			start = ok[r.Draw(len(ok))]
			r.Count("probe_trim_arbitrary_start")
		}
		if !s.trimDefined(c, start) {
			if s.Gaps {
				r.Kind("noop") // experiment knob: holes are allowed to exist
				return
			}
			r.Harness("trim precondition broken by the generator: ch%d start=%d", c, start)
		}
		before := s.M.numOpen()
		_, ok := s.call(Input{Kind: OpTrim, Ch: c, Start: start}, true)
		if ok {
			s.nextID[c] = start
			if s.M.numOpen() < before {
				r.Count("probe_trim_rolled_back")
			}
		}

	case "chanclose":
		cs := s.closable()
		c := cs[r.Draw(len(cs))]
		pending := r.Draw(3) != 2
		if !s.pg && s.inUncommitted(c) > 0 {
			pending = true
		}
		r.Kind(fmt.Sprintf("chanclose:%d", c))
		if s.uncommittedOn(c) > 0 {
			r.Count("probe_close_with_uncommitted_keystones")
		}
		w.CloseChan(c, pending)
		r.Logf("channel %d closed (pending=%v)", c, pending)

	case "fullyclose":
		cs := s.fullyClosable()
		c := cs[r.Draw(len(cs))]
		r.Kind(fmt.Sprintf("fullyclose:%d", c))
		w.FullyClose(c)
		r.Logf("channel %d fully closed", c)

	case "resmsg":
		cs := s.resCands()
		ok := cs[r.Draw(len(cs))]
		w.Env.ResMsg[ok] = !w.Env.ResMsg[ok]
		r.Kind("resmsg")
		r.Logf("resolution message for %s present=%v", okStr(ok), w.Env.ResMsg[ok])

	case "restart":
		fk, k := 0, 0
		if s.Faulty && s.faults < 4 {
			switch r.Draw(8) {
			case 5:
				fk = fIO
			case 6:
				fk = fCrashBefore
			case 7:
				fk = fCrashAfter
			}
			if fk != 0 {
				k = 1 + r.Draw(4)
			}
		}
		r.Kind("restart")
		s.restart(fk, k)
	}
}

const (
	fNone = iota
	fIO
	fCrashBefore
	fCrashAfter
)

var faultNames = [...]string{"", "io", "crash-before", "crash-after"}

// call performs one circuit-map call with optional fault injection (write
// calls only), checks the result and the complete state against the model.
// ok=false means the node crashed inside the call.
func (s *Seq) call(in Input, writes bool) (Output, bool) {
	r, w := s.R, s.W
	fk := fNone
	if writes && s.Faulty && s.faults < 4 {
		f := r.Draw(s.K.faultDen)
		if f >= s.K.faultDen-3 {
			fk = fIO + (f - (s.K.faultDen - 3))
		}
	}
	label := in.Kind.String()
	if fk != fNone {
		label += "!" + faultNames[fk]
	}
	r.Kind(label)
	switch fk {
	case fIO:
		w.KV.FailWrite(1)
	case fCrashBefore:
		w.KV.CrashBefore(1)
	case fCrashAfter:
		w.KV.CrashAfter(1)
	}
	got := w.Exec(in)
	fired := fNone
	switch {
	case w.KV.FiredFail > 0:
		fired = fIO
	case w.KV.FiredCrashBefore > 0:
		fired = fCrashBefore
	case w.KV.FiredCrashAfter > 0:
		fired = fCrashAfter
	}
	w.KV.FiredFail, w.KV.FiredCrashBefore, w.KV.FiredCrashAfter = 0, 0, 0
	w.KV.Disarm()

	pre := s.M
	switch fired {
	case fNone:
		post, want := Step(pre, in, false)
		r.Logf("%s -> %s", in, got)
		s.judge(in, want, got, pre)
		s.D = DiskEffect(s.D, pre, post, in)
		s.M = post
		s.probes(in, got, pre)
		s.compareState(in.String())
		if s.faults > 0 {
			s.opsAfter++
		} else if s.restartsNE > 0 {
			s.opsAfter++
		}
		return got, true

	case fIO:
		s.faults++
		r.Count("fault_write_fail_" + in.Kind.String())
		post, want := Step(pre, in, true)
		r.Logf("%s [write fails] -> %s", in, got)
		if got.Err == ENil {
			r.Fail("io-error-swallowed", "%s reported success although its database write failed", in)
		}
		if in.Kind == OpTrim {
			// TrimOpenCircuits documents no rollback: memory may show the
			// trimmed or the untrimmed state; the disk is unchanged. The
			// link cannot start after this error, so the node restarts.
			snap := coreView(w.SnapshotOf(w.CM))
			if snap != coreView(pre.Snapshot()) && snap != coreView(post.Snapshot()) {
				r.Fail("state/trim-failed-write", "after %s failed on its write the circuit map shows neither the state before nor the trimmed state\n got:    %s\n before: %s\n trimmed:%s", in, snap, pre.Snapshot(), post.Snapshot())
			}
			if snap == coreView(post.Snapshot()) && snap != coreView(pre.Snapshot()) {
				r.Count("probe_trim_failed_memory_trimmed")
			}
			s.mustReboot = "TrimOpenCircuits failed: the link cannot start"
			s.diskAudit("after failed trim")
			return got, true
		}
		s.judge(in, want, got, pre)
		s.M = post // == pre except nothing
		s.compareState(in.String() + " [write failed]")
		s.diskAudit("after failed " + in.Kind.String())
		switch in.Kind {
		case OpCommit:
			r.Count("probe_rollback_commit")
		case OpDelete:
			r.Count("probe_rollback_delete")
		}
		return got, true

	default: // crash inside the call
		s.faults++
		r.Count("fault_" + strings.ReplaceAll(faultNames[fired], "-", "_") + "_" + in.Kind.String())
		post, _ := Step(pre, in, false)
		if fired == fCrashAfter {
			s.D = DiskEffect(s.D, pre, post, in)
		}
		r.Logf("%s [node %s the write]", in, map[int]string{fCrashBefore: "crashes before", fCrashAfter: "crashes right after"}[fired])
		s.restart(0, 0)
		return got, false
	}
}

// judge checks one return value and the two run-long invariants.
func (s *Seq) judge(in Input, want, got Output, pre MState) {
	r := s.R
	// Invariants from the property's first sentence, independent of the
	// reference model.
	switch in.Kind {
	case OpCommit:
		if got.Err == ENil {
			for i, ik := range in.Keys {
				if i < len(got.Cls) && got.Cls[i] == 'A' {
					if s.fwdLive[ik] {
						r.Fail("double-forward", "%s: CommitCircuits returned circuit %s in Adds although an earlier Add of the same incoming HTLC was never deleted: the HTLC is handed to an outgoing channel twice (result %s)", in, ikStr(ik), got.Cls)
					}
					s.fwdLive[ik] = true
				}
			}
		}
	case OpClose, OpFail:
		if got.Err == ENil && got.N >= 0 && got.N < NInKeys {
			if s.respLive[got.N] {
				r.Fail("double-response", "%s succeeded for circuit %s although a settle/fail was already accepted for it in this process epoch and it was not deleted since: two responses reach the incoming channel", in, ikStr(got.N))
			}
			s.respLive[got.N] = true
		}
	case OpDelete:
		if got.Err == ENil {
			for _, ik := range in.Keys {
				s.fwdLive[ik] = false
				s.respLive[ik] = false
			}
		}
	}
	if !Accepts(want, got) {
		alt := ""
		if want.Alt != ENil {
			alt = " (or " + want.Alt.String() + ")"
		}
		r.Fail("result/"+in.Kind.String(), "%s returned [%s], the documented contract gives [%s]%s\n state before: %s", in, got, want, alt, pre.Snapshot())
	}
}

func (s *Seq) compareState(after string) {
	got := s.W.SnapshotOf(s.W.CM)
	want := s.M.Snapshot()
	if !sameView(s.R, got, want, "after "+after) {
		s.R.Fail("state-mismatch", "after %s the lookup API shows\n got:  %s\n want: %s", after, got, want)
	}
	// The closing set is not visible through lookups, but FailCircuit on a
	// circuit that already accepted a response is free of side effects.
	for ik := range s.M.P {
		if s.M.P[ik].Present && s.M.P[ik].Closed {
			if out := s.W.Exec(Input{Kind: OpFail, Keys: []int{ik}}); out.Err != ECircuitClosing {
				if out.Err == ENil {
					s.R.Fail("double-response", "after %s: circuit %s already accepted a settle/fail in this process epoch and was not deleted, yet FailCircuit accepts another response for it", after, ikStr(ik))
				}
				s.R.Fail("state-mismatch", "after %s: FailCircuit(%s) on a circuit that already accepted a response returned %s, want ErrCircuitClosing", after, ikStr(ik), out)
			}
		}
	}
}

// diskAudit: "after a failed write memory equals what a fresh NewCircuitMap
// on the same disk would load" (no channel knowledge: nothing trimmed).
func (s *Seq) diskAudit(tag string) {
	got := s.W.DiskView("audit")
	want := Project(s.D)
	if !sameView(s.R, got, want.Snapshot(), tag) {
		s.R.Fail("disk-mismatch", "%s the database holds\n got:  %s\n want: %s", tag, got, want.Snapshot())
	}
	s.R.Count("disk_audits")
}

func (s *Seq) probes(in Input, got Output, pre MState) {
	r := s.R
	switch in.Kind {
	case OpCommit:
		seen := map[int]bool{}
		for i, ik := range in.Keys {
			if seen[ik] {
				r.Count("probe_duplicate_inside_batch")
			}
			seen[ik] = true
			if i >= len(got.Cls) {
				continue
			}
			p := pre.P[ik]
			switch {
			case got.Cls[i] == 'F':
				r.Count("probe_commit_fail_loaded_halfopen")
			case got.Cls[i] == 'D' && p.Present && p.Out >= 0:
				r.Count("probe_commit_drop_keystone")
			case got.Cls[i] == 'D' && p.Present && p.Loaded:
				r.Count("probe_commit_drop_UNEXPECTED")
			case got.Cls[i] == 'D':
				r.Count("probe_commit_drop_in_mailbox")
			}
		}
	case OpOpen:
		if got.Err == EDupKeystone {
			r.Count("probe_duplicate_keystone_rejected")
		}
		if got.Err == EUnknownCircuit {
			r.Count("probe_open_unknown_rejected")
		}
	case OpClose, OpFail:
		if got.Err == ECircuitClosing {
			r.Count("probe_second_response_rejected")
		}
		if got.Err == ENil {
			r.Count("responses_accepted")
		}
	}
}

func (s *Seq) noteState() {
	loadedHalf, closed := 0, 0
	for ik := range s.M.P {
		p := s.M.P[ik]
		if p.Present && p.Loaded && p.Out < 0 {
			loadedHalf++
		}
		if p.Closed {
			closed++
		}
	}
	st := ""
	for ch := 1; ch <= s.W.NCh; ch++ {
		st += fmt.Sprint(int(s.W.Env.Status[ch]))
	}
	s.R.State(fmt.Sprintf("p%d o%d c%d l%d e%d s%s", s.M.numPending(), s.M.numOpen(), closed, loadedHalf, s.W.Epoch%3, st))
}

// restart reboots the node (optionally with a fault on the k-th write of
// NewCircuitMap), then checks the property's restart sentence.
func (s *Seq) restart(fk, k int) {
	r, w := s.R, s.W
	if s.M.numPending() > 0 {
		s.restartsNE++
	}
	s.restarts++
	r.Count("restarts")
	for attempt := 0; ; attempt++ {
		err := w.RebootWith(func() {
			if attempt == 0 {
				switch fk {
				case fIO:
					w.KV.FailWrite(k)
				case fCrashBefore:
					w.KV.CrashBefore(k)
				case fCrashAfter:
					w.KV.CrashAfter(k)
				}
			}
		})
		fired := w.KV.FiredFail+w.KV.FiredCrashBefore+w.KV.FiredCrashAfter > 0
		w.KV.FiredFail, w.KV.FiredCrashBefore, w.KV.FiredCrashAfter = 0, 0, 0
		w.KV.Disarm()
		if fired {
			s.faults++
			r.Count("fault_" + strings.ReplaceAll(faultNames[fk], "-", "_") + "_during_start")
			r.Logf("start-up attempt %d: fault %s on write %d: NewCircuitMap returned %v", attempt, faultNames[fk], k, err)
			if err == nil && fk == fIO {
				r.Fail("io-error-swallowed", "NewCircuitMap reported success although its %d. database write failed", k)
			}
			if err == nil {
				// crash-after on the very last write: the process is
				// dead all the same.
				err = fmt.Errorf("crashed")
			}
		}
		if err == nil {
			break
		}
		if !fired {
			r.Fail("restart-error", "NewCircuitMap failed on a healthy database: %v", err)
		}
		if attempt > 2 {
			r.Harness("restart loop")
		}
	}
	d, m, info := Restart(s.D, w.Env)
	got := w.SnapshotOf(w.CM)
	if !sameView(r, got, m.Snapshot(), "after restart") {
		// Is it one of the two ways in which start-up trimming is known to
		// fall short of the property's sentence? (named, never accepted)
		gapSig := "purge-gap"
		if s.holeOnDisk() {
			gapSig = "expiry-gap"
		}
		for _, v := range []struct {
			pc, gap bool
			sig     string
		}{{false, false, "pending-close"}, {true, true, gapSig}, {false, true, "pending-close+" + gapSig}} {
			env2 := w.Env
			env2.TrimPendingClose, env2.ScanStopsAtGap = v.pc, v.gap
			if _, m2, _ := Restart(s.D, env2); coreView(got) == coreView(m2.Snapshot()) {
				why := untrimmedWhy[strings.TrimPrefix(v.sig, "pending-close+")]
				if strings.HasPrefix(v.sig, "pending-close+") {
					why = untrimmedWhy["pending-close"] + "; and " + why
				}
				r.FailSig("restart-untrimmed", v.sig, "after the restart a circuit is still open towards an outgoing HTLC that never reached a commitment (%s)\n got:  %s\n want: %s\n env: status=%v next=%v\n disk before: %s", why, got, m.Snapshot(), w.Env.Status[:w.NCh+1], w.Env.Next[:w.NCh+1], func() string { p := Project(s.D); return p.Snapshot() }())
			}
		}
		r.Fail("restart-state", "after the restart the lookup API shows\n got:  %s\n want: %s\n env: status=%v next=%v resmsg=%s\n disk before: %s", got, m.Snapshot(), w.Env.Status[:w.NCh+1], w.Env.Next[:w.NCh+1], s.resList(), func() string { p := Project(s.D); return p.Snapshot() }())
	}
	r.Logf("restart #%d ok: %s", s.restarts, got)
	s.D, s.M = d, m
	if info.PurgedIn > 0 {
		r.Count("probe_purged_closed_incoming")
	}
	if info.PurgedOut > 0 {
		r.Count("probe_purged_closed_outgoing")
	}
	if info.KeptRes > 0 {
		r.Count("probe_kept_for_resolution_message")
	}
	if info.Trimmed > 0 {
		r.Count("probe_restart_rolled_back_uncommitted")
	}
	if info.Strays > 0 {
		r.Count("probe_stray_keystone_ignored")
	}
	for ch := 1; ch <= w.NCh; ch++ {
		s.nextID[ch] = w.Env.Next[ch]
	}
	for ik := range s.routed {
		s.routed[ik] = 0
		s.commitFailed[ik] = false
		s.respLive[ik] = false
		s.fwdLive[ik] = m.P[ik].Present
	}
}

func (s *Seq) resList() string {
	var l []string
	for ok, b := range s.W.Env.ResMsg {
		if b {
			l = append(l, okStr(ok))
		}
	}
	return strings.Join(l, ",")
}

// --- generator helpers -------------------------------------------------------

func (s *Seq) openCands(c int) []int {
	var l []int
	for ik := range s.M.P {
		p := s.M.P[ik]
		if !p.Present || p.Out >= 0 || ikCh(ik) > s.W.NCh || ikID(ik) >= s.W.NIn {
			continue
		}
		if s.Strict && (s.routed[ik] != c || p.Closed) {
			continue
		}
		if ikCh(ik) != 0 && s.W.Env.Status[ikCh(ik)] == ChClosed {
			// the incoming channel is gone for good: nothing forwards this
			// HTLC any more (and its circuit will be purged at start-up)
			continue
		}
		l = append(l, ik)
	}
	return l
}

func (s *Seq) openChans() []int {
	var l []int
	for c := 1; c <= s.W.NCh; c++ {
		if s.W.Env.Status[c] == ChOpen && s.nextID[c] < MaxOut && len(s.openCands(c)) > 0 {
			l = append(l, c)
		}
	}
	return l
}

func (s *Seq) signable() []int {
	var l []int
	for c := 1; c <= s.W.NCh; c++ {
		if s.W.Env.Status[c] == ChOpen && s.nextID[c] > s.W.Env.Next[c] {
			l = append(l, c)
		}
	}
	return l
}

func (s *Seq) anyTip() bool {
	for c := 1; c <= s.W.NCh; c++ {
		if s.W.pendingTip[c] && s.W.Env.Status[c] == ChOpen {
			return true
		}
	}
	return false
}

func (s *Seq) anyStatus(st ChanStatus) bool {
	for c := 1; c <= s.W.NCh; c++ {
		if s.W.Env.Status[c] == st {
			return true
		}
	}
	return false
}

func (s *Seq) uncommittedOn(c int) int {
	n := 0
	for ik := range s.M.P {
		p := s.M.P[ik]
		if p.Present && p.Out >= 0 && okCh(int(p.Out)) == c && okID(int(p.Out)) >= s.W.Env.Next[c] {
			n++
		}
	}
	return n
}

// closable: channels that may leave the open state now. Unless the run drew
// the "pending-close with uncommitted keystones" scenario, a channel is only
// closed once its link has rolled back what it never committed.
func (s *Seq) closable() []int {
	var l []int
	for c := 1; c <= s.W.NCh; c++ {
		if s.W.Env.Status[c] != ChOpen {
			continue
		}
		if !s.wc && s.uncommittedOn(c) > 0 {
			continue
		}
		l = append(l, c)
	}
	return l
}

// inUncommitted counts circuits arriving on channel a that hold a keystone
// whose HTLC has not reached a commitment.
func (s *Seq) inUncommitted(a int) int {
	n := 0
	for ik := range s.M.P {
		p := s.M.P[ik]
		if p.Present && ikCh(ik) == a && p.Out >= 0 && okID(int(p.Out)) >= s.W.Env.Next[okCh(int(p.Out))] {
			n++
		}
	}
	return n
}

func (s *Seq) fullyClosable() []int {
	var l []int
	for c := 1; c <= s.W.NCh; c++ {
		if s.W.Env.Status[c] == ChPendingClose && (s.pg || s.inUncommitted(c) == 0) {
			l = append(l, c)
		}
	}
	return l
}

func (s *Seq) resCands() []int {
	var l []int
	for ok := 0; ok < NOut; ok++ {
		st := s.W.Env.Status[okCh(ok)]
		if okCh(ok) > s.W.NCh || st == ChOpen || st == ChNone {
			continue
		}
		if s.W.Env.ResMsg[ok] || s.M.openedBy(ok) >= 0 {
			l = append(l, ok)
		}
	}
	return l
}

func (s *Seq) absentKeys() []int {
	var l []int
	for ch := 0; ch <= s.W.NCh; ch++ {
		for id := 0; id < s.W.NIn; id++ {
			if !s.M.P[ikOf(ch, id)].Present {
				l = append(l, ikOf(ch, id))
			}
		}
	}
	return l
}

func (s *Seq) openedKeys() []int {
	var l []int
	for ok := 0; ok < NOut; ok++ {
		if s.M.openedBy(ok) >= 0 {
			l = append(l, ok)
		}
	}
	return l
}

// trimDefined: the keystones of channel c at/above start form one contiguous
// run beginning at start (or there are none) - "Outgoing htlc id's must be
// assigned in order, so there should never be disjoint segments of keystones
// to trim."
func (s *Seq) trimDefined(c, start int) bool {
	n, max := 0, -1
	for id := start; id < MaxOut; id++ {
		if s.M.openedBy(okOf(c, id)) >= 0 {
			n++
			max = id
		}
	}
	return n == 0 || max == start+n-1
}

var untrimmedWhy = map[string]string{
	"pending-close": "its outgoing channel is in the pending-close state - closing transaction confirmed, contracts unresolved - which trimAllOpenCircuits never visits",
	"purge-gap":     "a lower uncommitted keystone of the same channel belonged to a circuit of a fully closed channel and was purged first, so the forward scan of TrimOpenCircuits stopped at the hole",
	"expiry-gap":    "a lower uncommitted keystone of the same channel was deleted before (FailCircuit from the mailbox + DeleteCircuits), so the forward scan of TrimOpenCircuits stopped at the hole",
}

// holeOnDisk: before the restart, some open channel's durable keystones
// at/above NextLocalHtlcIndex already were not contiguous.
func (s *Seq) holeOnDisk() bool {
	for c := 1; c <= s.W.NCh; c++ {
		n, max := 0, -1
		start := s.W.Env.Next[c]
		for id := start; id < MaxOut; id++ {
			if ik := int(s.D.Ks[okOf(c, id)]); ik >= 0 && s.D.Add[ik] != 0 {
				n++
				max = id
			}
		}
		if n > 0 && max != start+n-1 {
			return true
		}
	}
	return false
}
