# Table / manifest entries for C07 (engine circuitsim). Same dict shapes as the C01 entry in
# /verif/checks_table.py (CHECK) and /verif/manifest_text.py (TEXT); ENGINE goes into ENGINES,
# KNOWN_FINDINGS are candidate entries for /verif/known_findings.json (main agent decides).

CIRCUITSIM_STUB = {
    "htlcswitch.CircuitMap (NewCircuitMap, CommitCircuits, OpenCircuits, TrimOpenCircuits, CloseCircuit, FailCircuit, DeleteCircuits, Lookup*, cleanClosedChannels, restoreMemState, trimAllOpenCircuits)": "real, through the exported API only",
    "PaymentCircuit encode/decode": "real (mock error encrypter htlcswitch.NewMockObfuscator for forwarded circuits, none for local ones)",
    "kvdb + bbolt": "real bbolt file on tmpfs behind SimKV (crash / write-failure granularity = one transaction); kvdb.Batch degrades to Update",
    "channel database (FetchAllOpenChannels, FetchClosedChannels, OpenChannel.NextLocalHtlcIndex, CloseChannel, MarkChanFullyClosed)": "real channeldb/chanstate on the same database file; channel records written by SyncPending+MarkAsOpen, remote commit chain advanced by AppendRemoteCommitChain/AdvanceCommitChainTail with dummy commitments (no LightningChannel, no signatures)",
    "resolution message store (CheckResolutionMsg)": "stub: a set of outgoing keys held by the simulator (the real store is unexported)",
    "links, mailboxes, htlcForwarder, Switch.closeCircuit/teardownCircuit": "not simulated: the generator plays their role under lnd's threading discipline (one caller per channel, atomic forwarder); the full switch is C08's subject",
}
CIRCUITSIM_ASSUME = [
    "bbolt transaction atomicity and durability are trusted; crash granularity is one kvdb transaction, interleaving granularity is transaction entry / call return (CloseCircuit, FailCircuit and the lookups are single atomic steps)",
    "caller discipline as in lnd: CommitCircuits/DeleteCircuits for a channel's incoming keys and OpenCircuits/TrimOpenCircuits for its outgoing keys come from that channel's link, one call at a time; outgoing HTLC ids are handed out in order; holes among a channel's uncommitted keystones (documented precondition of TrimOpenCircuits: no disjoint segments) are only produced in the 1/8 of sequential runs that draw the keystoneGaps scenario (mailbox expiry + delete of the oldest uncommitted keystone, or full close of the incoming channel), and TrimOpenCircuits is never called across a hole; calls whose outcome the doc comments leave open (re-opening an opened circuit, duplicate keys inside one OpenCircuits batch, trimming across a hole) are not generated",
    "small universe: 2-3 channels + local source, 4-6 incoming HTLC ids per channel, <= 24 outgoing ids per channel, 3 payment hashes",
    "LookupByPaymentHash is not judged (not an observation point of C07, no caller in lnd); a stale hash index is counted as probe_hash_index_stale (VERIF_C07_HASHINDEX=1 judges it)",
    "a clean batch is evidence, not proof: sequences and schedules are sampled from a seeded PRNG (only the 48 close/fail/delete interleavings of the enum arm are exhaustive)",
]

CHECK = {
    "C07": dict(
        bin="run_circuitsim", build="external", pkg="run_circuitsim", level="exploration",
        lock_yield=dict(dir="htlcswitch", package="htlcswitch", files=["circuit_map.go"]),
        quick=dict(runs=64000, wall=80), thorough=dict(runs=1500000, wall=1100),
        rule="one evaluation = one seeded run of one arm. seq/fault-free and seq/faulty: a sequence of 30-90 circuit-map calls, channel events (sign, revoke, link flap, close pending/fully, resolution messages) and restarts issued by one client; the reference model is compared with every return value and with the complete lookup view (LookupCircuit over all incoming keys, LookupOpenCircuit over all outgoing keys, NumPending, NumOpen, closing set probed with FailCircuit) after every call; faulty adds FailWrite/CrashBefore/CrashAfter on the write of any call and on the 1st-4th write of NewCircuitMap. race: 2-3 client goroutines interleaved at every transaction entry, before every mutex acquisition inside circuit_map.go and at call return (<= 36 calls after a model-checked prelude), linearizability of the invoke/return history checked with porcupine, exact durable state after a clean drain or a crash at any scheduling point, restart oracle. enum: one of the 48 interleavings of CloseCircuit / FailCircuit / DeleteCircuits(memory, disk) on one circuit x 4 starting situations. non-trivial = (seq/fault-free) a restart with pending circuits and >= 3 calls after it / (seq/faulty) a fault fired and a call completed after it / (race) >= 2 calls issued while another was in flight / (enum) always; distinct = distinct event-trace hash",
        states_measure="distinct (pending, open, closing, restored-half-open counts, epoch mod 3, channel statuses) tuples; race: (pending, open, calls in flight, history length/4)",
        expected_probes=["probe_zero_conf_channel_confirmed", "probe_parked_before_lock", "probe_commit_fail_loaded_halfopen", "probe_commit_drop_keystone", "probe_commit_drop_in_mailbox",
                         "probe_duplicate_inside_batch", "probe_duplicate_keystone_rejected", "probe_open_unknown_rejected",
                         "probe_second_response_rejected", "probe_trim_rolled_back", "probe_restart_rolled_back_uncommitted",
                         "probe_purged_closed_incoming", "probe_purged_closed_outgoing", "probe_kept_for_resolution_message",
                         "probe_rollback_commit", "probe_rollback_delete", "fault_write_fail_commit", "fault_write_fail_delete",
                         "fault_write_fail_open", "fault_crash_after_commit", "fault_crash_before_commit", "fault_crash_after_during_start",
                         "fault_crash_mid_call", "linearizable_histories", "enum_case_00", "enum_case_47"],
        real_vs_stub=CIRCUITSIM_STUB, assumptions=CIRCUITSIM_ASSUME,
        determinism="call-driven engine; concurrent clients are parked goroutines released one at a time: identical seed gives byte-identical event log (self-test: 6 seeds x 2 processes x GOMAXPROCS 1/4/16 identical)",
    ),
}

ENGINE = {"name": "circuitsim", "path": "/verif/sim/circuitsim", "serves_properties": ["C07"],
          "kind_free_text": "real htlcswitch circuit map on a SimKV database shared with real channeldb channel records; decision-table reference model (sequential + porcupine), cooperative scheduler for 2-3 clients parked at transaction entry and before every mutex acquisition of the circuit map (instrumented copy via -overlay), write-failure/crash injection inside calls and inside NewCircuitMap, restart oracle with closed channels / resolution messages / NextLocalHtlcIndex"}

_NOTE = ("Trusted: bbolt transaction atomicity; the reference model (about 250 lines, written from the doc comments of circuit_map.go and the property text); "
         "the caller discipline listed under assumptions. Interleavings are explored at two kinds of points: the entry of every database transaction and - through a build-time overlay that compiles a copy of circuit_map.go with a hook call inserted before every mutex acquisition, /repo untouched - before every Lock/RLock of the circuit map, so every ordering of its critical sections is reachable; races on data accessed without any lock remain invisible. "
         "FailWrite is not combined with concurrent clients (a failed CommitCircuits/DeleteCircuits is transiently visible, which is not linearizable and not judged). "
         "Genuine shortfalls of start-up trimming against the property's last sentence are reported as known-finding candidates (restart-untrimmed: pending-close, purge-gap, expiry-gap); "
         "the scenarios that reach them are confined to 1/8 of the sequential runs each so that the rest of the batch is unaffected. Without the KNOWN_FINDINGS entries in known_findings.json the check exits 1 on the unchanged tree.")

TEXT = {
    "C07": dict(engine="circuitsim", design_ref="DESIGN.md 5 C07",
                technique="deterministic simulation: decision-table reference model checked sequentially and by linearizability (porcupine) over scheduler-controlled interleavings, with write-failure and crash injection and a restart oracle",
                level_text="Seeded exploration of call sequences on the real circuit map over a small universe of channels and HTLC ids: CommitCircuits batches with duplicates and re-commits, OpenCircuits (incl. duplicate keystones and unknown circuits), TrimOpenCircuits at link flaps, CloseCircuit/FailCircuit incl. duplicates, DeleteCircuits, lookups; channels are signed/revoked/closed through the real channel database so that NewCircuitMap's purge and trim run on real FetchClosedChannels / NextLocalHtlcIndex data. Single-client arms compare a reference model (keystone? loaded from disk? => add/drop/fail; duplicate keystone; unknown circuit; closing-set arbitration; documented rollback on write failure) with every return value and the complete lookup view after every call, inject a write failure or a crash before/after the write of any call and of NewCircuitMap's own writes, and check after every restart: pending = durable adds (payload intact, LoadedFromDisk set), open = durable keystones below NextLocalHtlcIndex, the rest rolled back to half-open, circuits of fully closed channels purged unless a resolution message waits. Multi-client arms park 2-3 goroutines at every transaction entry, check the history with porcupine, and compare the database with exactly what the completed calls persisted after a clean drain or a crash at any scheduling point. Run-long invariants independent of the model: an incoming HTLC is returned in Adds at most once between deletions (across restarts); at most one successful CloseCircuit/FailCircuit per circuit and process epoch. The 48 interleavings of close/fail/delete on one circuit are enumerated. Exploration is the right level: the sequence space is unbounded and the oracle is scenario independent.",
                level_note=_NOTE),
}

KNOWN_FINDINGS = [
    {"property": "C07", "status": "open", "code": "restart-untrimmed", "sig": "pending-close",
     "what": "keystones written by OpenCircuits for HTLCs that never reached a commitment are not rolled back at start-up when their outgoing channel is in the pending-close state (close summary with IsPending=true): trimAllOpenCircuits only walks FetchAllOpenChannels. The circuit stays 'open', re-forwards of the incoming HTLC are dropped, nothing fails it back until the channel is fully closed AND the node restarts again. Replay: sim/circuitsim/findings/C07-untrimmed-pending-close.json"},
    {"property": "C07", "status": "open", "code": "restart-untrimmed", "sig": "purge-gap",
     "what": "TrimOpenCircuits scans forward from NextLocalHtlcIndex and stops at the first id without a keystone. cleanClosedChannels deletes the keystones of circuits whose incoming channel is fully closed BEFORE trimAllOpenCircuits runs; if such a keystone sat below other uncommitted keystones of the same outgoing channel the scan stops at the hole and the higher keystones stay open although their HTLC never reached a commitment (also after later link restarts; a new HTLC with that id then hits ErrDuplicateKeystone). Replay: sim/circuitsim/findings/C07-untrimmed-purge-gap.json"},
    {"property": "C07", "status": "open", "code": "restart-untrimmed", "sig": "expiry-gap",
     "what": "same root cause as purge-gap (forward scan of TrimOpenCircuits stops at a hole); here the hole is made while the outgoing link is down: the mailbox expires the oldest delivered-but-uncommitted Add (FailCircuit on a circuit that has a keystone), the incoming link deletes the circuit with its keystone, the younger uncommitted keystones above it survive the next trim. Replay: sim/circuitsim/findings/C07-untrimmed-expiry-gap.json"},
    {"property": "C07", "status": "open", "code": "restart-untrimmed", "sig": "pending-close+purge-gap",
     "what": "combination of the pending-close and purge-gap shortfalls of start-up trimming"},
    {"property": "C07", "status": "open", "code": "restart-untrimmed", "sig": "pending-close+expiry-gap",
     "what": "combination of the pending-close and expiry-gap shortfalls of start-up trimming"},
]
