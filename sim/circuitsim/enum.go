package circuitsim

import (
	"fmt"

	"verif/simcore"
)

// The enumeration arm: the property's quantifier names "all 2-3 thread
// interleavings of competing settle/fail/delete on one circuit". At the
// scheduler's granularity CloseCircuit and FailCircuit are one atomic step
// each and DeleteCircuits is two (memory, then disk), so three threads have
// 4!/2 = 12 interleavings. They are enumerated (not sampled) for four starting
// situations of the circuit: 48 cases, one per run, chosen by a configuration
// draw; the per-case counters in the evidence show that every case ran.

const (
	tokClose = iota
	tokFail
	tokDel1
	tokDel2
)

// enumPerms returns the 12 orders of {close, fail, del1, del2} with del1
// before del2, in a fixed order.
func enumPerms() [][]int {
	var out [][]int
	var rec func(cur []int, used [4]bool)
	rec = func(cur []int, used [4]bool) {
		if len(cur) == 4 {
			out = append(out, append([]int(nil), cur...))
			return
		}
		for t := 0; t < 4; t++ {
			if used[t] || (t == tokDel2 && !used[tokDel1]) {
				continue
			}
			used[t] = true
			rec(append(cur, t), used)
			used[t] = false
		}
	}
	rec(nil, [4]bool{})
	return out
}

var enumStarts = [...]string{"open+committed", "open+committed, response already accepted", "half-open (Add still in the mailbox)", "open+committed, restored from disk"}

// RunEnum executes one of the 48 cases.
func RunEnum(r *simcore.Run) {
	perms := enumPerms()
	n := len(perms) * len(enumStarts)
	cs := r.Tape.CfgDraw(n)
	sv, perm := cs/len(perms), perms[cs%len(perms)]
	r.Arm = "enum"
	s := &Seq{R: r, Strict: true}
	s.W = NewWorld(r, 2, 4)
	s.W.Env.TrimPendingClose = true
	s.M, s.D = newMState(), newDState()
	names := [...]string{"close", "fail", "delete/memory", "delete/disk"}
	order := ""
	for _, t := range perm {
		order += names[t] + " "
	}
	r.Logf("config: arm=enum case=%d start=%q order=%s", cs, enumStarts[sv], order)
	r.Count(fmt.Sprintf("enum_case_%02d", cs))

	r.Step() // a single step: the whole case is fixed by the configuration draw

	// The circuit: incoming i1.0, forwarded to channel 2.
	K, out := ikOf(1, 0), okOf(2, 0)
	other := ikOf(0, 1) // a bystander circuit that must not be disturbed
	s.call(Input{Kind: OpCommit, Keys: []int{K, other}, Objs: s.W.PeekObj(2)}, true)
	s.routed[K] = 2
	if sv != 2 {
		s.call(Input{Kind: OpOpen, Ks: []ksPair{{In: K, Out: out}}}, true)
		s.nextID[2] = 1
		s.W.Sign(2, 1)
		s.routed[K] = 0
	}
	switch sv {
	case 1:
		s.call(Input{Kind: OpClose, Keys: []int{out}}, false)
	case 3:
		s.restart(0, 0)
	}

	rc := &Race{R: r, W: s.W, Seq: s, events: make(chan revent, 16), init: s.M, D: s.D, maxOps: 8}
	for ik := range rc.kn {
		p := s.M.P[ik]
		rc.kn[ik] = kinfo{pending: p.Present, out: int(p.Out), closedOK: p.Closed}
		if !p.Present {
			rc.kn[ik].out = -1
		}
	}
	rc.nextID = s.nextID
	rc.start(3)
	for _, t := range perm {
		switch t {
		case tokClose:
			op := &rop{role: -1, in: Input{Kind: OpClose, Keys: []int{out}}}
			r.Logf("c0 calls %s", op.in)
			rc.run(rc.clients[0], op)
		case tokFail:
			op := &rop{role: -1, in: Input{Kind: OpFail, Keys: []int{K}}}
			r.Logf("c1 calls %s", op.in)
			rc.run(rc.clients[1], op)
		case tokDel1:
			op := &rop{role: 1, in: Input{Kind: OpDelete, Keys: []int{K}}}
			rc.acquire(op)
			r.Logf("c2 calls %s", op.in)
			rc.run(rc.clients[2], op)
			if !rc.clients[2].parked {
				r.Harness("DeleteCircuits returned without reaching its database transaction")
			}
		case tokDel2:
			r.Logf("c2 resumes delete")
			rc.run(rc.clients[2], nil)
		}
	}
	r.Kind(fmt.Sprintf("enum:%d", cs))
	rc.overlaps = 2
	rc.finishClean()
	r.Nontrivial = true
}
