// Package circuitsim decides property C07 (the switch's circuit map forwards
// each HTLC at most once and relays at most one response) by deterministic
// simulation of the real htlcswitch.CircuitMap on a crash-injecting database.
package circuitsim

import (
	"crypto/sha256"
	"encoding/binary"
	"fmt"
	"net"

	"github.com/btcsuite/btcd/btcec/v2"
	"github.com/btcsuite/btcd/chainhash/v2"
	"github.com/btcsuite/btcd/wire/v2"
	"github.com/lightningnetwork/lnd/channeldb"
	"github.com/lightningnetwork/lnd/chanstate"
	"github.com/lightningnetwork/lnd/keychain"
	"github.com/lightningnetwork/lnd/lnwire"
	"github.com/lightningnetwork/lnd/shachain"

	"verif/simcore"
)

// The channel side of the world is REAL channeldb/chanstate code: channel
// records are written with SyncPending + MarkAsOpen, the remote commitment
// chain is extended with AppendRemoteCommitChain / AdvanceCommitChainTail
// (that is where NextLocalHtlcIndex comes from), channels are closed with
// CloseChannel / MarkChanFullyClosed. No LightningChannel, no signatures: the
// circuit map never looks at them.

var (
	dummySig = []byte{
		0x30, 0x44, 0x02, 0x20, 0x4e, 0x45, 0xe1, 0x69, 0x32, 0xb8, 0xaf, 0x51, 0x49, 0x61, 0xa1, 0xd3,
		0xa1, 0xa2, 0x5f, 0xdf, 0x3f, 0x4f, 0x77, 0x32, 0xe9, 0xd6, 0x24, 0xc6, 0xc6, 0x15, 0x48, 0xab,
		0x5f, 0xb8, 0xcd, 0x41, 0x02, 0x20, 0x18, 0x15, 0x22, 0xec, 0x8e, 0xca, 0x07, 0xde, 0x48, 0x60,
		0xa4, 0xac, 0xdd, 0x12, 0x90, 0x9d, 0x83, 0x1c, 0xc5, 0x6c, 0xbb, 0xac, 0x46, 0x22, 0x08, 0x22,
		0x21, 0xa8, 0x76, 0x8d, 0x1d, 0x09,
	}
	dummyTx = &wire.MsgTx{
		Version: 2,
		TxIn: []*wire.TxIn{{
			PreviousOutPoint: wire.OutPoint{Index: 0xffffffff},
			SignatureScript:  []byte{0x04, 0x31, 0xdc, 0x00, 0x1b, 0x01, 0x62},
			Sequence:         0xffffffff,
		}},
		TxOut:    []*wire.TxOut{{Value: 5000000000, PkScript: []byte{0x51}}},
		LockTime: 5,
	}
)

// keyCache: key derivation is the only non-trivial CPU cost of building a
// channel record; the keys are a pure function of the index.
var keyCache = map[int][]*btcec.PublicKey{}

func chanKeys(idx int) []*btcec.PublicKey {
	if k, ok := keyCache[idx]; ok {
		return k
	}
	var out []*btcec.PublicKey
	for i := 0; i < 6; i++ {
		h := sha256.Sum256([]byte(fmt.Sprintf("circuitsim-key-%d-%d", idx, i)))
		priv, _ := btcec.PrivKeyFromBytes(h[:])
		out = append(out, priv.PubKey())
	}
	keyCache[idx] = out
	return out
}

// chanRec is one channel of the simulated node.
type chanRec struct {
	idx    int // 1-based; scid = scidOf(idx)
	scid   lnwire.ShortChannelID
	point  wire.OutPoint
	state  *chanstate.OpenChannel
	height uint64 // remote commit height written so far
	logSkew uint64 // non-add local updates covered so far (LocalLogIndex - LocalHtlcIndex)
}

func scidOf(idx int) lnwire.ShortChannelID {
	return lnwire.ShortChannelID{BlockHeight: uint32(100 + idx), TxIndex: uint32(idx), TxPosition: 0}
}

func mkChanCfg(keys []*btcec.PublicKey) channeldb.ChannelConfig {
	return channeldb.ChannelConfig{
		ChannelStateBounds: channeldb.ChannelStateBounds{
			MaxPendingAmount: lnwire.NewMSatFromSatoshis(1_000_000),
			ChanReserve:      1000,
			MaxAcceptedHtlcs: 30,
		},
		CommitmentParams:    channeldb.CommitmentParams{DustLimit: 354, CsvDelay: 6},
		MultiSigKey:         keychain.KeyDescriptor{PubKey: keys[0]},
		RevocationBasePoint: keychain.KeyDescriptor{PubKey: keys[1]},
		PaymentBasePoint:    keychain.KeyDescriptor{PubKey: keys[2]},
		DelayBasePoint:      keychain.KeyDescriptor{PubKey: keys[3]},
		HtlcBasePoint:       keychain.KeyDescriptor{PubKey: keys[4]},
	}
}

// mkCommit builds a commitment record. logSkew is the number of non-add
// local updates (update_fee, settles, fails) sent so far: the local LOG index
// counts them, the local HTLC index does not, so on a real channel the two
// differ as soon as anything but an add was sent.
func mkCommit(height uint64, htlcIdx uint64, logSkew uint64) channeldb.ChannelCommitment {
	return channeldb.ChannelCommitment{
		CommitHeight:   height,
		LocalLogIndex:  htlcIdx + logSkew,
		LocalHtlcIndex: htlcIdx,
		LocalBalance:   lnwire.NewMSatFromSatoshis(500_000),
		RemoteBalance:  lnwire.NewMSatFromSatoshis(490_000),
		CommitFee:      10_000,
		FeePerKw:       6000,
		CommitTx:       dummyTx,
		CommitSig:      dummySig,
	}
}

// createChannel writes a confirmed, open channel record through the real
// channel-state store.
func createChannel(r *simcore.Run, db *channeldb.DB, idx int) *chanRec {
	local := chanKeys(2 * idx)
	remote := chanKeys(2*idx + 1)
	var fh chainhash.Hash
	hh := sha256.Sum256([]byte(fmt.Sprintf("circuitsim-funding-%d", idx)))
	copy(fh[:], hh[:])
	var root chainhash.Hash
	binary.BigEndian.PutUint64(root[:], uint64(idx)+77)
	c := &chanRec{idx: idx, scid: scidOf(idx), point: wire.OutPoint{Hash: fh, Index: uint32(idx)}}
	chanType := channeldb.ChannelType(channeldb.SingleFunderTweaklessBit)
	if idx%3 == 0 {
		chanType |= channeldb.ZeroConfBit | channeldb.ScidAliasChanBit
	}
	st := &chanstate.OpenChannel{
		ChanType:                chanType,
		LocalChanCfg:            mkChanCfg(local),
		RemoteChanCfg:           mkChanCfg(remote),
		IdentityPub:             remote[5],
		FundingOutpoint:         c.point,
		ShortChannelID:          c.scid,
		IsInitiator:             true,
		Capacity:                1_000_000,
		RemoteCurrentRevocation: remote[4],
		RemoteNextRevocation:    remote[3],
		RevocationProducer:      shachain.NewRevocationProducer(root),
		RevocationStore:         shachain.NewRevocationStore(),
		LocalCommitment:         mkCommit(0, 0, 0),
		RemoteCommitment:        mkCommit(0, 0, 0),
		Db:                      db.ChannelStateDB(),
		FundingTxn:              dummyTx,
	}
	addr := &net.TCPAddr{IP: net.ParseIP("127.0.0.1"), Port: 18000 + idx}
	r.Must(st.SyncPending(addr, 100), "SyncPending")
	r.Must(st.MarkAsOpen(c.scid), "MarkAsOpen")
	if idx%3 == 0 {
		// every third channel is a zero-conf channel whose funding
		// transaction has confirmed: the link, the keystones and the
		// forwarding packages stay keyed by the alias (c.scid), the record
		// also carries the confirmed id (no draw: replay files stay valid)
		r.Must(st.MarkRealScid(lnwire.ShortChannelID{BlockHeight: uint32(700 + idx), TxIndex: uint32(idx), TxPosition: 1}), "MarkRealScid")
		r.Count("probe_zero_conf_channel_confirmed")
	}
	c.state = st
	return c
}

// sign persists a new pending remote commitment whose LocalHtlcIndex is next:
// what SignNextCommitment does to the database for the circuit map's purposes.
func (c *chanRec) sign(next uint64) error {
	c.height++
	// every signature covers 0-2 further non-add updates (deterministic in
	// the channel index and height, no tape draw)
	c.logSkew += (c.height + uint64(c.idx)) % 3
	diff := &channeldb.CommitDiff{
		Commitment: mkCommit(c.height, next, c.logSkew),
		CommitSig: &lnwire.CommitSig{
			ChanID: lnwire.NewChanIDFromOutPoint(c.point),
		},
	}
	sig, err := lnwire.NewSigFromECDSARawSignature(dummySig)
	if err != nil {
		return err
	}
	diff.CommitSig.CommitSig = sig
	return c.state.AppendRemoteCommitChain(diff)
}

// revoke promotes the pending remote commitment to the current one (what
// ReceiveRevocation does to the database).
func (c *chanRec) revoke() error {
	pkg := channeldb.NewFwdPkg(c.scid, c.height, nil, nil)
	return c.state.AdvanceCommitChainTail(pkg, nil, 0, 1)
}

func (c *chanRec) summary(pending bool) *channeldb.ChannelCloseSummary {
	return &channeldb.ChannelCloseSummary{
		ChanPoint:   c.point,
		ShortChanID: c.scid,
		ClosingTXID: chainhash.Hash{byte(c.idx)},
		RemotePub:   c.state.IdentityPub,
		Capacity:    c.state.Capacity,
		CloseType:   channeldb.RemoteForceClose,
		IsPending:   pending,
	}
}
