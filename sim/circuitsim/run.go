package circuitsim

import (
	"os"

	"verif/simcore"
)

// Run is one simulated execution for C07. The first configuration draw picks
// the swarm arm:
//
//	seq/fault-free  one client, reference model after every call, clean restarts
//	seq/faulty      the same plus write failures and crashes inside calls and
//	                inside NewCircuitMap
//	race            2-3 concurrent clients interleaved at every database
//	                transaction entry; porcupine linearizability check
//	enum            the 48 interleavings of close/fail/delete on one circuit
func Run(r *simcore.Run, thorough bool) {
	arm := r.Tape.CfgDraw(16)
	switch os.Getenv("VERIF_C07_ARM") { // debugging aid; replays need the same setting
	case "seq":
		arm = 0
	case "faulty":
		arm = 5
	case "race":
		arm = 10
	case "enum":
		arm = 15
	}
	switch {
	case arm < 5:
		RunSeq(r, false, thorough)
	case arm < 10:
		RunSeq(r, true, thorough)
	case arm < 15:
		RunRace(r, thorough)
	default:
		RunEnum(r)
	}
}
