package circuitsim

import (
	"os"

	"verif/simcore"
)

// Run is one simulated execution for C07. The first configuration draw picks
// the swarm arm:
//
//	seq/fault-free  one client, reference model after every call, clean restarts
//	seq/faulty      the same plus write failures and crashes inside calls and
//	                inside NewCircuitMap
//	race            2-3 concurrent clients interleaved at every database
//	                transaction entry; porcupine linearizability check
func Run(r *simcore.Run, thorough bool) {
	arm := r.Tape.CfgDraw(8)
	if only := os.Getenv("VERIF_C07_ARM"); only != "" {
		switch only {
		case "seq":
			arm = 0
		case "faulty":
			arm = 3
		case "race":
			arm = 6
		}
	}
	switch {
	case arm < 3:
		RunSeq(r, false)
	case arm < 6:
		RunSeq(r, true)
	default:
		RunRace(r, thorough)
	}
}
