package circuitsim

import (
	"fmt"
	"os"
	"runtime/debug"
	"sort"
	"strings"
	"sync"
	"time"

	"github.com/anishathalye/porcupine"

	"verif/simcore"
)

// The race arm: 2-3 client goroutines call the circuit map "concurrently".
// Exactly one goroutine runs at any time: a client runs until it reaches the
// entry of a database transaction (SimKV.OnTx) or the return of its call, then
// parks and hands control back to the scheduler, which picks the next move
// from the tape. Every check-then-write window of CommitCircuits,
// OpenCircuits, TrimOpenCircuits and DeleteCircuits is therefore a scheduling
// point, and the schedule replays exactly.
//
// What the clients are allowed to do concurrently follows the threading of
// lnd: one link per channel (CommitCircuits/DeleteCircuits for its incoming
// keys, OpenCircuits/TrimOpenCircuits for its outgoing keys, one call at a
// time), any number of senders of local payments (channel 0, distinct keys),
// and the forwarder issuing CloseCircuit/FailCircuit and lookups at any
// moment. Responses are only generated for HTLCs that could have them.
//
// Oracles: the invoke/return history must be linearizable with respect to the
// sequential specification (porcupine); the two run-long invariants; the
// durable state after a crash at any scheduling point or after a clean drain
// must be exactly what the completed calls persisted.

type rop struct {
	in     Input
	client int
	role   int // channel whose link issued it, -1: forwarder
	call   int64
	ret    int64
	out    Output
	done   bool
	dest   []int // commit: mailbox the Add goes to, per position
	nids   int   // open: ids reserved
}

type rclient struct {
	id     int
	req    chan *rop
	resume chan struct{}
	op     *rop
	parked bool
}

const (
	evPark = iota
	evReturn
	evPanic
)

type revent struct {
	c     *rclient
	kind  int
	out   Output
	pv    interface{}
	stack string
}

type kinfo struct {
	pending      bool
	out          int
	closedOK     bool
	commitFailed bool
	routed       int
	failIssued   bool
	opening      bool
}

// Race is the multi-client scheduler.
type Race struct {
	R   *simcore.Run
	W   *World
	Seq *Seq // prelude driver; its invariant bookkeeping is reused

	clients []*rclient
	events  chan revent
	cur     *rclient
	crashed bool
	wg      sync.WaitGroup

	seq  int64
	hist []*rop
	init MState
	D    DState

	kn       [NInKeys]kinfo
	nextID   [MaxCh + 1]int
	roleBusy [MaxCh + 1]bool
	keyBusy  [NInKeys]bool // channel-0 keys referenced by an in-flight commit/delete

	overlaps int
	maxOps   int
	crashAt  int64

	sharedBase [MaxCh + 1]int
}

// sharedLink (VERIF_C07_SHAREDLINK=1) is an experiment, not part of the check:
// it lets two goroutines act as the same link, which lnd never does, to show
// that the check-then-write window of OpenCircuits is reachable by the
// scheduler (two OpenCircuits with the same outgoing key both succeed).
var sharedLink = os.Getenv("VERIF_C07_SHAREDLINK") == "1"

func (rc *Race) openInFlight(c int) bool {
	for _, cl := range rc.clients {
		if cl.op != nil && cl.op.in.Kind == OpOpen && cl.op.role == c {
			return true
		}
	}
	return false
}

// RunRace is one simulated execution of the race arm.
func RunRace(r *simcore.Run, thorough bool) {
	t := r.Tape
	nCh := 2 + t.CfgDraw(2)
	nIn := 4 + t.CfgDraw(3)
	nClients := 2 + t.CfgDraw(2)
	prelude := []int{0, 6, 14}[t.CfgDraw(3)]
	endCrash := t.CfgDraw(2) == 1
	maxOps := 20 + 4*t.CfgDraw(5) // <= 36 calls + snapshot <= 40
	preRestart := t.CfgDraw(2) == 1

	s := &Seq{R: r, Strict: true}
	s.K = drawKnobs(t, false)
	s.K.chanW, s.K.restartW = 0, 0
	s.W = NewWorld(r, nCh, nIn)
	s.W.Env.TrimPendingClose = true
	s.M, s.D = newMState(), newDState()
	r.Arm = "race"
	if endCrash {
		r.Arm = "race/crash"
	}
	r.Logf("config: arm=%s nCh=%d nIn=%d clients=%d prelude=%d preludeRestart=%v maxOps=%d", r.Arm, nCh, nIn, nClients, prelude, preRestart, maxOps)

	// Prelude: a strict sequential history (fully model-checked) to start
	// the race from a populated map, optionally across a restart so that
	// LoadedFromDisk circuits exist.
	for i := 0; i < prelude && r.Step(); i++ {
		s.step()
	}
	if prelude > 0 && preRestart {
		if r.Step() {
			r.Kind("prelude-restart")
		}
		s.restart(0, 0)
	}

	rc := &Race{R: r, W: s.W, Seq: s, events: make(chan revent, 16), init: s.M, D: s.D, maxOps: maxOps}
	for ik := range rc.kn {
		p := s.M.P[ik]
		rc.kn[ik] = kinfo{pending: p.Present, out: int(p.Out), closedOK: p.Closed, commitFailed: s.commitFailed[ik], routed: s.routed[ik]}
		if !p.Present {
			rc.kn[ik].out = -1
		}
	}
	rc.nextID = s.nextID
	rc.start(nClients)
	rc.loop(endCrash)
}

func (rc *Race) start(n int) {
	w := rc.W
	w.onTx = func(write bool) {
		c := rc.cur
		if c == nil || rc.crashed {
			return
		}
		rc.events <- revent{c: c, kind: evPark}
		<-c.resume
	}
	for i := 0; i < n; i++ {
		c := &rclient{id: i, req: make(chan *rop), resume: make(chan struct{})}
		rc.clients = append(rc.clients, c)
		rc.wg.Add(1)
		go rc.clientLoop(c)
	}
	rc.R.Cleanup(rc.shutdown)
}

func (rc *Race) clientLoop(c *rclient) {
	defer rc.wg.Done()
	for op := range c.req {
		func() {
			defer func() {
				if p := recover(); p != nil {
					rc.events <- revent{c: c, kind: evPanic, pv: p, stack: string(debug.Stack())}
				}
			}()
			out := rc.W.Exec(op.in)
			rc.events <- revent{c: c, kind: evReturn, out: out}
		}()
	}
}

// shutdown releases every parked client (the database is fenced, so their
// transactions fail) and waits for the goroutines to end. Runs on every exit
// path, including violations.
func (rc *Race) shutdown() {
	rc.crashed = true
	rc.W.onTx = nil
	rc.W.KV.Fence()
	for _, c := range rc.clients {
		if c.parked {
			c.parked = false
			c.resume <- struct{}{}
		}
		close(c.req)
	}
	done := make(chan struct{})
	go func() { rc.wg.Wait(); close(done) }()
	select {
	case <-done:
	case <-time.After(10 * time.Second):
	}
}

func (rc *Race) wait() revent {
	tm := time.NewTimer(60 * time.Second)
	defer tm.Stop()
	select {
	case ev := <-rc.events:
		return ev
	case <-tm.C:
		// Not a property violation: the cooperative scheduler cannot run an
		// implementation that blocks a client on a lock held across a
		// database transaction by a parked client.
		rc.R.Harness("a circuit map call did not reach a database transaction or return within 60 s of real time while every other client was parked (lock held across a transaction?)")
	}
	panic("unreachable")
}

func panicFromHarness(stack string) bool {
	lines := strings.Split(stack, "\n")
	seen := false
	for _, l := range lines {
		if strings.HasPrefix(l, "panic(") {
			seen = true
			continue
		}
		if !seen || strings.HasPrefix(l, "\t") || l == "" || strings.HasPrefix(l, "runtime.") {
			continue
		}
		return strings.HasPrefix(l, "verif/")
	}
	return true
}

// run hands the processor to client c (either starting op or resuming it) and
// waits until it parks or returns.
func (rc *Race) run(c *rclient, op *rop) {
	rc.cur = c
	if op != nil {
		c.op = op
		rc.seq++
		op.call = rc.seq
		op.client = c.id
		rc.hist = append(rc.hist, op)
		c.req <- op
	} else {
		c.parked = false
		c.resume <- struct{}{}
	}
	ev := rc.wait()
	rc.cur = nil
	if ev.c != c {
		rc.R.Harness("event from client %d while client %d runs", ev.c.id, c.id)
	}
	switch ev.kind {
	case evPark:
		c.parked = true
	case evReturn:
		rc.seq++
		op := c.op
		c.op = nil
		op.ret = rc.seq
		op.out = ev.out
		op.done = true
		if !rc.crashed {
			rc.completed(op)
		}
	case evPanic:
		if panicFromHarness(ev.stack) {
			panic(ev.pv)
		}
		rc.R.Fail("PANIC", "panic in code under test during %s: %v\n%s", c.op.in, ev.pv, ev.stack)
	}
}

func (rc *Race) idle() *rclient {
	for _, c := range rc.clients {
		if c.op == nil {
			return c
		}
	}
	return nil
}

func (rc *Race) inflight() int {
	n := 0
	for _, c := range rc.clients {
		if c.op != nil {
			n++
		}
	}
	return n
}

type rcand struct {
	kind   string
	arg    int
	weight int
}

func (rc *Race) loop(endCrash bool) {
	r, w := rc.R, rc.W
	crashNow := false
	for steps := 0; steps < 400 && r.Step(); steps++ {
		var ev []rcand
		for i, c := range rc.clients {
			if c.parked {
				ev = append(ev, rcand{"resume", i, 4})
			}
		}
		if rc.idle() != nil && len(rc.hist) < rc.maxOps {
			for a := 0; a <= w.NCh; a++ {
				if a == 0 || (w.Env.Status[a] == ChOpen && !rc.roleBusy[a]) {
					ev = append(ev, rcand{"commit", a, 2})
					if len(rc.deleteCands(a)) > 0 {
						ev = append(ev, rcand{"delete", a, 2})
					}
				}
				if a >= 1 && w.Env.Status[a] == ChOpen && (!rc.roleBusy[a] || (sharedLink && rc.openInFlight(a))) {
					if len(rc.openCands(a)) > 0 && rc.nextID[a] < MaxOut-3 {
						ev = append(ev, rcand{"open", a, 4})
					}
					if !rc.roleBusy[a] {
						ev = append(ev, rcand{"flap", a, 1})
					}
				}
			}
			ev = append(ev, rcand{"close", 0, 4}, rcand{"fail", 0, 3}, rcand{"lookup", 0, 2})
		}
		for c := 1; c <= w.NCh; c++ {
			if w.Env.Status[c] == ChOpen && !rc.roleBusy[c] && rc.nextID[c] > w.Env.Next[c] {
				ev = append(ev, rcand{"sign", c, 2})
			}
		}
		if endCrash && rc.inflight() > 0 && len(rc.hist) >= 6 {
			ev = append(ev, rcand{"crash", 0, 1})
		}
		if len(ev) == 0 {
			break
		}
		total := 0
		for _, e := range ev {
			total += e.weight
		}
		pick := r.Draw(total)
		var e rcand
		for _, c := range ev {
			if pick < c.weight {
				e = c
				break
			}
			pick -= c.weight
		}
		before := rc.inflight()
		switch e.kind {
		case "resume":
			c := rc.clients[e.arg]
			r.Kind(fmt.Sprintf("resume:%d", c.id))
			r.Logf("c%d resumes %s", c.id, c.op.in)
			rc.run(c, nil)
		case "sign":
			r.Kind(fmt.Sprintf("sign:%d", e.arg))
			w.Sign(e.arg, rc.nextID[e.arg])
			for ik := range rc.kn {
				if k := &rc.kn[ik]; k.pending && k.out >= 0 && okCh(k.out) == e.arg {
					k.routed = 0
				}
			}
			r.Logf("sign ch%d: NextLocalHtlcIndex=%d", e.arg, rc.nextID[e.arg])
		case "crash":
			r.Kind("crash")
			crashNow = true
		default:
			op := rc.makeOp(e)
			if op == nil {
				r.Kind("noop")
				continue
			}
			c := rc.idle()
			r.Kind(op.in.Kind.String())
			r.Logf("c%d calls %s", c.id, op.in)
			if before > 0 {
				rc.overlaps++
			}
			rc.run(c, op)
		}
		if crashNow {
			break
		}
		rc.noteState()
	}

	if crashNow {
		rc.finishCrash()
	} else {
		rc.finishClean()
	}
	r.Nontrivial = rc.overlaps >= 2
	if w.lockYields > 0 {
		r.Add("probe_parked_before_lock", int64(w.lockYields))
	}
}

// makeOp draws the parameters of a new call under the threading discipline.
func (rc *Race) makeOp(e rcand) *rop {
	r, w := rc.R, rc.W
	switch e.kind {
	case "commit":
		a := e.arg
		n := 1 + r.Draw(3)
		op := &rop{role: a, in: Input{Kind: OpCommit}}
		for i := 0; i < n; i++ {
			ik := ikOf(a, r.Draw(w.NIn))
			if a == 0 && rc.keyBusy[ik] {
				continue
			}
			op.in.Keys = append(op.in.Keys, ik)
			op.dest = append(op.dest, 1+r.Draw(w.NCh))
		}
		if len(op.in.Keys) == 0 {
			return nil
		}
		op.in.Objs = w.PeekObj(len(op.in.Keys))
		rc.acquire(op)
		return op

	case "delete":
		a := e.arg
		cands := rc.deleteCands(a)
		n := 1 + r.Draw(2)
		op := &rop{role: a, in: Input{Kind: OpDelete}}
		for i := 0; i < n; i++ {
			op.in.Keys = append(op.in.Keys, cands[r.Draw(len(cands))])
		}
		rc.acquire(op)
		return op

	case "open":
		c := e.arg
		cands := rc.openCands(c)
		n := 1 + r.Draw(min(2, len(cands)))
		op := &rop{role: c, nids: n, in: Input{Kind: OpOpen}}
		base := rc.nextID[c]
		if sharedLink && rc.openInFlight(c) {
			// EXPERIMENT (outside lnd's threading contract): a second
			// goroutine acts as the same link and hands out the HTLC ids
			// the first one is still binding.
			base = rc.sharedBase[c]
		}
		rc.sharedBase[c] = base
		for i := 0; i < n; i++ {
			j := i + r.Draw(len(cands)-i)
			cands[i], cands[j] = cands[j], cands[i]
			op.in.Ks = append(op.in.Ks, ksPair{In: cands[i], Out: okOf(c, base+i)})
			rc.kn[cands[i]].opening = true
		}
		if base+n > rc.nextID[c] {
			rc.nextID[c] = base + n
		}
		rc.acquire(op)
		return op

	case "flap":
		c := e.arg
		rc.nextID[c] = w.Env.Next[c]
		op := &rop{role: c, in: Input{Kind: OpTrim, Ch: c, Start: w.Env.Next[c]}}
		rc.acquire(op)
		return op

	case "close":
		// only HTLCs that reached a commitment can be answered by the peer;
		// duplicates and never-used keys are fair game
		var cands []int
		for c := 1; c <= w.NCh; c++ {
			for id := 0; id < w.Env.Next[c]; id++ {
				cands = append(cands, okOf(c, id))
			}
			if rc.nextID[c]+4 < MaxOut {
				cands = append(cands, okOf(c, rc.nextID[c]+4))
			}
		}
		// favour circuits that are open right now: that is where settle,
		// fail and delete compete
		for ik := range rc.kn {
			if k := rc.kn[ik]; k.pending && k.out >= 0 && okID(k.out) < w.Env.Next[okCh(k.out)] {
				cands = append(cands, k.out, k.out, k.out)
			}
		}
		if len(cands) == 0 {
			return nil
		}
		return &rop{role: -1, in: Input{Kind: OpClose, Keys: []int{cands[r.Draw(len(cands))]}}}

	case "fail":
		var cands []int
		for ch := 0; ch <= w.NCh; ch++ {
			for id := 0; id < w.NIn; id++ {
				ik := ikOf(ch, id)
				k := rc.kn[ik]
				if (ch == 0 && rc.keyBusy[ik]) || (ch >= 1 && rc.roleBusy[ch]) {
					continue // its link is in the middle of a call
				}
				switch {
				case k.opening:
					// the outgoing link is binding it right now: the
					// mailbox no longer owns the packet
				case k.pending && k.out >= 0:
					cands = append(cands, ik, ik, ik) // competes with the peer's settle/fail
				case k.pending:
					cands = append(cands, ik, ik)
				default:
					cands = append(cands, ik)
				}
			}
		}
		if len(cands) == 0 {
			return nil
		}
		ik := cands[r.Draw(len(cands))]
		if k := &rc.kn[ik]; k.pending && k.out < 0 {
			// FailAdd removes the packet from the mailbox: the outgoing
			// link will not open this circuit afterwards.
			k.routed = 0
			k.failIssued = true
		}
		return &rop{role: -1, in: Input{Kind: OpFail, Keys: []int{ik}}}

	case "lookup":
		switch r.Draw(5) {
		case 0:
			return &rop{role: -1, in: Input{Kind: OpNumPending}}
		case 1:
			return &rop{role: -1, in: Input{Kind: OpNumOpen}}
		case 2:
			c := 1 + r.Draw(w.NCh)
			return &rop{role: -1, in: Input{Kind: OpLookupOut, Keys: []int{okOf(c, r.Draw(min(MaxOut, rc.nextID[c]+2)))}}}
		default:
			return &rop{role: -1, in: Input{Kind: OpLookupIn, Keys: []int{ikOf(r.Draw(w.NCh+1), r.Draw(w.NIn))}}}
		}
	}
	return nil
}

func (rc *Race) acquire(op *rop) {
	if op.role >= 1 {
		rc.roleBusy[op.role] = true
	}
	if op.role == 0 {
		for _, ik := range op.in.Keys {
			rc.keyBusy[ik] = true
		}
	}
}

func (rc *Race) release(op *rop) {
	if op.role >= 1 {
		rc.roleBusy[op.role] = false
	}
	if op.role == 0 {
		for _, ik := range op.in.Keys {
			rc.keyBusy[ik] = false
		}
	}
}

func (rc *Race) openCands(c int) []int {
	var l []int
	for ik := range rc.kn {
		k := rc.kn[ik]
		if k.pending && k.out < 0 && k.routed == c && !k.closedOK && !k.failIssued && !k.opening {
			if ikCh(ik) == 0 && rc.keyBusy[ik] {
				continue
			}
			l = append(l, ik)
		}
	}
	return l
}

func (rc *Race) deleteCands(a int) []int {
	var l []int
	for id := 0; id < rc.W.NIn; id++ {
		ik := ikOf(a, id)
		k := rc.kn[ik]
		if a == 0 && rc.keyBusy[ik] {
			continue
		}
		if k.opening {
			continue
		}
		if k.pending && k.out >= 0 && okID(k.out) >= rc.W.Env.Next[okCh(k.out)] {
			// open towards an HTLC that never reached a commitment: no
			// response can exist, and deleting it would break the "no
			// disjoint segments" precondition of TrimOpenCircuits
			continue
		}
		if !k.pending || k.closedOK || k.commitFailed {
			l = append(l, ik)
		}
	}
	return l
}

// completed digests the result of a call that returned: run-long invariants,
// the exact durable state, and what the clients may do next.
func (rc *Race) completed(op *rop) {
	r := rc.R
	in, out := op.in, op.out
	r.Logf("c%d returns %s -> %s", op.client, in, out)
	rc.release(op)
	s := rc.Seq
	switch in.Kind {
	case OpCommit:
		if out.Err != ENil {
			r.Fail("result/commit", "%s failed on a healthy database: %s", in, out)
		}
		for i, ik := range in.Keys {
			if i >= len(out.Cls) {
				break
			}
			switch out.Cls[i] {
			case 'A':
				if s.fwdLive[ik] {
					r.Fail("double-forward", "%s: circuit %s returned in Adds although an earlier Add of the same incoming HTLC was never deleted (result %s)", in, ikStr(ik), out.Cls)
				}
				s.fwdLive[ik] = true
				rc.D.Add[ik] = in.Objs[i]
				rc.kn[ik] = kinfo{pending: true, out: -1, routed: op.dest[i]}
			case 'F':
				rc.kn[ik].commitFailed = true
			}
		}
	case OpOpen:
		for _, k := range in.Ks {
			rc.kn[k.In].opening = false
		}
		if out.Err == ENil {
			for _, k := range in.Ks {
				rc.D.Ks[k.Out] = int16(k.In)
				rc.kn[k.In].out = k.Out
			}
		} else {
			rc.nextID[op.role] -= op.nids
		}
	case OpTrim:
		if out.Err == ENil {
			for ik := range rc.kn {
				k := &rc.kn[ik]
				if k.pending && k.out >= 0 && okCh(k.out) == in.Ch && okID(k.out) >= in.Start {
					rc.D.Ks[k.out] = -1
					k.out = -1
				}
			}
		}
	case OpDelete:
		if out.Err == ENil {
			for _, ik := range in.Keys {
				rc.D.Add[ik] = 0
				for ok := range rc.D.Ks {
					if int(rc.D.Ks[ok]) == ik {
						rc.D.Ks[ok] = -1
					}
				}
				rc.kn[ik] = kinfo{out: -1}
				s.fwdLive[ik] = false
				s.respLive[ik] = false
			}
		}
	case OpClose, OpFail:
		if out.Err == ENil && out.N >= 0 && out.N < NInKeys {
			if s.respLive[out.N] {
				r.Fail("double-response", "%s succeeded for circuit %s although a settle/fail was already accepted for it in this process epoch and it was not deleted since", in, ikStr(out.N))
			}
			s.respLive[out.N] = true
			rc.kn[out.N].closedOK = true
			r.Count("responses_accepted")
		}
		if out.Err == ECircuitClosing {
			r.Count("probe_second_response_rejected")
		}
	}
}

func (rc *Race) noteState() {
	p, o := 0, 0
	for ik := range rc.kn {
		if rc.kn[ik].pending {
			p++
			if rc.kn[ik].out >= 0 {
				o++
			}
		}
	}
	rc.R.State(fmt.Sprintf("race p%d o%d f%d h%d", p, o, rc.inflight(), len(rc.hist)/4))
}

// --- endings -----------------------------------------------------------------

func (rc *Race) finishClean() {
	r := rc.R
	// drain: every parked call runs to completion, in a tape-chosen order
	for rc.inflight() > 0 {
		var parked []*rclient
		for _, c := range rc.clients {
			if c.parked {
				parked = append(parked, c)
			}
		}
		if len(parked) == 0 {
			r.Harness("calls in flight but nobody parked")
		}
		c := parked[0]
		if r.Step() {
			c = parked[r.Draw(len(parked))]
			r.Kind(fmt.Sprintf("drain:%d", c.id))
		}
		r.Logf("c%d resumes %s (drain)", c.id, c.op.in)
		rc.run(c, nil)
	}
	// one quiescent read of everything
	snap := &rop{role: -1, in: Input{Kind: OpSnapshot}}
	rc.run(rc.clients[0], snap)
	for guard := 0; rc.clients[0].parked; guard++ {
		// the read itself passes scheduling points (before each lock)
		if guard > 10000 {
			r.Harness("the quiescent snapshot does not finish")
		}
		rc.run(rc.clients[0], nil)
	}
	rc.checkLinearizable()

	// the database holds exactly what the completed calls persisted
	got := rc.W.DiskView("race")
	want := Project(rc.D)
	if !sameView(r, got, want.Snapshot(), "after the concurrent phase") {
		r.Fail("disk-mismatch", "after all calls returned the database holds\n got:  %s\n want: %s\n%s", got, want.Snapshot(), rc.dump())
	}
	rc.restartCheck("clean")
}

func (rc *Race) finishCrash() {
	r := rc.R
	n := rc.inflight()
	r.Count("fault_crash_mid_call")
	r.Logf("node crashes with %d calls in flight", n)
	rc.crashed = true
	rc.crashAt = rc.seq
	rc.W.KV.Fence()
	for _, c := range rc.clients {
		if c.parked {
			rc.run(c, nil)
		}
	}
	rc.checkLinearizable()
	rc.restartCheck("crash")
}

func (rc *Race) restartCheck(how string) {
	r, w := rc.R, rc.W
	w.onTx = nil
	for _, c := range rc.clients {
		if c.op != nil && !c.op.done {
			r.Harness("client %d still busy at restart", c.id)
		}
	}
	if err := w.RebootWith(nil); err != nil {
		r.Fail("restart-error", "NewCircuitMap failed after the concurrent phase (%s): %v", how, err)
	}
	_, m, info := Restart(rc.D, w.Env)
	got := w.SnapshotOf(w.CM)
	if !sameView(r, got, m.Snapshot(), "after restart") {
		r.Fail("restart-state", "after the concurrent phase (%s) and a restart the lookup API shows\n got:  %s\n want: %s\n env: next=%v\n%s", how, got, m.Snapshot(), w.Env.Next[:w.NCh+1], rc.dump())
	}
	if info.Trimmed > 0 {
		r.Count("probe_restart_rolled_back_uncommitted")
	}
	r.Count("restarts")
	r.Logf("restart ok: %s", got)
}

// --- linearizability -----------------------------------------------------------

func (rc *Race) checkLinearizable() {
	r := rc.R
	init := rc.init
	model := porcupine.Model{
		Init: func() interface{} { return init },
		Step: func(state, input, output interface{}) (bool, interface{}) {
			next, want := Step(state.(MState), input.(Input), false)
			got := output.(Output)
			if !Accepts(want, got) {
				return false, state
			}
			if got.Unknown {
				return true, next
			}
			// a failed call (not possible on a healthy database for the
			// mutating calls) leaves the state as the model says
			return true, next
		},
		Equal: func(a, b interface{}) bool { return a.(MState) == b.(MState) },
	}
	ops := make([]porcupine.Operation, 0, len(rc.hist))
	for _, op := range rc.hist {
		o := porcupine.Operation{ClientId: op.client, Input: op.in, Call: op.call}
		if op.done && !(rc.crashed && op.ret > rc.crashSeq()) {
			o.Output, o.Return = op.out, op.ret
		} else {
			o.Output, o.Return = Output{Unknown: true, N: -1}, rc.seq+10
		}
		ops = append(ops, o)
	}
	res := porcupine.CheckOperationsTimeout(model, ops, 30*time.Second)
	switch res {
	case porcupine.Ok:
		r.Count("linearizable_histories")
		r.Add("linearizability_ops", int64(len(ops)))
	case porcupine.Unknown:
		r.Count("linearizability_unknown")
	case porcupine.Illegal:
		r.Fail("not-linearizable", "no sequential order of the %d concurrent calls explains their results under the circuit map's contract\n%s", len(ops), rc.dump())
	}
}

// crashSeq is the sequence number at which the node crashed: calls returning
// after it returned into a dead process.
func (rc *Race) crashSeq() int64 {
	if rc.crashAt == 0 {
		return 1 << 60
	}
	return rc.crashAt
}

func (rc *Race) dump() string {
	var b strings.Builder
	fmt.Fprintf(&b, " initial state: %s\n", rc.init.Snapshot())
	h := append([]*rop(nil), rc.hist...)
	sort.Slice(h, func(i, j int) bool { return h[i].call < h[j].call })
	for _, op := range h {
		if op.done {
			fmt.Fprintf(&b, "  [%3d,%3d] c%d %s -> %s\n", op.call, op.ret, op.client, op.in, op.out)
		} else {
			fmt.Fprintf(&b, "  [%3d,  ?] c%d %s (in flight)\n", op.call, op.client, op.in)
		}
	}
	return b.String()
}
