package circuitsim

import "verif/simcore"

func RunRace(r *simcore.Run, thorough bool) { RunSeq(r, false) }
