package circuitsim

import (
	"fmt"
	"sort"
	"strings"
)

// ---------------------------------------------------------------------------
// Universe
//
// Incoming keys: channel index 0 (hop.Source, locally initiated payments) and
// 1..MaxCh (real channels) x HTLC id 0..NIn-1. Outgoing keys: channel 1..MaxCh
// x HTLC id 0..MaxOut-1. Everything is indexed by small integers so that the
// model state is a comparable value (porcupine caches states by equality).
// ---------------------------------------------------------------------------

const (
	MaxCh   = 3
	NInMax  = 6
	MaxOut  = 24
	NInKeys = (MaxCh + 1) * NInMax
	NOut    = MaxCh * MaxOut
	NHash   = 3
)

func ikOf(ch, id int) int { return ch*NInMax + id }
func ikCh(ik int) int     { return ik / NInMax }
func ikID(ik int) int     { return ik % NInMax }
func okOf(ch, id int) int { return (ch-1)*MaxOut + id }
func okCh(ok int) int     { return ok/MaxOut + 1 }
func okID(ok int) int     { return ok % MaxOut }

func ikStr(ik int) string {
	if ik < 0 {
		return "-"
	}
	return fmt.Sprintf("i%d.%d", ikCh(ik), ikID(ik))
}
func okStr(ok int) string {
	if ok < 0 {
		return "-"
	}
	return fmt.Sprintf("o%d.%d", okCh(ok), okID(ok))
}

// ---------------------------------------------------------------------------
// Model state. Written from the doc comments of htlcswitch/circuit_map.go and
// the property text, not from the implementation:
//
//   - a circuit is identified by its incoming key; it is "pending" from the
//     CommitCircuits that added it until DeleteCircuits;
//   - OpenCircuits binds a pending circuit to an outgoing key (keystone);
//     TrimOpenCircuits returns the channel's circuits at/above start to
//     half-open;
//   - CloseCircuit / FailCircuit mark a circuit as closing in memory: the
//     second of them gets ErrCircuitClosing until the circuit is deleted;
//   - circuits restored from disk carry LoadedFromDisk.
// ---------------------------------------------------------------------------

type pent struct {
	Present bool
	Loaded  bool
	Closed  bool
	Out     int16  // out-key index or -1
	Obj     uint16 // identity of the PaymentCircuit object / payload
}

// MState is the volatile (in-memory) state of the circuit map.
type MState struct {
	P [NInKeys]pent
}

// DState is the durable state: the circuit-adds and circuit-keystones buckets.
type DState struct {
	Add [NInKeys]uint16 // 0 = absent, else Obj
	Ks  [NOut]int16     // -1 = absent, else in-key index
}

func newMState() MState {
	var m MState
	for i := range m.P {
		m.P[i].Out = -1
	}
	return m
}

func newDState() DState {
	var d DState
	for i := range d.Ks {
		d.Ks[i] = -1
	}
	return d
}

func (m *MState) openedBy(ok int) int {
	for ik := range m.P {
		if m.P[ik].Present && int(m.P[ik].Out) == ok {
			return ik
		}
	}
	return -1
}

func (m *MState) numPending() int {
	n := 0
	for i := range m.P {
		if m.P[i].Present {
			n++
		}
	}
	return n
}

func (m *MState) numOpen() int {
	n := 0
	for i := range m.P {
		if m.P[i].Present && m.P[i].Out >= 0 {
			n++
		}
	}
	return n
}

// ---------------------------------------------------------------------------
// Operations
// ---------------------------------------------------------------------------

type OpKind uint8

const (
	OpCommit OpKind = iota
	OpOpen
	OpTrim
	OpClose
	OpFail
	OpDelete
	OpLookupIn
	OpLookupOut
	OpNumPending
	OpNumOpen
	OpByHash
	OpSnapshot
)

var opNames = [...]string{"commit", "open", "trim", "close", "fail", "delete", "lookupIn", "lookupOut", "numPending", "numOpen", "byHash", "snapshot"}

func (k OpKind) String() string { return opNames[k] }

type ksPair struct{ In, Out int }

// Input describes one API call on the circuit map.
type Input struct {
	Kind  OpKind
	Keys  []int    // commit/delete: in-keys; lookupIn/fail: [in]; close/lookupOut: [out]
	Objs  []uint16 // commit: object identity per position
	Ks    []ksPair // open
	Ch    int      // trim: channel; byHash: hash index
	Start int      // trim
}

func (in Input) String() string {
	var b strings.Builder
	b.WriteString(in.Kind.String())
	b.WriteByte('(')
	switch in.Kind {
	case OpCommit:
		for i, k := range in.Keys {
			if i > 0 {
				b.WriteByte(' ')
			}
			fmt.Fprintf(&b, "%s#%d", ikStr(k), in.Objs[i])
		}
	case OpDelete, OpFail, OpLookupIn:
		for i, k := range in.Keys {
			if i > 0 {
				b.WriteByte(' ')
			}
			b.WriteString(ikStr(k))
		}
	case OpClose, OpLookupOut:
		b.WriteString(okStr(in.Keys[0]))
	case OpOpen:
		for i, k := range in.Ks {
			if i > 0 {
				b.WriteByte(' ')
			}
			fmt.Fprintf(&b, "%s->%s", ikStr(k.In), okStr(k.Out))
		}
	case OpTrim:
		fmt.Fprintf(&b, "ch%d start=%d", in.Ch, in.Start)
	case OpByHash:
		fmt.Fprintf(&b, "h%d", in.Ch)
	}
	b.WriteByte(')')
	return b.String()
}

type ErrClass uint8

const (
	ENil ErrClass = iota
	EUnknownCircuit
	ECircuitClosing
	EDupKeystone
	EOther
)

var errNames = [...]string{"ok", "ErrUnknownCircuit", "ErrCircuitClosing", "ErrDuplicateKeystone", "other-error"}

func (e ErrClass) String() string { return errNames[e] }

// Output is the observable result of one call, in a comparable form.
type Output struct {
	Err ErrClass
	// Alt, when non-zero, is a second error class the contract also allows
	// (only meaningful on the model side).
	Alt ErrClass
	// Cls: commit: one of A/D/F per input position. lookupIn: description of
	// the circuit. byHash/snapshot: canonical listing.
	Cls string
	// N: numPending/numOpen; close/fail: in-key of the returned circuit (-1
	// on error); lookupOut: in-key or -1.
	N int
	// Unknown is set for calls that never returned (crash with the call in
	// flight): any outcome is accepted.
	Unknown bool
}

func (o Output) String() string {
	if o.Unknown {
		return "<no return>"
	}
	s := o.Err.String()
	if o.Cls != "" {
		s += " " + o.Cls
	}
	return fmt.Sprintf("%s n=%d", s, o.N)
}

// describe renders the view LookupCircuit gives of one pending circuit.
func (p pent) describe() string {
	if !p.Present {
		return "nil"
	}
	s := fmt.Sprintf("#%d", p.Obj)
	if p.Out >= 0 {
		s += ">" + okStr(int(p.Out))
	}
	if p.Loaded {
		s += "L"
	}
	return s
}

func hashOfObj(obj uint16) int { return int(obj) % NHash }

func (m *MState) byHash(h int) string {
	var l []string
	for ik := range m.P {
		p := m.P[ik]
		if p.Present && p.Out >= 0 && hashOfObj(p.Obj) == h {
			l = append(l, ikStr(ik))
		}
	}
	sort.Strings(l)
	return strings.Join(l, ",")
}

// Snapshot is the canonical rendering of everything the lookup API shows.
func (m *MState) Snapshot() string {
	var b strings.Builder
	fmt.Fprintf(&b, "P%d O%d|", m.numPending(), m.numOpen())
	for ik := range m.P {
		if m.P[ik].Present {
			fmt.Fprintf(&b, "%s=%s ", ikStr(ik), m.P[ik].describe())
		}
	}
	b.WriteByte('|')
	for ok := 0; ok < NOut; ok++ {
		if ik := m.openedBy(ok); ik >= 0 {
			fmt.Fprintf(&b, "%s<%s ", okStr(ok), ikStr(ik))
		}
	}
	b.WriteByte('|')
	for h := 0; h < NHash; h++ {
		fmt.Fprintf(&b, "h%d:%s ", h, m.byHash(h))
	}
	return b.String()
}

// Step is the sequential specification: the state after the call and the
// output the contract prescribes. It is pure. writeFails says the call's
// database write was made to fail (documented rollback behaviour applies).
func Step(m MState, in Input, writeFails bool) (MState, Output) {
	out := Output{N: -1}
	switch in.Kind {
	case OpCommit:
		// "The list of circuits is split into three distinct sub-sequences":
		// keystone set -> drop; not loaded from disk -> drop (packet is still
		// in the outgoing mailbox); otherwise the in-memory packet was lost
		// in a restart -> fail. Unknown in-key -> add.
		cls := make([]byte, len(in.Keys))
		var added []int
		for i, ik := range in.Keys {
			p := m.P[ik]
			switch {
			case p.Present && p.Out >= 0:
				cls[i] = 'D'
			case p.Present && !p.Loaded:
				cls[i] = 'D'
			case p.Present:
				cls[i] = 'F'
			default:
				cls[i] = 'A'
				m.P[ik] = pent{Present: true, Out: -1, Obj: in.Objs[i]}
				added = append(added, ik)
			}
		}
		if writeFails && len(added) > 0 {
			// "rollback the circuits added to the pending set ... return
			// the dropped packets and mark all other circuits as failed".
			for _, ik := range added {
				m.P[ik] = pent{Out: -1}
			}
			for i := range cls {
				if cls[i] == 'A' {
					cls[i] = 'F'
				}
			}
			out.Err = EOther
		}
		out.Cls = string(cls)

	case OpOpen:
		dup, unk := false, false
		for _, k := range in.Ks {
			if m.openedBy(k.Out) >= 0 {
				dup = true
			}
			if !m.P[k.In].Present {
				unk = true
			}
		}
		switch {
		case dup && unk:
			out.Err, out.Alt = EDupKeystone, EUnknownCircuit
		case dup:
			out.Err = EDupKeystone
		case unk:
			out.Err = EUnknownCircuit
		case len(in.Ks) == 0:
		case writeFails:
			out.Err = EOther
		default:
			for _, k := range in.Ks {
				m.P[k.In].Out = int16(k.Out)
			}
		}

	case OpTrim:
		// "removes a channel's keystones above the short chan id's highest
		// committed htlc index ... returning those circuits to a half-open
		// state". The generator only issues it when the keystones at/above
		// start are contiguous (the documented precondition).
		n := 0
		for ik := range m.P {
			p := &m.P[ik]
			if p.Present && p.Out >= 0 && okCh(int(p.Out)) == in.Ch && okID(int(p.Out)) >= in.Start {
				p.Out = -1
				n++
			}
		}
		if writeFails && n > 0 {
			out.Err = EOther
		}

	case OpClose:
		ik := m.openedBy(in.Keys[0])
		switch {
		case ik < 0:
			out.Err = EUnknownCircuit
		case m.P[ik].Closed:
			out.Err = ECircuitClosing
		default:
			m.P[ik].Closed = true
			out.N = ik
		}

	case OpFail:
		ik := in.Keys[0]
		switch {
		case !m.P[ik].Present:
			out.Err = EUnknownCircuit
		case m.P[ik].Closed:
			out.Err = ECircuitClosing
		default:
			m.P[ik].Closed = true
			out.N = ik
		}

	case OpDelete:
		unknown := false
		if writeFails {
			// "If the persistent changes failed, restore the circuit map
			// to it's previous state."
			out.Err = EOther
			break
		}
		for _, ik := range in.Keys {
			if !m.P[ik].Present {
				unknown = true
				continue
			}
			m.P[ik] = pent{Out: -1}
		}
		if unknown {
			// The interface comment promises ErrUnknownCircuit, the method
			// comment says unknown keys are ignored: both are accepted.
			out.Alt = EUnknownCircuit
		}

	case OpLookupIn:
		out.Cls = m.P[in.Keys[0]].describe()

	case OpLookupOut:
		out.N = m.openedBy(in.Keys[0])

	case OpNumPending:
		out.N = m.numPending()

	case OpNumOpen:
		out.N = m.numOpen()

	case OpByHash:
		out.Cls = m.byHash(in.Ch)

	case OpSnapshot:
		out.Cls = m.Snapshot()
		if !judgeHashIndex {
			out.Cls = coreView(out.Cls)
		}
	}
	return m, out
}

// Accepts reports whether the observed output is one the contract allows.
func Accepts(want, got Output) bool {
	if got.Unknown {
		return true
	}
	if got.Err != want.Err {
		if want.Alt == ENil || got.Err != want.Alt {
			return false
		}
		// alternative error class: no further fields to compare
		return got.N == -1 || got.N == want.N
	}
	return got.Cls == want.Cls && got.N == want.N
}

// ---------------------------------------------------------------------------
// Durable effects and restart
// ---------------------------------------------------------------------------

// DiskEffect applies to d what a successful write of the call persists, given
// the memory state before (pre) and after (post) the call.
func DiskEffect(d DState, pre, post MState, in Input) DState {
	switch in.Kind {
	case OpCommit:
		for i, ik := range in.Keys {
			if !pre.P[ik].Present && post.P[ik].Present && post.P[ik].Obj == in.Objs[i] {
				d.Add[ik] = in.Objs[i]
			}
		}
	case OpOpen:
		for _, k := range in.Ks {
			if post.P[k.In].Present && int(post.P[k.In].Out) == k.Out && int(pre.P[k.In].Out) != k.Out {
				d.Ks[k.Out] = int16(k.In)
			}
		}
	case OpTrim:
		for ik := range pre.P {
			if pre.P[ik].Present && pre.P[ik].Out >= 0 && post.P[ik].Out < 0 {
				d.Ks[pre.P[ik].Out] = -1
			}
		}
	case OpDelete:
		for _, ik := range in.Keys {
			if pre.P[ik].Present && !post.P[ik].Present {
				d.Add[ik] = 0
				if pre.P[ik].Out >= 0 {
					d.Ks[pre.P[ik].Out] = -1
				}
			}
		}
	}
	return d
}

// ChanStatus of a channel in the channel database.
type ChanStatus uint8

const (
	ChNone         ChanStatus = iota // not a channel of this node
	ChOpen                           // in the open-channel bucket, confirmed
	ChPendingClose                   // close summary with IsPending (closing tx confirmed, not fully resolved)
	ChClosed                         // fully closed
)

// Env is what the channel database and the resolution store say at start-up.
type Env struct {
	NCh    int
	Status [MaxCh + 1]ChanStatus
	Next   [MaxCh + 1]int // durable NextLocalHtlcIndex
	ResMsg [NOut]bool
	// TrimPendingClose: judge the property sentence "those that did not
	// [reach a commitment] are rolled back to half-open" for channels in the
	// pending-close state as well.
	TrimPendingClose bool
	// ScanStopsAtGap describes the implementation's forward scan (stop at the
	// first HTLC id without a keystone). Never used to accept a result, only
	// to name the deviation when the property's sentence is violated.
	ScanStopsAtGap bool
}

// RestartInfo carries probe information out of Restart.
type RestartInfo struct {
	PurgedIn, PurgedOut, KeptRes, Trimmed, Strays int
}

// Restart is the property's last sentence: "After a restart the switch knows
// exactly the circuits that were durably recorded: those whose outgoing HTLC
// reached a commitment stay open, those that did not are rolled back to
// half-open ..., and circuits of fully closed channels are purged except those
// still awaiting delivery of an on-chain resolution."
func Restart(d DState, env Env) (DState, MState, RestartInfo) {
	var info RestartInfo
	closed := func(ch int) bool { return ch != 0 && env.Status[ch] == ChClosed }

	// Purge circuits of fully closed channels.
	for ik := range d.Add {
		if d.Add[ik] != 0 && closed(ikCh(ik)) {
			d.Add[ik] = 0
			info.PurgedIn++
		}
	}
	for ok := range d.Ks {
		ik := int(d.Ks[ok])
		if ik < 0 {
			continue
		}
		if closed(ikCh(ik)) {
			d.Ks[ok] = -1
			d.Add[ik] = 0
			continue
		}
		if closed(okCh(ok)) {
			if env.ResMsg[ok] {
				info.KeptRes++
				continue
			}
			d.Ks[ok] = -1
			if d.Add[ik] != 0 {
				info.PurgedOut++
			}
			d.Add[ik] = 0
		}
	}

	// Load.
	m := newMState()
	for ik := range d.Add {
		if d.Add[ik] != 0 {
			m.P[ik] = pent{Present: true, Loaded: true, Out: -1, Obj: d.Add[ik]}
		}
	}
	for ok := range d.Ks {
		ik := int(d.Ks[ok])
		if ik < 0 {
			continue
		}
		if !m.P[ik].Present {
			info.Strays++
			continue
		}
		m.P[ik].Out = int16(ok)
	}

	// Roll back what did not reach a commitment.
	for ch := 1; ch <= MaxCh; ch++ {
		st := env.Status[ch]
		if !(st == ChOpen || (st == ChPendingClose && env.TrimPendingClose)) {
			continue
		}
		for id := env.Next[ch]; id < MaxOut; id++ {
			ok := okOf(ch, id)
			ik := int(d.Ks[ok])
			if ik < 0 || !m.P[ik].Present {
				if env.ScanStopsAtGap {
					break
				}
				continue
			}
			d.Ks[ok] = -1
			if int(m.P[ik].Out) == ok {
				m.P[ik].Out = -1
			}
			info.Trimmed++
		}
	}
	return d, m, info
}

// Project is the memory state a database holding d shows when it is loaded
// without any channel information (no purge, no trim).
func Project(d DState) MState {
	_, m, _ := Restart(d, Env{})
	return m
}
