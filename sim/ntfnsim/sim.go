package ntfnsim

import (
	"fmt"
	"os"
	"runtime/debug"
	"testing/synctest"

	"github.com/btcsuite/btcd/chainhash/v2"
	"github.com/btcsuite/btcd/wire/v2"
	"github.com/lightningnetwork/lnd/chainntnfs"
	"github.com/lightningnetwork/lnd/channeldb"

	"verif/simcore"
)

// Knobs are the per-run swarm parameters.
type Knobs struct {
	Arm        string
	SyncRescan bool // rescans are answered inside the registration step (no race)
	Restarts   bool
	Faults     bool
	Limit      uint32 // reorg safety limit handed to the TxNotifier
	MaxSteps   int
	MaxClients int

	PInclude     int // a candidate tx enters a new block with probability 1/PInclude
	ConnectW     int
	DisconnectW  int
	StickyW      int // extra disconnect weight right after a disconnect (deep reorgs)
	RegisterW    int
	CancelW      int
	ScanW        int
	DeliverW     int
	RestartW     int
	ReadW        int
	FaultW       int
	SplitDen     int  // 0: never split ConnectTip/NotifyHeight; else 1/SplitDen
	LazyDen      int  // 0: all clients prompt; else a client is lazy with probability 1/LazyDen
	StaleDeliver bool // deliver rescan answers that name a block no longer on the chain
	BadHints     bool // allow client hints above the actual inclusion height

	// backend-glue arms (drawn last): chain events reach the TxNotifier
	// through a dispatcher that uses chainntnfs.RewindChain/HandleMissedBlocks
	Glue        bool
	GlueFaulty  bool // transient RPC failures and lost notifications
	GlueAsync   bool // notifications may be delivered after further chain events
	QueryDisableDen int // 0: never; else a restarted instance runs with QueryDisable with probability 1/den
	GlueAtomic  bool // reorgs are single chain events (the backend never shows a shortened chain)
	GlueRPCDen  int  // an RPC fails with probability 1/GlueRPCDen ...
	GlueMaxRPC  int  // ... at most this often per run
	GlueDropDen int  // a notification is lost with probability 1/GlueDropDen ...
	GlueMaxDrop int  // ... at most this often per run
	NtfnW       int  // weight of delivering a pending notification
}

// reqState is the simulator's bookkeeping for one notification request
// (txid+script, script, outpoint+script or spent script) within one notifier
// epoch (= lifetime of one TxNotifier instance).
type reqState struct {
	key   string
	spend bool

	// what it matches
	txIdx    int    // conf by txid: universe tx index; else -1
	script   []byte // conf: output script; spend by script: the spent script
	opIdx    int    // spend by outpoint: universe outpoint index; else -1
	byScript bool

	confReq  chainntnfs.ConfRequest
	spendReq chainntnfs.SpendRequest

	maxHint uint32 // highest client hint ever given for it (whole run)

	// epoch state
	registered  bool
	firstRegSeq int        // event counter when the notifier started watching it
	outstanding *rescan    // a HistoricalDispatch handed out and not yet answered
	dropped     bool       // its rescan failed in the backend: never answered
	grp         *hintGroup // requests sharing one persisted hint (the cache keys conf hints by txid alone)
	multi       bool       // more than one matching tx was on the chain at once (script reuse): semantics left open
	stale       bool       // a stale rescan answer naming a vanished block was delivered
	orphan      bool       // a positive rescan answer arrived while no client was subscribed any more
	// orphanHint: such an answer also moved the PERSISTED hint to the height
	// of details nobody tracks for reorgs; unlike the cached details this
	// survives a restart (the hint stays above the event if that block is
	// disconnected and the transaction re-mined lower).
	orphanHint bool

	// whole run: the request was registered with some notifier instance;
	// taint: in an earlier epoch it was fed a stale answer, an orphan answer,
	// or its rescan was never answered (consequences of recorded findings may
	// sit in the persisted hint)
	everRegistered bool
	taint          bool
}

// judged reports whether the liveness/hint obligations apply to the request.
func (rs *reqState) judged() bool {
	return rs.grp.allOK && !rs.multi && !rs.stale
}

func (rs *reqState) answered() bool { return rs.registered && rs.outstanding == nil && !rs.dropped }

func (rs *reqState) resetEpoch() {
	if rs.stale || rs.orphan || rs.orphanHint || rs.dropped || rs.outstanding != nil {
		rs.taint = true
	}
	rs.registered, rs.outstanding, rs.dropped = false, nil, false
	rs.stale, rs.orphan = false, false
	// multi stays: what an earlier epoch persisted for a reused script
	// (several transactions paying it) is not judged either.
}

// hintGroup: allOK says every client hint given so far (whole run: a wrong
// client hint ends up in the database and survives restarts) for any
// request stored under this cache key was at or below the height at which the
// request is actually confirmed/spent; a client that breaks its promise
// forfeits what the property guarantees.
type hintGroup struct {
	allOK    bool
	regEpoch int // last epoch in which some request of the group was registered (-1: never)
	// lowest tip the chain was rolled back to while no notifier instance was
	// watching any request of the group (noLow: no such rollback)
	unwatchedLow uint32
	// frozen: the persisted hint was seen more than one block above the tip
	// while the request's historical rescan was unanswered (DisconnectTip
	// does not lower the hints of such requests)
	frozen bool
}

const noLow = ^uint32(0)

// rescan is a HistoricalDispatch travelling through the simulated backend.
type rescan struct {
	rs         *reqState
	start, end uint32
	scanned    bool
	failed     bool // the scan hit an error (range above the tip): the backend drops it
	found      *hit // answer computed at scan time (never recomputed)
	scanTip    uint32
}

// hit is one occurrence of a matching transaction on the active chain.
type hit struct {
	b     *blk
	pos   int // index inside the block
	tx    *txDef
	inIdx int // spend: index of the spending input
	op    int // spend: universe outpoint that is spent
}

type client struct {
	id    int
	rs    *reqState
	n     uint32 // required confirmations (1 for spends)
	hint  uint32
	incl  bool
	lazy  bool
	cev   *chainntnfs.ConfirmationEvent
	sev   *chainntnfs.SpendEvent
	epoch int

	regSeq int
	alive  bool
	done   bool

	told    bool // holds an un-retracted Confirmed/Spend
	toldBlk *blk
	due     bool // the model says it must have been told by now
	dueBlk  *blk
	dirty   bool // a lazy client whose channels were drained to unblock the notifier: not judged any more

	seenNotice    bool // observed a NegativeConf/Reorg at least once
	noticePending bool // lazy: a notice was seen entering the channel and is accounted for already
}

func (c *client) String() string {
	k := "conf"
	if c.rs.spend {
		k = "spend"
	}
	return fmt.Sprintf("%s-client#%d[%s n=%d]", k, c.id, c.rs.key, c.n)
}

type callCtx struct {
	kind string // ConnectTip, NotifyHeight, DisconnectTip, Register, Update, Cancel
	blk  *blk   // block connected/disconnected
}

// Sim is one simulated world.
type Sim struct {
	R *simcore.Run
	K Knobs
	U *universe

	base   uint32 // height of the notifier at the very start; blocks at or below are prehistory
	chain  []*blk
	floor  uint32 // blocks at or below this height have reached the safety limit: final
	serial uint32
	seq    int

	kv    *simcore.SimKV
	cache *channeldb.HeightHintCache
	// probe: the simulator's own view of the persisted hints (the node's
	// cache may run with QueryDisable)
	probe         *channeldb.HeightHintCache
	queryDisabled bool
	nt    *chainntnfs.TxNotifier
	ntUp  bool
	epoch int
	depth int  // blocks disconnected in a row (this epoch)
	half  *blk // ConnectTip done, NotifyHeight still to come

	clients  []*client
	groups   map[string]*hintGroup
	reqs     map[string]*reqState
	reqOrder []*reqState
	rescans  []*rescan

	cur callCtx
	g   *glue // backend-glue arms only

	// evidence
	notices    int // reorg notices observed
	retold     int // confirmations/spends observed after a notice
	steps      int
	faultHit   bool
	faultArmed bool
	firedFail  int
}

func NewSim(r *simcore.Run, k Knobs, u *universe, base uint32) *Sim {
	s := &Sim{R: r, K: k, U: u, base: base, floor: base, reqs: map[string]*reqState{}, groups: map[string]*hintGroup{}}
	kv, err := simcore.OpenSimKV(r.SubDir("db"), "hints.db")
	r.Must(err, "open simkv")
	s.kv = kv
	r.Cleanup(func() { kv.Close() })
	s.boot()
	return s
}

func (s *Sim) tip() uint32 { return s.base + uint32(len(s.chain)) }

func (s *Sim) tipHash() chainhash.Hash {
	if len(s.chain) == 0 {
		var h chainhash.Hash
		copy(h[:], h256("prehistory"))
		return h
	}
	return s.chain[len(s.chain)-1].hash
}

func (s *Sim) blockAt(h uint32) *blk {
	if h <= s.base || h > s.tip() {
		return nil
	}
	return s.chain[h-s.base-1]
}

// boot creates the hint cache and a TxNotifier at the current tip.
func (s *Sim) boot() {
	cache, err := channeldb.NewHeightHintCache(channeldb.CacheConfig{QueryDisable: s.queryDisabled}, s.kv)
	s.R.Must(err, "height hint cache")
	s.cache = cache
	s.probe = cache
	if s.queryDisabled {
		s.probe, err = channeldb.NewHeightHintCache(channeldb.CacheConfig{}, s.kv)
		s.R.Must(err, "height hint cache (probe)")
	}
	s.nt = chainntnfs.NewTxNotifier(s.tip(), s.K.Limit, cache, cache)
	s.ntUp = true
	s.depth = 0
	s.half = nil
	if s.g != nil {
		s.glueBoot()
	}
}

// Close releases a possibly blocked notifier goroutine.
func (s *Sim) Close() {
	if s.ntUp {
		s.ntUp = false
		func() {
			defer func() { _ = recover() }()
			s.nt.TearDown()
		}()
		synctest.Wait()
	}
}

// fail reports a violation; violations on a request that was fed a stale
// rescan answer are attributed to that (one structural signature).
func (s *Sim) fail(rs *reqState, code, format string, args ...interface{}) {
	msg := fmt.Sprintf(format, args...)
	hintFamily := code == "hint-above-event" || code == "confirmed-not-told" || code == "spend-not-told" || code == "rescan-range-misses"
	if rs != nil && rs.grp.frozen && hintFamily {
		k := "conf"
		if rs.spend {
			k = "spend"
		}
		s.R.FailSig("hint-frozen-pending-rescan", k, "%s [earlier in this run the persisted hint of %s stayed above the tip after DisconnectTip because its historical rescan was still unanswered; consequence class %s]", msg, rs.key, code)
	}
	if s.g != nil {
		if blk, way := s.glueTainted(rs); blk != nil {
			k := "conf"
			if rs != nil && rs.spend {
				k = "spend"
			}
			if way == "mixed-catch-up" {
				if dispatcherMirrorStale() {
					s.R.Unjudged("depends on the mirrored dispatcher control flow, which no longer matches the tree")
				}
				s.R.FailSig("catch-up-mixes-branches", k, "%s [backend glue: while catching up after missed blocks, HandleMissedBlocks filled the gap with blocks of the backend's CURRENT chain and the dispatcher then connected the announced block %v, which by then belonged to another branch, on top of them without checking that it extends them; the TxNotifier was fed a sequence that is no chain and what it recorded for the transactions concerned stays wrong; consequence class %s]", msg, blk, code)
			}
			s.R.FailSig("rewind-adopts-foreign-best", k, "%s [backend glue: RewindChain took the hash of the new best block from the backend's CURRENT chain, which had already switched branches, so the dispatcher adopted a block the TxNotifier never saw; the disconnect of %v, the block the TxNotifier really has at that height, was then lost (RPC error or missed notification), and HandleMissedBlocks sees nothing to rewind because the dispatcher's best hash is on the active chain; consequence class %s]", msg, blk, code)
		}
	}
	if s.faultHit && s.g == nil {
		switch code {
		case "hint-above-event", "confirmed-not-told", "spend-not-told", "rescan-range-misses":
			s.R.FailSig(code, "after-fault", "%s [faulty arm: earlier in this run a hint write was lost (injected I/O error, or crash inside a notifier call)]", msg)
		}
	}
	kind := "conf"
	if rs != nil && rs.spend {
		kind = "spend"
	}
	if rs != nil && rs.orphanHint && !rs.orphan && !rs.stale && hintFamily {
		s.R.FailSig("orphan-details-untracked", kind, "%s [in an earlier process epoch request %s received a positive historical-rescan answer while it had no subscriber left: its persisted hint was moved to the height of details that nobody tracked for reorgs and stayed there when that block was disconnected; consequence class %s]", msg, rs.key, code)
	}
	if rs != nil && rs.orphan && !rs.stale {
		s.R.FailSig("orphan-details-untracked", kind, "%s [request %s received a positive historical-rescan answer while it had no subscriber left; consequence class %s]", msg, rs.key, code)
	}
	if rs != nil && rs.stale {
		s.R.FailSig("stale-rescan-accepted", kind, "%s [request %s was earlier handed a historical rescan answer naming a block that had already left the active chain; consequence class %s]", msg, rs.key, code)
	}
	s.R.Fail(code, "%s", msg)
}

// call runs one TxNotifier method in its own goroutine and waits until it has
// returned or is durably blocked on a client channel.
func (s *Sim) call(what string, f func() error) error {
	var (
		err      error
		finished bool
		pan      *lndPanic
	)
	go func() {
		defer func() {
			if p := recover(); p != nil {
				pan = &lndPanic{val: p, stack: trim(string(debug.Stack()))}
			}
			finished = true
		}()
		err = f()
	}()
	synctest.Wait()
	for tries := 0; !finished; tries++ {
		s.R.Count("probe_call_blocked")
		tainted := false
		for _, rs := range s.reqOrder {
			if rs.stale || rs.orphan {
				tainted = true
			}
		}
		if !tainted {
			s.R.Count("probe_call_blocked_untainted")
			if os.Getenv("VERIF_NTFN_STRICT_BLOCK") != "" {
				s.R.Fail("blocked-on-slow-client", "%s blocks (holding the notifier lock) on a send to a client that has not read its channels yet, although the channels are sized so that sends never block (strict mode VERIF_NTFN_STRICT_BLOCK)", what)
			}
		}
		s.R.Logf("  .. %s is blocked sending on a client channel", what)
		// A slow client reads eventually: let the lazy ones drain.
		if tries > 6 || !s.unblockByLazy() {
			s.R.Fail("notifier-blocked", "%s blocks forever sending to a client although every promptly reading client has emptied its channels: no further notification can be delivered (tip %d)", what, s.tip())
		}
		synctest.Wait()
	}
	if pan != nil {
		if panicFromLnd(pan.stack) {
			if blk, _ := s.glueTaintedAny(); blk != nil {
				s.fail(nil, "PANIC", "panic in code under test during %s: %v\n%s", what, pan.val, pan.stack)
			}
			// a crash of the notifier that follows a tainted rescan answer
			// belongs to that finding
			for _, rs := range s.reqOrder {
				if rs.stale || rs.orphan {
					s.fail(rs, "PANIC", "panic in code under test during %s: %v\n%s", what, pan.val, pan.stack)
				}
			}
			s.R.Fail("PANIC", "panic in code under test during %s: %v\n%s", what, pan.val, pan.stack)
		}
		s.R.Harness("panic in simulator during %s: %v\n%s", what, pan.val, pan.stack)
	}
	return err
}

// unblockByLazy drains the channels of lazy clients (they stop being judged).
func (s *Sim) unblockByLazy() bool {
	progress := false
	for _, c := range s.clients {
		if !c.alive || !c.lazy || c.epoch != s.epoch {
			continue
		}
		b := s.pull(c)
		if b.count() > 0 {
			progress = true
			c.dirty = true
			s.R.Logf("  %v drained %d pending events to unblock the notifier (no longer judged)", c, b.count())
		}
	}
	return progress
}

// ---- matching against the block-list model ---------------------------------

func (s *Sim) txMatchesConf(rs *reqState, t *txDef) bool {
	if rs.txIdx >= 0 && t.idx != rs.txIdx {
		return false
	}
	for _, o := range t.outs {
		if string(o) == string(rs.script) {
			return true
		}
	}
	return false
}

func (s *Sim) txMatchesSpend(rs *reqState, t *txDef) (int, int, bool) {
	for i, k := range t.ins {
		if rs.byScript {
			if string(s.U.ops[k].pkScript) == string(rs.script) {
				return i, k, true
			}
		} else if k == rs.opIdx {
			return i, k, true
		}
	}
	return 0, 0, false
}

func (s *Sim) txMatches(rs *reqState, t *txDef) bool {
	if rs.spend {
		_, _, ok := s.txMatchesSpend(rs, t)
		return ok
	}
	return s.txMatchesConf(rs, t)
}

func (s *Sim) matchesIn(rs *reqState, b *blk) []hit {
	var out []hit
	for p, ti := range b.txs {
		t := s.U.txs[ti]
		if rs.spend {
			if in, op, ok := s.txMatchesSpend(rs, t); ok {
				out = append(out, hit{b: b, pos: p + 1, tx: t, inIdx: in, op: op})
			}
		} else if s.txMatchesConf(rs, t) {
			out = append(out, hit{b: b, pos: p + 1, tx: t})
		}
	}
	return out
}

// matches lists every occurrence on the active chain, lowest height first.
func (s *Sim) matches(rs *reqState) []hit {
	var out []hit
	for _, b := range s.chain {
		out = append(out, s.matchesIn(rs, b)...)
	}
	return out
}

func describeHits(hs []hit) string {
	if len(hs) == 0 {
		return "nowhere (not on the active chain)"
	}
	str := ""
	for i, h := range hs {
		if i > 0 {
			str += ", "
		}
		str += fmt.Sprintf("by T%d at index %d of %v (hash %s)", h.tx.idx, h.pos, h.b, short(h.b.hash))
	}
	return str
}

func short(h chainhash.Hash) string { return h.String()[:10] }

// ---- reading client channels ------------------------------------------------

type evBatch struct {
	upd    []chainntnfs.TxUpdateInfo
	conf   []*chainntnfs.TxConfirmation
	neg    []int32
	spend  []*chainntnfs.SpendDetail
	reorg  int
	done   int
	closed bool
}

func (b *evBatch) count() int {
	return len(b.upd) + len(b.conf) + len(b.neg) + len(b.spend) + b.reorg + b.done
}

// pull empties the client's channels without blocking.
func (s *Sim) pull(c *client) evBatch {
	var b evBatch
	if c.rs.spend {
		for {
			select {
			case d, ok := <-c.sev.Spend:
				if !ok {
					b.closed = true
					return b
				}
				b.spend = append(b.spend, d)
				continue
			default:
			}
			break
		}
		for {
			select {
			case _, ok := <-c.sev.Reorg:
				if !ok {
					b.closed = true
					return b
				}
				b.reorg++
				continue
			default:
			}
			break
		}
		for {
			select {
			case _, ok := <-c.sev.Done:
				if !ok {
					b.closed = true
					return b
				}
				b.done++
				continue
			default:
			}
			break
		}
		return b
	}
	for {
		select {
		case u, ok := <-c.cev.Updates:
			if !ok {
				b.closed = true
				return b
			}
			b.upd = append(b.upd, u)
			continue
		default:
		}
		break
	}
	for {
		select {
		case d, ok := <-c.cev.Confirmed:
			if !ok {
				b.closed = true
				return b
			}
			b.conf = append(b.conf, d)
			continue
		default:
		}
		break
	}
	for {
		select {
		case d, ok := <-c.cev.NegativeConf:
			if !ok {
				b.closed = true
				return b
			}
			b.neg = append(b.neg, d)
			continue
		default:
		}
		break
	}
	for {
		select {
		case _, ok := <-c.cev.Done:
			if !ok {
				b.closed = true
				return b
			}
			b.done++
			continue
		default:
		}
		break
	}
	return b
}

// afterCall lets every promptly reading client consume what the call sent and
// judges each event against the model.
func (s *Sim) afterCall() {
	for _, c := range s.clients {
		if !c.alive || c.epoch != s.epoch {
			continue
		}
		if c.lazy {
			s.observeLazy(c)
			continue
		}
		b := s.pull(c)
		if b.closed {
			s.fail(c.rs, "channel-closed", "%v: a notification channel was closed although the client neither cancelled nor was the notifier stopped", c)
		}
		if b.count() == 0 {
			continue
		}
		if s.g != nil && s.g.lag {
			s.judgeLag(c, b)
			continue
		}
		s.judge(c, b, false)
	}
}

// pendingLens reports how many confirmations/spends and reorg notices sit
// unread in the client's channels (looking without consuming).
func pendingLens(c *client) (int, int) {
	if c.rs.spend {
		return len(c.sev.Spend), len(c.sev.Reorg)
	}
	return len(c.cev.Confirmed), len(c.cev.NegativeConf)
}

// observeLazy: a lazy client does not read, but the simulator can see whether
// the notifier placed the reorg notice it owes when the block of a
// confirmation the client has already consumed is disconnected.
func (s *Sim) observeLazy(c *client) {
	if c.dirty || s.cur.kind != "DisconnectTip" || !c.told || c.toldBlk != s.cur.blk {
		return
	}
	if _, notices := pendingLens(c); notices == 0 {
		s.fail(c.rs, "missing-reorg-notice", "%v consumed the notification for %v; that block has now been disconnected and no reorg notice was sent", c, c.toldBlk)
	}
	s.R.Count("probe_lazy_notice_sent")
	c.told, c.toldBlk, c.noticePending = false, nil, true
	c.seenNotice = true
	s.notices++
}

// readLazy is a lazy client finally reading its channels (only at settled points).
func (s *Sim) readLazy(c *client) {
	b := s.pull(c)
	if b.closed {
		s.fail(c.rs, "channel-closed", "%v: a notification channel was closed although the client neither cancelled nor was the notifier stopped", c)
	}
	if c.dirty {
		return
	}
	if b.count() > 0 {
		s.judge(c, b, true)
	}
	s.settleClient(c)
}

func (s *Sim) judge(c *client, b evBatch, lazy bool) {
	rs := c.rs
	if len(b.conf) > 1 || len(b.neg) > 1 || len(b.spend) > 1 || b.reorg > 1 || b.done > 1 {
		s.fail(rs, "duplicate-event", "%v read %d Confirmed, %d NegativeConf, %d Spend, %d Reorg, %d Done at once", c, len(b.conf), len(b.neg), len(b.spend), b.reorg, b.done)
	}
	if ((len(b.conf) > 0 && len(b.neg) > 0) || (len(b.spend) > 0 && b.reorg > 0)) && !rs.multi {
		// Two channels, no order between them: the client cannot tell
		// "confirmed then reorged" from "reorged then confirmed again".
		s.fail(rs, "ambiguous-pending", "%v finds both a confirmation/spend and a reorg notice pending: their order, and so whether the request is currently confirmed, cannot be recovered", c)
	}
	if !lazy {
		for _, u := range b.upd {
			s.onUpdate(c, u)
		}
	}
	for _, d := range b.conf {
		s.onConfirmed(c, d, lazy)
	}
	for _, d := range b.neg {
		s.onNotice(c, d, lazy)
	}
	for _, d := range b.spend {
		s.onSpend(c, d, lazy)
	}
	for i := 0; i < b.reorg; i++ {
		s.onNotice(c, -1, lazy)
	}
	for i := 0; i < b.done; i++ {
		s.onDone(c)
	}
}

func (s *Sim) onUpdate(c *client, u chainntnfs.TxUpdateInfo) {
	s.R.Logf("  %v <- Updates{left=%d height=%d}", c, u.NumConfsLeft, u.BlockHeight)
	hs := s.matches(c.rs)
	for _, h := range hs {
		if h.b.height != u.BlockHeight {
			continue
		}
		want := uint32(0)
		if last := h.b.height + c.n - 1; last > s.tip() {
			want = last - s.tip()
		}
		if u.NumConfsLeft == want {
			return
		}
		s.fail(c.rs, "bad-update", "%v was told %d confirmations are left for the tx in the block at height %d, but with the tip at %d the model says %d", c, u.NumConfsLeft, u.BlockHeight, s.tip(), want)
	}
	s.fail(c.rs, "bad-update", "%v was told the tx sits in the block at height %d (%d confirmations left), but on the active chain the request is matched %s", c, u.BlockHeight, u.NumConfsLeft, describeHits(hs))
}

func (s *Sim) onConfirmed(c *client, d *chainntnfs.TxConfirmation, lazy bool) {
	rs := c.rs
	if d == nil || d.BlockHash == nil || d.Tx == nil {
		s.fail(rs, "bad-conf-details", "%v received a Confirmed without block hash or transaction", c)
	}
	s.R.Logf("  %v <- Confirmed{block=%s height=%d index=%d tx=%s}", c, short(*d.BlockHash), d.BlockHeight, d.TxIndex, short(d.Tx.TxHash()))
	if c.told && !lazy {
		s.fail(rs, "double-confirmed", "%v received a second Confirmed (block %s height %d) without a reorg notice in between; it still holds the one for %v", c, short(*d.BlockHash), d.BlockHeight, c.toldBlk)
	}
	hs := s.matches(rs)
	var m *hit
	for i := range hs {
		h := &hs[i]
		if *d.BlockHash == h.b.hash && d.BlockHeight == h.b.height && d.TxIndex == uint32(h.pos) && d.Tx.TxHash() == h.tx.hash {
			m = h
		}
	}
	if m == nil {
		s.fail(rs, "bad-conf-details", "%v received Confirmed{block %s, height %d, index %d, tx %s} but on the active chain (tip %d) the request is matched %s", c, short(*d.BlockHash), d.BlockHeight, d.TxIndex, short(d.Tx.TxHash()), s.tip(), describeHits(hs))
	}
	if reach := m.b.height + c.n - 1; (!lazy && s.tip() < reach) || m.b.peak < reach {
		s.fail(rs, "premature-confirmed", "%v asked for %d confirmations and received Confirmed for the tx in %v while the tip is %d (%d confirmations)", c, c.n, m.b, s.tip(), s.tip()-m.b.height+1)
	}
	if c.incl {
		// (a block handed to a client that did not ask for one is harmless
		// and not judged)
		if d.Block == nil {
			s.fail(rs, "block-not-included", "%v registered WithIncludeBlock, but the Confirmed for %v carries no block", c, m.b)
		}
		if d.Block.BlockHash() != m.b.hash {
			s.fail(rs, "bad-conf-details", "%v asked for the block to be included; the Confirmed carries another block than %v", c, m.b)
		}
	}
	if c.seenNotice {
		s.retold++
	}
	c.told, c.toldBlk = true, m.b
}

// onNotice handles NegativeConf (depth>=0) and spend Reorg (depth<0).
func (s *Sim) onNotice(c *client, depth int32, lazy bool) {
	rs := c.rs
	if rs.spend {
		s.R.Logf("  %v <- Reorg", c)
	} else {
		s.R.Logf("  %v <- NegativeConf{depth=%d}", c, depth)
	}
	c.seenNotice = true
	s.notices++
	if lazy {
		// Read late: all that can be said is that it retracts.
		if c.noticePending {
			c.noticePending = false
			s.notices--
			return
		}
		c.told, c.toldBlk = false, nil
		return
	}
	if s.cur.kind != "DisconnectTip" {
		s.fail(rs, "spurious-reorg-notice", "%v received a reorg notice during %s, which disconnects nothing", c, s.cur.kind)
	}
	if len(s.matchesIn(rs, s.cur.blk)) == 0 {
		s.fail(rs, "spurious-reorg-notice", "%v received a reorg notice while %v was disconnected, a block that does not contain the watched transaction/spend", c, s.cur.blk)
	}
	if rs.spend && !c.told {
		s.fail(rs, "spurious-reorg-notice", "%v received a spend Reorg without holding a Spend", c)
	}
	if c.told && c.toldBlk != s.cur.blk {
		s.fail(rs, "spurious-reorg-notice", "%v holds a notification for %v but received the reorg notice when %v was disconnected", c, c.toldBlk, s.cur.blk)
	}
	if !rs.spend && int(depth) != s.depth {
		s.fail(rs, "bad-reorg-depth", "%v received NegativeConf depth %d, but %d blocks have been disconnected in a row", c, depth, s.depth)
	}
	c.told, c.toldBlk = false, nil
}

func (s *Sim) onSpend(c *client, d *chainntnfs.SpendDetail, lazy bool) {
	rs := c.rs
	if d == nil || d.SpenderTxHash == nil || d.SpendingTx == nil || d.SpentOutPoint == nil {
		s.fail(rs, "bad-spend-details", "%v received a Spend with missing fields", c)
	}
	s.R.Logf("  %v <- Spend{tx=%s height=%d input=%d op=%v}", c, short(*d.SpenderTxHash), d.SpendingHeight, d.SpenderInputIndex, shortOp(*d.SpentOutPoint))
	if c.told && !lazy {
		s.fail(rs, "double-spend-ntfn", "%v received a second Spend (tx %s height %d) without a Reorg in between", c, short(*d.SpenderTxHash), d.SpendingHeight)
	}
	hs := s.matches(rs)
	var m *hit
	for i := range hs {
		h := &hs[i]
		if *d.SpenderTxHash == h.tx.hash && d.SpendingTx.TxHash() == h.tx.hash && d.SpendingHeight == int32(h.b.height) &&
			d.SpenderInputIndex == uint32(h.inIdx) && *d.SpentOutPoint == s.U.ops[h.op].op {
			m = h
		}
	}
	if m == nil {
		s.fail(rs, "bad-spend-details", "%v received Spend{tx %s, height %d, input %d, outpoint %s} but on the active chain (tip %d) the request is spent %s", c, short(*d.SpenderTxHash), d.SpendingHeight, d.SpenderInputIndex, shortOp(*d.SpentOutPoint), s.tip(), describeHits(hs))
	}
	if c.seenNotice {
		s.retold++
	}
	c.told, c.toldBlk = true, m.b
}

func shortOp(o wire.OutPoint) string { return fmt.Sprintf("%s:%d", short(o.Hash), o.Index) }

func (s *Sim) onDone(c *client) {
	rs := c.rs
	s.R.Logf("  %v <- Done", c)
	s.R.Count("probe_done")
	hs := s.matches(rs)
	ok := false
	for _, h := range hs {
		// (peak, not tip: a lazy client may read the Done after the tip has
		// fallen back again)
		if h.b.peak-h.b.height+1 >= s.K.Limit {
			ok = true
		}
	}
	if !ok {
		s.fail(rs, "premature-done", "%v received Done (no longer at risk of a reorg) with safety limit %d, but on the active chain (tip %d) the request is matched %s", c, s.K.Limit, s.tip(), describeHits(hs))
	}
	if !c.told && !c.lazy {
		s.fail(rs, "premature-done", "%v received Done without ever holding the confirmation/spend it finalises", c)
	}
	c.done = true
}

// ---- settled-state oracle ---------------------------------------------------

// settle is evaluated whenever the notifier is between chain events
// (after ConnectTip+NotifyHeight, DisconnectTip, registrations, rescan answers).
func (s *Sim) settle() {
	// script reuse: more than one match at once leaves the expected
	// confirmation open.
	for _, rs := range s.reqOrder {
		if rs.registered && !rs.multi && len(s.matches(rs)) > 1 {
			rs.multi = true
			s.R.Count("probe_script_reuse")
		}
	}
	for _, c := range s.clients {
		if !c.alive || c.epoch != s.epoch {
			continue
		}
		s.updateDue(c)
		s.settleClient(c)
	}
	s.checkHints()
	told, out := 0, 0
	for _, c := range s.clients {
		if c.alive && c.told {
			told++
		}
	}
	for _, q := range s.rescans {
		if !q.failed {
			out++
		}
	}
	s.R.State(fmt.Sprintf("%d/%d/%d/%d/%d", s.tip()-s.base, s.depth, told, out, s.epoch))
}

func (s *Sim) updateDue(c *client) {
	rs := c.rs
	hs := s.matches(rs)
	if c.due {
		still := false
		for _, h := range hs {
			if h.b == c.dueBlk {
				still = true
			}
		}
		if !still {
			c.due, c.dueBlk = false, nil
		}
	}
	if c.due || c.done || len(hs) != 1 || !rs.judged() {
		return
	}
	h := hs[0]
	if s.tip() < h.b.height+c.n-1 {
		return
	}
	if rs.answered() || h.b.seq > c.regSeq {
		c.due, c.dueBlk = true, h.b
	}
}

func (s *Sim) settleClient(c *client) {
	if c.dirty || c.done {
		return
	}
	rs := c.rs
	what := "Confirmed"
	if rs.spend {
		what = "Spend"
	}
	if c.told && !c.toldBlk.onChain {
		s.fail(rs, "missing-reorg-notice", "%v still holds the %s for %v, which has been disconnected from the active chain, and has received no reorg notice", c, what, c.toldBlk)
	}
	if pend, _ := pendingLens(c); c.due && !c.told && !(c.lazy && pend > 0) {
		why := "its historical rescan has been answered"
		if c.dueBlk.seq > c.regSeq {
			why = "the block was connected after it registered"
		}
		if rs.spend {
			s.fail(rs, "spend-not-told", "%v: the watched output is spent in %v on the active chain (tip %d) and %s, yet the client holds no Spend", c, c.dueBlk, s.tip(), why)
		}
		s.fail(rs, "confirmed-not-told", "%v: the transaction is in %v and has %d confirmations on the active chain (tip %d) and %s, yet the client holds no Confirmed", c, c.dueBlk, s.tip()-c.dueBlk.height+1, s.tip(), why)
	}
}

// queryHint reads the persisted hint of a request; ok=false when none is stored.
func (s *Sim) queryHint(rs *reqState) (uint32, bool) {
	var (
		hint uint32
		err  error
	)
	if rs.spend {
		hint, err = s.probe.QuerySpendHint(rs.spendReq)
		if err == chainntnfs.ErrSpendHintNotFound {
			return 0, false
		}
	} else {
		hint, err = s.probe.QueryConfirmHint(rs.confReq)
		if err == chainntnfs.ErrConfirmHintNotFound {
			return 0, false
		}
	}
	s.R.Must(err, "query hint")
	return hint, true
}

// checkUnwatchedHint judges the persisted hint of a request that an earlier
// notifier instance watched and the current one was never asked about (all its
// clients cancelled before the restart): a later registration will start its
// rescan there. The hint is the earlier instance's responsibility unless the
// chain was rolled back below it while nobody watched (unwatchedLow), or one
// of the recorded findings may have left its mark on it.
func (s *Sim) checkUnwatchedHint(rs *reqState) {
	if rs.taint || rs.grp.frozen || rs.orphanHint || rs.grp.regEpoch == s.epoch {
		return
	}
	hint, ok := s.queryHint(rs)
	if !ok || rs.grp.unwatchedLow < hint {
		return
	}
	hs := s.matches(rs)
	if len(hs) == 0 {
		return
	}
	s.R.Count("probe_unwatched_hint_judged")
	if hint > hs[0].b.height {
		verb := "confirmed"
		if rs.spend {
			verb = "spent"
		}
		s.fail(rs, "hint-above-event", "persisted height hint for %s is %d, but the request is %s at height %d on the active chain (tip %d); the request is not registered with the current notifier instance, an earlier instance left the hint there although the chain was never rolled back below it while nobody watched: a later registration rescans from the hint and misses it", rs.key, hint, verb, hs[0].b.height, s.tip())
	}
}

// checkHints: a persisted hint never lies above the height at which the
// request is confirmed/spent on the active chain.
func (s *Sim) checkHints() {
	for _, rs := range s.reqOrder {
		if !rs.registered && rs.everRegistered && rs.judged() {
			s.checkUnwatchedHint(rs)
			continue
		}
		if !rs.registered || !rs.judged() {
			continue
		}
		hint, ok := s.queryHint(rs)
		if !ok {
			continue
		}
		hs := s.matches(rs)
		verb := "confirmed"
		if rs.spend {
			verb = "spent"
		}
		if !rs.answered() && hint > s.tip()+1 && !rs.grp.frozen {
			rs.grp.frozen = true
			s.R.Count("probe_hint_frozen_above_tip")
		}
		if len(hs) > 0 {
			if hint > hs[0].b.height {
				s.fail(rs, "hint-above-event", "persisted height hint for %s is %d, but the request is %s at height %d on the active chain (tip %d): a rescan starting at the hint after a restart misses it", rs.key, hint, verb, hs[0].b.height, s.tip())
			}
			continue
		}
	}
}
