// Package ntfnsim is the deterministic simulation engine for property C14:
// confirmation and spend notifications of chainntnfs.TxNotifier follow the
// active chain through any reorg, and persisted height hints never skip the
// confirmation/spend.
//
// The real TxNotifier and the real channeldb.HeightHintCache (on a SimKV
// bbolt file) run unmodified. The simulator owns the chain backend (blocks,
// reorgs, historical rescans and when their answers arrive), the clients
// (registration, cancellation, how promptly they read their channels) and
// restarts. The oracle is a block-list model of the active chain.
package ntfnsim

import (
	"crypto/sha256"
	"encoding/binary"
	"fmt"
	"time"

	"github.com/btcsuite/btcd/address/v2"
	"github.com/btcsuite/btcd/btcutil/v2"
	"github.com/btcsuite/btcd/chainhash/v2"
	"github.com/btcsuite/btcd/wire/v2"
)

// scriptKind is the script type of a watched outpoint.
type scriptKind int

const (
	kWSH scriptKind = iota
	kWPKH
	kTR
)

func (k scriptKind) String() string { return [...]string{"p2wsh", "p2wpkh", "p2tr"}[k] }

// opDef is one watchable outpoint of the universe.
type opDef struct {
	idx      int
	op       wire.OutPoint
	kind     scriptKind
	pkScript []byte         // the script a client registers with
	witness  wire.TxWitness // a witness spending it
	parent   int            // -1: pre-existing output; else index of the tx creating it (output 0)
}

// txDef is one transaction of the universe. Its content never changes; the
// chain decides whether and where it is included.
type txDef struct {
	idx    int
	msg    *wire.MsgTx
	hash   chainhash.Hash
	ins    []int    // indices into universe.ops, in input order
	outs   [][]byte // output scripts
	parent int      // -1 or the tx whose output it spends
}

type universe struct {
	ops []*opDef
	txs []*txDef
	// pool[k] is the script every tx whose first input is ops[k] pays to at
	// output 0 (so that a script watcher sees either of two conflicting
	// transactions).
	pool [][]byte
}

func h256(s string) []byte { h := sha256.Sum256([]byte(s)); return h[:] }

func p2wsh(witnessScript []byte) []byte {
	h := sha256.Sum256(witnessScript)
	return append([]byte{0x00, 0x20}, h[:]...)
}

func poolWitnessScript(k int) []byte { return []byte{0x52, byte(k), 0x75, 0x51} }

// uniqueScript returns a standard output script that only transaction i pays to.
func uniqueScript(i int) []byte {
	h := h256(fmt.Sprintf("unique-%d", i))
	switch i % 5 {
	case 0: // p2pkh
		return append(append([]byte{0x76, 0xa9, 0x14}, h[:20]...), 0x88, 0xac)
	case 1: // p2sh
		return append(append([]byte{0xa9, 0x14}, h[:20]...), 0x87)
	case 2: // p2wpkh
		return append([]byte{0x00, 0x14}, h[:20]...)
	case 3: // p2wsh
		return append([]byte{0x00, 0x20}, h...)
	default: // p2tr
		return append([]byte{0x51, 0x20}, h...)
	}
}

// universeCfg are the per-run structural draws.
type universeCfg struct {
	nBase  int   // pre-existing outpoints 1..3
	kinds  []int // script kind per base outpoint
	nTx    int   // 2..6
	first  []int // first input (op index) per tx
	second []int // second input (op index or -1) per tx
	child  bool  // last tx spends output 0 of tx 0
	reuse  []int // per tx: additional output paying the pool script of this op (-1 none)
}

func buildUniverse(c universeCfg) *universe {
	u := &universe{}
	for k := 0; k < c.nBase; k++ {
		var fund chainhash.Hash
		copy(fund[:], h256(fmt.Sprintf("funding-%d", k)))
		o := &opDef{idx: k, op: wire.OutPoint{Hash: fund, Index: uint32(k)}, kind: scriptKind(c.kinds[k]), parent: -1}
		sig := append([]byte{0x30, 0x44, byte(k)}, h256(fmt.Sprintf("sig-%d", k))...)
		switch o.kind {
		case kWSH:
			ws := []byte{0x51, byte(k), 0x75, 0x52, 0xae}
			o.pkScript = p2wsh(ws)
			o.witness = wire.TxWitness{sig, ws}
		case kWPKH:
			pk := append([]byte{0x02}, h256(fmt.Sprintf("pubkey-%d", k))...)
			o.pkScript = append([]byte{0x00, 0x14}, address.Hash160(pk)...)
			o.witness = wire.TxWitness{sig, pk}
		case kTR:
			o.pkScript = append([]byte{0x51, 0x20}, h256(fmt.Sprintf("trkey-%d", k))...)
			o.witness = wire.TxWitness{append(h256("schnorr-r"), h256(fmt.Sprintf("schnorr-s-%d", k))...)}
		}
		u.ops = append(u.ops, o)
		u.pool = append(u.pool, p2wsh(poolWitnessScript(k)))
	}
	nOps := c.nBase
	if c.child {
		nOps++ // the derived outpoint (tx0:0), filled in below
		u.pool = append(u.pool, p2wsh(poolWitnessScript(c.nBase)))
	}
	for i := 0; i < c.nTx; i++ {
		t := &txDef{idx: i, parent: -1}
		first := c.first[i] % c.nBase
		t.ins = []int{first}
		if c.child && i == c.nTx-1 && i > 0 {
			t.ins = []int{c.nBase}
			t.parent = 0
			first = c.nBase
		} else if s := c.second[i]; s >= 0 && s%c.nBase != first {
			t.ins = append(t.ins, s%c.nBase)
		}
		t.outs = [][]byte{u.pool[first], uniqueScript(i)}
		if r := c.reuse[i]; r >= 0 && r%len(u.pool) != first {
			t.outs = append(t.outs, u.pool[r%len(u.pool)])
		}
		u.txs = append(u.txs, t)
	}
	// Build tx 0 first (the derived outpoint needs its hash), then the rest.
	build := func(t *txDef) {
		m := wire.NewMsgTx(2)
		for _, k := range t.ins {
			o := u.ops[k]
			m.AddTxIn(wire.NewTxIn(&o.op, nil, o.witness))
		}
		for j, s := range t.outs {
			m.AddTxOut(wire.NewTxOut(int64(10000+100*t.idx+j), s))
		}
		t.msg = m
		t.hash = m.TxHash()
	}
	build(u.txs[0])
	if c.child {
		k := c.nBase
		first0 := u.txs[0].ins[0]
		o := &opDef{idx: k, op: wire.OutPoint{Hash: u.txs[0].hash, Index: 0}, kind: kWSH, parent: 0}
		o.pkScript = u.pool[first0]
		o.witness = wire.TxWitness{[]byte{0x30, 0x45, byte(k)}, poolWitnessScript(first0)}
		u.ops = append(u.ops, o)
	}
	for _, t := range u.txs[1:] {
		build(t)
	}
	return u
}

func (u *universe) conflict(a, b *txDef) bool {
	for _, x := range a.ins {
		for _, y := range b.ins {
			if x == y {
				return true
			}
		}
	}
	return false
}

// blk is one block instance of the simulated backend.
type blk struct {
	hash    chainhash.Hash
	height  uint32
	txs     []int // universe tx indices; position i is block index i+1 (0 is the coinbase)
	ub      *btcutil.Block
	seq     int    // value of the simulator's event counter when it was connected
	serial  uint32 // unique block number (for logs)
	onChain bool
	peak    uint32 // highest tip reached while this block was on the chain
}

func (b *blk) String() string {
	if b == nil {
		return "<none>"
	}
	return fmt.Sprintf("B%d@%d", b.serial, b.height)
}

// makeBlock builds a block on top of prev that contains the given transactions.
func (u *universe) makeBlock(prev chainhash.Hash, height, serial uint32, txs []int) *blk {
	hdr := wire.BlockHeader{
		Version:   1,
		PrevBlock: prev,
		Timestamp: time.Unix(1600000000+int64(serial)*600, 0),
		Bits:      0x207fffff,
		Nonce:     serial,
	}
	mroot := sha256.New()
	msg := wire.NewMsgBlock(&hdr)
	cb := wire.NewMsgTx(1)
	var hb [8]byte
	binary.LittleEndian.PutUint32(hb[:4], height)
	binary.LittleEndian.PutUint32(hb[4:], serial)
	cb.AddTxIn(wire.NewTxIn(wire.NewOutPoint(&chainhash.Hash{}, 0xffffffff), append([]byte{0x08}, hb[:]...), nil))
	cb.AddTxOut(wire.NewTxOut(50_0000_0000, []byte{0x51}))
	msg.AddTransaction(cb)
	h := cb.TxHash()
	mroot.Write(h[:])
	for _, i := range txs {
		msg.AddTransaction(u.txs[i].msg)
		mroot.Write(u.txs[i].hash[:])
	}
	copy(msg.Header.MerkleRoot[:], mroot.Sum(nil))
	ub := btcutil.NewBlock(msg)
	ub.SetHeight(int32(height))
	return &blk{hash: *ub.Hash(), height: height, txs: append([]int(nil), txs...), ub: ub, serial: serial}
}
