package ntfnsim

// The dispatcher stub in glue.go mirrors, statement by statement, code of
// lnd that cannot run without a live backend connection object:
// BitcoindNotifier.notificationDispatcher and handleBlockConnected. Two
// recorded findings sit in that mirrored control flow. A mirror can go stale
// without anybody noticing, so the text it was written against is pinned
// here: if the two functions in the tree being checked no longer have that
// text, situations whose verdict depends on the mirrored control flow are
// left unjudged (counted as run_ended_unjudged) instead of being reported
// either way.

import (
	"crypto/sha256"
	"encoding/hex"
	"fmt"
	"os"
	"path/filepath"
	"strings"
	"sync"
)

// mirroredTextHash is the SHA-256 of the normalised text of the two functions
// at the time the mirror was written and last compared by hand.
const mirroredTextHash = "e81f54b5aa8f2874cb04a8563f246fd0c0e4aa8f42d99e845222a845aabbcc49"

var (
	mirrorOnce  sync.Once
	mirrorStale bool
)

func funcText(src, header string) string {
	i := strings.Index(src, header)
	if i < 0 {
		return ""
	}
	rest := src[i:]
	j := strings.Index(rest, "\n}\n")
	if j < 0 {
		return ""
	}
	var out []string
	for _, l := range strings.Split(rest[:j+2], "\n") {
		l = strings.TrimSpace(l)
		if l == "" || strings.HasPrefix(l, "//") {
			continue
		}
		out = append(out, l)
	}
	return strings.Join(out, "\n")
}

func mirroredSourceHash(repo string) (string, error) {
	b, err := os.ReadFile(filepath.Join(repo, "chainntnfs", "bitcoindnotify", "bitcoind.go"))
	if err != nil {
		return "", err
	}
	src := string(b)
	a := funcText(src, "func (b *BitcoindNotifier) notificationDispatcher() {")
	c := funcText(src, "func (b *BitcoindNotifier) handleBlockConnected(block chainntnfs.BlockEpoch) error {")
	if a == "" || c == "" {
		return "", fmt.Errorf("mirrored functions not found")
	}
	h := sha256.Sum256([]byte(a + "\n----\n" + c))
	return hex.EncodeToString(h[:]), nil
}

// dispatcherMirrorStale reports whether the mirrored lnd code differs from the
// text the mirror was written against (checked once per process).
func dispatcherMirrorStale() bool {
	mirrorOnce.Do(func() {
		repo := os.Getenv("VERIF_REPO")
		if repo == "" {
			repo = "/repo"
		}
		h, err := mirroredSourceHash(repo)
		if err != nil || h != mirroredTextHash {
			mirrorStale = true
			if os.Getenv("VERIF_SHARD") == "" || strings.HasPrefix(os.Getenv("VERIF_SHARD"), "0/") {
				fmt.Fprintf(os.Stderr, "WARNING: chainntnfs/bitcoindnotify/bitcoind.go (notificationDispatcher, handleBlockConnected) no longer has the text the dispatcher mirror of ntfnsim was written against (%v %s): situations that depend on the mirrored control flow are left unjudged\n", err, h)
			}
		}
	})
	return mirrorStale
}
