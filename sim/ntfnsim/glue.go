package ntfnsim

// The "backend-glue" arms: chain events reach the TxNotifier the way a
// concrete notifier delivers them. The simulator changes its own chain, tells a
// dispatcher what bitcoind would tell it (block connected / disconnected
// notifications, some of them possibly lost), and the dispatcher - a
// simulator-side mirror of the unexported notificationDispatcher loop of
// chainntnfs/bitcoindnotify/bitcoind.go - applies them through the REAL
// exported glue of package chainntnfs (RewindChain, HandleMissedBlocks and,
// underneath, GetCommonBlockAncestorHeight / getMissedBlocks) over a
// chainntnfs.ChainConn that answers from the simulator's block-list chain and
// may fail transiently.

import (
	"errors"
	"fmt"

	"github.com/btcsuite/btcd/btcjson"
	"github.com/btcsuite/btcd/chainhash/v2"
	"github.com/btcsuite/btcd/wire/v2"
	"github.com/lightningnetwork/lnd/chainntnfs"
)

// ntfnMsg is what bitcoind tells the dispatcher: chain.BlockConnected /
// chain.BlockDisconnected (only hash and height are used by the dispatcher).
type ntfnMsg struct {
	connected bool
	b         *blk
}

func (m ntfnMsg) String() string {
	k := "BlockDisconnected"
	if m.connected {
		k = "BlockConnected"
	}
	return fmt.Sprintf("%s{%v %s}", k, m.b, short(m.b.hash))
}

// glue is the state of the simulated backend connection and of the
// dispatcher stub.
type glue struct {
	faulty bool // this run injects backend faults
	async  bool // notifications may wait in the queue while the chain moves on

	rpcDen, dropDen   int // a fault fires with probability 1/den at each opportunity
	rpcLeft, dropLeft int // remaining fault budget of the run
	faultsOn          bool

	// bitcoind side
	all     map[chainhash.Hash]*blk // every block ever mined (bitcoind keeps reorged-out blocks)
	allList []*blk                  // the same, in mining order
	genesis wire.BlockHeader        // header served for the prehistory block
	queue   []ntfnMsg               // notifications emitted and not yet delivered
	depth   int                     // blocks disconnected in a row on the simulator's chain

	// dispatcher side (mirror of BitcoindNotifier.bestBlock)
	best chainntnfs.BlockEpoch

	// view is the chain the TxNotifier has been given, going by the contract
	// of the glue ("RewindChain returns the new best block for the
	// notifier"); trusted is dropped when a returned best block is not the
	// block the view has at that height.
	view    []*blk
	trusted bool
	lag     bool // judge the events of the current call with the safety clauses only

	// evidence
	rpcFaults, drops int
	rejected         int  // ConnectTip/DisconnectTip calls the TxNotifier refused as out of order
	lagged           bool // the dispatcher was behind the chain at least once
	recovered        int  // times it caught up again after having been behind
	// staleBest: HandleMissedBlocks rewound the TxNotifier and succeeded, but
	// the dispatcher kept its pre-rewind best block because the first block
	// to connect afterwards could not be fetched.
	staleBest bool
	// foreignBest: a rewind made the dispatcher adopt, as its best block, a
	// block that is not the one the TxNotifier has at that height.
	foreignBest bool
	// shadowed: blocks the TxNotifier held at a height for which the
	// dispatcher adopted another block as its best block.
	shadowed map[*blk]bool
	// staleKept: at a moment when the dispatcher stood at the tip, the
	// TxNotifier still held shadowed blocks that are not on the active chain
	// (and nothing else distinguished its chain from the active one).
	staleKept *blk
	// taintTx: transactions of blocks at heights where the TxNotifier's chain
	// and the active chain differed while a further block was connected on
	// top (sticky until the next restart: what the TxNotifier recorded for
	// requests matching them may be wrong from then on); taintBlk is the stale
	// block that was kept.
	// staleWhenConnected: blocks that were announced, but no longer on the
	// active chain by the time the dispatcher connected them
	staleWhenConnected map[*blk]bool
	taintTx            map[int]bool
	taintBlk           *blk
	taintKind          string // "foreign-best" or "mixed-catch-up"
	lastErr            string
}

func (s *Sim) glueInit() {
	g := &glue{all: map[chainhash.Hash]*blk{}, trusted: true, shadowed: map[*blk]bool{}}
	g.faulty = s.K.GlueFaulty
	g.async = s.K.GlueAsync
	g.rpcDen, g.dropDen = s.K.GlueRPCDen, s.K.GlueDropDen
	if g.faulty {
		g.rpcLeft, g.dropLeft = s.K.GlueMaxRPC, s.K.GlueMaxDrop
		g.faultsOn = true
	}
	g.genesis = wire.BlockHeader{Version: 1, Bits: 0x207fffff, Nonce: 0xfeed}
	s.g = g
	s.glueBoot()
}

// glueBoot is startNotifier: the dispatcher adopts the backend's best block.
func (s *Sim) glueBoot() {
	g := s.g
	h := s.tipHash()
	hdr := g.genesis
	if b := s.blockAt(s.tip()); b != nil {
		hdr = b.ub.MsgBlock().Header
	}
	g.best = chainntnfs.BlockEpoch{Height: int32(s.tip()), Hash: &h, BlockHeader: &hdr}
	g.view = append([]*blk(nil), s.chain...)
	g.trusted = true
	g.queue = nil
	g.lag = false
	g.staleKept, g.staleBest = nil, false
	g.shadowed = map[*blk]bool{}
	g.taintTx, g.taintBlk, g.taintKind = map[int]bool{}, nil, ""
	g.staleWhenConnected = map[*blk]bool{}
}

// ---- chainntnfs.ChainConn over the block-list chain --------------------------

type glueConn struct{ s *Sim }

var _ chainntnfs.ChainConn = (*glueConn)(nil)

var errRPCTransient = errors.New("simulated transient RPC failure (connection reset)")

// rpcFault decides by the tape whether this RPC fails (0 = no fault).
func (c *glueConn) rpcFault(what string) bool {
	s, g := c.s, c.s.g
	if !g.faultsOn || g.rpcLeft == 0 {
		return false
	}
	if s.R.Draw(g.rpcDen) != g.rpcDen-1 {
		return false
	}
	g.rpcLeft--
	g.rpcFaults++
	s.faultHit = true
	s.R.Count("fault_backend_rpc_error")
	s.R.Logf("    rpc %s -> transient failure (injected)", what)
	return true
}

func (c *glueConn) lookup(hash *chainhash.Hash) (*blk, bool) {
	s := c.s
	if b, ok := s.g.all[*hash]; ok {
		return b, true
	}
	var pre chainhash.Hash
	copy(pre[:], h256("prehistory"))
	if *hash == pre {
		return nil, true
	}
	return nil, false
}

func (c *glueConn) GetBlockHeader(hash *chainhash.Hash) (*wire.BlockHeader, error) {
	if c.rpcFault(fmt.Sprintf("getblockheader %s", short(*hash))) {
		return nil, errRPCTransient
	}
	b, ok := c.lookup(hash)
	if !ok {
		return nil, fmt.Errorf("-5: Block not found")
	}
	hdr := c.s.g.genesis
	if b != nil {
		hdr = b.ub.MsgBlock().Header
	}
	return &hdr, nil
}

func (c *glueConn) GetBlockHeaderVerbose(hash *chainhash.Hash) (*btcjson.GetBlockHeaderVerboseResult, error) {
	if c.rpcFault(fmt.Sprintf("getblockheader(verbose) %s", short(*hash))) {
		return nil, errRPCTransient
	}
	b, ok := c.lookup(hash)
	if !ok {
		return nil, fmt.Errorf("-5: Block not found")
	}
	res := &btcjson.GetBlockHeaderVerboseResult{Hash: hash.String(), Height: int32(c.s.base), Confirmations: int64(c.s.tip()-c.s.base) + 1}
	if b != nil {
		res.Height = int32(b.height)
		res.PreviousHash = b.ub.MsgBlock().Header.PrevBlock.String()
		res.Confirmations = -1
		if b.onChain {
			res.Confirmations = int64(c.s.tip()-b.height) + 1
		}
	}
	return res, nil
}

func (c *glueConn) GetBlockHash(height int64) (*chainhash.Hash, error) {
	if c.rpcFault(fmt.Sprintf("getblockhash %d", height)) {
		return nil, errRPCTransient
	}
	s := c.s
	if height < int64(s.base) || height > int64(s.tip()) {
		return nil, fmt.Errorf("-8: Block height out of range")
	}
	if height == int64(s.base) {
		var pre chainhash.Hash
		copy(pre[:], h256("prehistory"))
		return &pre, nil
	}
	h := s.blockAt(uint32(height)).hash
	return &h, nil
}

// getBlock is BitcoindNotifier.GetBlock (not part of ChainConn, but an RPC of
// the same connection that handleBlockConnected depends on).
func (c *glueConn) getBlock(hash *chainhash.Hash) (*blk, error) {
	if c.rpcFault(fmt.Sprintf("getblock %s", short(*hash))) {
		return nil, errRPCTransient
	}
	b, ok := c.s.g.all[*hash]
	if !ok {
		return nil, fmt.Errorf("-5: Block not found")
	}
	return b, nil
}

// ---- the simulator's chain events ---------------------------------------------

func (s *Sim) viewSynced() bool {
	g := s.g
	if !g.trusted || len(g.queue) > 0 || len(g.view) != len(s.chain) {
		return false
	}
	for i := range g.view {
		if g.view[i] != s.chain[i] {
			return false
		}
	}
	return g.best.Height == int32(s.tip()) && *g.best.Hash == s.tipHash()
}

// caughtUp: nothing pending and the dispatcher's best block is the tip.
func (s *Sim) caughtUp() bool {
	g := s.g
	return len(g.queue) == 0 && g.best.Height == int32(s.tip()) && *g.best.Hash == s.tipHash()
}

// glueEmit is bitcoind announcing a chain change; the notification may get lost.
func (s *Sim) glueEmit(m ntfnMsg) {
	r, g := s.R, s.g
	if g.faultsOn && g.dropLeft > 0 && r.Draw(g.dropDen) == g.dropDen-1 {
		g.dropLeft--
		g.drops++
		s.faultHit = true
		r.Count("fault_backend_missed_notification")
		r.Logf("  !! the %v notification is lost (injected)", m)
		return
	}
	g.queue = append(g.queue, m)
}

// glueFlush delivers the pending notifications: all of them, or (runs with
// delayed delivery) all but a drawn number that stay queued while the chain
// moves on.
func (s *Sim) glueFlush(windDown bool) {
	g := s.g
	keep := 0
	if g.async && !windDown && len(g.queue) > 0 {
		keep = s.R.Draw(len(g.queue) + 1)
		if keep > 0 {
			s.R.Count("probe_glue_ntfn_delayed")
		}
	}
	for len(g.queue) > keep {
		s.glueDeliverOne()
	}
}

func (s *Sim) glueMine(txs []int) {
	b := s.chainConnect(txs)
	s.g.all[b.hash] = b
	s.g.allList = append(s.g.allList, b)
	s.g.depth = 0
	s.R.Logf("chain: connected %v hash=%s txs=%v", b, short(b.hash), txs)
	s.glueEmit(ntfnMsg{connected: true, b: b})
}

func (s *Sim) glueUnmine() {
	g := s.g
	b := s.chainDisconnect()
	g.depth++
	if g.depth >= 2 {
		s.R.Count("probe_deep_reorg")
	}
	s.R.Logf("chain: disconnected %v txs=%v (depth %d)", b, b.txs, g.depth)
	s.glueEmit(ntfnMsg{b: b})
}

// glueChainEvent: one block is connected to / disconnected from the
// simulator's chain, and announced.
func (s *Sim) glueChainEvent(connect bool, txs []int, windDown bool) {
	if connect {
		s.glueMine(txs)
	} else {
		s.glueUnmine()
	}
	s.glueFlush(windDown)
}

// opReorg (runs with backend faults or delayed notifications): the backend
// switches to a longer branch in one go, as bitcoind does - disconnecting d
// blocks and connecting d+1 or d+2 others - so that its RPCs never answer from
// a chain shorter than one it had before. The notifications follow in order.
func (s *Sim) opReorg() {
	r := s.R
	maxd := int(s.tip() - s.floor)
	if lim := int(s.K.Limit) - 1; maxd > lim {
		maxd = lim
	}
	if maxd < 1 {
		return
	}
	d := 1 + r.Draw(maxd)
	n := d + 1 + r.Draw(2)
	r.Logf("chain: reorg, %d blocks out, %d in", d, n)
	if d >= 2 {
		r.Count("probe_glue_deep_reorg")
	}
	for i := 0; i < d; i++ {
		s.glueUnmine()
	}
	for i := 0; i < n; i++ {
		s.glueMine(s.pickBlockTxs(s.tip() + 1))
	}
	s.glueFlush(false)
}

// glueDeliverOne hands the oldest pending notification to the dispatcher.
func (s *Sim) glueDeliverOne() {
	g := s.g
	m := g.queue[0]
	g.queue = g.queue[1:]
	s.R.Logf("dispatcher <- %v (best %d %s)", m, g.best.Height, short(*g.best.Hash))
	if m.connected {
		s.dispBlockConnected(m)
	} else {
		s.dispBlockDisconnected(m)
	}
	s.glueTaint()
	s.glueMarkMulti()
}

// ---- dispatcher stub: mirror of bitcoind.go notificationDispatcher -------------

func (s *Sim) glueLogErr(format string, args ...interface{}) {
	msg := fmt.Sprintf(format, args...)
	s.g.lastErr = msg
	s.R.Logf("  dispatcher error (logged, as lnd does): %s", msg)
}

// viewBehindBy reports whether the view is the simulator's chain without its
// tip b (the only difference being the block this notification announces).
func (s *Sim) viewBehindBy(b *blk) bool {
	g := s.g
	n := len(s.chain)
	if !g.trusted || n == 0 || s.chain[n-1] != b || len(g.view) != n-1 {
		return false
	}
	for i := range g.view {
		if g.view[i] != s.chain[i] {
			return false
		}
	}
	return true
}

// viewAheadBy: the view is the simulator's chain plus the block b on top.
func (s *Sim) viewAheadBy(b *blk) bool {
	g := s.g
	n := len(s.chain)
	if !g.trusted || len(g.view) != n+1 || g.view[n] != b {
		return false
	}
	for i := range s.chain {
		if g.view[i] != s.chain[i] {
			return false
		}
	}
	return true
}

// case chain.BlockConnected
func (s *Sim) dispBlockConnected(m ntfnMsg) {
	r, g := s.R, s.g
	conn := &glueConn{s}
	hash := m.b.hash
	height := int32(m.b.height)

	blockHeader, err := conn.GetBlockHeader(&hash)
	if err != nil {
		s.glueLogErr("Unable to fetch block header: %v", err)
		r.Count("probe_glue_connected_ntfn_abandoned")
		return
	}

	plain := true
	if blockHeader.PrevBlock != *g.best.Hash {
		plain = false
		r.Count("probe_glue_handle_missed_blocks")
		r.Logf("  Missed blocks, attempting to catch up: HandleMissedBlocks(best %d %s, new height %d)", g.best.Height, short(*g.best.Hash), height)
		var (
			newBestBlock chainntnfs.BlockEpoch
			missedBlocks []chainntnfs.BlockEpoch
		)
		before := g.best
		g.lag = true
		s.cur = callCtx{kind: "HandleMissedBlocks"}
		err := s.call("HandleMissedBlocks", func() error {
			var e error
			newBestBlock, missedBlocks, e = chainntnfs.HandleMissedBlocks(conn, s.nt, g.best, height, true)
			return e
		})
		s.glueAfterRewind(before, newBestBlock)
		if err != nil {
			// Set the bestBlock here in case a catch up partially completed.
			g.best = newBestBlock
			s.glueLogErr("%v", err)
			return
		}
		r.Logf("  HandleMissedBlocks -> best %d %s, %d missed blocks", newBestBlock.Height, short(*newBestBlock.Hash), len(missedBlocks))
		if len(missedBlocks) > 0 {
			r.Count("probe_glue_missed_blocks_replayed")
		}
		// (the returned best block is only adopted on error, as in lnd)
		if newBestBlock.Height < before.Height {
			defer func() {
				if g.best.Height == before.Height && *g.best.Hash == *before.Hash {
					g.staleBest = true
					r.Count("probe_glue_stale_best_after_rewind")
				}
			}()
		}
		for _, block := range missedBlocks {
			if err := s.dispHandleBlockConnected(block, false); err != nil {
				s.glueLogErr("%v", err)
				return // continue out
			}
		}
	}

	newBlock := chainntnfs.BlockEpoch{Height: height, Hash: &hash, BlockHeader: blockHeader}
	if err := s.dispHandleBlockConnected(newBlock, plain); err != nil {
		s.glueLogErr("%v", err)
	}
}

// dispHandleBlockConnected mirrors BitcoindNotifier.handleBlockConnected.
func (s *Sim) dispHandleBlockConnected(block chainntnfs.BlockEpoch, plain bool) error {
	r, g := s.R, s.g
	conn := &glueConn{s}
	b, err := conn.getBlock(block.Hash)
	if err != nil {
		return fmt.Errorf("unable to get block: %w", err)
	}
	// strict judging when this block is the only difference between what the
	// TxNotifier has been given and the simulator's chain
	strict := plain && s.viewBehindBy(b)
	g.lag = !strict
	r.Logf("  ConnectTip %v hash=%s txs=%v (strict=%v)", b, short(b.hash), b.txs, strict)
	s.cur = callCtx{kind: "ConnectTip", blk: b}
	err = s.call("ConnectTip", func() error { return s.nt.ConnectTip(b.ub, uint32(block.Height)) })
	if err != nil {
		g.rejected++
		g.lag, g.trusted = true, false
		r.Count("probe_glue_call_rejected")
		r.Logf("  ConnectTip refused: %v", err)
		s.afterCall()
		return fmt.Errorf("unable to connect tip: %w", err)
	}
	// by contract the TxNotifier is now at block.Height with this block on top
	if int(block.Height)-int(s.base) == len(g.view)+1 {
		g.view = append(g.view, b)
		if !b.onChain {
			g.staleWhenConnected[b] = true
		}
	} else {
		g.trusted = false
	}
	s.depth = 0
	s.afterCall()

	g.best = block

	r.Logf("  NotifyHeight %d", block.Height)
	s.cur = callCtx{kind: "NotifyHeight", blk: b}
	err = s.call("NotifyHeight", func() error { return s.nt.NotifyHeight(uint32(block.Height)) })
	if err != nil {
		s.afterCall()
		return fmt.Errorf("unable to notify height: %w", err)
	}
	s.afterCall()
	return nil
}

// case chain.BlockDisconnected
func (s *Sim) dispBlockDisconnected(m ntfnMsg) {
	r, g := s.R, s.g
	conn := &glueConn{s}
	height := int32(m.b.height)
	if height != g.best.Height {
		r.Logf("  Missed disconnected blocks, attempting to catch up")
		r.Count("probe_glue_missed_disconnects")
	}
	strict := height == g.best.Height && s.viewAheadBy(m.b)
	before := g.best
	g.lag = true
	var newBestBlock chainntnfs.BlockEpoch
	s.cur = callCtx{kind: "DisconnectTip", blk: m.b}
	err := s.call("RewindChain", func() error {
		var e error
		newBestBlock, e = chainntnfs.RewindChain(conn, s.nt, g.best, height-1)
		return e
	})
	if strict && err == nil && newBestBlock.Height == height-1 && *newBestBlock.Hash == s.tipHash() {
		// exactly one DisconnectTip of the block the simulator removed
		g.view = g.view[:len(g.view)-1]
		s.depth++
		g.lag = false
		r.Logf("  RewindChain -> best %d %s (DisconnectTip %v, depth %d)", newBestBlock.Height, short(*newBestBlock.Hash), m.b, s.depth)
		s.afterCall()
	} else {
		s.glueAfterRewind(before, newBestBlock)
	}
	if err != nil {
		s.glueLogErr("Unable to rewind chain from height %d to height %d: %v", before.Height, height-1, err)
		if newBestBlock.Height < before.Height {
			r.Count("probe_glue_partial_rewind")
		}
	}
	// Set the bestBlock here in case a chain rewind partially completed.
	g.best = newBestBlock
}

// glueAfterRewind accounts for a rewind of unknown extent: going by the
// contract the TxNotifier now stands at the returned best block. Whatever the
// clients were sent is judged by the safety clauses only.
func (s *Sim) glueAfterRewind(before, after chainntnfs.BlockEpoch) {
	g := s.g
	g.lag = true
	if after.Hash == nil {
		s.R.Fail("glue-contract", "the backend glue returned a best block without a hash (before: height %d)", before.Height)
	}
	s.R.Logf("  rewind: best %d %s -> %d %s", before.Height, short(*before.Hash), after.Height, short(*after.Hash))
	if after.Height > before.Height {
		s.R.Fail("glue-contract", "a chain rewind returned a best block at height %d above the one it started from (%d)", after.Height, before.Height)
	}
	n := int(after.Height) - int(s.base)
	if n < 0 {
		n = 0
	}
	if n < len(g.view) {
		s.depth += len(g.view) - n
		g.view = g.view[:n]
		s.R.Count("probe_glue_rewind")
	}
	// The view stays what the TxNotifier was given. The block the dispatcher
	// now believes in should be the one the TxNotifier has at that height.
	if len(g.view) == n {
		if want := s.tipHashOf(g.view); *after.Hash != want && n > 0 {
			if !g.foreignBest {
				s.R.Count("probe_glue_best_not_in_view")
			}
			g.foreignBest = true
			g.shadowed[g.view[n-1]] = true
			s.R.Logf("  !! the dispatcher adopts %s as its best block at height %d, but the block the TxNotifier was given at that height is %s", short(*after.Hash), after.Height, short(want))
		}
	} else {
		g.trusted = false
	}
	s.afterCall()
}

func (s *Sim) tipHashOf(v []*blk) chainhash.Hash {
	if len(v) == 0 {
		var h chainhash.Hash
		copy(h[:], h256("prehistory"))
		return h
	}
	return v[len(v)-1].hash
}

// ---- safety-only judging while the backend lags ---------------------------------

// everMatch finds, among all blocks ever mined (any branch), an occurrence of
// the request that satisfies pred. A Spend does not name its block, so several
// blocks may qualify: the one the TxNotifier was given is preferred, then one
// on the active chain, then the oldest.
func (s *Sim) everMatch(rs *reqState, pred func(h hit) bool) *hit {
	var first, active *hit
	for _, b := range s.g.allList {
		for _, h := range s.matchesIn(rs, b) {
			if !pred(h) {
				continue
			}
			hh := h
			if i := int(b.height) - int(s.base) - 1; i >= 0 && i < len(s.g.view) && s.g.view[i] == b {
				return &hh
			}
			if b.onChain && active == nil {
				active = &hh
			}
			if first == nil {
				first = &hh
			}
		}
	}
	if active != nil {
		return active
	}
	return first
}

// judgeLag applies the clauses that hold whatever the backend has or has not
// yet been able to learn: every Confirmed/Spend names a block that was part
// of the chain at some time and really contains the transaction at the named
// place, and a client never holds two of them without a reorg notice between.
func (s *Sim) judgeLag(c *client, b evBatch) {
	rs := c.rs
	r := s.R
	r.Count("probe_glue_lag_judged")
	if len(b.conf) > 1 || len(b.neg) > 1 || len(b.spend) > 1 || b.reorg > 1 || b.done > 1 {
		s.fail(rs, "duplicate-event", "%v read %d Confirmed, %d NegativeConf, %d Spend, %d Reorg, %d Done at once", c, len(b.conf), len(b.neg), len(b.spend), b.reorg, b.done)
	}
	if ((len(b.conf) > 0 && len(b.neg) > 0) || (len(b.spend) > 0 && b.reorg > 0)) && !rs.multi {
		s.fail(rs, "ambiguous-pending", "%v finds both a confirmation/spend and a reorg notice pending: their order, and so whether the request is currently confirmed, cannot be recovered", c)
	}
	for _, u := range b.upd {
		r.Logf("  %v <- Updates{left=%d height=%d} (backend lagging)", c, u.NumConfsLeft, u.BlockHeight)
	}
	for _, d := range b.conf {
		if d == nil || d.BlockHash == nil || d.Tx == nil {
			s.fail(rs, "bad-conf-details", "%v received a Confirmed without block hash or transaction", c)
		}
		r.Logf("  %v <- Confirmed{block=%s height=%d index=%d tx=%s} (backend lagging)", c, short(*d.BlockHash), d.BlockHeight, d.TxIndex, short(d.Tx.TxHash()))
		if c.told {
			s.fail(rs, "double-confirmed", "%v received a second Confirmed (block %s height %d) without a reorg notice in between; it still holds the one for %v", c, short(*d.BlockHash), d.BlockHeight, c.toldBlk)
		}
		m := s.everMatch(rs, func(h hit) bool {
			return *d.BlockHash == h.b.hash && d.BlockHeight == h.b.height && d.TxIndex == uint32(h.pos) && d.Tx.TxHash() == h.tx.hash
		})
		if m == nil {
			s.fail(rs, "bad-conf-details", "%v received Confirmed{block %s, height %d, index %d, tx %s}: no block that was ever part of the chain contains the request at that place", c, short(*d.BlockHash), d.BlockHeight, d.TxIndex, short(d.Tx.TxHash()))
		}
		if c.incl {
			if d.Block == nil {
				s.fail(rs, "block-not-included", "%v registered WithIncludeBlock, but the Confirmed for %v carries no block", c, m.b)
			}
			if d.Block.BlockHash() != m.b.hash {
				s.fail(rs, "bad-conf-details", "%v asked for the block to be included; the Confirmed carries another block than %v", c, m.b)
			}
		}
		if c.seenNotice {
			s.retold++
		}
		c.told, c.toldBlk = true, m.b
	}
	for _, d := range b.neg {
		r.Logf("  %v <- NegativeConf{depth=%d} (backend lagging)", c, d)
		c.seenNotice = true
		s.notices++
		c.told, c.toldBlk = false, nil
	}
	for _, d := range b.spend {
		if d == nil || d.SpenderTxHash == nil || d.SpendingTx == nil || d.SpentOutPoint == nil {
			s.fail(rs, "bad-spend-details", "%v received a Spend with missing fields", c)
		}
		r.Logf("  %v <- Spend{tx=%s height=%d input=%d op=%v} (backend lagging)", c, short(*d.SpenderTxHash), d.SpendingHeight, d.SpenderInputIndex, shortOp(*d.SpentOutPoint))
		if c.told {
			s.fail(rs, "double-spend-ntfn", "%v received a second Spend (tx %s height %d) without a Reorg in between", c, short(*d.SpenderTxHash), d.SpendingHeight)
		}
		m := s.everMatch(rs, func(h hit) bool {
			return *d.SpenderTxHash == h.tx.hash && d.SpendingTx.TxHash() == h.tx.hash && d.SpendingHeight == int32(h.b.height) &&
				d.SpenderInputIndex == uint32(h.inIdx) && *d.SpentOutPoint == s.U.ops[h.op].op
		})
		if m == nil {
			s.fail(rs, "bad-spend-details", "%v received Spend{tx %s, height %d, input %d, outpoint %s}: no block that was ever part of the chain at that height contains such a spend", c, short(*d.SpenderTxHash), d.SpendingHeight, d.SpenderInputIndex, shortOp(*d.SpentOutPoint))
		}
		if c.seenNotice {
			s.retold++
		}
		c.told, c.toldBlk = true, m.b
	}
	for i := 0; i < b.reorg; i++ {
		r.Logf("  %v <- Reorg (backend lagging)", c)
		if !c.told {
			s.fail(rs, "spurious-reorg-notice", "%v received a spend Reorg without holding a Spend", c)
		}
		c.seenNotice = true
		s.notices++
		c.told, c.toldBlk = false, nil
	}
	for i := 0; i < b.done; i++ {
		r.Logf("  %v <- Done (backend lagging)", c)
		r.Count("probe_done")
		c.done = true
	}
}

// ---- after a step / at the end ---------------------------------------------------

// glueAfterStep evaluates the settled-state oracle whenever the dispatcher has
// caught up with the simulator's chain.
func (s *Sim) glueAfterStep() {
	g := s.g
	s.glueMarkMulti()
	if s.caughtUp() {
		s.glueResync()
		if g.lagged {
			g.lagged = false
			g.recovered++
			s.R.Count("probe_glue_recovered")
		}
		g.lag = false
		s.settle()
		return
	}
	if !g.lagged {
		g.lagged = true
		s.R.Count("probe_glue_lagging")
	}
	g.lag = true
	s.R.State(fmt.Sprintf("lag/%d/%d/%d/%d", s.tip()-s.base, int(g.best.Height)-int(s.base), len(g.queue), g.depth))
}

// glueWindDown: faults stop, every pending notification is delivered, and
// within a bounded number of further blocks (lnd recovers from a lost
// notification when the next block arrives, and from a lost reorg once the new
// chain is at least as high as its old best block) the dispatcher must stand at
// the tip, with every client holding what the model says.
func (s *Sim) glueWindDown() {
	r, g := s.R, s.g
	g.faultsOn = false
	r.Logf("wind-down: backend faults stop; %d notifications pending; dispatcher best %d %s, chain tip %d %s", len(g.queue), g.best.Height, short(*g.best.Hash), s.tip(), short(s.tipHash()))
	s.glueFlush(true)
	s.glueAfterStep()
	bound := int(s.K.Limit) + 2
	kicks := 0
	for !s.caughtUp() && kicks < bound {
		kicks++
		s.seq++
		r.Count("probe_glue_catchup_block")
		s.glueChainEvent(true, nil, true)
		s.glueAfterStep()
	}
	if !s.caughtUp() {
		why := ""
		if g.rejected > 0 {
			why = fmt.Sprintf("; the TxNotifier refused %d ConnectTip/DisconnectTip calls as out of order", g.rejected)
		}
		msg := fmt.Sprintf("the backend faults stopped, every pending notification was delivered and %d further blocks were connected and announced, yet the dispatcher's best block is %d %s while the chain tip is %d %s: clients are no longer told about the active chain%s (last dispatcher error: %s)",
			kicks, g.best.Height, short(*g.best.Hash), s.tip(), short(s.tipHash()), why, g.lastErr)
		if g.staleBest {
			if dispatcherMirrorStale() {
				r.Unjudged("depends on the mirrored dispatcher control flow, which no longer matches the tree")
			}
			r.FailSig("backend-never-catches-up", "stale-best-after-missed-blocks-rewind", "%s [earlier in this run HandleMissedBlocks rewound the TxNotifier and returned no error, but the dispatcher only adopts the returned best block on error: the block to connect next could not be fetched, so bestBlock stayed at the reorged-out block above the TxNotifier's height]", msg)
		}
		r.Fail("backend-never-catches-up", "%s", msg)
	}
	s.glueResync()
	g.lag = false
	s.settle()
	r.Count("glue_caught_up_at_end")
}

// glueResync runs when the dispatcher stands at the tip. The view normally
// equals the chain then. If the bookkeeping by contract broke down (a call was
// refused) the TxNotifier is from here on held to the active chain; if the
// view differs although every call was accepted, the TxNotifier really holds a
// block that is not on the active chain: strict judging stays off, the
// settled-state oracle decides whether a client is affected.
func (s *Sim) glueResync() {
	g := s.g
	if !g.trusted {
		g.view = append(g.view[:0], s.chain...)
		g.trusted = true
		return
	}
	g.staleKept = nil
	if s.viewSynced() {
		return
	}
	s.R.Count("probe_glue_caught_up_view_differs")
	// Explained if the topmost block that differs is one the dispatcher lost
	// track of by adopting another block at its height (blocks below it on
	// the same stale branch stay with it), or if the TxNotifier was fed a
	// sequence that is no chain (known findings, reported once a client is
	// affected).
	var first *blk
	if len(g.view) == len(s.chain) {
		for i := len(g.view) - 1; i >= 0; i-- {
			if g.view[i] != s.chain[i] {
				if g.shadowed[g.view[i]] {
					first = g.view[i]
				}
				break
			}
		}
	}
	if jb, _ := s.glueJunction(); jb != nil {
		return
	}
	if first == nil {
		s.R.Fail("notifier-chain-diverged", "the dispatcher stands at the chain tip (best block %d %s, nothing pending), but the blocks it has connected to / rewound from the TxNotifier leave the TxNotifier on %v while the active chain is %v: clients are judged against blocks that are not on the active chain", g.best.Height, short(*g.best.Hash), g.view, s.chain)
	}
	g.staleKept = first
	s.R.Count("probe_glue_stale_block_kept")
	s.R.Logf("  !! the dispatcher stands at the tip, but the TxNotifier still holds %v, which is not on the active chain: its disconnect never reached the TxNotifier after the dispatcher had adopted another block at that height", first)
}

// glueBeforeStep selects the judging mode for calls made by clients.
func (s *Sim) glueBeforeStep() { s.g.lag = !s.viewSynced() }

// opEpochBacklog: a block-epoch client registers with the best block it knows
// (any block ever mined, possibly one that was reorged out) while the
// dispatcher stands at the tip; the dispatcher computes the backlog with the
// real chainntnfs.GetClientMissedBlocks. By its contract the backlog is the
// active chain from right after the common ancestor of the client's block and
// the active chain up to the notifier's best height.
func (s *Sim) opEpochBacklog() {
	r, g := s.R, s.g
	if len(g.allList) == 0 || !s.caughtUp() {
		return
	}
	cb := g.allList[r.Draw(len(g.allList))]
	hash := cb.hash
	hdr := cb.ub.MsgBlock().Header
	client := &chainntnfs.BlockEpoch{Height: int32(cb.height), Hash: &hash, BlockHeader: &hdr}
	conn := &glueConn{s}
	faultsBefore := g.rpcFaults
	r.Logf("EpochBacklog: client best %v %s (on active chain: %v), notifier best %d", cb, short(cb.hash), cb.onChain, g.best.Height)
	missed, err := chainntnfs.GetClientMissedBlocks(conn, client, g.best.Height, true)
	r.Count("probe_glue_epoch_backlog")
	if err != nil {
		r.Logf("  GetClientMissedBlocks -> %v", err)
		if g.rpcFaults == faultsBefore && cb.height <= s.tip() {
			r.Fail("epoch-backlog-wrong", "GetClientMissedBlocks(client best %v, notifier best %d) failed although no RPC failed and the client's height exists on the active chain: %v", cb, g.best.Height, err)
		}
		return
	}
	// common ancestor by the block-list model
	anc := cb
	for anc != nil && !anc.onChain {
		anc = g.all[anc.ub.MsgBlock().Header.PrevBlock]
	}
	from := s.base + 1
	if anc != nil {
		from = anc.height + 1
	}
	if !cb.onChain {
		r.Count("probe_glue_epoch_backlog_reorged_client")
	}
	var want []*blk
	for h := from; h <= uint32(g.best.Height); h++ {
		want = append(want, s.blockAt(h))
	}
	ok := len(missed) == len(want)
	for i := 0; ok && i < len(want); i++ {
		ok = missed[i].Hash != nil && *missed[i].Hash == want[i].hash && missed[i].Height == int32(want[i].height) &&
			missed[i].BlockHeader != nil && missed[i].BlockHeader.BlockHash() == want[i].hash
	}
	if !ok {
		got := ""
		for _, m := range missed {
			got += fmt.Sprintf(" %d:%s", m.Height, short(*m.Hash))
		}
		r.Fail("epoch-backlog-wrong", "a block-epoch client whose best block is %v (on the active chain: %v) must be sent the active chain from height %d to the notifier's best height %d, i.e. %v; GetClientMissedBlocks returned [%s ]", cb, cb.onChain, from, g.best.Height, want, got)
	}
	r.Logf("  backlog of %d blocks from height %d: as the model says", len(missed), from)
}

// glueJunction looks for a place where the chain the TxNotifier was given is
// not a chain: a block connected on top of a block that is not its parent.
// Two ways lead there, told apart by the block underneath:
//   - "foreign-best": the block underneath is a stale block at whose height
//     the dispatcher had adopted another block as its best block (RewindChain
//     answers from the backend's current chain), so that its disconnect, once
//     lost, is never made up for;
//   - "mixed-catch-up": HandleMissedBlocks filled the gap from the backend's
//     current chain and the dispatcher then connected the announced block,
//     which meanwhile belongs to another branch, on top of it.
//
// It returns the block to name in the report.
func (s *Sim) glueJunction() (*blk, string) {
	g := s.g
	for i := 1; i < len(g.view); i++ {
		if g.view[i].ub.MsgBlock().Header.PrevBlock == g.view[i-1].hash {
			continue
		}
		if under := g.view[i-1]; g.shadowed[under] && !under.onChain {
			return under, "foreign-best"
		}
		if g.staleWhenConnected[g.view[i]] {
			return g.view[i], "mixed-catch-up"
		}
		// a junction that neither of the two known ways explains is not
		// attributed to them
		return nil, ""
	}
	return nil, ""
}

// glueTaint: while the TxNotifier's chain has such a junction, what it
// records for requests matching transactions of the blocks in which its chain
// and the active chain differ may be wrong, and stays wrong after the junction
// is gone (sticky until the next restart).
func (s *Sim) glueTaint() {
	g := s.g
	jb, kind := s.glueJunction()
	if jb == nil {
		return
	}
	for j := 0; j < len(g.view); j++ {
		var cb *blk
		if j < len(s.chain) {
			cb = s.chain[j]
		}
		if g.view[j] == cb {
			continue
		}
		for _, t := range g.view[j].txs {
			g.taintTx[t] = true
		}
		if cb != nil {
			for _, t := range cb.txs {
				g.taintTx[t] = true
			}
		}
	}
	if g.taintBlk == nil {
		g.taintBlk, g.taintKind = jb, kind
		s.R.Count("probe_glue_junction_" + kind)
		s.R.Logf("  !! the chain given to the TxNotifier is no chain any more (%s at %v)", kind, jb)
	}
}

// glueTainted reports the block and the way to blame when a violation
// concerns rs (nil: the notifier as a whole).
func (s *Sim) glueTainted(rs *reqState) (*blk, string) {
	g := s.g
	if jb, kind := s.glueJunction(); jb != nil {
		return jb, kind
	}
	if g.staleKept != nil {
		return g.staleKept, "foreign-best"
	}
	if g.taintBlk == nil {
		return nil, ""
	}
	if rs == nil {
		return g.taintBlk, g.taintKind
	}
	for _, t := range s.U.txs {
		if g.taintTx[t.idx] && s.txMatches(rs, t) {
			return g.taintBlk, g.taintKind
		}
	}
	return nil, ""
}

func (s *Sim) glueTaintedAny() (*blk, string) {
	if s.g == nil {
		return nil, ""
	}
	return s.glueTainted(nil)
}

// glueMarkMulti: script reuse. A request matched by more than one transaction
// at once - on the active chain, or on the chain the TxNotifier currently has
// (as long as that is a chain) - keeps only the safety checks (which one 'the'
// confirmation is stays open). settle() does the same for the active chain,
// but only runs while the dispatcher stands at the tip.
func (s *Sim) glueMarkMulti() {
	g := s.g
	jb, _ := s.glueJunction()
	for _, rs := range s.reqOrder {
		if !rs.registered || rs.multi {
			continue
		}
		n := len(s.matches(rs))
		if n <= 1 && jb == nil {
			n = 0
			for _, b := range g.view {
				n += len(s.matchesIn(rs, b))
			}
		}
		if n > 1 {
			rs.multi = true
			s.R.Count("probe_script_reuse")
		}
	}
}
