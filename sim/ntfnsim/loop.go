package ntfnsim

import (
	"fmt"
	"os"

	"github.com/btcsuite/btcd/chainhash/v2"
	"github.com/lightningnetwork/lnd/chainntnfs"

	"verif/simcore"
)

// Arms of the swarm.
var armNames = []string{"sync-rescan", "late-rescan", "restart", "faulty"}

// (the arms "backend-glue" and "backend-glue-faulty" are selected by the LAST
// configuration draws, so that tapes recorded before they existed replay)

// DrawKnobs draws the per-run configuration (only configuration draws).
func DrawKnobs(r *simcore.Run, thorough bool) (Knobs, universeCfg, uint32) {
	t := r.Tape
	arm := t.CfgDraw(len(armNames))
	k := Knobs{Arm: armNames[arm]}
	k.SyncRescan = arm == 0
	k.Restarts = arm >= 2
	k.Faults = arm == 3
	k.Limit = []uint32{3, 4, 5, 8}[t.CfgDraw(4)]
	k.MaxSteps = 40 + 20*t.CfgDraw(4)
	if thorough {
		k.MaxSteps += 60 * t.CfgDraw(3)
	}
	k.MaxClients = []int{3, 6, 10}[t.CfgDraw(3)]
	k.PInclude = []int{2, 3, 5}[t.CfgDraw(3)]
	k.ConnectW = []int{6, 10}[t.CfgDraw(2)]
	k.DisconnectW = []int{1, 3, 5}[t.CfgDraw(3)]
	k.StickyW = []int{0, 6, 14}[t.CfgDraw(3)]
	k.RegisterW = []int{2, 4}[t.CfgDraw(2)]
	k.CancelW = []int{0, 1}[t.CfgDraw(2)]
	k.ScanW = []int{1, 4}[t.CfgDraw(2)]
	k.DeliverW = []int{1, 4}[t.CfgDraw(2)]
	k.ReadW = []int{1, 3}[t.CfgDraw(2)]
	k.BadHints = t.CfgDraw(5) == 4
	if arm >= 1 {
		k.SplitDen = []int{0, 4, 2}[t.CfgDraw(3)]
		k.LazyDen = []int{0, 3, 2}[t.CfgDraw(3)]
		k.StaleDeliver = t.CfgDraw(3) == 2
	}
	if k.Restarts {
		k.RestartW = []int{1, 2}[t.CfgDraw(2)]
	}
	if k.Faults {
		k.FaultW = []int{1, 2}[t.CfgDraw(2)]
	}

	var uc universeCfg
	uc.nBase = 1 + t.CfgDraw(3)
	for i := 0; i < uc.nBase; i++ {
		uc.kinds = append(uc.kinds, t.CfgDraw(3))
	}
	uc.nTx = 2 + t.CfgDraw(5)
	reuse := t.CfgDraw(4) == 3
	for i := 0; i < uc.nTx; i++ {
		uc.first = append(uc.first, t.CfgDraw(3))
		sec := -1
		if t.CfgDraw(4) == 3 {
			sec = t.CfgDraw(3)
		}
		uc.second = append(uc.second, sec)
		ru := -1
		if reuse && t.CfgDraw(3) == 2 {
			ru = t.CfgDraw(4)
		}
		uc.reuse = append(uc.reuse, ru)
	}
	uc.child = t.CfgDraw(3) == 2
	base := uint32(100 + t.CfgDraw(50))

	// New draws go last (an exhausted replay tape yields 0: not a glue run).
	glue := t.CfgDraw(4) == 3
	switch os.Getenv("VERIF_NTFN_GLUE") { // focused runs while developing; unset in ./check
	case "always":
		glue = true
	case "never":
		glue = false
	}
	if glue {
		k.Glue = true
		k.Arm = "backend-glue"
		// rescans are answered inside the registration step; no restarts, no
		// database faults, prompt clients, ConnectTip+NotifyHeight not split:
		// those have their own arms
		k.SyncRescan, k.Restarts, k.Faults = true, false, false
		k.RestartW, k.FaultW, k.SplitDen, k.LazyDen, k.StaleDeliver = 0, 0, 0, 0, false
		k.GlueFaulty = t.CfgDraw(3) != 0
		k.GlueAsync = t.CfgDraw(2) == 1
		k.NtfnW = []int{4, 10}[t.CfgDraw(2)]
		k.GlueAtomic = k.GlueFaulty || k.GlueAsync
		if k.GlueAtomic {
			// a reorg step is several chain events
			k.MaxSteps = k.MaxSteps * 3 / 5
		}
		if k.GlueFaulty {
			k.Arm = "backend-glue-faulty"
			k.GlueRPCDen = []int{6, 10, 16}[t.CfgDraw(3)]
			k.GlueMaxRPC = 1 + t.CfgDraw(3)
			k.GlueDropDen = []int{5, 8, 12}[t.CfgDraw(3)]
			k.GlueMaxDrop = t.CfgDraw(4)
		}
	}
	// appended last: some restarts of the restart arms bring the notifier up
	// with height-hint-cache-query-disable (hints are still written, never
	// read); 0 = never
	if k.Restarts {
		k.QueryDisableDen = []int{0, 0, 4, 2}[t.CfgDraw(4)]
	}
	return k, uc, base
}

// RunOne is one simulated execution (must be called inside a synctest bubble).
func RunOne(r *simcore.Run, thorough bool) {
	k, uc, base := DrawKnobs(r, thorough)
	r.Arm = k.Arm
	u := buildUniverse(uc)
	s := NewSim(r, k, u, base)
	defer s.Close()
	if k.Glue {
		s.glueInit()
	}
	r.Logf("config: arm=%s limit=%d base=%d knobs=%+v", k.Arm, k.Limit, base, k)
	for _, o := range u.ops {
		r.Logf("  outpoint O%d %s kind=%v parent=%d", o.idx, shortOp(o.op), o.kind, o.parent)
	}
	for _, t := range u.txs {
		r.Logf("  tx T%d %s spends %v outputs %d parent=%d", t.idx, short(t.hash), t.ins, len(t.outs), t.parent)
	}
	s.Loop()
}

type op struct {
	kind   string
	weight int
}

func (s *Sim) liveClients() []*client {
	var out []*client
	for _, c := range s.clients {
		if c.alive {
			out = append(out, c)
		}
	}
	return out
}

func (s *Sim) enabled() []op {
	k := s.K
	var ev []op
	live := s.liveClients()
	if s.half != nil {
		ev = append(ev, op{"notify", 12})
	} else {
		ev = append(ev, op{"connect", k.ConnectW})
		depth := s.depth
		if s.g != nil {
			depth = s.g.depth // of the simulator's chain, not of the TxNotifier
			if len(s.g.queue) > 0 {
				ev = append(ev, op{"ntfn", k.NtfnW})
			}
			if len(s.g.allList) > 0 && s.caughtUp() {
				ev = append(ev, op{"epochbacklog", 1})
			}
		}
		if k.GlueAtomic {
			if s.tip() > s.floor {
				ev = append(ev, op{"reorg", k.DisconnectW + k.StickyW/3})
			}
		} else if s.tip() > s.floor && depth+1 < int(k.Limit) {
			w := k.DisconnectW
			if depth > 0 {
				w += k.StickyW
			}
			ev = append(ev, op{"disconnect", w})
		}
		if k.RestartW > 0 && len(live) > 0 {
			ev = append(ev, op{"restart", k.RestartW})
		}
		lazy := false
		for _, c := range live {
			if c.lazy && !c.dirty {
				lazy = true
			}
		}
		if lazy {
			ev = append(ev, op{"read", k.ReadW})
		}
		if k.FaultW > 0 && !s.faultArmed {
			ev = append(ev, op{"fault", k.FaultW})
		}
	}
	if len(live) < k.MaxClients {
		ev = append(ev, op{"regconf", k.RegisterW}, op{"regspend", k.RegisterW})
	}
	if k.CancelW > 0 && len(live) > 0 {
		ev = append(ev, op{"cancel", k.CancelW})
	}
	if !k.SyncRescan {
		scan, deliver := false, false
		for _, q := range s.rescans {
			if !q.scanned {
				scan = true
			} else if !q.failed {
				deliver = true
			}
		}
		if scan {
			ev = append(ev, op{"scan", k.ScanW})
		}
		if deliver {
			ev = append(ev, op{"deliver", k.DeliverW})
		}
	}
	return ev
}

// Loop drives the workload and then winds down.
func (s *Sim) Loop() {
	r := s.R
	s.settle()
	for s.steps < s.K.MaxSteps && r.Step() {
		ev := s.enabled()
		total := 0
		for _, e := range ev {
			total += e.weight
		}
		pick := r.Draw(total)
		var e op
		for _, c := range ev {
			if pick < c.weight {
				e = c
				break
			}
			pick -= c.weight
		}
		s.steps++
		s.seq++
		r.Kind(e.kind)
		if s.g != nil {
			s.glueBeforeStep()
		}
		switch e.kind {
		case "ntfn":
			s.glueDeliverOne()
		case "reorg":
			s.opReorg()
		case "epochbacklog":
			s.opEpochBacklog()
		case "connect":
			s.opConnect()
		case "notify":
			s.opNotify()
		case "disconnect":
			s.opDisconnect()
		case "regconf":
			s.opRegister(false)
		case "regspend":
			s.opRegister(true)
		case "cancel":
			s.opCancel()
		case "scan":
			s.opScan()
		case "deliver":
			s.opDeliver()
		case "restart":
			s.opRestart("restart")
		case "read":
			s.opRead()
		case "fault":
			s.opFault()
		}
		if n := s.kv.FiredFail; n > s.firedFail {
			r.Add("fault_write_fail", int64(n-s.firedFail))
			s.firedFail = n
			s.faultHit = true
			s.faultArmed = false
			r.Logf("  !! an injected write failure fired during the last step")
		}
		if s.crashed() {
			continue
		}
		if s.g != nil {
			s.glueAfterStep()
			continue
		}
		if s.half == nil {
			s.settle()
		}
	}
	s.WindDown()
	r.Nontrivial = s.notices > 0 && s.retold > 0
	if s.K.Faults || s.K.GlueFaulty {
		r.Nontrivial = r.Nontrivial && s.faultHit
	}
}

// crashed handles a fired crash fault: the process died inside the last call,
// whatever that call sent afterwards was never seen; restart from the database.
func (s *Sim) crashed() bool {
	if !s.kv.Fenced() {
		return false
	}
	s.R.Count("fault_crash")
	s.faultHit = true
	s.R.Logf("  !! database fenced (process crash) during the last call: restarting")
	s.opRestart("crash-restart")
	s.settle()
	return true
}

// ---- chain events -----------------------------------------------------------

func (s *Sim) inChain() map[int]bool {
	m := map[int]bool{}
	for _, b := range s.chain {
		for _, t := range b.txs {
			m[t] = true
		}
	}
	return m
}

// pickBlockTxs chooses a valid set of universe transactions for the next block.
func (s *Sim) pickBlockTxs(h uint32) []int {
	r := s.R
	in := s.inChain()
	var sel []int
	// visit candidates in a drawn rotation so order inside blocks varies
	n := len(s.U.txs)
	start := r.Draw(n)
	for j := 0; j < n; j++ {
		t := s.U.txs[(start+j)%n]
		if in[t.idx] {
			continue
		}
		ok := true
		for i := range in {
			if in[i] && s.U.conflict(t, s.U.txs[i]) {
				ok = false
			}
		}
		if t.parent >= 0 && !in[t.parent] {
			ok = false
		}
		if !ok {
			continue
		}
		if r.Draw(s.K.PInclude) != s.K.PInclude-1 {
			continue
		}
		// A client's height hint is its promise that the transaction (or
		// spend) cannot enter the chain below that height: the backend
		// honours it, except in runs that explore wrong client hints.
		var broken []*reqState
		for _, rs := range s.reqOrder {
			if rs.maxHint > h && s.txMatches(rs, t) {
				broken = append(broken, rs)
			}
		}
		if len(broken) > 0 {
			if !s.K.BadHints || r.Draw(2) == 0 {
				continue
			}
			for _, rs := range broken {
				rs.grp.allOK = false
			}
			r.Count("probe_bad_client_hint")
		}
		sel = append(sel, t.idx)
		in[t.idx] = true
	}
	return sel
}

// chainConnect extends the simulator's own chain by one block (model only).
func (s *Sim) chainConnect(txs []int) *blk {
	r := s.R
	h := s.tip() + 1
	s.serial++
	b := s.U.makeBlock(s.tipHash(), h, s.serial, txs)
	b.seq = s.seq
	b.onChain = true
	s.chain = append(s.chain, b)
	for _, x := range s.chain {
		if x.peak < h {
			x.peak = h
		}
	}
	if h >= s.K.Limit && h-s.K.Limit+1 > s.floor {
		s.floor = h - s.K.Limit + 1
	}
	// Assumption: a rescan does not outlive the maturity of its request
	// (buried past the safety limit, when the notifier forgets it).
	for _, q := range append([]*rescan(nil), s.rescans...) {
		for _, m := range s.matches(q.rs) {
			if h-m.b.height >= s.K.Limit {
				s.removeRescan(q)
				if q.rs.outstanding == q {
					q.rs.outstanding = nil
					q.rs.dropped = true
				}
				r.Count("probe_rescan_outlived")
				break
			}
		}
	}
	return b
}

func (s *Sim) opConnect() {
	r := s.R
	h := s.tip() + 1
	txs := s.pickBlockTxs(h)
	if s.K.Glue {
		s.glueChainEvent(true, txs, false)
		return
	}
	b := s.chainConnect(txs)
	s.depth = 0
	r.Logf("ConnectTip %v hash=%s txs=%v", b, short(b.hash), txs)
	s.cur = callCtx{kind: "ConnectTip", blk: b}
	err := s.call("ConnectTip", func() error { return s.nt.ConnectTip(b.ub, h) })
	if s.kv.Fenced() {
		return
	}
	if err != nil {
		s.fail(nil, "notifier-error", "ConnectTip(%v) failed: %v", b, err)
	}
	s.afterCall()
	s.half = b
	if s.K.SplitDen > 0 && r.Draw(s.K.SplitDen) == s.K.SplitDen-1 {
		r.Count("probe_split_connect")
		return
	}
	s.opNotify()
}

func (s *Sim) opNotify() {
	b := s.half
	s.R.Logf("NotifyHeight %d", b.height)
	s.cur = callCtx{kind: "NotifyHeight", blk: b}
	err := s.call("NotifyHeight", func() error { return s.nt.NotifyHeight(b.height) })
	if s.kv.Fenced() {
		return
	}
	if err != nil {
		s.fail(nil, "notifier-error", "NotifyHeight(%d) failed: %v", b.height, err)
	}
	s.half = nil
	s.afterCall()
}

// chainDisconnect removes the tip of the simulator's own chain (model only).
func (s *Sim) chainDisconnect() *blk {
	b := s.chain[len(s.chain)-1]
	s.chain = s.chain[:len(s.chain)-1]
	b.onChain = false
	for _, g := range s.groups {
		if g.regEpoch != s.epoch && s.tip() < g.unwatchedLow {
			g.unwatchedLow = s.tip()
		}
	}
	return b
}

func (s *Sim) opDisconnect() {
	if s.K.Glue {
		s.glueChainEvent(false, nil, false)
		return
	}
	b := s.chainDisconnect()
	s.depth++
	if s.depth >= 2 {
		s.R.Count("probe_deep_reorg")
	}
	s.R.Logf("DisconnectTip %v txs=%v (depth %d)", b, b.txs, s.depth)
	s.cur = callCtx{kind: "DisconnectTip", blk: b}
	err := s.call("DisconnectTip", func() error { return s.nt.DisconnectTip(b.height) })
	if s.kv.Fenced() {
		return
	}
	if err != nil {
		s.fail(nil, "notifier-error", "DisconnectTip(%v) failed: %v", b, err)
	}
	s.afterCall()
}

// ---- clients ----------------------------------------------------------------

func (s *Sim) reqFor(key string, mk func() *reqState) *reqState {
	if rs, ok := s.reqs[key]; ok {
		return rs
	}
	rs := mk()
	rs.key = key
	gk := ""
	switch {
	case rs.spend && rs.byScript:
		gk = fmt.Sprintf("ss:%x", rs.script)
	case rs.spend:
		gk = fmt.Sprintf("so:%d", rs.opIdx)
	case rs.byScript:
		gk = fmt.Sprintf("cs:%x", rs.script)
	default:
		gk = fmt.Sprintf("ct:%d", rs.txIdx)
	}
	if s.groups[gk] == nil {
		s.groups[gk] = &hintGroup{allOK: true, regEpoch: -1, unwatchedLow: noLow}
	}
	rs.grp = s.groups[gk]
	rs.registered, rs.outstanding, rs.dropped, rs.multi, rs.stale = false, nil, false, false, false
	s.reqs[key] = rs
	s.reqOrder = append(s.reqOrder, rs)
	return rs
}

// drawHint picks a client height hint around the interesting heights.
func (s *Sim) drawHint(rs *reqState) (uint32, bool) {
	r := s.R
	tip := s.tip()
	cands := []uint32{s.base, s.base + 1, tip, tip + 1, tip + 3}
	if tip > 1 {
		cands = append(cands, tip-1)
	}
	if tip > 4 {
		cands = append(cands, tip-4)
	}
	hs := s.matches(rs)
	lowest := uint32(0)
	if len(hs) > 0 {
		lowest = hs[0].b.height
		cands = append(cands, lowest, lowest-1, lowest-1)
		if s.K.BadHints {
			cands = append(cands, lowest+1)
		}
	}
	h := cands[r.Draw(len(cands))]
	if h == 0 {
		h = 1
	}
	ok := true
	if lowest > 0 && h > lowest {
		if !s.K.BadHints {
			h = lowest
		} else {
			ok = false
			r.Count("probe_bad_client_hint")
		}
	}
	return h, ok
}

func (s *Sim) opRegister(spend bool) {
	r := s.R
	u := s.U
	var rs *reqState
	if spend {
		k := r.Draw(len(u.ops))
		o := u.ops[k]
		byScript := o.kind != kTR && r.Draw(4) == 3
		if byScript {
			rs = s.reqFor(fmt.Sprintf("spend:script(O%d)", k), func() *reqState {
				q, err := chainntnfs.NewSpendRequest(nil, o.pkScript)
				r.Must(err, "spend request")
				return &reqState{spend: true, txIdx: -1, opIdx: -1, byScript: true, script: o.pkScript, spendReq: q}
			})
		} else {
			rs = s.reqFor(fmt.Sprintf("spend:O%d", k), func() *reqState {
				q, err := chainntnfs.NewSpendRequest(&o.op, o.pkScript)
				r.Must(err, "spend request")
				return &reqState{spend: true, txIdx: -1, opIdx: k, script: o.pkScript, spendReq: q}
			})
		}
	} else {
		ti := r.Draw(len(u.txs))
		t := u.txs[ti]
		oi := r.Draw(len(t.outs))
		script := t.outs[oi]
		if r.Draw(4) == 3 {
			rs = s.reqFor(fmt.Sprintf("conf:script(%x)", h256(string(script))[:3]), func() *reqState {
				q, err := chainntnfs.NewConfRequest(nil, script)
				r.Must(err, "conf request")
				return &reqState{txIdx: -1, opIdx: -1, byScript: true, script: script, confReq: q}
			})
		} else {
			rs = s.reqFor(fmt.Sprintf("conf:T%d/out%d", ti, oi), func() *reqState {
				q, err := chainntnfs.NewConfRequest(&t.hash, script)
				r.Must(err, "conf request")
				return &reqState{txIdx: ti, opIdx: -1, script: script, confReq: q}
			})
		}
	}
	c := &client{id: len(s.clients), rs: rs, n: 1, alive: true}
	if !spend {
		c.n = 1 + uint32(r.Draw(int(s.K.Limit)))
		c.incl = r.Draw(3) == 2
	}
	if s.K.LazyDen > 0 && r.Draw(s.K.LazyDen) == s.K.LazyDen-1 {
		c.lazy = true
	}
	hint, _ := s.drawHint(rs)
	c.hint = hint
	s.clients = append(s.clients, c)
	s.register(c)
}

// register (re-)registers a client with the current notifier.
func (s *Sim) register(c *client) {
	r := s.R
	rs := c.rs
	hs := s.matches(rs)
	hintOK := !(len(hs) > 0 && c.hint > hs[0].b.height)
	c.epoch = s.epoch
	c.regSeq = s.seq
	c.told, c.toldBlk, c.due, c.dueBlk, c.dirty, c.done, c.noticePending = false, nil, false, nil, false, false, false
	cached, hasCached := s.queryHint(rs)
	var (
		disp       bool
		start, end uint32
	)
	s.cur = callCtx{kind: "Register"}
	if rs.spend {
		var reg *chainntnfs.SpendRegistration
		err := s.call("RegisterSpend", func() error {
			var e error
			if rs.byScript {
				reg, e = s.nt.RegisterSpend(nil, rs.script, c.hint)
			} else {
				reg, e = s.nt.RegisterSpend(&s.U.ops[rs.opIdx].op, rs.script, c.hint)
			}
			return e
		})
		if s.kv.Fenced() {
			return
		}
		if err != nil {
			s.fail(rs, "register-error", "RegisterSpend(%s, hint %d) failed: %v", rs.key, c.hint, err)
		}
		c.sev = reg.Event
		if d := reg.HistoricalDispatch; d != nil {
			disp, start, end = true, d.StartHeight, d.EndHeight
		}
	} else {
		var reg *chainntnfs.ConfRegistration
		err := s.call("RegisterConf", func() error {
			var (
				e    error
				txid *chainhash.Hash
				opts []chainntnfs.NotifierOption
			)
			if rs.txIdx >= 0 {
				txid = &s.U.txs[rs.txIdx].hash
			}
			if c.incl {
				opts = append(opts, chainntnfs.WithIncludeBlock())
			}
			reg, e = s.nt.RegisterConf(txid, rs.script, c.n, c.hint, opts...)
			return e
		})
		if s.kv.Fenced() {
			return
		}
		if err != nil {
			s.fail(rs, "register-error", "RegisterConf(%s, n=%d, hint %d) failed: %v", rs.key, c.n, c.hint, err)
		}
		c.cev = reg.Event
		if d := reg.HistoricalDispatch; d != nil {
			disp, start, end = true, d.StartHeight, d.EndHeight
		}
	}
	if !rs.registered {
		rs.firstRegSeq = s.seq
	}
	if rs.grp.regEpoch != s.epoch {
		// Assumption: a persisted hint is only relied upon for requests that
		// were being watched whenever the chain was rolled back below it. If
		// a reorg went below the hint while no notifier instance had the
		// request registered (equivalent to a reorg while offline), the
		// hint may be stale through no fault of the notifier, and what is
		// then written on top of it stays in the database.
		rs.grp.regEpoch = s.epoch
		if hasCached && rs.grp.unwatchedLow < cached {
			rs.grp.allOK = false
			r.Count("probe_unwatched_reorg")
		}
		rs.grp.unwatchedLow = noLow
	}
	rs.registered = true
	rs.everRegistered = true
	rs.grp.allOK = rs.grp.allOK && hintOK
	if c.hint > rs.maxHint {
		rs.maxHint = c.hint
	}
	r.Logf("Register %v hint=%d lazy=%v cachedHint=%d/%v -> dispatch=%v [%d..%d]; on chain: %s", c, c.hint, c.lazy, cached, hasCached, disp, start, end, describeHits(hs))
	if disp {
		// Operational form of the hint property: the range the notifier
		// asks the backend to scan (it starts at the better of the client's
		// and the persisted hint) must cover the place where the request is
		// confirmed/spent right now.
		if len(hs) == 1 && rs.judged() && !(s.g != nil && s.g.lag) && (start > hs[0].b.height || end < hs[0].b.height) {
			s.fail(rs, "rescan-range-misses", "the notifier asks for a historical rescan of [%d..%d] for %s (client hint %d, persisted hint %d/%v) but the request is matched %s", start, end, rs.key, c.hint, cached, hasCached, describeHits(hs))
		}
		// Assumption: a rescan does not outlive the request it was
		// dispatched for (the request matured past the safety limit, was
		// forgotten and is now registered afresh): the backend abandons it.
		for _, old := range append([]*rescan(nil), s.rescans...) {
			if old.rs == rs {
				s.removeRescan(old)
				r.Count("probe_rescan_superseded")
			}
		}
		q := &rescan{rs: rs, start: start, end: end}
		rs.outstanding = q
		rs.dropped = false
		rs.firstRegSeq = s.seq
		s.rescans = append(s.rescans, q)
		r.Count("rescan_dispatched")
	}
	s.afterCall()
	if disp && s.K.SyncRescan {
		q := rs.outstanding
		mode := 0
		if s.g != nil {
			// the backend answers from ITS chain, which the TxNotifier may
			// not have caught up with
			mode = r.Draw(3)
		}
		s.scan(q, mode)
		s.deliver(q)
	}
}

func (s *Sim) opCancel() {
	live := s.liveClients()
	c := live[s.R.Draw(len(live))]
	s.R.Logf("Cancel %v", c)
	s.cur = callCtx{kind: "Cancel"}
	s.call("Cancel", func() error {
		if c.rs.spend {
			c.sev.Cancel()
		} else {
			c.cev.Cancel()
		}
		return nil
	})
	c.alive = false
	s.R.Count("client_cancelled")
	s.afterCall()
}

func (s *Sim) opRead() {
	var lazy []*client
	for _, c := range s.liveClients() {
		if c.lazy && !c.dirty {
			lazy = append(lazy, c)
		}
	}
	c := lazy[s.R.Draw(len(lazy))]
	s.R.Logf("Read %v", c)
	s.R.Count("lazy_read")
	s.readLazy(c)
}

// ---- the backend's historical rescans ----------------------------------------

func (s *Sim) pendingScans(scanned bool) []*rescan {
	var out []*rescan
	for _, q := range s.rescans {
		if q.failed {
			continue
		}
		if q.scanned == scanned {
			out = append(out, q)
		}
	}
	return out
}

func (s *Sim) opScan() {
	qs := s.pendingScans(false)
	q := qs[s.R.Draw(len(qs))]
	s.scan(q, s.R.Draw(3))
}

// scan computes the answer of a rescan on the chain as it is now. mode 0:
// block-by-block scan of exactly the requested range (fails when a height is
// missing); 1: scan truncated at the current tip; 2: transaction-index style
// lookup that ignores the range (conf requests by txid only).
func (s *Sim) scan(q *rescan, mode int) {
	r := s.R
	rs := q.rs
	q.scanned = true
	q.scanTip = s.tip()
	lo, hi := q.start, q.end
	if mode == 2 && (rs.spend || rs.txIdx < 0) {
		mode = 1
	}
	switch mode {
	case 0:
		if hi > s.tip() {
			q.failed = true
			rs.dropped = true
			rs.outstanding = nil
			r.Count("probe_rescan_failed")
			r.Logf("Scan %s [%d..%d]: height %d does not exist any more: the backend drops the rescan", rs.key, lo, hi, hi)
			return
		}
	case 1:
		if hi > s.tip() {
			hi = s.tip()
		}
	case 2:
		lo, hi = 0, s.tip()
	}
	hs := s.matches(rs)
	// conf scans walk from the top down, spend scans from the bottom up
	// (both as the real backends do); only matters under script reuse.
	var found *hit
	for i := range hs {
		h := hs[i]
		if h.b.height < lo || h.b.height > hi {
			continue
		}
		if found == nil || !rs.spend {
			hh := h
			found = &hh
		}
	}
	q.found = found
	if found != nil {
		r.Logf("Scan %s [%d..%d] mode %d at tip %d: found T%d in %v", rs.key, lo, hi, mode, s.tip(), found.tx.idx, found.b)
	} else {
		r.Logf("Scan %s [%d..%d] mode %d at tip %d: not found", rs.key, lo, hi, mode, s.tip())
	}
}

func (s *Sim) opDeliver() {
	qs := s.pendingScans(true)
	q := qs[s.R.Draw(len(qs))]
	s.deliver(q)
}

func (s *Sim) removeRescan(q *rescan) {
	for i, x := range s.rescans {
		if x == q {
			s.rescans = append(s.rescans[:i], s.rescans[i+1:]...)
			return
		}
	}
}

// deliver hands the answer computed at scan time to the notifier.
func (s *Sim) deliver(q *rescan) {
	r := s.R
	rs := q.rs
	if q.failed {
		s.removeRescan(q)
		return
	}
	if f := q.found; f != nil && !f.b.onChain {
		r.Count("probe_stale_rescan_answer")
		// The answer names a block that has left the chain since the scan.
		// It is harmless when the notifier has meanwhile seen the request
		// confirm/spend at the tip (a block connected after it started
		// watching) or has not climbed back to that height yet.
		aware := false
		for _, h := range s.matches(rs) {
			if h.b.seq > rs.firstRegSeq {
				aware = true
			}
		}
		unsafe := s.tip() >= f.b.height && !aware
		if unsafe {
			if !s.K.StaleDeliver {
				// this arm explores the backend failing such a rescan
				q.failed = true
				rs.dropped = true
				rs.outstanding = nil
				s.removeRescan(q)
				r.Logf("Deliver %s: answer names vanished %v; this run lets the backend drop it", rs.key, f.b)
				return
			}
			rs.stale = true
			r.Count("probe_stale_rescan_delivered")
		}
	}
	s.removeRescan(q)
	if rs.outstanding == q {
		rs.outstanding = nil
	}
	if q.found != nil {
		subs := 0
		for _, c := range s.clients {
			if c.alive && c.rs == rs && c.epoch == s.epoch {
				subs++
			}
		}
		if subs == 0 {
			rs.orphan = true
			rs.orphanHint = true
			r.Count("probe_orphan_details")
		}
	}
	s.cur = callCtx{kind: "Update"}
	var err error
	if rs.spend {
		var d *chainntnfs.SpendDetail
		if f := q.found; f != nil {
			op := s.U.ops[f.op].op
			d = &chainntnfs.SpendDetail{
				SpentOutPoint:     &op,
				SpenderTxHash:     &f.tx.hash,
				SpendingTx:        f.tx.msg,
				SpenderInputIndex: uint32(f.inIdx),
				SpendingHeight:    int32(f.b.height),
			}
		}
		r.Logf("UpdateSpendDetails %s found=%v (scanned at tip %d, now %d)", rs.key, q.found != nil, q.scanTip, s.tip())
		err = s.call("UpdateSpendDetails", func() error { return s.nt.UpdateSpendDetails(rs.spendReq, d) })
	} else {
		var d *chainntnfs.TxConfirmation
		if f := q.found; f != nil {
			bh := f.b.hash
			d = &chainntnfs.TxConfirmation{
				BlockHash:   &bh,
				BlockHeight: f.b.height,
				TxIndex:     uint32(f.pos),
				Tx:          f.tx.msg,
				Block:       f.b.ub.MsgBlock(),
			}
		}
		r.Logf("UpdateConfDetails %s found=%v (scanned at tip %d, now %d)", rs.key, q.found != nil, q.scanTip, s.tip())
		err = s.call("UpdateConfDetails", func() error { return s.nt.UpdateConfDetails(rs.confReq, d) })
	}
	if s.kv.Fenced() {
		return
	}
	if err != nil {
		// e.g. the request matured and was forgotten meanwhile
		r.Logf("  update returned: %v", err)
		r.Count("probe_update_error")
	}
	r.Count("rescan_answered")
	s.afterCall()
}

// ---- restart and faults -----------------------------------------------------

// opRestart drops the TxNotifier and builds a new one at the current tip on
// the same (re-opened) height hint database; live clients register again with
// the hints they used originally.
func (s *Sim) opRestart(why string) {
	r := s.R
	r.Logf("Restart (%s) at tip %d", why, s.tip())
	r.Count("restart")
	if s.ntUp {
		s.ntUp = false
		s.nt.TearDown()
	}
	s.R.Must(s.kv.Reopen(), "reopen db")
	s.faultArmed = false
	s.epoch++
	s.rescans = nil
	for _, rs := range s.reqOrder {
		rs.resetEpoch()
	}
	s.queryDisabled = false
	if why != "final" && s.K.QueryDisableDen > 0 && r.Draw(s.K.QueryDisableDen) == 0 {
		// this instance runs with the hint cache's QueryDisable option:
		// persisted hints are ignored at registration but must be kept
		// current all the same (the next instance relies on them)
		s.queryDisabled = true
		r.Count("probe_epoch_with_hint_query_disabled")
		r.Logf("this instance runs with QueryDisable")
	}
	s.boot()
	s.seq++
	for _, c := range s.clients {
		if !c.alive {
			continue
		}
		s.register(c)
		if s.kv.Fenced() {
			return
		}
	}
}

func (s *Sim) opFault() {
	r := s.R
	k := 1 + r.Draw(4)
	s.faultArmed = true
	switch r.Draw(3) {
	case 0:
		s.kv.FailWrite(k)
		r.Logf("Fault: write #%d from now fails with an I/O error", k)
	case 1:
		s.kv.CrashBefore(k)
		r.Logf("Fault: crash before write #%d from now", k)
	default:
		s.kv.CrashAfter(k)
		r.Logf("Fault: crash after write #%d from now", k)
	}
}

// ---- wind-down --------------------------------------------------------------

// WindDown: no more chain events; every outstanding rescan is answered, lazy
// clients read, and finally the node restarts once more and every client must
// learn the state of the active chain again from the persisted hints.
func (s *Sim) WindDown() {
	r := s.R
	s.seq++
	s.kv.Disarm()
	if s.g != nil {
		s.glueWindDown()
	}
	if s.half != nil {
		s.opNotify()
	}
	s.answerAll()
	for _, c := range s.liveClients() {
		if c.lazy && !c.dirty {
			s.readLazy(c)
		}
	}
	s.settle()
	if len(s.liveClients()) == 0 {
		return
	}
	s.opRestart("final")
	s.answerAll()
	s.settle()
	for _, c := range s.liveClients() {
		if c.lazy && !c.dirty {
			s.readLazy(c)
		}
	}
	r.Count("wind_down_complete")
}

func (s *Sim) answerAll() {
	for len(s.rescans) > 0 {
		q := s.rescans[0]
		if !q.scanned {
			s.scan(q, 1)
		}
		s.deliver(q)
		if s.crashed() {
			return
		}
	}
}
