package ntfnsim

import (
	"fmt"
	"runtime/debug"
	"strings"
	"testing"
	"testing/synctest"

	"verif/simcore"
)

// InBubble runs f inside a testing/synctest bubble so that a TxNotifier call
// that blocks on a client channel can be detected deterministically
// (synctest.Wait returns once every goroutine is durably blocked). Panics
// raised inside the bubble (violations, harness errors, panics of the code
// under test) are carried out of the bubble and re-raised in the caller's
// goroutine, where simcore.Execute classifies them.
func InBubble(t *testing.T, r *simcore.Run, f func()) {
	var (
		pv    interface{}
		stack string
	)
	func() {
		// synctest.Test panics when the bubble ends with goroutines still
		// blocked; the engine releases them itself, this is only a net.
		defer func() {
			if p := recover(); p != nil && pv == nil {
				pv = bubbleTrouble{fmt.Sprint(p)}
			}
		}()
		synctest.Test(t, func(t *testing.T) {
			defer func() {
				if p := recover(); p != nil {
					pv = p
					stack = string(debug.Stack())
				}
			}()
			f()
		})
	}()
	switch p := pv.(type) {
	case nil:
		return
	case bubbleTrouble:
		r.Harness("synctest bubble: %s", p.msg)
	case lndPanic:
		r.Fail("PANIC", "panic in code under test: %v\n%s", p.val, p.stack)
	default:
		if isTypedSimcorePanic(p) {
			panic(p)
		}
		if panicFromLnd(stack) {
			r.Fail("PANIC", "panic in code under test: %v\n%s", p, trim(stack))
		}
		r.Harness("panic in simulator: %v\n%s", p, trim(stack))
	}
}

type bubbleTrouble struct{ msg string }

// lndPanic carries a panic out of a notifier-call goroutine.
type lndPanic struct {
	val   interface{}
	stack string
}

// isTypedSimcorePanic recognises simcore's own (unexported) violation and
// harness panics by their type name.
func isTypedSimcorePanic(p interface{}) bool {
	tn := fmt.Sprintf("%T", p)
	return tn == "simcore.violationPanic" || tn == "simcore.harnessPanic" || tn == "simcore.unjudgedPanic"
}

// panicFromLnd reports whether the first non-runtime frame after the panic is
// outside the simulator.
func panicFromLnd(stack string) bool {
	lines := strings.Split(stack, "\n")
	seen := false
	for i := 0; i < len(lines); i++ {
		l := lines[i]
		if strings.HasPrefix(l, "panic(") {
			seen = true
			continue
		}
		if !seen || strings.HasPrefix(l, "\t") || l == "" {
			continue
		}
		if strings.HasPrefix(l, "runtime.") || strings.HasPrefix(l, "runtime/") {
			continue
		}
		return !strings.HasPrefix(l, "verif/")
	}
	return false
}

func trim(st string) string {
	lines := strings.Split(st, "\n")
	if len(lines) > 40 {
		lines = lines[:40]
	}
	return strings.Join(lines, "\n")
}
