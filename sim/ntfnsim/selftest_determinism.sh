#!/bin/bash
# Determinism self-test for ntfnsim: the same VERIF_SEED must give the same
# per-run trace hashes in different processes and under different GOMAXPROCS.
export GOFLAGS=-mod=mod GOPROXY=off GODEBUG=randseednop=0
BIN=${BIN:-/verif/build/run_ntfnsim}
RUNS=${RUNS:-600}
D=$(mktemp -d /dev/shm/c14-det-XXXX)
rc=0
for seed in ${SEEDS:-11 22 33}; do
  for variant in a:1 b:16 c:2; do
    tag=${variant%%:*}; gmp=${variant##*:}
    VERIF_PROP=C14 VERIF_TIER=quick VERIF_SEED=$seed VERIF_RUNS=$RUNS VERIF_WALL=300 VERIF_SHARD=0/1 \
      VERIF_OUT=$D/$seed-$tag.json VERIF_REPLAY_DIR=$D/replays VERIF_KNOWN=/verif/sim/ntfnsim/known_C14.json GOMAXPROCS=$gmp \
      $BIN -test.run='^TestRun$' -test.timeout=0 > $D/$seed-$tag.log 2>&1
  done
  python3 - $D $seed <<'PY' || rc=1
import json,sys
d,seed=sys.argv[1],sys.argv[2]
outs=[json.load(open(f"{d}/{seed}-{t}.json")) for t in "abc"]
hs=[o["hashes"] for o in outs]
same = hs[0]==hs[1]==hs[2] and outs[0]["stats"]==outs[1]["stats"]==outs[2]["stats"]
viol=[[ (v["seed"],v["code"]) for v in (o.get("violations") or [])] for o in outs]
same = same and viol[0]==viol[1]==viol[2]
print(f"seed {seed}: runs={outs[0]['runs']} nontrivial hashes={len(hs[0])} known-finding runs={len(viol[0])} identical across GOMAXPROCS=1/16/2 processes: {same}")
sys.exit(0 if same else 1)
PY
done
rm -rf $D
exit $rc
