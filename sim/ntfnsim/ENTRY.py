# Table / manifest entries for property C14 (engine ntfnsim). Same dict shapes as
# the C01 entries in /verif/checks_table.py (CHECK) and /verif/manifest_text.py (TEXT).
# Merge: CHECKS["C14"] = CHECK ; TEXT["C14"] = TEXT ; ENGINES.append(ENGINE) ;
# known_findings.json += KNOWN_FINDINGS (they are also in ntfnsim/known_C14.json).

NTFNSIM_STUB = {
    "chainntnfs.TxNotifier (RegisterConf/RegisterSpend/Cancel*/Update*Details/ConnectTip/NotifyHeight/DisconnectTip/TearDown)": "real, unmodified",
    "channeldb.HeightHintCache": "real, on a SimKV bbolt file (re-opened at every simulated restart)",
    "kvdb + bbolt": "real bbolt file on tmpfs behind SimKV (write failure / crash granularity = one kvdb transaction)",
    "chain backend (bitcoind/btcd/neutrino notifier, block source, historical rescans)": "simulator: block-list chain over a universe of <= 6 transactions / <= 4 outpoints (real wire.MsgTx / btcutil.Block objects), rescans computed on the simulator's own chain at scan time and delivered later, never recomputed",
    "notification clients": "simulator: prompt clients (drain their channels after every notifier call) and lazy clients (read at drawn moments; the simulator only looks at channel occupancy in between)",
    "goroutines / blocking": "every notifier call runs in its own goroutine inside a testing/synctest bubble; a call that blocks on a client channel is detected deterministically",
    "chainntnfs.RewindChain / HandleMissedBlocks / GetCommonBlockAncestorHeight / getMissedBlocks / GetClientMissedBlocks (chainntnfs/interface.go)": "real, unmodified (arms backend-glue, backend-glue-faulty): every connect/disconnect of those arms reaches the TxNotifier through them",
    "notificationDispatcher loop of the concrete notifier (bitcoindnotify/bitcoind.go: case chain.BlockConnected / chain.BlockDisconnected, handleBlockConnected, maintenance of b.bestBlock, backendStoresReorgs=true)": "STUB: a simulator-side mirror of that unexported control flow (ntfnsim/glue.go dispBlockConnected / dispHandleBlockConnected / dispBlockDisconnected), statement by statement incl. 'bestBlock is only taken from the return value on error' and 'continue out'; registrations, epochs clients, mempool handling of the loop are not mirrored",
    "chainntnfs.ChainConn (GetBlockHeader, GetBlockHeaderVerbose, GetBlockHash) + GetBlock": "simulator: answered from the simulator's CURRENT block-list chain; headers/blocks of reorged-out blocks stay available by hash (as bitcoind keeps them); unknown hash / height out of range are permanent errors; each RPC may fail transiently by tape decision (fault_backend_rpc_error)",
    "bitcoind's notifications": "simulator: one BlockConnected/BlockDisconnected per chain change, in order, each possibly lost (fault_backend_missed_notification), delivered at once or (GlueAsync runs) after further chain events",
    "ProcessRelevantSpendTx, mempool spend notifier, delivery of block epochs, the btcd/neutrino notifiers": "not simulated",
}
NTFNSIM_ASSUME = [
    "the dispatcher loop of the backend-glue arms is a mirror of BitcoindNotifier.notificationDispatcher/handleBlockConnected pinned by a hash of their source text; if the tree no longer has that text the two mirror-provenance findings are neither reported nor suppressed: such runs end unjudged (run_ended_unjudged)",
    "blocks that have ever had >= reorgSafetyLimit confirmations are never disconnected (limit drawn from {3,4,5,8}); at most limit-1 blocks are disconnected in a row",
    "the chain is valid: no transaction twice, no two conflicting spends, a child only after its parent",
    "a client's height hint is its promise that the tx/spend does not enter the chain below it; runs that break the promise on purpose (arm knob BadHints) only keep the safety checks for that request",
    "script requests that are matched by more than one transaction at once (address reuse) keep only the safety checks (which transaction 'the' confirmation is stays open)",
    "no chain changes while the node is down; a persisted hint is only relied upon if the request was registered whenever the chain was rolled back below it (otherwise = reorg while offline)",
    "a historical rescan does not outlive the maturity (burial past the safety limit) of the request it was dispatched for",
    "backend-glue arms with faults or delayed notifications: a reorg is ONE chain event (d < limit blocks out, d+1 or d+2 in), as in bitcoind, so the backend's RPCs never answer from a chain shorter than one they showed before; single-block disconnect events only occur in the fault-free, immediately-delivering backend-glue runs",
    "backend faults are transient (the next RPC works), at most 3 RPC failures and 3 lost notifications per run, and stop before the end of the run; lnd is given limit+2 further announced blocks to catch up",
    "bbolt transaction atomicity and durability are trusted",
    "a clean batch is evidence, not proof: histories are sampled from a seeded PRNG",
]

_CHECK = dict(
    bin="run_ntfnsim", build="gotest", pkg="run_ntfnsim", level="exploration",
    quick=dict(runs=160000, wall=90), thorough=dict(runs=4000000, wall=1200),
    rule="one evaluation = one seeded history of 40-100 (thorough: up to 220) events: connect a block with a drawn subset of the "
         "transaction universe (incl. conflicting spends in competing branches), disconnect the tip (sticky, up to limit-1 deep), "
         "RegisterConf/RegisterSpend with drawn numConfs/hint/IncludeBlock/laziness, cancel, backend scans a dispatched rescan, backend "
         "delivers the (possibly stale) answer, ConnectTip and NotifyHeight split by client calls, restart on the same hint database, "
         "injected hint-write failure / crash; after every notifier call every event a client receives is judged against the block-list "
         "model, after every settled step the told/due and hint predicates are evaluated, at the end every rescan is answered, the node "
         "restarts once more and every client must learn the state of the active chain again. Arms backend-glue / backend-glue-faulty "
         "(25% of the runs, selected by the last configuration draws; 2/3 of them faulty, half of them with delayed notification "
         "delivery): the simulator changes its chain (connect; disconnect; with faults/delays: atomic reorg d out, d+1..d+2 in), emits "
         "bitcoind's BlockConnected/BlockDisconnected notifications (lost with 1/5..1/12, <=3 per run) to a mirror of bitcoind.go's "
         "dispatcher, which applies them with the real RewindChain/HandleMissedBlocks over a ChainConn that fails transiently (1/6..1/16 "
         "per RPC, <=3 per run); block-epoch backlog queries through the real GetClientMissedBlocks. While the dispatcher is behind the "
         "chain only the safety clauses are judged, whenever it stands at the tip (and at the end, after faults stop, pending "
         "notifications are delivered and at most limit+2 further blocks are announced: it MUST, else backend-never-catches-up) the full "
         "settled-state oracle runs and the blocks fed to the TxNotifier must be the active chain (notifier-chain-diverged). Runs with "
         "atomic reorgs have 3/5 of the step budget (a reorg step is up to 2*limit chain events). "
         "non-trivial = a reorg notice was observed AND a renewed confirmation/spend was observed after it (faulty arms: and a fault "
         "fired); distinct = distinct event-trace hash",
    states_measure="distinct (tip-base, blocks disconnected in a row, clients holding a notification, outstanding rescans, epoch) tuples",
    expected_probes=["probe_unwatched_hint_judged", "probe_epoch_with_hint_query_disabled", "probe_deep_reorg", "probe_split_connect", "probe_done", "probe_stale_rescan_answer", "probe_stale_rescan_delivered",
                     "probe_rescan_failed", "probe_lazy_notice_sent", "probe_script_reuse", "probe_bad_client_hint", "probe_orphan_details",
                     "probe_hint_frozen_above_tip", "probe_unwatched_reorg", "fault_crash", "fault_write_fail", "restart",
                     "fault_backend_rpc_error", "fault_backend_missed_notification", "probe_glue_handle_missed_blocks",
                     "probe_glue_missed_blocks_replayed", "probe_glue_missed_disconnects", "probe_glue_partial_rewind",
                     "probe_glue_connected_ntfn_abandoned", "probe_glue_best_not_in_view", "probe_glue_lagging", "probe_glue_recovered",
                     "probe_glue_lag_judged", "probe_glue_catchup_block", "probe_glue_ntfn_delayed", "probe_glue_deep_reorg",
                     "probe_glue_epoch_backlog", "probe_glue_epoch_backlog_reorged_client", "probe_glue_stale_best_after_rewind",
                     "probe_glue_junction_foreign-best", "glue_caught_up_at_end"],
    real_vs_stub=NTFNSIM_STUB, assumptions=NTFNSIM_ASSUME,
    determinism="call-driven engine inside a synctest bubble (one notifier call at a time, run to completion or durable block; the glue "
                "functions run inside such a call and draw their RPC faults from the tape while the scheduler goroutine waits): identical "
                "seed gives identical event log; self-test /verif/sim/ntfnsim/selftest_determinism.sh (3 seeds x 3 processes x GOMAXPROCS 1/16/2)",
    # ./check adds these for build="gotest": run_args=["-test.run=^TestRun$", "-test.timeout=0"]
)

ENGINE = {"name": "ntfnsim", "path": "/verif/sim/ntfnsim", "serves_properties": ["C14"],
          "kind_free_text": "real chainntnfs.TxNotifier + real channeldb.HeightHintCache on SimKV, driven by a simulated chain backend "
                            "(block-list model, reorgs, late/stale rescan answers), prompt and lazy clients, restarts, hint-write faults; "
                            "backend-glue arms: real RewindChain/HandleMissedBlocks/GetClientMissedBlocks under a mirrored bitcoind dispatcher, "
                            "a ChainConn with transient RPC failures and lost block notifications; "
                            "synctest bubble for deterministic detection of blocked sends"}

_TEXT = dict(
    engine="ntfnsim", design_ref="DESIGN.md 5 C14",
    technique="deterministic simulation: seeded chain histories (connect/disconnect/reorg/restart, late rescan answers, hint-write faults) "
              "against the real TxNotifier + HeightHintCache, every notification judged against a block-list model of the active chain",
    level_text="Seeded exploration of chain histories over a small transaction/outpoint universe with registrations before and after "
               "inclusion, all confirmation depths 1..limit, several clients per request, cancellations, ConnectTip/NotifyHeight split by "
               "registrations, historical rescans whose answers arrive after further chain events, restarts on the persisted hint cache and "
               "(own arm) lost hint writes. Judged: every Confirmed/Spend names the block, height, index, tx (input) that contains the "
               "request on the active chain at dispatch and has >= N confirmations; never two without a reorg notice between; a reorg "
               "notice only when the block holding the tx/spend is disconnected, with the documented depth, and always when a client "
               "holds the notification of that block; a client whose rescan is answered (or whose tx was mined after it registered) holds "
               "the notification as soon as the model says N confirmations were reached; Updates carry the model's count; Done only past "
               "the safety limit; the persisted hint never lies above the height where the request is confirmed/spent, and the rescan range "
               "lnd asks for after a restart covers that height; this includes the hints of requests whose clients all cancelled before a restart "
               "(the next notifier instance is never asked about them: judged unless the chain was rolled back below the hint while nobody "
               "watched) and notifier instances that run with the cache's QueryDisable option (hints are written, never read; the simulator "
               "reads them through its own cache object). Backend-glue arms: the same chain events reach the TxNotifier through "
               "the shared glue of chainntnfs/interface.go under transient RPC failures and lost notifications; while the dispatcher "
               "lags, every Confirmed/Spend must name a block that was part of the chain at some time and contains the request at the "
               "named place, never two without a reorg notice between; when it stands at the tip (it must, a bounded number of blocks "
               "after the faults stop) its best block is the tip, the blocks it fed the TxNotifier are the active chain, and every "
               "client holds exactly what the model says; a block-epoch backlog is the active chain from the common ancestor on. "
               "Exploration is the right level: the history space is unbounded and the "
               "oracle is history independent.",
    level_note="Trusted: bbolt atomicity; the simulator's 150-line chain model; testing/synctest for blocked-send detection. Not covered: "
               "ProcessRelevantSpendTx, the mempool notifier, the unexported dispatcher loops of the concrete notifiers (the bitcoind "
               "one is mirrored, not executed; historical rescans are modelled as 'scan own chain, deliver later, drop on error'), "
               "reorgs while the node is down, rescans that outlive a "
               "request's maturity. Lazy clients are judged on what they finally read and on channel occupancy, not on Updates. "
               "Eight structural findings on the unchanged tree are registered as known findings (see KNOWN_FINDINGS); runs that hit one "
               "end there, all other runs are judged in full.",
)

# Findings on the unchanged /repo (minimal replays in /verif/sim/ntfnsim/findings/).
KNOWN_FINDINGS = [
    {"property": "C14", "code": "stale-rescan-accepted", "sig": "conf", "status": "open",
     "what": "UpdateConfDetails accepts a historical-rescan answer whose block has meanwhile been disconnected (no check of details.BlockHash against the active chain): stale Confirmed/Updates, the later real confirmation is ignored as 'address reuse', can end in a nil-pointer panic in ConnectTip/NotifyHeight"},
    {"property": "C14", "code": "stale-rescan-accepted", "sig": "spend", "status": "open",
     "what": "UpdateSpendDetails accepts a historical-rescan answer whose spending block has meanwhile been disconnected: Spend for a transaction that is not on the active chain; can end in a nil-pointer panic in ConnectTip"},
    {"property": "C14", "code": "block-not-included", "sig": "", "status": "open",
     "what": "RegisterConf on an already-found request dispatches to ALL subscribers the details copy shaped by the NEW client's IncludeBlock option: a subscriber that asked WithIncludeBlock gets Block==nil when another client registers between ConnectTip and NotifyHeight of its confirmation height"},
    {"property": "C14", "code": "orphan-details-untracked", "sig": "conf", "status": "open",
     "what": "UpdateConfDetails caches positive rescan details even when every subscriber has cancelled, but only dispatchConfDetails registers the height for reorg tracking: the cached details survive the disconnect of their block and are served to the next client"},
    {"property": "C14", "code": "orphan-details-untracked", "sig": "spend", "status": "open",
     "what": "UpdateSpendDetails caches positive rescan details even when every subscriber has cancelled, but only dispatchSpendDetails registers the height for reorg tracking: the cached details survive the disconnect of their block and are served to the next client"},
    {"property": "C14", "code": "hint-frozen-pending-rescan", "sig": "conf", "status": "open",
     "what": "DisconnectTip/updateHints skip requests whose historical rescan is still pending, so their persisted hint stays above the new tip; if the notifier stops before the rescan is answered the stale-high hint survives and a confirmation re-mined below it is missed by the next registration"},
    {"property": "C14", "code": "hint-frozen-pending-rescan", "sig": "spend", "status": "open",
     "what": "DisconnectTip/updateHints skip requests whose historical rescan is still pending, so their persisted hint stays above the new tip; if the notifier stops before the rescan is answered the stale-high hint survives and a spend re-mined below it is missed by the next registration"},
    # --- found by the backend-glue arms (replays findings/F7-*.json, F8-*.json); PROPOSED, not yet in /verif/known_findings.json
    {"property": "C14", "code": "rewind-adopts-foreign-best", "sig": "conf", "status": "open",
     "what": "chainntnfs.RewindChain (interface.go:582-605) takes the new best block's hash from chainConn.GetBlockHash(height-1) on the backend's CURRENT chain instead of the parent of the block it disconnects; after a >=2-deep reorg (bitcoind has already switched branches) the dispatcher so adopts a block the TxNotifier never saw; if the next disconnect is then lost (one transient RPC error in RewindChain, or one missed BlockDisconnected) HandleMissedBlocks (interface.go:631-650) finds bestBlock.Hash on the active chain, rewinds nothing, and the stale block stays under the TxNotifier for good: Confirmed for a block that is not on the active chain without NegativeConf, confirmations in the replacing block never reported"},
    {"property": "C14", "code": "rewind-adopts-foreign-best", "sig": "spend", "status": "open",
     "what": "same root cause as rewind-adopts-foreign-best/conf (RewindChain adopts the hash at height-1 of the backend's current chain, HandleMissedBlocks then sees nothing to rewind), for spends: Spend kept for a stale block without Reorg, spend in the replacing block never reported, hint advanced past it; can end in a nil-pointer panic in ConnectTip/NotifyHeight when the spending tx is seen again"},
    {"property": "C14", "code": "backend-never-catches-up", "sig": "stale-best-after-missed-blocks-rewind", "status": "open",
     "what": "bitcoindnotify/bitcoind.go:412-435 (same flow btcdnotify/btcd.go:467-489): the best block returned by HandleMissedBlocks is only stored on error; when it rewound the TxNotifier successfully and the first handleBlockConnected of the catch-up fails (GetBlock RPC error, bitcoind.go:649) b.bestBlock stays at the reorged-out block ABOVE the TxNotifier's height: every later RewindChain/HandleMissedBlocks starts with DisconnectTip(bestBlock.Height) -> 'received blocks out of order', no block is ever connected again, clients hear nothing more (found in the simulator's mirror of that loop; the cited lines have the same control flow)"},
    {"property": "C14", "code": "catch-up-mixes-branches", "sig": "conf", "status": "open",
     "what": "bitcoindnotify/bitcoind.go:406-444 + chainntnfs.HandleMissedBlocks/getMissedBlocks (interface.go:659, :680-699): when a BlockConnected notification is handled after the backend has switched branches again, the gap is filled by HEIGHT from the backend's current chain and the announced (meanwhile reorged-out) block is then connected on top without checking that its PrevBlock is the last block connected: the TxNotifier is fed a sequence that is no chain (the same tx in two of 'its' blocks); when the stale block is disconnected later it clears the details of the request although the tx is still confirmed in the lower, active block: Confirmed retracted for good / hint advanced past the confirmation (needs delayed notifications plus a lost notification or RPC error; rare)"},
    {"property": "C14", "code": "catch-up-mixes-branches", "sig": "spend", "status": "open",
     "what": "same root cause as catch-up-mixes-branches/conf, for spends: the Spend of the active block is retracted by the Reorg for the stale block connected on top of it and never re-sent; spend hint advanced past the spend"},
    # only reachable in the faulty arm when the group was not flagged 'frozen' first; kept as a net
    {"property": "C14", "code": "hint-above-event", "sig": "after-fault", "status": "open", "what": "hint above the event after a lost hint write (see hint-frozen-pending-rescan)"},
    {"property": "C14", "code": "confirmed-not-told", "sig": "after-fault", "status": "open", "what": "confirmation missed after a lost hint write (see hint-frozen-pending-rescan)"},
    {"property": "C14", "code": "spend-not-told", "sig": "after-fault", "status": "open", "what": "spend missed after a lost hint write (see hint-frozen-pending-rescan)"},
    {"property": "C14", "code": "rescan-range-misses", "sig": "after-fault", "status": "open", "what": "rescan range misses the event after a lost hint write (see hint-frozen-pending-rescan)"},
]

CHECK = {"C14": _CHECK}
TEXT = {"C14": _TEXT}
