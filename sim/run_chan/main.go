// Command run_chan is the worker binary for the chansim-based properties
// (C01, C02, C03, C06). ./check starts 16 of these with different shards.
//
//go:debug randseednop=0
package main

import (
	"fmt"
	"os"

	"verif/chansim"
	"verif/simcore"
)

func main() {
	prop := os.Getenv("VERIF_PROP")
	tier := os.Getenv("VERIF_TIER")
	thorough := tier == "thorough"
	var run func(r *simcore.Run)
	switch prop {
	case "C01":
		run = func(r *simcore.Run) {
			cfg := chansim.DrawConfig(r.Tape)
			mode := chansim.Mode{MaxSteps: 60 + 40*r.Tape.CfgDraw(4), MaxHtlcs: []int{3, 8, 16, 30}[r.Tape.CfgDraw(4)]}
			r.Arm = "fault-free/" + cfg.TypeName
			// many-HTLC arm (drawn last: older tapes yield 0 = off): both
			// sides accept 241 HTLCs, adds pile up between rare signatures,
			// so single commitments carry hundreds of HTLC outputs (weight,
			// fee and output-ordering code at the protocol maximum of 483)
			den := 96
			if thorough {
				den = 24
			}
			if r.Tape.CfgDraw(den) == 1 {
				cfg.MaxHtlcsA, cfg.MaxHtlcsB = 241, 241
				if cfg.CapacitySat < 16_777_215 {
					cfg.CapacitySat = 16_777_215
				}
				mode.MaxHtlcs, mode.MaxSteps, mode.ManyHtlcs = 483, 900, true
				r.Arm = "many-htlcs/" + cfg.TypeName
			}
			chansim.NewSim(r, cfg, mode).Run()
		}
	case "C03":
		run = func(r *simcore.Run) {
			cfg := chansim.DrawConfig(r.Tape)
			mode := chansim.Mode{Cuts: true, StripDLP: true, StaleWrites: true,
				MaxSteps: 60 + 30*r.Tape.CfgDraw(3), MaxHtlcs: []int{3, 8, 16}[r.Tape.CfgDraw(3)],
				MediumDen: 40, MediumHtlcs: 120}
			r.Arm = "cuts/" + cfg.TypeName
			chansim.NewSim(r, cfg, mode).Run()
		}
	case "C02":
		run = func(r *simcore.Run) {
			cfg := chansim.DrawConfig(r.Tape)
			cfg.NoRevLogAmt = r.Tape.CfgDraw(4) == 0
			mode := chansim.Mode{Cuts: true, WriteFail: true, StaleWrites: true, ForkReload: 1, ForkResume: 3,
				MaxSteps: 40 + 20*r.Tape.CfgDraw(2), MaxHtlcs: []int{3, 8, 16}[r.Tape.CfgDraw(3)],
				MediumDen: 40, MediumHtlcs: 80}
			if thorough {
				mode.ForkResume = 8
			}
			r.Arm = "crash-points/" + cfg.TypeName
			chansim.NewSim(r, cfg, mode).Run()
		}
	case "C06":
		run = func(r *simcore.Run) {
			if r.Tape.CfgDraw(3) == 0 {
				r.Arm = "revocation-store"
				chansim.RunRevStore(r, thorough)
				return
			}
			cfg := chansim.DrawConfig(r.Tape)
			mode := chansim.Mode{Cuts: true, WriteFail: true, StaleWrites: true, ForkReload: 3, ForkResume: 1, ForgedRev: true,
				MaxSteps: 50 + 30*r.Tape.CfgDraw(2), MaxHtlcs: 6, MediumDen: 40, MediumHtlcs: 60}
			r.Arm = "release-rule/" + cfg.TypeName
			chansim.NewSim(r, cfg, mode).Run()
		}
	default:
		fmt.Fprintf(os.Stderr, "HARNESS: unknown VERIF_PROP %q\n", prop)
		os.Exit(2)
	}
	simcore.WorkerMain(simcore.Spec{Property: prop, Engine: "chansim", Run: run})
}
