package sweepsim

import (
	"strconv"
	"regexp"
	"bytes"
	"errors"
	"fmt"
	"sort"
	"strings"

	"github.com/btcsuite/btcd/txscript/v2"
	"github.com/btcsuite/btcd/wire/v2"
	"github.com/lightningnetwork/lnd/chainntnfs"
	"github.com/lightningnetwork/lnd/sweep"
)

// txInfo is what the oracle derives from a transaction by itself (never from
// lnd's bookkeeping).
type txInfo struct {
	fee      int64
	totalIn  int64
	totalOut int64
	// wAct is the transaction's actual weight (BIP-141). wNorm adds the
	// documented slack of witnessSlack: an upper bound for any a-priori size
	// the node can have had for this transaction before signing it.
	wAct, wNorm int64
	hasChange   bool
	ins         map[wire.OutPoint]struct{}
	labels      []string
}

func (i *txInfo) spends(op wire.OutPoint) bool { _, ok := i.ins[op]; return ok }

const maxEcdsaSigWithFlag = 73

// witnessSlack bounds from above how far the node's a-priori size of one input
// may exceed the final serialised witness. Three things are not known before
// signing / depend on minimal script-number encoding, and only these are
// allowed for (documented slack of the MaxFeeRate check):
//
//   - an ECDSA signature with sighash flag is at most 73 bytes; a shorter one
//     contributes the difference;
//   - a Schnorr signature is 64 bytes with SIGHASH_DEFAULT but 65 with an
//     explicit flag: 1 byte;
//   - the operand of each OP_CHECKSEQUENCEVERIFY / OP_CHECKLOCKTIMEVERIFY in
//     the witness script is a minimally encoded number of 1..5 bytes: 4 bytes.
//
// prevPk is the script of the output being spent (selects where the witness
// script sits in the stack).
func witnessSlack(wit wire.TxWitness, prevPk []byte) int64 {
	var s int64
	for _, e := range wit {
		n := len(e)
		switch {
		case n >= 9 && n <= maxEcdsaSigWithFlag && e[0] == 0x30 && int(e[1]) == n-3 && e[2] == 0x02:
			s += int64(maxEcdsaSigWithFlag - n)
		case n == 64 && txscript.IsPayToTaproot(prevPk):
			s++
		}
	}
	var script []byte
	switch {
	case txscript.IsPayToTaproot(prevPk) && len(wit) >= 3:
		script = wit[len(wit)-2]
	case txscript.IsPayToWitnessScriptHash(prevPk) && len(wit) >= 1:
		script = wit[len(wit)-1]
	}
	if script != nil {
		tok := txscript.MakeScriptTokenizer(0, script)
		for tok.Next() {
			if op := tok.Opcode(); op == txscript.OP_CHECKSEQUENCEVERIFY || op == txscript.OP_CHECKLOCKTIMEVERIFY {
				s += 4
			}
		}
	}
	return s
}

func txWeight(tx *wire.MsgTx) int64 {
	return int64(tx.SerializeSizeStripped())*3 + int64(tx.SerializeSize())
}

// observe is called for every transaction the node hands to the wallet
// (testmempoolaccept or publish). It identifies the bump request the
// transaction belongs to and evaluates the per-transaction part of C18.
// Caller holds w.mu.
func (w *World) observe(tx *wire.MsgTx, phase string) (*simReq, *txInfo) {
	info := &txInfo{ins: map[wire.OutPoint]struct{}{}}
	var q *simReq
	mixed := false
	var budget int64
	for _, ti := range tx.TxIn {
		op := ti.PreviousOutPoint
		if _, dup := info.ins[op]; dup {
			w.harness("tx %v spends %v twice", tx.TxHash(), op)
			return nil, nil
		}
		info.ins[op] = struct{}{}
		if in, ok := w.byOp[op]; ok {
			info.totalIn += in.value
			info.labels = append(info.labels, in.label())
			budget += in.budget
			switch {
			case in.live == nil:
				w.harness("tx spends %s which belongs to no live bump request", in.label())
				return nil, nil
			case q == nil:
				q = in.live
			case q != in.live:
				mixed = true
			}
			continue
		}
		if u, ok := w.utxoByOp[op]; ok {
			info.totalIn += u.value
			info.labels = append(info.labels, fmt.Sprintf("u%d", u.idx))
			continue
		}
		w.harness("tx %v spends unknown outpoint %v", tx.TxHash(), op)
		return nil, nil
	}
	if q == nil {
		// none of the inputs any request asked for is in this transaction
		sort.Strings(info.labels)
		ghost := &simReq{minIdx: 1 << 29, key: "R?"}
		w.violate(ghost, "inputs-mismatch", "%s at height %d: transaction [%s] spends wallet coins only: none of the inputs a bump request asked to sweep",
			phase, w.height, strings.Join(info.labels, ","))
		return nil, nil
	}
	sort.Strings(info.labels)
	for _, o := range tx.TxOut {
		info.totalOut += o.Value
	}
	info.fee = info.totalIn - info.totalOut
	info.wAct = txWeight(tx)
	info.wNorm = info.wAct
	for _, ti := range tx.TxIn {
		info.wNorm += witnessSlack(ti.Witness, w.prevScript(ti.PreviousOutPoint))
	}
	nReq := 0
	for _, ti := range tx.TxIn {
		if in, ok := w.byOp[ti.PreviousOutPoint]; ok && in.reqOut != nil {
			nReq++
		}
	}
	for j, o := range tx.TxOut {
		if j >= nReq && bytes.Equal(o.PkScript, w.changePk) {
			info.hasChange = true
		}
	}

	w.r.Count("tx_observed_" + phase)
	w.ev(q, "%s h=%d fee=%d ins=[%s] outs=%d change=%v", phase, w.height, info.fee,
		strings.Join(info.labels, ","), len(tx.TxOut), info.hasChange)

	// --- spends all the inputs it was asked to sweep (and nothing else) ------
	if mixed {
		w.violate(q, "inputs-mismatch", "transaction mixes inputs of different bump requests: [%s]",
			strings.Join(info.labels, ","))
	}
	for op := range q.ops {
		if !info.spends(op) {
			w.violate(q, "inputs-mismatch", "transaction [%s] does not spend requested input %s",
				strings.Join(info.labels, ","), w.opLabel(op))
			break
		}
	}
	if len(info.ins) != len(q.ops) && !mixed {
		for op := range info.ins {
			if _, ok := q.ops[op]; !ok {
				w.violate(q, "inputs-mismatch", "transaction spends %s which is not part of its bump request",
					w.opLabel(op))
				break
			}
		}
	}

	// --- fee <= budget attached to its inputs (exact) -------------------------
	if info.fee < 0 {
		w.violate(q, "negative-fee", "outputs %d exceed inputs %d", info.totalOut, info.totalIn)
	}
	if info.fee > budget {
		w.violate(q, "fee-above-budget", "%s at height %d: fee %d sat exceeds the budget %d sat attached to its inputs [%s]",
			phase, w.height, info.fee, budget, strings.Join(info.labels, ","))
	}

	// --- fee rate <= configured maximum ---------------------------------------
	// fee <= MaxFeeRate * (actual weight + documented witness slack) / 1000.
	// No further allowance: when a transaction ends up without change output
	// (its sub-dust remainder went to the miners) the bound is the same; such
	// cases carry their own structural signature.
	maxFee := w.cfg.maxRateKW() * info.wNorm / 1000
	if info.fee > maxFee {
		sig := ""
		if !info.hasChange {
			sig = "no-change-output"
		}
		w.violateSig(q, "rate-above-max", sig, "%s at height %d: fee %d sat on weight %d(+%d slack) is %d sat/kw, above MaxFeeRate %d sat/kw (which allows %d sat); outputs=%d change-output=%v budget=%d",
			phase, w.height, info.fee, info.wAct, info.wNorm-info.wAct, info.fee*1000/info.wNorm, w.cfg.maxRateKW(), maxFee, len(tx.TxOut), info.hasChange, budget)
	}

	// --- no output below dust; required outputs in place ---------------------
	for j, o := range tx.TxOut {
		if o.Value < dustLimit(o.PkScript) {
			w.violate(q, "dust-output", "output %d pays %d sat, below the dust limit %d of its %d-byte script",
				j, o.Value, dustLimit(o.PkScript), len(o.PkScript))
			break
		}
	}
	for i, ti := range tx.TxIn {
		in, ok := w.byOp[ti.PreviousOutPoint]
		if !ok || in.reqOut == nil {
			continue
		}
		if i >= len(tx.TxOut) || tx.TxOut[i].Value != in.reqOut.Value ||
			!bytes.Equal(tx.TxOut[i].PkScript, in.reqOut.PkScript) {
			w.violate(q, "required-output", "input %d (%s) commits to output %d sat at the same index, which is missing",
				i, in.label(), in.reqOut.Value)
			break
		}
	}

	// --- the first transaction after a restart pays no lower a rate -----------
	// than the node's own sweep that sat in the mempool across the restart
	// (independent of what lnd reports or stores: fee over size of the two
	// transactions only). The old sweep, having a change output, paid
	// fee_old = rate_old x size_old with size_old <= weight + slack, so
	// rate_old >= fee_old*1000/wNorm_old =: floor. The new request (other
	// grouping, other budget) continues at rate_old unless its own ceiling
	// min(budget-over-size, MaxFeeRate) lies below: then it fails before a
	// transaction is made or, within one block of its deadline, offers that
	// ceiling. Whatever transaction shows up first therefore pays at least
	// min(floor, ceiling) x actual weight.
	if old := q.restartOld; old != nil && len(q.attempts) == 0 {
		sizeUp := info.wNorm
		if !info.hasChange {
			// the node sized the transaction with a change output
			sizeUp += 4 * int64(8+1+len(w.changePk))
		}
		ceilLo := q.budgetSum*1000/sizeUp - 1
		if m := w.cfg.maxRateKW(); m < ceilLo {
			ceilLo = m
		}
		bound := func(floor int64) int64 {
			if ceilLo < floor {
				floor = ceilLo
			}
			return floor*info.wAct/1000 - 1
		}
		// Judged first against the sweeps announced in the regular way, then
		// against all (structural signature, see judgeRestartStart).
		floor, sig := q.restartFloor, restartSigGhost
		if c := q.restartOldClean; c != nil && info.fee < bound(q.restartFloorClean) {
			old, floor, sig = c, q.restartFloorClean, ""
		}
		w.r.Count("restart_tx_rate_checks")
		if ceilLo < floor {
			w.r.Count("probe_restart_ceiling_below_reached_rate")
		}
		if need := bound(floor); info.fee < need {
			w.violateSig(q, "restart-fee-rate-decreased", sig, "%s at height %d: the first transaction after the restart pays %d sat on weight %d (%d sat/kw) although the node's own sweep %s, in the mempool across the restart, paid %d sat on weight %d(+%d slack), at least %d sat/kw, and the new request's ceiling (budget %d sat) allows at least %d sat/kw: at least %d sat were due; the fee rate offered for its inputs goes down%s",
				phase, w.height, info.fee, info.wAct, info.fee*1000/info.wAct, old.label(), old.fee, old.wAct,
				old.wNorm-old.wAct, floor, q.budgetSum, ceilLo, need, sigNote(sig))
		}
	}

	// --- offered fee never decreases within a request --------------------------
	if n := len(q.attempts); n > 0 && info.fee < q.attempts[n-1].fee {
		w.violate(q, "fee-decreased", "%s at height %d offers fee %d sat after %d sat was offered at height %d",
			phase, w.height, info.fee, q.attempts[n-1].fee, q.attempts[n-1].height)
	}
	if n := len(q.attempts); n > 0 && q.attempts[n-1].height != w.height && info.fee > q.attempts[n-1].fee {
		w.r.Count("fee_bumps")
	}

	// --- a published transaction never pays below the relay floor --------------
	// (covers "starts at no less than the relay floor" together with
	// monotonicity, and "ceiling below the floor => must fail, not publish").
	if phase == "publish" {
		floorFee := w.cfg.RelayFloor * info.wAct / 1000
		if info.fee < floorFee {
			// Structural signature: could the node have known? With a
			// backend that implements testmempoolaccept the simulated
			// policy rejects such a transaction before it is published, so
			// a publish there means the node skipped or ignored the check.
			sig := "with-testmempoolaccept"
			if w.cfg.Backend != backendFullNode {
				sig = "no-testmempoolaccept"
			}
			why := "ceiling at or above the floor (ramp started too low)"
			if budget*1000/info.wAct < w.cfg.RelayFloor {
				why = "ceiling budget/size itself below the floor (request had to fail)"
			}
			w.violateSig(q, "below-relay-floor", sig, "handed to PublishTransaction at height %d with fee %d sat on weight %d: below the relay floor %d sat/kw (needs %d sat); budget %d sat, request StartingFeeRate %d sat/kw, backend %s; %s",
				w.height, info.fee, info.wAct, w.cfg.RelayFloor, floorFee, budget, q.startRate, wallet{w}.BackEnd(), why)
		}
	} else if info.fee < w.cfg.RelayFloor*info.wAct/1000 {
		w.r.Count("probe_attempt_below_floor")
	}

	q.attempts = append(q.attempts, attempt{step: w.step, height: w.height, fee: info.fee,
		wAct: info.wAct, wNorm: info.wNorm, phase: phase})
	return q, info
}

func (w *World) prevScript(op wire.OutPoint) []byte {
	if in, ok := w.byOp[op]; ok {
		return in.inp.SignDesc().Output.PkScript
	}
	return w.kr.walletScript()
}

func (w *World) opLabel(op wire.OutPoint) string {
	if in, ok := w.byOp[op]; ok {
		return in.label()
	}
	if u, ok := w.utxoByOp[op]; ok {
		return fmt.Sprintf("u%d", u.idx)
	}
	return op.String()
}

// registerRequest is called when the sweeper hands a BumpRequest to the
// publisher. Caller holds w.mu.
func (w *World) registerRequest(req *sweep.BumpRequest) *simReq {
	q := &simReq{req: req, ops: map[wire.OutPoint]struct{}{}, minIdx: 1 << 30,
		deadline: req.DeadlineHeight, createdStep: w.step}
	var walletLabels []string
	for _, inp := range req.Inputs {
		op := inp.OutPoint()
		q.ops[op] = struct{}{}
		if in, ok := w.byOp[op]; ok {
			q.offered = append(q.offered, in)
			q.budgetSum += in.budget
			if in.reqOut != nil {
				q.hasRequired = true
			}
			if in.idx < q.minIdx {
				q.minIdx = in.idx
			}
			continue
		}
		if u, ok := w.utxoByOp[op]; ok {
			walletLabels = append(walletLabels, fmt.Sprintf("u%d", u.idx))
			continue
		}
		w.harness("bump request contains unknown input %v", op)
	}
	if len(q.offered) == 0 {
		w.harness("bump request without any offered input")
		q.minIdx = 1 << 29
	}
	sort.Slice(q.offered, func(i, j int) bool { return q.offered[i].idx < q.offered[j].idx })
	sort.Strings(walletLabels)
	q.gen = w.genCnt[q.minIdx]
	w.genCnt[q.minIdx]++
	q.key = fmt.Sprintf("R%d.%d", q.minIdx, q.gen)
	q.startRate = int64(req.StartingFeeRate.UnwrapOr(0))
	var labels []string
	for _, in := range q.offered {
		if in.live != nil && !in.live.terminal {
			w.r.Count("probe_input_in_two_live_requests")
		}
		in.live = q
		labels = append(labels, in.label())
	}
	w.reqs = append(w.reqs, q)
	w.r.Count("bump_requests")
	w.ev(q, "request h=%d inputs=[%s] wallet=[%s] budget=%d deadline=%d start=%d immediate=%v",
		w.height, strings.Join(labels, ","), strings.Join(walletLabels, ","), int64(req.Budget),
		req.DeadlineHeight, q.startRate, req.Immediate)

	// --- a retry starts no lower than the rate its inputs had reached ----------
	// (sweeper contract: a failed sweep records its fee rate on every input
	// as the starting rate of the next attempt; InputSet.StartingFeeRate is
	// documented as the MAX over the set's inputs - otherwise the rate offered
	// for an input goes down from one block to the next)
	var maxRetry int64
	var maxFrom, maxLabel string
	for _, in := range q.offered {
		if in.retryRate > maxRetry {
			maxRetry, maxFrom, maxLabel = in.retryRate, in.retryFrom, in.label()
		}
	}
	if maxRetry > 0 {
		w.r.Count("retry_start_rate_checks")
		if q.startRate < maxRetry {
			w.violate(q, "retry-starts-lower", "bump request starts at %d sat/kw although its input %s had reached %d sat/kw when request %s failed: the fee rate offered for that input goes down",
				q.startRate, maxLabel, maxRetry, maxFrom)
		}
	}
	w.judgeRestartStart(q)
	if int64(req.Budget) > q.budgetSum {
		w.violate(q, "request-budget", "bump request budget %d sat exceeds the sum %d sat of the budgets attached to its inputs [%s]",
			int64(req.Budget), q.budgetSum, strings.Join(labels, ","))
	}
	if int64(req.MaxFeeRate) > w.cfg.maxRateKW() {
		w.violate(q, "request-maxrate", "bump request MaxFeeRate %d sat/kw exceeds the configured maximum %d",
			int64(req.MaxFeeRate), w.cfg.maxRateKW())
	}
	return q
}

// onResult is called for every BumpResult the publisher emits. Caller holds
// w.mu.
func (w *World) onResult(q *simReq, res *sweep.BumpResult) {
	w.ev(q, "result %v feerate=%d fee=%d err=%v", res.Event, int64(res.FeeRate), int64(res.Fee), errStr(res.Err))
	w.r.Count("result_" + res.Event.String())
	if res.Err != nil && (res.Event == sweep.TxFailed || res.Event == sweep.TxFatal) {
		w.r.Count("why_" + res.Event.String() + "_" + errClass(res.Err))
	}
	switch res.Event {
	case sweep.TxPublished, sweep.TxReplaced:
		rate := int64(res.FeeRate)
		if rate > w.cfg.maxRateKW() {
			w.violate(q, "reported-rate-above-max", "%v reports fee rate %d sat/kw above the configured maximum %d (request StartingFeeRate %d)",
				res.Event, rate, w.cfg.maxRateKW(), q.startRate)
		}
		if n := len(q.reported); n > 0 && rate < q.reported[n-1] {
			w.violate(q, "reported-rate-decreased", "%v reports fee rate %d sat/kw after %d", res.Event, rate, q.reported[n-1])
		}
		q.reported = append(q.reported, rate)
		// remember which transaction this rate was announced for (what a
		// restart has to continue from)
		if res.Tx != nil {
			h := res.Tx.TxHash()
			ghost := false
			if res.Event == sweep.TxReplaced && res.ReplacedTx != nil {
				// was the transaction said to be replaced ever published?
				ghost = true
				oh := res.ReplacedTx.TxHash()
				for _, p := range q.published {
					if p.hash == oh {
						ghost = false
					}
				}
				if ghost {
					w.r.Count("probe_replaced_tx_never_published")
				}
			}
			for _, p := range q.published {
				if p.hash == h {
					p.reported, p.ghostReplaced = rate, ghost
				}
			}
		}
	case sweep.TxFailed, sweep.TxFatal, sweep.TxConfirmed, sweep.TxUnknownSpend:
		q.terminal = true
		q.termEvent = res.Event.String()
		for _, in := range q.offered {
			if in.live == q {
				in.live = nil
			}
			if res.Event == sweep.TxFailed || res.Event == sweep.TxUnknownSpend {
				in.retryRate, in.retryFrom = int64(res.FeeRate), q.key
			}
		}
		// The ramp must never overshoot: a request whose caller-supplied
		// starting rate lies within the ceiling, without required outputs
		// (whose sub-dust change may legitimately push the fee over the
		// budget), must not die of "not enough budget".
		if res.Event == sweep.TxFailed && errors.Is(res.Err, sweep.ErrNotEnoughBudget) &&
			!q.hasRequired && len(q.attempts) > 0 {

			a := q.attempts[len(q.attempts)-1]
			ceilLo := q.budgetSum * 1000 / a.wNorm
			if m := w.cfg.maxRateKW(); m < ceilLo {
				ceilLo = m
			}
			if q.startRate <= ceilLo {
				// Structural signature: is the overshoot explained by
				// budget-over-size having been rounded to the NEAREST sat/kw
				// (so that rate x size lands one satoshi above the budget)?
				sig := ""
				for wt := a.wAct; wt <= a.wNorm; wt++ {
					r := (q.budgetSum*1000*2 + wt) / (2 * wt) // round half up
					if r <= w.cfg.maxRateKW() && r*wt/1000 > q.budgetSum {
						sig = "budget-over-size-rounded-to-nearest"
						break
					}
				}
				w.violateSig(q, "budget-overshoot", sig, "request failed at height %d with %v although its starting rate %d sat/kw is within the ceiling %d sat/kw (budget %d sat, weight %d..%d): the ramp overshot budget-over-size instead of offering the ceiling [%s]",
					w.height, res.Err, q.startRate, ceilLo, q.budgetSum, a.wAct, a.wNorm, sig)
			}
		}
		// Requests WITH required outputs: a change output below dust is
		// donated to the fee, so the fee may legitimately exceed the budget -
		// by less than the largest dust limit of any change script (546 sat).
		// lnd states budget and fee in the error; an overshoot beyond that
		// bound means the ramp's ceiling was computed for a smaller
		// transaction than the one that is built (the ceiling is budget over
		// size: size must count the required outputs).
		if res.Event == sweep.TxFailed && errors.Is(res.Err, sweep.ErrNotEnoughBudget) && q.hasRequired {
			if m := budgetFeeRe.FindStringSubmatch(res.Err.Error()); m != nil {
				b := int64(mustFloat(m[1])*1e8 + 0.5)
				f := int64(mustFloat(m[2])*1e8 + 0.5)
				// only while a ramp is under way (an earlier attempt of this
				// request fitted the budget, so its start was within the
				// ceiling)
				if b == q.budgetSum && f-b > 546 && len(q.attempts) > 0 {
					w.violateSig(q, "budget-overshoot", "required-outputs", "request with required outputs failed at height %d with %v: the fee the ramp asked for exceeds the budget by %d sat, more than any sub-dust change (at most 546 sat) can explain - the ceiling budget/size was computed for a smaller transaction than the one built",
						w.height, res.Err, f-b)
				}
				w.r.Count("required_output_budget_failures_examined")
			}
		}
	}
}

var budgetFeeRe = regexp.MustCompile(`budget=([0-9.]+) BTC, fee=([0-9.]+) BTC`)

func mustFloat(s string) float64 {
	f, _ := strconv.ParseFloat(s, 64)
	return f
}

// ---- restart ---------------------------------------------------------------
//
// lnd keeps the fee function's position in memory only. Across a restart the
// "offered fee rate never decreases" clause rests on the sweeper store: when an
// input is offered again, the sweeper looks its outpoint up in the mempool,
// finds its own unconfirmed sweep, reads that transaction's fee rate from the
// store and uses it as the starting rate of the input (RBFInfo). The oracle
// mirrors none of this: it remembers which of the node's own transactions sat
// in the mempool and what fee rate the node had announced for it.

// onRestart is called when the sweeper and the publisher have been stopped.
// Everything lnd held in memory is gone: the live bump requests (they are not
// judged any further) and the retry rates. The mempool, the chain, the store
// and the wallet stay. Caller holds w.mu.
func (w *World) onRestart() {
	for _, q := range w.reqs {
		if q.terminal {
			continue
		}
		q.terminal = true
		q.termEvent = "restart"
		for _, in := range q.offered {
			if in.live == q {
				in.live = nil
			}
		}
		w.ev(q, "gone with the restart at h=%d after %d published versions", w.height, len(q.published))
	}
	// spend subscriptions live inside the node's process
	w.subs = map[wire.OutPoint][]chan *chainntnfs.SpendDetail{}
	any := false
	for _, in := range w.inputs {
		in.retryRate, in.retryFrom = 0, ""
		in.restartTx, in.hadSweep = nil, false
		if in.final != "" {
			continue
		}
		if p := w.poolSpenderLocked(in.op); p != nil {
			in.hadSweep, any = true, true
			w.r.Count("restart_inputs_with_own_sweep_in_mempool")
		}
	}
	if any {
		w.r.Count("probe_restart_with_own_sweep_in_mempool")
	} else {
		w.r.Count("probe_restart_with_empty_mempool")
	}
}

// noteReoffer is called right before the input is offered again after a
// restart: what is in the mempool NOW is what the sweeper's lookup can see.
// Caller holds w.mu.
func (w *World) noteReoffer(in *simInput) string {
	p := w.poolSpenderLocked(in.op)
	switch {
	case p == nil && in.hadSweep:
		// An input offered earlier in this restart (immediate sweep) has
		// already replaced the transaction that also swept this input.
		w.r.Count("probe_restart_sweep_replaced_before_reoffer")
		return "its pre-restart sweep has just been replaced"
	case p == nil:
		return "not in the mempool"
	case w.cfg.Backend != backendFullNode:
		// documented: without a mempool lookup the node cannot know
		w.r.Count("probe_restart_without_mempool_lookup")
		return fmt.Sprintf("swept by %s in the mempool, which this backend cannot look up", p.label())
	case p.reported == 0:
		w.harness("mempool transaction %s was never announced by a TxPublished/TxReplaced result", p.label())
		return ""
	}
	in.restartTx = p
	w.r.Count("restart_inputs_with_rate_to_continue")
	return fmt.Sprintf("swept by %s in the mempool (fee %d sat, announced at %d sat/kw)", p.label(), p.fee, p.reported)
}

// judgeRestartStart: a bump request that contains an input whose own sweep was
// in the mempool when it was offered again after a restart starts no lower than
// the rate announced for that sweep (RBFInfo contract; a set starts at the MAX
// over its inputs). Holds whatever the new grouping is: a ceiling below that
// rate makes the request fail or offer its ceiling, it does not lower the
// request's StartingFeeRate. Caller holds w.mu.
func (w *World) judgeRestartStart(q *simReq) {
	var top, topClean *poolTx
	var topIn, topCleanIn *simInput
	for _, in := range q.offered {
		p := in.restartTx
		if p == nil {
			continue
		}
		in.restartTx = nil
		if top == nil || p.reported > top.reported {
			top, topIn = p, in
		}
		if !p.ghostReplaced && (topClean == nil || p.reported > topClean.reported) {
			topClean, topCleanIn = p, in
		}
		if !p.hasChange {
			// its fee contains a dust remainder: says nothing about its rate
			w.r.Count("probe_restart_old_sweep_without_change")
			continue
		}
		f := p.fee * 1000 / p.wNorm
		if q.restartOld == nil || f > q.restartFloor {
			q.restartOld, q.restartFloor = p, f
		}
		if !p.ghostReplaced && (q.restartOldClean == nil || f > q.restartFloorClean) {
			q.restartOldClean, q.restartFloorClean = p, f
		}
	}
	if top == nil {
		return
	}
	w.r.Count("restart_start_rate_checks")
	// Structural signature: is the shortfall explained by a sweep whose
	// TxReplaced result named a ReplacedTx that was never published (the
	// publish of the previous bump failed)? Judged first without those
	// sweeps; a shortfall there carries no signature.
	sig := restartSigGhost
	if topClean != nil && q.startRate < topClean.reported {
		top, topIn, sig = topClean, topCleanIn, ""
	}
	if q.startRate < top.reported {
		w.violateSig(q, "restart-starts-lower", sig, "first bump request after the restart starts at %d sat/kw although its input %s was, when offered again, still swept in the mempool by the node's own %s (fee %d sat) for which %d sat/kw had been announced: the fee rate offered for that input goes down across the restart%s",
			q.startRate, topIn.label(), top.label(), top.fee, top.reported, sigNote(sig))
		return
	}
	w.r.Count("probe_restart_rbf_info_restored")
	if q.startRate > top.reported {
		w.r.Count("probe_restart_starts_higher")
	}
}

// restartSigGhost marks restart violations that go back to a sweep announced
// by a TxReplaced result whose ReplacedTx the wallet never accepted.
const restartSigGhost = "replaced-tx-never-published"

func sigNote(sig string) string {
	if sig == "" {
		return ""
	}
	return " [" + sig + ": that sweep was announced as the replacement of a transaction whose publish had failed, so the sweeper stored no record for it]"
}

// checkDeadlines evaluates, at quiescence after a step, the "reaches its
// ceiling no later than one block before the deadline" clause for every live
// request that has made at least one attempt.
func (w *World) checkDeadlines() {
	w.mu.Lock()
	defer w.mu.Unlock()
	for _, q := range w.reqs {
		if q.terminal || len(q.attempts) == 0 {
			continue
		}
		if int64(q.deadline)-int64(w.height) > 1 {
			continue
		}
		a := q.attempts[len(q.attempts)-1]
		// Fee at the ceiling rate c = min(budget*1000/size, MaxFeeRate), with
		// integer sat/kw rates: at least budget - size/1000 - 2 when the budget
		// binds, at least MaxFeeRate*weight/1000 - 1 when the maximum binds.
		lbBudget := q.budgetSum - a.wNorm/1000 - 2
		lbMax := w.cfg.maxRateKW()*a.wAct/1000 - 1
		lb := lbBudget
		if lbMax < lb {
			lb = lbMax
		}
		if !q.ceilChecked {
			q.ceilChecked = true
			w.r.Count("ceiling_checks")
			if len(q.attempts) > 1 && q.attempts[0].fee < a.fee {
				w.r.Count("probe_ramped_to_ceiling")
			}
		}
		if a.fee < lb {
			w.violate(q, "ceiling-not-reached", "height %d is within one block of the deadline %d, yet the last offered fee is %d sat (height %d); the ceiling min(budget %d sat, MaxFeeRate %d sat/kw x weight %d) requires at least %d sat",
				w.height, q.deadline, a.fee, a.height, q.budgetSum, w.cfg.maxRateKW(), a.wAct, lb)
		}
	}
}

// errClass maps a bump failure to a short stable label (statistics only).
func errClass(err error) string {
	switch {
	case errors.Is(err, sweep.ErrNotEnoughBudget):
		return "not_enough_budget"
	case errors.Is(err, sweep.ErrNotEnoughInputs):
		return "not_enough_inputs"
	case errors.Is(err, sweep.ErrTxNoOutput):
		return "no_output"
	case errors.Is(err, sweep.ErrZeroFeeRateDelta):
		return "zero_delta"
	case errors.Is(err, sweep.ErrMaxPosition):
		return "max_position"
	case errors.Is(err, sweep.ErrInputMissing):
		return "input_missing"
	case errors.Is(err, sweep.ErrLocktimeImmature):
		return "locktime_immature"
	case errors.Is(err, sweep.ErrFeePreferenceTooLow):
		return "estimate_below_floor"
	case errors.Is(err, errEstimator):
		return "estimator_error"
	case errors.Is(err, errGenericMempool), errors.Is(err, errGenericPublish):
		return "wallet_generic"
	}
	return "other"
}
