package sweepsim

import (
	"fmt"
	"os"
	"path/filepath"
	"strings"

	"verif/simcore"
)

// dlog is r.Logf plus, when VERIF_C18_DUMP names a directory, a per-run copy
// of the trace written there as <seed>.txt (debugging aid for the determinism
// self-test; never used in normal batches).
var (
	dumpDir  = os.Getenv("VERIF_C18_DUMP")
	dumpBuf  []string
	dumpSeed uint64
)

func dlog(r *simcore.Run, format string, args ...interface{}) {
	r.Logf(format, args...)
	if dumpDir != "" {
		if dumpSeed != r.Seed {
			dumpFlush()
			dumpSeed = r.Seed
		}
		dumpBuf = append(dumpBuf, fmt.Sprintf(format, args...))
	}
}

func dumpFlush() {
	if dumpDir == "" || len(dumpBuf) == 0 {
		return
	}
	_ = os.MkdirAll(dumpDir, 0o755)
	_ = os.WriteFile(filepath.Join(dumpDir, fmt.Sprintf("%d.txt", dumpSeed)),
		[]byte(strings.Join(dumpBuf, "\n")+"\n"), 0o644)
	dumpBuf = nil
}
