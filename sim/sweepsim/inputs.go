package sweepsim

import (
	"crypto/sha256"
	"encoding/binary"
	"fmt"

	"github.com/btcsuite/btcd/btcec/v2"
	"github.com/btcsuite/btcd/btcec/v2/ecdsa"
	"github.com/btcsuite/btcd/chaincfg/v2"
	"github.com/btcsuite/btcd/txscript/v2"
	"github.com/btcsuite/btcd/wire/v2"
	"github.com/lightningnetwork/lnd/input"
	"github.com/lightningnetwork/lnd/keychain"
	"github.com/lightningnetwork/lnd/lntypes"
)

// One fixed key controls every simulated output (real ECDSA / Schnorr
// signatures through input.MockSigner).
var simPrivBytes = [32]byte{
	0x51, 0x0e, 0x52, 0x7f, 0xad, 0xe6, 0x82, 0xd1, 0x9b, 0x05, 0x68, 0x8c, 0x2b, 0x3e, 0x6c, 0x1f,
	0x1f, 0x83, 0xd9, 0xab, 0xfb, 0x41, 0xbd, 0x6b, 0x5b, 0xe0, 0xcd, 0x19, 0x13, 0x7e, 0x21, 0x79,
}

type keyring struct {
	priv   *btcec.PrivateKey
	pub    *btcec.PublicKey
	signer *input.MockSigner
	// peerSig is a well-formed maximum-length-free ECDSA signature standing in
	// for the channel peer's SINGLE|ANYONECANPAY signature on second-level
	// HTLC transactions (script validity is not part of C18).
	peerSig input.Signature
	// parent, when set, is the unconfirmed parent the next anchor input
	// built by buildInput reports (CPFP)
	parent *input.TxInfo
}

func newKeyring() *keyring {
	priv, pub := btcec.PrivKeyFromBytes(simPrivBytes[:])
	h := sha256.Sum256([]byte("verif sweepsim peer sig"))
	sig := ecdsa.Sign(priv, h[:])
	return &keyring{
		priv:    priv,
		pub:     pub,
		signer:  input.NewMockSigner([]*btcec.PrivateKey{priv}, &chaincfg.RegressionNetParams),
		peerSig: sig,
	}
}

func simOutPoint(tag string, idx int) wire.OutPoint {
	var b [8]byte
	binary.LittleEndian.PutUint64(b[:], uint64(idx))
	h := sha256.Sum256(append([]byte("verif-sweepsim-"+tag+"-"), b[:]...))
	op := wire.OutPoint{Index: uint32(idx % 3)}
	copy(op.Hash[:], h[:])
	return op
}

// inputKind enumerates the witness types the generator offers.
type inputKind int

const (
	kindToRemoteP2WKH      inputKind = iota // CommitSpendNoDelayTweakless
	kindToLocalCSV                          // CommitmentTimeLock
	kindToRemoteConfirmed                   // CommitmentToRemoteConfirmed (1 CSV)
	kindAnchor                              // CommitmentAnchor (exclusive group)
	kindHtlcRemoteTimeout                   // HtlcOfferedRemoteTimeout (CLTV)
	kindSecondLevelTimeout                  // HtlcSecondLevelAnchorInput, timeout (required output + locktime)
	kindSecondLevelSuccess                  // HtlcSecondLevelAnchorInput, success (required output, locktime 0)
	kindTaprootToLocal                      // TaprootLocalCommitSpend (script path, Schnorr)
	numKinds
)

func (k inputKind) String() string {
	return [...]string{"to_remote", "to_local_csv", "to_remote_conf", "anchor", "htlc_timeout_cltv",
		"2nd_timeout", "2nd_success", "tr_to_local"}[k]
}

func p2wsh(script []byte) []byte {
	pk, err := input.WitnessScriptHash(script)
	if err != nil {
		panic(err)
	}
	return pk
}

// buildInput constructs a real lnd input of the given kind with scripts made
// by lnd's own script builders, so that witness sizes are the real ones.
//
//	value:      amount of the output being swept
//	hint:       height hint (confirmation height of the output)
//	csv:        relative delay for the CSV kinds
//	cltv:       absolute expiry for the CLTV kinds
//	reqValue:   value of the required (second-level) output for 2nd-level kinds
func (k *keyring) buildInput(kind inputKind, idx int, value int64, hint, csv, cltv uint32,
	reqValue int64) (input.Input, *wire.TxOut, error) {

	op := simOutPoint("in", idx)
	desc := &input.SignDescriptor{
		KeyDesc:  keychain.KeyDescriptor{PubKey: k.pub},
		HashType: txscript.SigHashAll,
	}
	payHash := sha256.Sum256([]byte(fmt.Sprintf("pay-%d", idx)))
	switch kind {
	case kindToRemoteP2WKH:
		pk, err := input.CommitScriptUnencumbered(k.pub)
		if err != nil {
			return nil, nil, err
		}
		desc.WitnessScript = pk
		desc.Output = &wire.TxOut{Value: value, PkScript: pk}
		return input.NewBaseInput(&op, input.CommitSpendNoDelayTweakless, desc, hint), nil, nil

	case kindToLocalCSV:
		ws, err := input.CommitScriptToSelf(csv, k.pub, k.pub)
		if err != nil {
			return nil, nil, err
		}
		desc.WitnessScript = ws
		desc.Output = &wire.TxOut{Value: value, PkScript: p2wsh(ws)}
		return input.NewCsvInput(&op, input.CommitmentTimeLock, desc, hint, csv), nil, nil

	case kindToRemoteConfirmed:
		ws, err := input.CommitScriptToRemoteConfirmed(k.pub)
		if err != nil {
			return nil, nil, err
		}
		desc.WitnessScript = ws
		desc.Output = &wire.TxOut{Value: value, PkScript: p2wsh(ws)}
		return input.NewCsvInput(&op, input.CommitmentToRemoteConfirmed, desc, hint, 1), nil, nil

	case kindAnchor:
		ws, err := input.CommitScriptAnchor(k.pub)
		if err != nil {
			return nil, nil, err
		}
		desc.WitnessScript = ws
		desc.Output = &wire.TxOut{Value: value, PkScript: p2wsh(ws)}
		if k.parent != nil {
			bi := input.MakeBaseInput(&op, input.CommitmentAnchor, desc, hint, k.parent)
			return &bi, nil, nil
		}
		return input.NewBaseInput(&op, input.CommitmentAnchor, desc, hint), nil, nil

	case kindHtlcRemoteTimeout:
		ws, err := input.ReceiverHTLCScript(cltv, k.pub, k.pub, k.pub, payHash[:], false)
		if err != nil {
			return nil, nil, err
		}
		desc.WitnessScript = ws
		desc.Output = &wire.TxOut{Value: value, PkScript: p2wsh(ws)}
		return input.NewCsvInputWithCltv(&op, input.HtlcOfferedRemoteTimeout, desc, hint, 0, cltv), nil, nil

	case kindSecondLevelTimeout, kindSecondLevelSuccess:
		var (
			ws  []byte
			err error
		)
		if kind == kindSecondLevelTimeout {
			ws, err = input.SenderHTLCScript(k.pub, k.pub, k.pub, payHash[:], true)
		} else {
			ws, err = input.ReceiverHTLCScript(cltv, k.pub, k.pub, k.pub, payHash[:], true)
		}
		if err != nil {
			return nil, nil, err
		}
		second, err := input.SecondLevelHtlcScript(k.pub, k.pub, 144)
		if err != nil {
			return nil, nil, err
		}
		desc.WitnessScript = ws
		desc.Output = &wire.TxOut{Value: value, PkScript: p2wsh(ws)}
		reqOut := &wire.TxOut{Value: reqValue, PkScript: p2wsh(second)}
		signed := wire.NewMsgTx(2)
		signed.AddTxIn(&wire.TxIn{PreviousOutPoint: op, Sequence: 1})
		signed.AddTxOut(reqOut)
		details := &input.SignDetails{
			SignDesc:    *desc,
			PeerSig:     k.peerSig,
			SigHashType: txscript.SigHashSingle | txscript.SigHashAnyOneCanPay,
		}
		if kind == kindSecondLevelTimeout {
			signed.LockTime = cltv
			inp := input.MakeHtlcSecondLevelTimeoutAnchorInput(signed, details, hint)
			return &inp, reqOut, nil
		}
		var pre lntypes.Preimage
		copy(pre[:], payHash[:])
		inp := input.MakeHtlcSecondLevelSuccessAnchorInput(signed, details, pre, hint)
		return &inp, reqOut, nil

	case kindTaprootToLocal:
		tree, err := input.NewLocalCommitScriptTree(csv, k.pub, k.pub, input.NoneTapLeaf())
		if err != nil {
			return nil, nil, err
		}
		cb, err := tree.CtrlBlockForPath(input.ScriptPathDelay)
		if err != nil {
			return nil, nil, err
		}
		cbBytes, err := cb.ToBytes()
		if err != nil {
			return nil, nil, err
		}
		desc.WitnessScript = tree.SettleLeaf.Script
		desc.ControlBlock = cbBytes
		desc.HashType = txscript.SigHashDefault
		desc.SignMethod = input.TaprootScriptSpendSignMethod
		desc.Output = &wire.TxOut{Value: value, PkScript: tree.PkScript()}
		return input.NewCsvInput(&op, input.TaprootLocalCommitSpend, desc, hint, csv), nil, nil
	}
	return nil, nil, fmt.Errorf("unknown kind %d", kind)
}

// changeScripts are the delivery scripts GenSweepScript may hand out (fixed per
// run).
func (k *keyring) changeScript(which int) []byte {
	switch which {
	case 1:
		pk, err := input.PayToTaprootScript(k.pub)
		if err != nil {
			panic(err)
		}
		return pk
	case 2:
		return p2wsh([]byte{txscript.OP_TRUE})
	default:
		pk, err := input.CommitScriptUnencumbered(k.pub)
		if err != nil {
			panic(err)
		}
		return pk
	}
}

func (k *keyring) walletScript() []byte {
	pk, err := input.CommitScriptUnencumbered(k.pub)
	if err != nil {
		panic(err)
	}
	return pk
}
