package sweepsim

import (
	"fmt"
	"sort"
	"testing"
	"testing/synctest"

	"github.com/btcsuite/btcd/btcutil/v2"
	"github.com/btcsuite/btcd/wire/v2"
	"github.com/lightningnetwork/lnd/chainio"
	"github.com/lightningnetwork/lnd/chainntnfs"
	"github.com/lightningnetwork/lnd/fn/v2"
	"github.com/lightningnetwork/lnd/input"
	"github.com/lightningnetwork/lnd/lntypes"
	"github.com/lightningnetwork/lnd/lnwallet"
	"github.com/lightningnetwork/lnd/lnwallet/chainfee"
	"github.com/lightningnetwork/lnd/lnwire"
	"github.com/lightningnetwork/lnd/sweep"

	"verif/simcore"
)

// at most this many inputs are offered per run (budgets are made distinct
// modulo 32, see offer)
const (
	maxOfferedQuick    = 14
	maxOfferedThorough = 28
)

// Run executes one simulated run of the C18 engine. t is the test binary's
// *testing.T (needed by testing/synctest).
func Run(t *testing.T, r *simcore.Run) {
	tp := r.Tape
	arm := tp.CfgDraw(8)
	if arm < 2 {
		runFeeFunction(r)
		return
	}
	cfg := Config{
		Faulty:       arm >= 5,
		Backend:      []int{backendFullNode, backendFullNode, backendFullNode, backendNeutrino, backendOld}[tp.CfgDraw(5)],
		RelayFloor:   []int64{253, 253, 253, 253, 500, 1000, 3000}[tp.CfgDraw(7)],
		MaxRateVB:    []int64{1000, 100, 150, 333, 10000}[tp.CfgDraw(5)],
		ChangeKind:   tp.CfgDraw(3),
		MaxInputs:    []uint32{100, 3, 2}[tp.CfgDraw(3)],
		NoDeadlineCT: []uint32{1008, 144, 200, 1200}[tp.CfgDraw(4)],
		EnvRate:      []int64{0, 300, 2500, 40000}[tp.CfgDraw(4)],
		Steps:        20 + 10*tp.CfgDraw(4),
		StartHeight:  []int32{800_000, 700_000, 900_123}[tp.CfgDraw(3)],
	}
	cfg.StartAboveMax = tp.CfgDraw(16) == 15
	cfg.MaxOffered = maxOfferedQuick
	if r.Tier == "thorough" {
		cfg.Steps *= 2
		cfg.MaxOffered = maxOfferedThorough
	}
	cfg.InitialUtxos = tp.CfgDraw(4)
	// (new configuration draws are appended here, so that older tapes keep
	// their meaning: a draw past the end of a recorded tape yields 0)
	cfg.Restarts = tp.CfgDraw(2) == 1
	r.Arm = "sweeper/fault-free"
	if cfg.Faulty {
		r.Arm = "sweeper/faulty"
	}
	if cfg.StartAboveMax {
		r.Arm += "+start-above-max"
	}
	if cfg.Restarts {
		r.Arm += "+restarts"
	}

	var saved interface{}
	func() {
		defer func() {
			if p := recover(); p != nil && saved == nil {
				saved = p
			}
		}()
		synctest.Test(t, func(t *testing.T) {
			defer func() {
				if p := recover(); p != nil {
					saved = p
				}
			}()
			s := newSim(r, cfg)
			defer s.shutdown()
			s.run()
		})
	}()
	if saved != nil {
		if s, ok := saved.(string); ok {
			r.Harness("synctest: %s", s)
		}
		panic(saved)
	}
}

// at most this many restarts per run
const maxRestarts = 3

type sim struct {
	r        *simcore.Run
	w        *World
	cfg      Config
	sweeper  *sweep.UtxoSweeper
	started  bool
	halted   bool
	blocks   int
	restarts int
}

func newSim(r *simcore.Run, cfg Config) *sim {
	s := &sim{r: r, w: newWorld(r, cfg), cfg: cfg}
	s.build()
	return s
}

// build makes a fresh TxPublisher and UtxoSweeper over the world as it is (at
// the beginning of a run and after every restart). Nothing of lnd is carried
// over: what survives a restart is what the seams hold (chain, mempool, store,
// wallet).
func (s *sim) build() {
	w, cfg := s.w, s.cfg
	est := estimator{w}
	w.pub = sweep.NewTxPublisher(sweep.TxPublisherConfig{
		Signer:    w.kr.signer,
		Wallet:    wallet{w},
		Estimator: est,
		Notifier:  notifier{w},
	})
	s.sweeper = sweep.New(&sweep.UtxoSweeperConfig{
		GenSweepScript: func() fn.Result[lnwallet.AddrWithKey] {
			return fn.Ok(lnwallet.AddrWithKey{DeliveryAddress: lnwire.DeliveryAddress(w.changePk)})
		},
		FeeEstimator:         est,
		Wallet:               wallet{w},
		Notifier:             notifier{w},
		Mempool:              mempool{w},
		Store:                store{w},
		Signer:               w.kr.signer,
		MaxInputsPerTx:       cfg.MaxInputs,
		MaxFeeRate:           chainfee.SatPerVByte(cfg.MaxRateVB),
		Aggregator:           sweep.NewBudgetAggregator(est, cfg.MaxInputs, fn.None[sweep.AuxSweeper]()),
		Publisher:            bumper{w},
		NoDeadlineConfTarget: cfg.NoDeadlineCT,
	})
}

// boot starts the sweeper and the publisher at the current height.
func (s *sim) boot() {
	if err := s.sweeper.Start(s.beat()); err != nil {
		s.r.Harness("sweeper start: %v", err)
	}
	if err := s.w.pub.Start(s.beat()); err != nil {
		s.r.Harness("publisher start: %v", err)
	}
	s.started = true
	synctest.Wait()
}

// halt stops the sweeper, the publisher and the forwarders of the bump-request
// tap.
func (s *sim) halt() {
	if s.started {
		_ = s.sweeper.Stop()
		_ = s.w.pub.Stop()
		s.started = false
	}
	if !s.halted {
		s.halted = true
		close(s.w.done)
		s.w.fwd.Wait()
	}
}

func (s *sim) beat() chainio.Blockbeat {
	return chainio.NewBeat(chainntnfs.BlockEpoch{Height: s.w.height})
}

func (s *sim) shutdown() { s.halt() }

// after runs at quiescence after every stimulus.
func (s *sim) after() {
	synctest.Wait()
	s.w.flush()
	s.w.checkDeadlines()
	s.w.flush()
	s.pollResults()
}

func (s *sim) pollResults() {
	w := s.w
	for _, in := range w.inputs {
		if in.final != "" || in.result == nil {
			continue
		}
		select {
		case res := <-in.result:
			switch {
			case res.Err == nil:
				in.final = "swept"
				s.r.Count("input_swept")
			case res.Err == sweep.ErrRemoteSpend:
				in.final = "remote-spend"
				s.r.Count("input_remote_spend")
			default:
				in.final = "error: " + res.Err.Error()
				s.r.Count("input_failed")
			}
			dlog(s.r, "  %s final: %s", in.label(), in.final)
		default:
		}
	}
}

func (s *sim) liveRequests() []*simReq {
	var out []*simReq
	for _, q := range s.w.reqs {
		if !q.terminal {
			out = append(out, q)
		}
	}
	// w.reqs is in registration order, which depends on lnd's map iteration;
	// choices must be made from a canonical order.
	sort.Slice(out, func(i, j int) bool {
		if out[i].minIdx != out[j].minIdx {
			return out[i].minIdx < out[j].minIdx
		}
		return out[i].gen < out[j].gen
	})
	return out
}

func (s *sim) run() {
	r, w, cfg := s.r, s.w, s.cfg
	dlog(r, "config %+v", cfg)
	s.boot()
	for i := 0; i < cfg.InitialUtxos; i++ {
		val := []int64{60_000, 2_500_000, 9_000}[i%3] + int64(i)
		u := &simUtxo{idx: i, op: simOutPoint("utxo", i), value: val}
		w.utxos = append(w.utxos, u)
		w.utxoByOp[u.op] = u
		dlog(r, "wallet utxo u%d value=%d", i, val)
	}

	for w.step < cfg.Steps && r.Step() {
		w.step++
		type choice struct {
			kind   string
			weight int
		}
		var en []choice
		if len(w.inputs) < cfg.MaxOffered {
			en = append(en, choice{"offer", 5})
		}
		en = append(en, choice{"block", 7}, choice{"skip", 2})
		if len(w.utxos) < 6 {
			en = append(en, choice{"utxo", 2})
		}
		if len(s.liveRequests()) > 0 {
			en = append(en, choice{"toward-deadline", 2})
		}
		// (appended last: runs without restarts choose as they always did)
		if cfg.Restarts && s.restarts < maxRestarts && len(w.inputs) > 0 {
			en = append(en, choice{"restart", 2})
		}
		total := 0
		for _, c := range en {
			total += c.weight
		}
		pick := r.Draw(total)
		kind := ""
		for _, c := range en {
			if pick < c.weight {
				kind = c.kind
				break
			}
			pick -= c.weight
		}
		switch kind {
		case "offer":
			s.offer()
		case "utxo":
			s.addUtxo()
		case "block":
			r.Kind("block")
			s.block(1, true)
		case "skip":
			d := int32(2 + r.Draw(12))
			if r.Chance(1, 6) {
				d = int32(50 + r.Draw(400))
			}
			r.Kind(fmt.Sprintf("skip+%d", d))
			s.block(d, true)
		case "toward-deadline":
			s.towardDeadline()
		case "restart":
			s.restart()
		}
		r.State(fmt.Sprintf("live=%d offered=%d pool=%d utxo=%d", len(s.liveRequests()), len(w.inputs),
			len(w.mempool), len(w.utxos)))
	}
	s.windDown()
	w.raiseDeferred()

	st := r.Stats
	r.Nontrivial = st["ceiling_checks"] > 0 && st["fee_bumps"] > 0
	if cfg.Faulty {
		faults := int64(0)
		for k, v := range st {
			if len(k) > 6 && k[:6] == "fault_" {
				faults += v
			}
		}
		r.Nontrivial = r.Nontrivial && faults > 0
	}
}

// windDown: no more injected faults and no new work; walk every live request
// to one block before its deadline (halving the distance, so that ramps are
// sampled on the way), so that the ceiling clause is evaluated.
func (s *sim) windDown() {
	w := s.w
	w.mu.Lock()
	w.fault = 0
	w.mu.Unlock()
	dlog(s.r, "wind-down at height %d", w.height)
	for iter := 0; iter < 80; iter++ {
		target := int32(-1)
		for _, q := range s.liveRequests() {
			t := q.deadline - 1
			if t > w.height && (target < 0 || t < target) {
				target = t
			}
		}
		// inputs that are offered but immature / unclustered are left alone
		if target < 0 {
			break
		}
		d := target - w.height
		if d > 2 {
			d = d / 2
		} else {
			d = 1
		}
		s.block(d, false)
	}
}

func (s *sim) addUtxo() {
	r, w := s.r, s.w
	r.Kind("utxo")
	idx := len(w.utxos)
	val := []int64{50_000, 1_000, 400, 2_000_000, 10_000}[r.Draw(5)] + int64(r.Draw(1000))
	u := &simUtxo{idx: idx, op: simOutPoint("utxo", idx), value: val}
	w.mu.Lock()
	w.utxos = append(w.utxos, u)
	w.utxoByOp[u.op] = u
	w.mu.Unlock()
	dlog(r, "wallet utxo u%d value=%d", idx, val)
}

func (s *sim) offer() {
	r, w, cfg := s.r, s.w, s.cfg
	kind := inputKind(r.Draw(int(numKinds)))
	idx := len(w.inputs)
	r.Kind("offer:" + kind.String())
	h := w.height

	var value int64
	switch r.Draw(8) {
	case 0, 1, 2:
		value = 20_000 + int64(r.Draw(200_000))
	case 3, 4:
		value = 1_000_000 + int64(r.Draw(9_000_000))
	case 5:
		value = 3_000 + int64(r.Draw(17_000))
	case 6:
		value = 600 + int64(r.Draw(3_000))
	default:
		value = 330 + int64(r.Draw(400))
	}
	if kind == kindAnchor {
		value = 330
	}
	var budget int64
	switch b := r.Draw(20); {
	case b < 7:
		budget = value / 2
	case b < 13:
		budget = value / int64(2+r.Draw(20))
	case b == 13:
		// around the relay floor for a small transaction
		budget = cfg.RelayFloor * int64(250+r.Draw(500)) / 1000
	case b < 16:
		budget = value + int64(r.Draw(int(value)+1))
	default:
		budget = 1_000 + int64(r.Draw(50_000))
	}
	// Distinct budgets per run: the aggregator's budget sort is not stable, so
	// equal budgets would let lnd's map iteration order pick the clusters.
	budget = budget/32*32 + int64(idx%32)

	in := &simInput{idx: idx, kind: kind, op: simOutPoint("in", idx), value: value, budget: budget}
	params := sweep.Params{Budget: btcutil.Amount(budget)}

	switch r.Draw(8) {
	case 0:
	case 1:
		in.hasDeadline, in.deadline = true, h+2+int32(r.Draw(10))
	case 2:
		in.hasDeadline, in.deadline = true, h+1
	case 3:
		in.hasDeadline, in.deadline = true, h
	case 4:
		in.hasDeadline, in.deadline = true, h-1-int32(r.Draw(5))
	case 5:
		in.hasDeadline, in.deadline = true, h+12+int32(r.Draw(140))
	case 6:
		in.hasDeadline, in.deadline = true, h+1000+int32(r.Draw(300))
	default:
		in.hasDeadline, in.deadline = true, h+3+int32(r.Draw(4))
	}
	if in.hasDeadline {
		params.DeadlineHeight = fn.Some(in.deadline)
	}
	maxKW := cfg.maxRateKW()
	if cfg.StartAboveMax {
		if r.Chance(1, 2) {
			in.start = maxKW + 1 + int64(r.Draw(int(4*maxKW)))
		}
	} else if r.Chance(1, 5) && maxKW >= cfg.RelayFloor {
		// a caller-supplied starting rate lies between the relay floor and
		// the configured maximum
		in.start = cfg.RelayFloor + int64(r.Draw(int(maxKW-cfg.RelayFloor)+1))
	}
	if in.start > 0 {
		params.StartingFeeRate = fn.Some(chainfee.SatPerKWeight(in.start))
	}
	in.immediate = r.Chance(1, 5)
	params.Immediate = in.immediate
	if kind == kindAnchor {
		g := uint64(idx)
		params.ExclusiveGroup = &g
		in.exclusive = true
	}

	hint := uint32(h) - 1 - uint32(r.Draw(20))
	csv := uint32(1 + r.Draw(30))
	cltv := uint32(h) - uint32(r.Draw(10))
	if r.Chance(1, 4) {
		cltv = uint32(h) + uint32(1+r.Draw(5))
	}
	reqValue := value
	w.kr.parent = nil
	if kind == kindAnchor && r.Draw(2) == 1 {
		// CPFP: the anchor belongs to a commitment that is still unconfirmed
		// and pays a low fee itself (drawn last: older tapes yield none)
		pw := int64(724 + 172*r.Draw(6))
		w.kr.parent = &input.TxInfo{
			Fee:    btcutil.Amount(pw * int64([]int{0, 253, 500, 1000}[r.Draw(4)]) / 1000),
			Weight: lntypes.WeightUnit(pw),
		}
		r.Count("probe_anchor_with_unconfirmed_parent")
	}
	if (kind == kindSecondLevelTimeout || kind == kindSecondLevelSuccess) && r.Draw(3) == 1 {
		// anchor channels without zero-fee HTLC transactions: the pre-signed
		// second-level transaction pays a fee of its own, the HTLC output is
		// worth more than the output it commits to (drawn last: older tapes
		// yield no surplus)
		if sp := int64(1 + r.Draw(6000)); sp < value-1000 {
			reqValue = value - sp
			r.Count("probe_required_output_below_input_value")
		}
	}
	inp, reqOut, err := w.kr.buildInput(kind, idx, value, hint, csv, cltv, reqValue)
	if err != nil {
		r.Harness("build input: %v", err)
	}
	in.inp, in.reqOut = inp, reqOut

	w.mu.Lock()
	w.inputs = append(w.inputs, in)
	w.byOp[in.op] = in
	w.mu.Unlock()
	dl := "none"
	if in.hasDeadline {
		dl = fmt.Sprint(in.deadline)
	}
	dlog(r, "offer %s kind=%v value=%d budget=%d deadline=%s start=%d immediate=%v hint=%d csv=%d cltv=%d h=%d",
		in.label(), kind, value, budget, dl, in.start, in.immediate, hint, csv, cltv, h)
	in.params = params
	ch, err := s.sweeper.SweepInput(inp, params)
	if err != nil {
		r.Harness("SweepInput: %v", err)
	}
	in.result = ch
	s.after()
}

// restart stops the sweeper and the publisher at a quiescent point and brings
// up fresh ones over the same outside world. lnd persists nothing about a
// pending sweep but the TxRecord of each published transaction; the contract
// resolvers offer their inputs again with the parameters they used before
// (one at a time, in a fixed order, each handled to quiescence - an input
// offered with Immediate sweeps whatever has been offered up to then).
func (s *sim) restart() {
	r, w := s.r, s.w
	r.Kind("restart")
	s.restarts++
	r.Count("fault_restart")
	dlog(r, "restart at height %d (pool=%d store=%d)", w.height, len(w.mempool), len(w.store))
	s.halt()
	synctest.Wait()

	w.mu.Lock()
	w.done = make(chan struct{})
	s.halted = false
	w.onRestart()
	w.mu.Unlock()
	w.flush()

	s.build()
	s.boot()
	for _, in := range w.inputs {
		if in.final != "" {
			continue
		}
		w.mu.Lock()
		note := w.noteReoffer(in)
		w.mu.Unlock()
		dlog(r, "offer %s again: %s", in.label(), note)
		r.Count("restart_inputs_offered_again")
		// (nothing of the run may be touched between SweepInput and
		// quiescence: lnd's goroutines are at work)
		ch, err := s.sweeper.SweepInput(in.inp, in.params)
		synctest.Wait()
		if err != nil {
			r.Harness("SweepInput after restart: %v", err)
		}
		in.result = ch
		w.flush()
	}
	s.after()
}

// block advances the chain by delta blocks in one beat (delta > 1 = skipped
// heights), optionally mining a chain event, and lets the sweeper and then the
// publisher process the beat (the order of lnd's blockbeat dispatcher).
func (s *sim) block(delta int32, draws bool) {
	r, w := s.r, s.w
	w.mu.Lock()
	w.height += delta
	if draws {
		w.salt = uint64(r.Draw(1 << 30))
		w.fault = 0
		if s.cfg.Faulty {
			w.fault = []int{0, 0, 1, 2, 3}[r.Draw(5)]
		}
	}
	w.mu.Unlock()
	s.blocks++
	r.Count("blocks")
	if delta > 1 {
		r.Count("blocks_skipping_heights")
	}
	dlog(r, "block height=%d (+%d) fault-level=%d", w.height, delta, w.fault)
	if draws {
		// The spend notifications of the block's transactions are delivered
		// (to quiescence) before the beat: lnd selects between its spend and
		// beat channels at random, the simulator fixes the order.
		s.chainEvent()
		synctest.Wait()
	}
	b := s.beat()
	if err := s.sweeper.ProcessBlock(b); err != nil {
		r.Harness("sweeper.ProcessBlock: %v", err)
	}
	synctest.Wait()
	if err := w.pub.ProcessBlock(b); err != nil {
		r.Harness("publisher.ProcessBlock: %v", err)
	}
	s.after()
}

// chainEvent optionally mines, in the block being delivered, one of the node's
// own published sweep transactions (latest or an earlier version) or a third
// party's spend of one swept input.
func (s *sim) chainEvent() {
	r, w := s.r, s.w
	n := 8
	k := r.Draw(n)
	switch {
	case k == 6 || (k == 5 && !s.cfg.Faulty):
		// confirm one of our own versions
		var cands []*simReq
		for _, q := range s.liveRequests() {
			if len(q.published) > 0 {
				cands = append(cands, q)
			}
		}
		// a sweep published before a restart and still in the mempool can
		// confirm as well (the request it came from is gone)
		for _, q := range w.reqs {
			if n := len(q.published); q.termEvent == "restart" && n > 0 {
				if _, ok := w.mempool[q.published[n-1].hash]; ok {
					cands = append(cands, q)
				}
			}
		}
		sort.SliceStable(cands, func(i, j int) bool {
			if cands[i].minIdx != cands[j].minIdx {
				return cands[i].minIdx < cands[j].minIdx
			}
			return cands[i].gen < cands[j].gen
		})
		if len(cands) == 0 {
			return
		}
		q := cands[r.Draw(len(cands))]
		v := len(q.published) - 1
		if r.Chance(1, 3) {
			v = r.Draw(len(q.published))
		}
		p := q.published[v]
		w.mu.Lock()
		for _, ti := range p.tx.TxIn {
			if _, gone := w.spent[ti.PreviousOutPoint]; gone {
				w.mu.Unlock()
				dlog(r, "  chain: %s version %d cannot confirm any more (input spent)", q.key, v+1)
				return
			}
		}
		w.markSpentLocked(p.tx)
		w.mu.Unlock()
		if q.termEvent == "restart" {
			r.Count("probe_confirm_pre_restart_sweep")
		}
		if v == len(q.published)-1 {
			r.Count("confirm_latest_version")
		} else {
			r.Count("fault_confirm_earlier_version")
		}
		dlog(r, "  chain: %s version %d/%d (fee %d) confirms", q.key, v+1, len(q.published), p.fee)
	case k == 7 && s.cfg.Faulty:
		var cands []*simInput
		for _, in := range w.inputs {
			if _, gone := w.spent[in.op]; !gone && in.final == "" {
				cands = append(cands, in)
			}
		}
		if len(cands) == 0 {
			return
		}
		sort.Slice(cands, func(i, j int) bool { return cands[i].idx < cands[j].idx })
		in := cands[r.Draw(len(cands))]
		tx := wire.NewMsgTx(2)
		tx.AddTxIn(&wire.TxIn{PreviousOutPoint: in.op})
		tx.AddTxOut(&wire.TxOut{Value: in.value / 2, PkScript: w.changePk})
		w.mu.Lock()
		w.markSpentLocked(tx)
		w.mu.Unlock()
		r.Count("fault_third_party_spend")
		dlog(r, "  chain: third party spends %s", in.label())
	}
}

// towardDeadline jumps to two or one blocks before the deadline of a live
// request (skipped heights), where the ceiling clause bites.
func (s *sim) towardDeadline() {
	r, w := s.r, s.w
	live := s.liveRequests()
	q := live[r.Draw(len(live))]
	back := int32(1 + r.Draw(3))
	d := q.deadline - back - w.height
	if d < 1 {
		d = 1
	}
	r.Kind(fmt.Sprintf("toward-deadline:%s+%d", q.key, d))
	s.block(d, true)
}
