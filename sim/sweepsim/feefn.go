package sweepsim

import (
	"errors"
	"fmt"

	"github.com/lightningnetwork/lnd/fn/v2"
	"github.com/lightningnetwork/lnd/lnwallet/chainfee"
	"github.com/lightningnetwork/lnd/sweep"

	"verif/simcore"
)

// fnEstimator answers exactly what the tape scripted for the single
// EstimateFeePerKW call NewLinearFeeFunction may make.
type fnEstimator struct {
	floor  int64
	answer int64
	err    error
	calls  int
}

func (e *fnEstimator) Start() error { return nil }
func (e *fnEstimator) Stop() error  { return nil }
func (e *fnEstimator) RelayFeePerKW() chainfee.SatPerKWeight {
	return chainfee.SatPerKWeight(e.floor)
}
func (e *fnEstimator) EstimateFeePerKW(uint32) (chainfee.SatPerKWeight, error) {
	e.calls++
	return chainfee.SatPerKWeight(e.answer), e.err
}

// runFeeFunction is the call-driven arm: the real LinearFeeFunction is driven
// through a history of block arrivals (conf targets shrinking by arbitrary
// amounts, stale targets, extra Increments as the RBF-compliance loop does)
// and FeeRate() is observed after every call.
func runFeeFunction(r *simcore.Run) {
	tp := r.Tape
	r.Arm = "fee-function"
	floor := []int64{253, 253, 500, 1000, 3000}[tp.CfgDraw(5)]
	steps := 10 + 10*tp.CfgDraw(5)
	startAbove := tp.CfgDraw(16) == 15
	if startAbove {
		r.Arm += "+start-above-max"
	}

	if !r.Step() {
		return
	}
	r.Kind("init")
	// ceiling = min(budget/size, MaxFeeRate): any positive value
	var end int64
	switch r.Draw(5) {
	case 0:
		end = floor + int64(r.Draw(5_000))
	case 1:
		end = 1 + int64(r.Draw(int(floor)+50))
	case 2:
		end = 5_000 + int64(r.Draw(1_000_000))
	case 3:
		end = 1_000_000 + int64(r.Draw(50_000_000))
	default:
		end = floor + int64(r.Draw(300))
	}
	var ct uint32
	switch r.Draw(8) {
	case 0:
		ct = uint32(r.Draw(3))
	case 1:
		ct = 2 + uint32(r.Draw(3))
	case 2:
		ct = 4 + uint32(r.Draw(20))
	case 3:
		ct = 20 + uint32(r.Draw(200))
	case 4:
		ct = 200 + uint32(r.Draw(807))
	case 5:
		ct = 1007 + uint32(r.Draw(3))
	case 6:
		ct = 1009 + uint32(r.Draw(600))
	default:
		ct = 3 + uint32(r.Draw(12))
	}
	est := &fnEstimator{floor: floor}
	switch r.Draw(8) {
	case 0, 1, 2:
		est.answer = floor + int64(r.Draw(int(end)+1))
	case 3:
		est.answer = floor
	case 4:
		est.answer = end + int64(r.Draw(int(end)+1000)) // above the ceiling
	case 5:
		est.answer = int64(r.Draw(int(floor))) // below the relay floor
		r.Count("fault_estimator_below_floor")
	case 6:
		est.err = errEstimator
		r.Count("fault_estimator_error")
	default:
		est.answer = end
	}
	start := fn.None[chainfee.SatPerKWeight]()
	startVal := int64(0)
	switch {
	case startAbove && r.Chance(1, 2):
		startVal = end + 1 + int64(r.Draw(int(end)+100))
	case r.Chance(1, 3) && end >= floor:
		// caller-supplied start: between the relay floor and the ceiling
		startVal = floor + int64(r.Draw(int(end-floor)+1))
	}
	if startVal > 0 {
		start = fn.Some(chainfee.SatPerKWeight(startVal))
	}
	dlog(r, "init ceiling=%d confTarget=%d floor=%d start=%d estimator=(%d,%v)", end, ct, floor, startVal, est.answer, est.err)

	f, err := sweep.NewLinearFeeFunction(chainfee.SatPerKWeight(end), ct, est, start)
	if err != nil {
		// Refusing to start is always within the property (nothing is
		// offered). Only sanity: an error must have a reason the property
		// text allows for.
		dlog(r, "init failed: %v", err)
		r.Count("feefn_init_refused")
		return
	}
	cur := int64(f.FeeRate())
	dlog(r, "start rate %d", cur)
	if startVal > end || end < floor {
		// Either the caller asked for more than the ceiling, or the ceiling
		// (budget over size) is below the relay floor so that "start at the
		// floor" and "never above the ceiling" cannot both hold: the fee
		// function alone is not judged here (the publisher must then refuse to
		// publish, which the sweeper arm checks).
		r.Count("probe_feefn_unjudged_domain")
		return
	}
	if cur > end {
		r.Fail("feefn-above-ceiling", "initial fee rate %d sat/kw exceeds the ceiling %d (confTarget %d, estimator %d)", cur, end, ct, est.answer)
	}
	if ct <= 1 && cur != end {
		r.Fail("feefn-ceiling-not-reached", "created %d block(s) before the deadline but starts at %d sat/kw instead of the ceiling %d", ct, cur, end)
	}
	if startVal == 0 && ct > 1 && end >= floor && cur < floor {
		r.Fail("feefn-below-floor", "initial fee rate %d sat/kw is below the relay floor %d although the ceiling %d is not (confTarget %d, estimator %d)", cur, floor, end, ct, est.answer)
	}
	if cur < floor {
		r.Count("probe_feefn_start_below_floor")
	}

	lastCT := ct
	increases := 0
	reached := cur == end
	for n := 0; n < steps && r.Step(); n++ {
		old := cur
		var (
			inc  bool
			err  error
			what string
			atDL bool
		)
		switch k := r.Draw(10); {
		case k < 6:
			// next block beat: the conf target shrinks by 1, or by more when
			// heights were skipped
			d := uint32(1)
			if r.Chance(1, 3) {
				d = 1 + uint32(r.Draw(int(lastCT/2)+2))
			}
			nct := uint32(0)
			if lastCT > d {
				nct = lastCT - d
			}
			lastCT = nct
			what = fmt.Sprintf("IncreaseFeeRate(%d)", nct)
			r.Kind("beat")
			inc, err = f.IncreaseFeeRate(nct)
			atDL = nct <= 1
		case k < 8:
			what = "Increment()"
			r.Kind("increment")
			inc, err = f.Increment()
		case k < 9:
			// a stale / larger conf target (must never lower the rate)
			nct := lastCT + uint32(r.Draw(20))
			what = fmt.Sprintf("IncreaseFeeRate(%d) [stale]", nct)
			r.Kind("stale")
			inc, err = f.IncreaseFeeRate(nct)
		default:
			// jump straight to one block before the deadline or past it
			nct := uint32(r.Draw(2))
			lastCT = nct
			what = fmt.Sprintf("IncreaseFeeRate(%d)", nct)
			r.Kind("deadline")
			inc, err = f.IncreaseFeeRate(nct)
			atDL = true
		}
		cur = int64(f.FeeRate())
		dlog(r, "%s -> increased=%v err=%v rate=%d", what, inc, err, cur)
		if err != nil && !errors.Is(err, sweep.ErrMaxPosition) {
			r.Fail("feefn-error", "%s returned unexpected error %v", what, err)
		}
		if cur < old {
			r.Fail("feefn-decreased", "%s lowered the fee rate from %d to %d sat/kw (ceiling %d)", what, old, cur, end)
		}
		if cur > end {
			r.Fail("feefn-above-ceiling", "%s raised the fee rate to %d sat/kw above the ceiling %d", what, cur, end)
		}
		if err == nil && inc != (cur > old) {
			r.Fail("feefn-increase-flag", "%s reports increased=%v but the rate went %d -> %d", what, inc, old, cur)
		}
		if (atDL || errors.Is(err, sweep.ErrMaxPosition)) && cur != end {
			r.Fail("feefn-ceiling-not-reached", "%s (err=%v): one block before the deadline or later, the rate is %d sat/kw, not the ceiling %d", what, err, cur, end)
		}
		if cur > old {
			increases++
		}
		if cur == end {
			reached = true
		}
		r.State(fmt.Sprintf("ct=%d pos=%v", bucket(int64(lastCT)), cur == end))
	}
	// Wind-down (no draws): the block one before the deadline arrives.
	{
		old := cur
		_, err := f.IncreaseFeeRate(1)
		cur = int64(f.FeeRate())
		dlog(r, "wind-down IncreaseFeeRate(1) -> err=%v rate=%d", err, cur)
		if err != nil && !errors.Is(err, sweep.ErrMaxPosition) {
			r.Fail("feefn-error", "IncreaseFeeRate(1) returned unexpected error %v", err)
		}
		if cur < old {
			r.Fail("feefn-decreased", "IncreaseFeeRate(1) lowered the fee rate from %d to %d sat/kw (ceiling %d)", old, cur, end)
		}
		if cur != end {
			r.Fail("feefn-ceiling-not-reached", "IncreaseFeeRate(1) (err=%v): one block before the deadline the rate is %d sat/kw, not the ceiling %d (start %d, initial conf target %d)", err, cur, end, startVal, ct)
		}
		if cur > old {
			increases++
		}
		reached = true
	}
	r.Add("feefn_increases", int64(increases))
	if reached {
		r.Count("probe_feefn_reached_ceiling")
	}
	r.Nontrivial = increases >= 2 && reached
}

func bucket(v int64) int {
	b := 0
	for v > 0 {
		v >>= 1
		b++
	}
	return b
}
