// Package sweepsim is the deterministic-simulation engine for property C18
// ("sweeps never pay fees beyond their budget and ramp up to it by the
// deadline"). The real sweep.UtxoSweeper, sweep.BudgetAggregator,
// sweep.TxPublisher and sweep.LinearFeeFunction run unmodified inside a
// testing/synctest bubble; the simulator owns every seam around them: the
// wallet (mempool verdicts, publishing, wallet UTXOs), the fee estimator, the
// chain notifier (spends, confirmations), the mempool lookup, the block beats,
// the sweeper store and the signer (real keys). A restart replaces the sweeper
// and the publisher by fresh ones over the same seams (the store, the mempool
// and the chain are what survives). All choices come from the simcore tape.
package sweepsim

import (
	"errors"
	"fmt"
	"sort"
	"sync"

	"github.com/btcsuite/btcd/btcutil/v2"
	"github.com/btcsuite/btcd/chainhash/v2"
	"github.com/btcsuite/btcd/rpcclient"
	"github.com/btcsuite/btcd/wire/v2"
	"github.com/btcsuite/btcwallet/chain"
	"github.com/lightningnetwork/lnd/chainntnfs"
	"github.com/lightningnetwork/lnd/fn/v2"
	"github.com/lightningnetwork/lnd/input"
	"github.com/lightningnetwork/lnd/lnwallet"
	"github.com/lightningnetwork/lnd/lnwallet/chainfee"
	"github.com/lightningnetwork/lnd/sweep"

	"verif/simcore"
)

const (
	backendFullNode = iota // testmempoolaccept available, policy enforced
	backendNeutrino        // CheckMempoolAcceptance unimplemented
	backendOld             // backend too old for testmempoolaccept
)

// Config is the per-run swarm configuration.
type Config struct {
	Faulty        bool
	Backend       int
	RelayFloor    int64 // sat/kw
	MaxRateVB     int64 // sat/vbyte (UtxoSweeperConfig.MaxFeeRate)
	ChangeKind    int
	MaxInputs     uint32
	NoDeadlineCT  uint32
	EnvRate       int64 // sat/kw added to the estimator's curve
	Steps         int
	StartAboveMax bool
	InitialUtxos  int
	MaxOffered    int
	StartHeight   int32
	// Restarts enables the "restart" step (sweeper and publisher are stopped
	// and rebuilt over the same outside world).
	Restarts bool
}

func (c Config) maxRateKW() int64 { return c.MaxRateVB * 250 }

type simInput struct {
	idx         int
	kind        inputKind
	inp         input.Input
	op          wire.OutPoint
	value       int64
	budget      int64
	deadline    int32
	hasDeadline bool
	start       int64
	immediate   bool
	exclusive   bool
	reqOut      *wire.TxOut
	result      chan sweep.Result
	final       string
	live        *simReq
	// retryRate: fee rate (sat/kw) carried by the TxFailed / TxUnknownSpend
	// result of the last request that contained this input - documented as
	// "the starting fee rate to use for the next sweeping attempt"
	retryRate int64
	retryFrom string
	// params is what the input was first offered with; a restart re-offers
	// the input with the same value (what a contract resolver does).
	params sweep.Params
	// hadSweep: at the time of the last restart the node's own unconfirmed
	// sweep of this input was in the mempool.
	hadSweep bool
	// restartTx: the node's own sweep of this input that was in the mempool
	// when the input was re-offered after a restart (backend with mempool
	// lookup only); cleared once a bump request containing the input has
	// been judged against it.
	restartTx *poolTx
}

func (in *simInput) label() string { return fmt.Sprintf("i%d", in.idx) }

type simUtxo struct {
	idx   int
	op    wire.OutPoint
	value int64
}

type attempt struct {
	step   int
	height int32
	fee    int64
	wAct   int64
	wNorm  int64
	phase  string
}

type poolTx struct {
	tx   *wire.MsgTx
	hash chainhash.Hash
	fee  int64
	req  *simReq
	// ver is the 1-based position among the request's published versions.
	ver         int
	wAct, wNorm int64
	hasChange   bool
	// reported is BumpResult.FeeRate of the TxPublished / TxReplaced result
	// that announced exactly this transaction (0: never announced).
	reported int64
	// ghostReplaced: the TxReplaced result that announced this transaction
	// named as ReplacedTx a transaction the wallet never accepted.
	ghostReplaced bool
}

func (p *poolTx) label() string { return fmt.Sprintf("%s version %d", p.req.key, p.ver) }

type simReq struct {
	minIdx, gen int
	key         string
	req         *sweep.BumpRequest
	ops         map[wire.OutPoint]struct{}
	offered     []*simInput
	budgetSum   int64
	hasRequired bool
	deadline    int32
	startRate   int64 // BumpRequest.StartingFeeRate, 0 if none
	createdStep int
	attempts    []attempt
	published   []*poolTx
	reported    []int64
	terminal    bool
	termEvent   string
	calls       int
	seq         int
	ceilChecked bool
	// restartOld: the pre-restart sweep (with change output) of one of this
	// request's inputs with the highest fee-over-size; the first transaction
	// of the request is judged against it. restartFloor is that sweep's fee
	// rate bounded from below (sat/kw).
	restartOld   *poolTx
	restartFloor int64
	// the same over the sweeps NOT announced with a never-published
	// ReplacedTx (see judgeRestartStart)
	restartOldClean   *poolTx
	restartFloorClean int64
}

type event struct {
	minIdx, gen, seq int
	text             string
}

type pendingViolation struct {
	minIdx, gen, seq int
	code, sig, msg   string
}

// World holds the simulated environment and implements the seams.
type World struct {
	r   *simcore.Run
	cfg Config
	kr  *keyring

	mu     sync.Mutex
	height int32
	step   int
	salt   uint64
	fault  int // 0 = no injected faults in this step

	changePk []byte

	inputs   []*simInput
	byOp     map[wire.OutPoint]*simInput
	utxos    []*simUtxo
	utxoByOp map[wire.OutPoint]*simUtxo

	spent map[wire.OutPoint]*chainntnfs.SpendDetail
	subs  map[wire.OutPoint][]chan *chainntnfs.SpendDetail

	mempool map[chainhash.Hash]*poolTx
	known   map[chainhash.Hash]*wire.MsgTx

	reqs   []*simReq
	genCnt map[int]int

	events     []event
	violations []pendingViolation
	harnessErr string

	store map[chainhash.Hash]*sweep.TxRecord

	pub  *sweep.TxPublisher
	done chan struct{}
	fwd  sync.WaitGroup

	estCalls int

	deferred *pendingViolation
}

// raiseDeferred reports the signature-carrying violation recorded earlier.
func (w *World) raiseDeferred() {
	if v := w.deferred; v != nil {
		w.r.FailSig(v.code, v.sig, "%s", v.msg)
	}
}

func newWorld(r *simcore.Run, cfg Config) *World {
	kr := newKeyring()
	return &World{
		r: r, cfg: cfg, kr: kr,
		height:   cfg.StartHeight,
		changePk: kr.changeScript(cfg.ChangeKind),
		byOp:     map[wire.OutPoint]*simInput{},
		utxoByOp: map[wire.OutPoint]*simUtxo{},
		spent:    map[wire.OutPoint]*chainntnfs.SpendDetail{},
		subs:     map[wire.OutPoint][]chan *chainntnfs.SpendDetail{},
		mempool:  map[chainhash.Hash]*poolTx{},
		known:    map[chainhash.Hash]*wire.MsgTx{},
		genCnt:   map[int]int{},
		store:    map[chainhash.Hash]*sweep.TxRecord{},
		done:     make(chan struct{}),
	}
}

// ---- deterministic, order-independent pseudo draws -------------------------

func mix(vals ...uint64) uint64 {
	h := uint64(0x9e3779b97f4a7c15)
	for _, v := range vals {
		h ^= v + 0x9e3779b97f4a7c15 + (h << 6) + (h >> 2)
		h *= 0xbf58476d1ce4e5b9
		h ^= h >> 29
	}
	return h
}

// ---- event / violation buffers (callbacks run on lnd goroutines) ------------

func (w *World) ev(q *simReq, format string, args ...interface{}) {
	q.seq++
	w.events = append(w.events, event{q.minIdx, q.gen, q.seq, q.key + " " + fmt.Sprintf(format, args...)})
}

func (w *World) violate(q *simReq, code, format string, args ...interface{}) {
	w.violateSig(q, code, "", format, args...)
}

// violateSig records a violation with a structural signature (used to match
// known findings; never a seed).
func (w *World) violateSig(q *simReq, code, sig, format string, args ...interface{}) {
	// A request built on a caller-supplied StartingFeeRate above the
	// configured maximum is reported under one code of its own: whatever goes
	// wrong there (rate above the maximum, later "decrease" to the maximum)
	// is the consequence of honouring that caller value (see findings/).
	for _, in := range q.offered {
		if in.start > w.cfg.maxRateKW() {
			format = "[" + code + "] caller offered " + in.label() + fmt.Sprintf(" with StartingFeeRate %d sat/kw above MaxFeeRate %d: ", in.start, w.cfg.maxRateKW()) + format
			code, sig = "caller-start-above-max", "start>max"
			break
		}
	}
	w.violations = append(w.violations, pendingViolation{q.minIdx, q.gen, q.seq, code, sig,
		q.key + ": " + fmt.Sprintf(format, args...)})
}

func (w *World) harness(format string, args ...interface{}) {
	if w.harnessErr == "" {
		w.harnessErr = fmt.Sprintf(format, args...)
	}
}

// flush writes the buffered request events to the run trace in a canonical
// order (independent of the order in which lnd's goroutines produced them) and
// raises the canonical-first recorded violation. Called from the simulator's
// own goroutine at quiescence only.
func (w *World) flush() {
	w.mu.Lock()
	evs := w.events
	w.events = nil
	vs := w.violations
	w.violations = nil
	he := w.harnessErr
	w.mu.Unlock()

	sort.SliceStable(evs, func(i, j int) bool {
		a, b := evs[i], evs[j]
		if a.minIdx != b.minIdx {
			return a.minIdx < b.minIdx
		}
		if a.gen != b.gen {
			return a.gen < b.gen
		}
		return a.seq < b.seq
	})
	for _, e := range evs {
		dlog(w.r, "  %s", e.text)
	}
	if he != "" {
		w.r.Harness("%s", he)
	}
	if len(vs) > 0 {
		sort.SliceStable(vs, func(i, j int) bool {
			a, b := vs[i], vs[j]
			if a.minIdx != b.minIdx {
				return a.minIdx < b.minIdx
			}
			if a.gen != b.gen {
				return a.gen < b.gen
			}
			return a.seq < b.seq
		})
		// Classes that carry a structural signature (the ones that can be
		// matched against known findings) do not cut the run short: the
		// first one is kept and raised when the run ends, so that the rest
		// of the run is still judged by every other oracle. Anything else
		// aborts the run at once.
		for _, v := range vs {
			if v.sig == "" {
				w.r.Fail(v.code, "%s", v.msg)
			}
		}
		if w.deferred == nil {
			v := vs[0]
			w.deferred = &v
			dlog(w.r, "  (violation %s/%s recorded, raised at the end of the run)", v.code, v.sig)
		}
	}
}

// ---- chainfee.Estimator -----------------------------------------------------

type estimator struct{ w *World }

func (e estimator) Start() error { return nil }
func (e estimator) Stop() error  { return nil }
func (e estimator) RelayFeePerKW() chainfee.SatPerKWeight {
	return chainfee.SatPerKWeight(e.w.cfg.RelayFloor)
}

var errEstimator = errors.New("simulated fee estimator failure")

// EstimateFeePerKW answers as a pure function of (step salt, conf target), so
// that the answer does not depend on which lnd goroutine asks first.
func (e estimator) EstimateFeePerKW(n uint32) (chainfee.SatPerKWeight, error) {
	w := e.w
	w.mu.Lock()
	defer w.mu.Unlock()
	w.estCalls++
	floor := w.cfg.RelayFloor
	// Benign curve: floor + env * (1 + 24/(n+1)), jittered per step.
	jit := int64(mix(w.salt, 0xe57, uint64(n)) % 17)
	rate := floor + w.cfg.EnvRate*(100+2400/int64(n+1)+jit)/100
	if w.fault > 0 {
		h := mix(w.salt, 0xfa17, uint64(n))
		if int(h%100) < 12*w.fault {
			switch (h >> 8) % 4 {
			case 0:
				w.r.Count("fault_estimator_error")
				return 0, errEstimator
			case 1:
				w.r.Count("fault_estimator_below_floor")
				if floor > 1 {
					return chainfee.SatPerKWeight(1 + int64(h>>16)%(floor-1)), nil
				}
				return 0, nil
			case 2:
				w.r.Count("fault_estimator_huge")
				return chainfee.SatPerKWeight(50_000_000 + int64(h>>16)%1000), nil
			default:
				w.r.Count("fault_estimator_zero")
				return 0, nil
			}
		}
	}
	return chainfee.SatPerKWeight(rate), nil
}

// ---- sweep.SweeperStore -----------------------------------------------------

type store struct{ w *World }

func (s store) IsOurTx(h chainhash.Hash) bool {
	s.w.mu.Lock()
	defer s.w.mu.Unlock()
	_, ok := s.w.store[h]
	return ok
}
func (s store) StoreTx(tr *sweep.TxRecord) error {
	s.w.mu.Lock()
	defer s.w.mu.Unlock()
	c := *tr
	s.w.store[tr.Txid] = &c
	return nil
}
func (s store) ListSweeps() ([]chainhash.Hash, error) {
	s.w.mu.Lock()
	defer s.w.mu.Unlock()
	out := make([]chainhash.Hash, 0, len(s.w.store))
	for h := range s.w.store {
		out = append(out, h)
	}
	sort.Slice(out, func(i, j int) bool { return string(out[i][:]) < string(out[j][:]) })
	return out, nil
}
func (s store) GetTx(h chainhash.Hash) (*sweep.TxRecord, error) {
	s.w.mu.Lock()
	defer s.w.mu.Unlock()
	tr, ok := s.w.store[h]
	if !ok {
		return nil, sweep.ErrTxNotFound
	}
	c := *tr
	return &c, nil
}
func (s store) DeleteTx(h chainhash.Hash) error {
	s.w.mu.Lock()
	defer s.w.mu.Unlock()
	delete(s.w.store, h)
	return nil
}

// ---- chainntnfs.MempoolWatcher ----------------------------------------------

// mempool answers the sweeper's lookup "is this outpoint already spent by an
// unconfirmed transaction": with a full node from the simulated mempool, not
// at all otherwise (neutrino has no mempool, an old btcd lacks
// gettxspendingprevout). The subscription half of the interface is not used by
// the sweeper.
type mempool struct{ w *World }

func (m mempool) SubscribeMempoolSpent(wire.OutPoint) (*chainntnfs.MempoolSpendEvent, error) {
	return nil, errUnused
}
func (m mempool) CancelMempoolSpendEvent(*chainntnfs.MempoolSpendEvent) {}

func (m mempool) LookupInputMempoolSpend(op wire.OutPoint) fn.Option[wire.MsgTx] {
	w := m.w
	w.mu.Lock()
	defer w.mu.Unlock()
	if w.cfg.Backend != backendFullNode {
		return fn.None[wire.MsgTx]()
	}
	p := w.poolSpenderLocked(op)
	if p == nil {
		return fn.None[wire.MsgTx]()
	}
	w.r.Count("mempool_lookup_hit")
	return fn.Some(*p.tx.Copy())
}

// poolSpenderLocked returns the mempool transaction that spends op (the
// mempool model holds at most one per offered input; the smallest hash wins
// should that ever not be so). Caller holds w.mu.
func (w *World) poolSpenderLocked(op wire.OutPoint) *poolTx {
	var best *poolTx
	for _, p := range w.mempool {
		for _, ti := range p.tx.TxIn {
			if ti.PreviousOutPoint != op {
				continue
			}
			if best == nil || string(p.hash[:]) < string(best.hash[:]) {
				best = p
			}
		}
	}
	return best
}

// ---- chainntnfs.ChainNotifier ----------------------------------------------

type notifier struct{ w *World }

var errUnused = errors.New("not used by the sweeper")

func (n notifier) RegisterConfirmationsNtfn(*chainhash.Hash, []byte, uint32, uint32,
	...chainntnfs.NotifierOption) (*chainntnfs.ConfirmationEvent, error) {
	return nil, errUnused
}
func (n notifier) RegisterBlockEpochNtfn(*chainntnfs.BlockEpoch) (*chainntnfs.BlockEpochEvent, error) {
	return nil, errUnused
}
func (n notifier) Start() error  { return nil }
func (n notifier) Started() bool { return true }
func (n notifier) Stop() error   { return nil }

func (n notifier) RegisterSpendNtfn(op *wire.OutPoint, _ []byte, _ uint32) (*chainntnfs.SpendEvent, error) {
	w := n.w
	w.mu.Lock()
	defer w.mu.Unlock()
	ch := make(chan *chainntnfs.SpendDetail, 1)
	o := *op
	if d, ok := w.spent[o]; ok {
		ch <- d
	}
	w.subs[o] = append(w.subs[o], ch)
	var once sync.Once
	return &chainntnfs.SpendEvent{
		Spend: ch,
		Cancel: func() {
			once.Do(func() {
				w.mu.Lock()
				defer w.mu.Unlock()
				l := w.subs[o]
				for i, c := range l {
					if c == ch {
						w.subs[o] = append(append([]chan *chainntnfs.SpendDetail{}, l[:i]...), l[i+1:]...)
						break
					}
				}
				close(ch)
			})
		},
	}, nil
}

// markSpentLocked records that tx (confirmed at the current height) spends its
// inputs and notifies the registered listeners. Caller holds w.mu.
func (w *World) markSpentLocked(tx *wire.MsgTx) {
	h := tx.TxHash()
	w.known[h] = tx
	for i, ti := range tx.TxIn {
		op := ti.PreviousOutPoint
		if _, ok := w.spent[op]; ok {
			continue
		}
		if _, isWallet := w.utxoByOp[op]; isWallet {
			// Wallet UTXOs are modelled as per-request private coins (see
			// the note on wallet.ListUnspentWitnessFromDefaultAccount).
			continue
		}
		d := &chainntnfs.SpendDetail{
			SpentOutPoint: &op, SpenderTxHash: &h, SpendingTx: tx,
			SpenderInputIndex: uint32(i), SpendingHeight: w.height,
		}
		w.spent[op] = d
		for _, ch := range w.subs[op] {
			select {
			case ch <- d:
			default:
			}
		}
	}
	// evict the tx itself and everything conflicting from the mempool model
	for ph, p := range w.mempool {
		if ph == h {
			delete(w.mempool, ph)
			continue
		}
		for _, ti := range p.tx.TxIn {
			if _, ok := w.spent[ti.PreviousOutPoint]; ok {
				delete(w.mempool, ph)
				break
			}
		}
	}
}

// ---- sweep.Wallet -----------------------------------------------------------

type wallet struct{ w *World }

func (wl wallet) BackEnd() string {
	switch wl.w.cfg.Backend {
	case backendNeutrino:
		return "neutrino"
	case backendOld:
		return "btcd"
	}
	return "bitcoind"
}
func (wl wallet) WithCoinSelectLock(f func() error) error { return f() }
func (wl wallet) RemoveDescendants(*wire.MsgTx) error     { return nil }
func (wl wallet) CancelRebroadcast(chainhash.Hash)        {}
func (wl wallet) GetTransactionDetails(*chainhash.Hash) (*lnwallet.TransactionDetail, error) {
	return nil, errUnused
}
func (wl wallet) FetchTx(h chainhash.Hash) (*wire.MsgTx, error) {
	wl.w.mu.Lock()
	defer wl.w.mu.Unlock()
	return wl.w.known[h], nil
}

// ListUnspentWitnessFromDefaultAccount always offers the whole simulated
// wallet. lnd does not lease the coins it attaches to a sweep (a TODO in
// fee_bumper.go), so two concurrent sweeps may pick the same coin, and which
// one wins then depends on lnd's map iteration order. To keep runs
// order-independent the simulated chain treats wallet coins as private to each
// request: they never conflict in the mempool model and are never consumed.
// (Wallet-coin contention is not part of C18.)
func (wl wallet) ListUnspentWitnessFromDefaultAccount(minConfs, maxConfs int32) ([]*lnwallet.Utxo, error) {
	w := wl.w
	w.mu.Lock()
	defer w.mu.Unlock()
	var out []*lnwallet.Utxo
	for _, u := range w.utxos {
		if _, gone := w.spent[u.op]; gone {
			continue
		}
		out = append(out, &lnwallet.Utxo{
			AddressType:   lnwallet.WitnessPubKey,
			Value:         btcutil.Amount(u.value),
			Confirmations: 6,
			PkScript:      w.kr.walletScript(),
			OutPoint:      u.op,
		})
	}
	return out, nil
}

var (
	errGenericMempool = errors.New("simulated: bad-txns-nonstandard")
	errGenericPublish = errors.New("simulated: broadcast failed")
)

// injectedFault picks a tape-determined wallet verdict for the n-th wallet
// call of this request. It is a pure function of (salt of the current block,
// request identity, n); fault level 0 never injects.
func (w *World) injectedFault(q *simReq, publish bool) error {
	n := q.calls
	q.calls++
	if w.fault == 0 {
		return nil
	}
	h := mix(w.salt, 0x3a11e7, uint64(q.minIdx), uint64(q.gen), uint64(n))
	if int(h%100) >= 9*w.fault {
		return nil
	}
	k := (h >> 8) % 8
	if publish {
		switch k {
		case 0, 1:
			w.r.Count("fault_publish_insufficient_fee")
			return chain.ErrInsufficientFee
		case 2:
			w.r.Count("fault_publish_mempool_fee")
			return lnwallet.ErrMempoolFee
		case 3:
			w.r.Count("fault_publish_double_spend")
			return lnwallet.ErrDoubleSpend
		default:
			w.r.Count("fault_publish_generic")
			return errGenericPublish
		}
	}
	switch k {
	case 0, 1, 2:
		w.r.Count("fault_check_insufficient_fee")
		return chain.ErrInsufficientFee
	case 3:
		w.r.Count("fault_check_mempool_fee")
		return lnwallet.ErrMempoolFee
	case 4:
		w.r.Count("fault_check_mempool_min_fee")
		return chain.ErrMempoolMinFeeNotMet
	case 5:
		w.r.Count("fault_check_min_relay_fee")
		return chain.ErrMinRelayFeeNotMet
	case 6:
		w.r.Count("fault_check_missing_inputs")
		return chain.ErrMissingInputs
	default:
		w.r.Count("fault_check_generic")
		return errGenericMempool
	}
}

// policy is the simulated full node's own (non-injected) mempool policy: an
// input already spent on chain, the relay floor and BIP-125 rules 3 and 4.
func (w *World) policy(tx *wire.MsgTx, info *txInfo) error {
	for _, ti := range tx.TxIn {
		if _, ok := w.spent[ti.PreviousOutPoint]; ok {
			return chain.ErrMissingInputs
		}
	}
	floorFee := w.cfg.RelayFloor * info.wAct / 1000
	if info.fee < floorFee {
		return chain.ErrMinRelayFeeNotMet
	}
	h := tx.TxHash()
	var conflictFee int64
	conflict := false
	for ph, p := range w.mempool {
		if ph == h {
			return nil // already in the pool
		}
		for _, ti := range p.tx.TxIn {
			if _, offered := w.byOp[ti.PreviousOutPoint]; offered && info.spends(ti.PreviousOutPoint) {
				conflict = true
				conflictFee += p.fee
				break
			}
		}
	}
	if conflict && (info.fee <= conflictFee || info.fee-conflictFee < floorFee) {
		return chain.ErrInsufficientFee
	}
	return nil
}

func (wl wallet) CheckMempoolAcceptance(tx *wire.MsgTx) error {
	w := wl.w
	w.mu.Lock()
	defer w.mu.Unlock()
	q, info := w.observe(tx, "check")
	if q == nil {
		return nil
	}
	var err error
	switch w.cfg.Backend {
	case backendNeutrino:
		err = chain.ErrUnimplemented
	case backendOld:
		err = rpcclient.ErrBackendVersion
	default:
		if err = w.policy(tx, info); err != nil {
			w.r.Count("mempool_policy_reject")
		} else {
			err = w.injectedFault(q, false)
		}
	}
	w.ev(q, "  -> testmempoolaccept: %v", errStr(err))
	return err
}

func (wl wallet) PublishTransaction(tx *wire.MsgTx, _ string) error {
	w := wl.w
	w.mu.Lock()
	defer w.mu.Unlock()
	q, info := w.observe(tx, "publish")
	if q == nil {
		return nil
	}
	var err error
	if w.cfg.Backend != backendNeutrino {
		// sendrawtransaction of a full node (old or new) enforces its policy
		switch perr := w.policy(tx, info); {
		case perr == nil:
		case errors.Is(perr, chain.ErrMissingInputs):
			err = lnwallet.ErrDoubleSpend
		case errors.Is(perr, chain.ErrMinRelayFeeNotMet):
			err = lnwallet.ErrMempoolFee
		default:
			err = perr
		}
		if err != nil {
			w.r.Count("mempool_policy_reject_publish")
		}
	}
	if err == nil {
		err = w.injectedFault(q, true)
	}
	if err == nil {
		h := tx.TxHash()
		cp := tx.Copy()
		p := &poolTx{tx: cp, hash: h, fee: info.fee, req: q, ver: len(q.published) + 1,
			wAct: info.wAct, wNorm: info.wNorm, hasChange: info.hasChange}
		for ph, old := range w.mempool {
			for _, ti := range old.tx.TxIn {
				if _, offered := w.byOp[ti.PreviousOutPoint]; offered && info.spends(ti.PreviousOutPoint) {
					delete(w.mempool, ph)
					break
				}
			}
		}
		w.mempool[h] = p
		w.known[h] = cp
		q.published = append(q.published, p)
		w.r.Count("tx_published_ok")
	}
	w.ev(q, "  -> publish: %v", errStr(err))
	return err
}

func errStr(err error) string {
	if err == nil {
		return "ok"
	}
	return err.Error()
}

// ---- sweep.Bumper wrapper ---------------------------------------------------

// bumper sits between the real UtxoSweeper and the real TxPublisher: it sees
// every BumpRequest and every BumpResult and forwards them unchanged.
type bumper struct{ w *World }

func (b bumper) Broadcast(req *sweep.BumpRequest) <-chan *sweep.BumpResult {
	w := b.w
	w.mu.Lock()
	q := w.registerRequest(req)
	w.mu.Unlock()

	in := w.pub.Broadcast(req)
	out := make(chan *sweep.BumpResult, 1)
	// w.done is replaced by a restart: the forwarder belongs to the
	// incarnation that created it.
	done := w.done
	w.fwd.Add(1)
	go func() {
		defer w.fwd.Done()
		for {
			select {
			case res := <-in:
				w.mu.Lock()
				w.onResult(q, res)
				w.mu.Unlock()
				select {
				case out <- res:
				case <-done:
					return
				}
			case <-done:
				return
			}
		}
	}()
	return out
}
