package sweepsim

import (
	"fmt"
	"testing"

	"github.com/btcsuite/btcd/txscript/v2"
	"github.com/btcsuite/btcd/wire/v2"
	"github.com/lightningnetwork/lnd/input"
)

// TestCalibrate compares, per input kind, lnd's a-priori weight estimate with
// actual weight + signature slack of a fully signed one-input sweep.
func TestCalibrate(t *testing.T) {
	kr := newKeyring()
	for _, h := range []uint32{1000, 800000} {
		for k := inputKind(0); k < numKinds; k++ {
			for _, csv := range []uint32{1, 16, 17, 144, 2016} {
				inp, req, err := kr.buildInput(k, int(k), 100000, h-5, csv, h-3, 100000)
				if err != nil {
					t.Fatal(err)
				}
				tx := wire.NewMsgTx(2)
				tx.AddTxIn(&wire.TxIn{PreviousOutPoint: inp.OutPoint(), Sequence: inp.BlocksToMaturity()})
				var est input.TxWeightEstimator
				if req != nil {
					tx.AddTxOut(req)
					est.AddTxOutput(req)
				}
				change := kr.changeScript(0)
				tx.AddTxOut(&wire.TxOut{Value: 5000, PkScript: change})
				est.AddP2WKHOutput()
				if err := inp.WitnessType().AddWeightEstimation(&est); err != nil {
					t.Fatal(err)
				}
				tx.LockTime = h
				fetcher, _ := input.MultiPrevOutFetcher([]input.Input{inp})
				hc := txscript.NewTxSigHashes(tx, fetcher)
				sc, err := inp.CraftInputScript(kr.signer, tx, hc, fetcher, 0)
				if err != nil {
					t.Fatalf("%v: %v", k, err)
				}
				tx.TxIn[0].Witness = sc.Witness
				act := txWeight(tx)
				norm := act + witnessSlack(sc.Witness, inp.SignDesc().Output.PkScript)
				if d := norm - int64(est.Weight()); d < 0 || d > 8 {
					t.Errorf("kind %v: estimate %d not within [norm-8, norm] of %d", k, est.Weight(), norm)
				}
				fmt.Printf("h=%d kind=%-18v csv=%-4d est=%d act=%d norm=%d diff=%d\n", h, k, csv, est.Weight(), act, norm, int64(est.Weight())-norm)
			}
		}
	}
}
