package sweepsim

import "github.com/btcsuite/btcd/txscript/v2"

// dustLimit is an independent statement of Bitcoin Core's default dust rule
// (GetDustThreshold at the default dust relay fee of 3000 sat/kvB): an output
// is dust when its value is below 3 sat per byte of (serialised output + the
// typical input that later spends it). Witness programs are credited the 75%
// witness discount on the 107 byte spend.
//
//	witness program: (8 + 1 + len(pkScript)) + (32 + 4 + 1 + 107/4 + 4) bytes
//	other scripts:   (8 + 1 + len(pkScript)) + (32 + 4 + 1 + 107 + 4) bytes
//
// This gives the familiar 294 (P2WPKH), 330 (P2WSH, P2TR), 546 (P2PKH) and
// 540 (P2SH) satoshi.
func dustLimit(pkScript []byte) int64 {
	out := int64(8 + 1 + len(pkScript))
	if txscript.IsWitnessProgram(pkScript) {
		return 3 * (out + 32 + 4 + 1 + 107/4 + 4)
	}
	return 3 * (out + 32 + 4 + 1 + 107 + 4)
}
