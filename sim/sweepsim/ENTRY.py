# Table / manifest entries for property C18 (engine sweepsim). Same dict shapes as the
# C01 entries in /verif/checks_table.py (CHECK) and /verif/manifest_text.py (TEXT, ENGINE).
#
# Build kind is "gotest": the runner drives lnd's UtxoSweeper/TxPublisher inside a
# testing/synctest bubble and therefore is a test binary
#   cd /verif/sim && go test -c -vet=off -o /verif/build/run_sweepsim ./run_sweepsim
#   /verif/build/run_sweepsim -test.run=^TestRun$ -test.timeout=0
# Known findings (open, see findings/*.json and findings/known_findings_C18.json) must be merged
# into /verif/known_findings.json, otherwise every batch exits 1 on F1.

SWEEPSIM_STUB = {
    "sweep.UtxoSweeper (collector loop, input states, retries), sweep.BudgetAggregator + BudgetInputSet (clustering, wallet top-up), sweep.TxPublisher (initial broadcast, RBF loop, per-block fee bumps, unknown-spend handling), sweep.LinearFeeFunction, weight estimation, createSweepTx": "real, unmodified",
    "input.Input implementations (BaseInput incl. CSV/CLTV, HtlcSecondLevelAnchorInput timeout+success, taproot to_local script path) with scripts from lnd's own script builders": "real",
    "signer": "input.MockSigner with one real private key (real ECDSA/Schnorr signatures, real witness sizes); the peer signature on second-level HTLC inputs is a real but unrelated signature (scripts are not executed)",
    "sweep.Wallet": "simulator: mempool model of a full node (relay floor, inputs already spent on chain, BIP-125 rules 3+4) or neutrino (no testmempoolaccept) or an old backend (ErrBackendVersion); injected verdicts from the tape on top; wallet coins are private per request (no coin contention)",
    "chainfee.Estimator": "simulator: fixed relay floor per run; EstimateFeePerKW is a pure function of (block salt, conf target) with injected errors / below-floor / zero / huge answers",
    "chainntnfs.ChainNotifier (spend notifications), chainio.Blockbeat delivery (sweeper first, then publisher)": "simulator",
    "sweep.SweeperStore": "in-memory map owned by the simulated world: it survives the simulated restarts (TxRecord{FeeRate,Fee} per published sweep is all lnd persists about a pending sweep)",
    "chainntnfs.MempoolWatcher": "simulator: LookupInputMempoolSpend answers from the simulated mempool when the backend is a full node, fn.None on neutrino / an old btcd (no mempool, no gettxspendingprevout); the subscription half is inert (unused by the sweeper)",
    "process restart": "simulator: at a quiescent point UtxoSweeper.Stop + TxPublisher.Stop, everything lnd held in memory is dropped (fresh sweep.New / NewTxPublisher over the same world), chain, mempool, wallet coins and sweeper store stay; every unresolved input is offered again with the sweep.Params of its first offer, in index order, each to quiescence (what contract resolvers do on startup)",
    "AuxSweeper, CPFP parents, UpdateParams/BumpFee re-offers": "not simulated",
}
SWEEPSIM_ASSUME = [
    "configuration inside what lncfg.Sweeper.Validate accepts: MaxFeeRate 100..10000 sat/vb, NoDeadlineConfTarget >= 144; relay floor 253..3000 sat/kw, fixed per run",
    "caller-supplied StartingFeeRate is drawn between the relay floor and MaxFeeRate (a lower one is outside the property); a separate 1/16 arm offers starts above MaxFeeRate and reports what happens under its own code (finding F2)",
    "the a-priori size the node may assume for a transaction is bounded by actual weight + documented slack: 73 bytes per ECDSA signature, 1 byte sighash flag per Schnorr signature, 4 bytes per OP_CSV/OP_CLTV operand in the witness script (calib_test.go checks that lnd's estimate lies within that bound for every generated input kind)",
    "dust limits are Bitcoin Core's defaults (3 sat per byte of output plus typical spend: 294/330/546/540 sat), stated independently in dust.go",
    "wallet coins attached to a sweep never conflict with another sweep (lnd does not lease them; modelling the contention would make outcomes depend on lnd's map iteration order)",
    "a clean batch is evidence, not proof: histories are sampled from a seeded PRNG; the pure fee-function arithmetic is evaluated only on the (ceiling, start, conf-target history) triples the batch draws",
]

CHECK = {
    "C18": dict(
        bin="run_sweepsim", build="gotest", pkg="run_sweepsim", level="exploration",
        quick=dict(runs=3000, wall=75), thorough=dict(runs=30000, wall=1000),
        gomaxprocs=2,
        rule="one evaluation = one seeded history. Arms: (a) sweeper/fault-free and (b) sweeper/faulty: 20-50 steps (x2 in thorough) of offering inputs of 8 witness kinds to the real UtxoSweeper (values, budgets incl. near-floor and above-value, deadlines from passed to >1008 blocks, optional starting rate, immediate flag, exclusive anchors), wallet coins, block beats (single, skipped heights up to +450, jumps to 1-3 blocks before a live request's deadline) with own-version confirmations (latest or earlier) and, in (b), third-party spends, estimator faults and wallet verdicts; in half of the runs of (a) and (b) also up to 3 restarts (sweeper and publisher stopped and rebuilt over the same chain/mempool/store, unresolved inputs offered again; sweeps published before a restart can still confirm afterwards); followed by a fault-free wind-down that walks every live request to one block before its deadline. Every transaction handed to CheckMempoolAcceptance/PublishTransaction, every BumpRequest and every BumpResult is judged. (c) fee-function: the real LinearFeeFunction driven through 10-50 calls (IncreaseFeeRate with shrinking / skipped / stale conf targets, Increment) plus a final IncreaseFeeRate(1), FeeRate() judged after every call. non-trivial = (a,b) at least one request was judged at its deadline and at least one fee bump across blocks happened (b: and an injected fault fired; a restart counts as one) / (c) at least two increases and the ceiling reached; distinct = distinct event-trace hash",
        states_measure="distinct (live requests, offered inputs, mempool size, wallet coins) tuples / (log2 conf target, at-ceiling) for the fee-function arm",
        expected_probes=["probe_required_output_below_input_value", "probe_ramped_to_ceiling", "probe_feefn_reached_ceiling", "probe_attempt_below_floor",
                         "fault_third_party_spend", "fault_confirm_earlier_version", "fault_estimator_error",
                         "fault_check_insufficient_fee", "fault_publish_generic", "ceiling_checks", "fee_bumps",
                         "blocks_skipping_heights", "fault_restart", "probe_restart_with_own_sweep_in_mempool",
                         "probe_restart_rbf_info_restored", "probe_restart_without_mempool_lookup",
                         "probe_restart_ceiling_below_reached_rate", "probe_confirm_pre_restart_sweep",
                         "restart_start_rate_checks", "restart_tx_rate_checks"],
        real_vs_stub=SWEEPSIM_STUB, assumptions=SWEEPSIM_ASSUME,
        simulated_time="block heights only (the sweeper has no timers); 1 beat = 1..450 blocks",
        determinism="actor engine inside testing/synctest, one stimulus at a time to quiescence; stub answers are pure functions of (block salt, request identity, per-request call number) and the trace is written in canonical request order, so lnd's goroutine/map-iteration order does not reach the trace. Self-test: 3 batch seeds x 400 runs x 2 processes x GOMAXPROCS {1,16}: 0 differing traces",
    ),
}

ENGINE = {"name": "sweepsim", "path": "/verif/sim/sweepsim", "serves_properties": ["C18"],
          "kind_free_text": "real UtxoSweeper + BudgetAggregator + TxPublisher + LinearFeeFunction in a synctest bubble; simulated wallet/mempool (incl. mempool lookup), fee estimator, spend notifier, block beats, sweeper store and process restarts; bump-request tap between sweeper and publisher; separate call-driven fee-function arm"}

TEXT = {
    "C18": dict(engine="sweepsim", design_ref="DESIGN.md 5 C18",
                technique="deterministic simulation with fault injection: seeded histories of inputs, blocks, estimator answers, mempool verdicts and spends around the real sweeper/publisher; per-transaction and per-request oracles at the wallet seam",
                level_text="Seeded exploration. Every transaction the node hands to the wallet (testmempoolaccept or publish) is judged on its own: fee = inputs - outputs <= sum of the budgets the caller attached to its inputs (exact), fee <= MaxFeeRate x (actual weight + documented witness slack), input set == the bump request's input set, every output >= its script's dust limit, required (SINGLE|ANYONECANPAY) outputs at the index of their input, nothing handed to PublishTransaction below the relay floor. Per request: offered fees and reported fee rates never decrease, reported rates <= MaxFeeRate, request budget <= attached budgets, and at every quiescent point where deadline - height <= 1 the last offered fee of a live request is at the ceiling min(budget, MaxFeeRate x weight) up to integer sat/kw rounding; a request whose start lies within the ceiling must not die of 'not enough budget'. Across requests: a bump request that contains an input of a failed sweep starts no lower than the fee rate that sweep had reached (sweeper contract: the failed result's rate is the next starting rate, a set starts at the MAX over its inputs). Across restarts (backend with mempool lookup only; without one lnd documents that it cannot know, counted as probe): an input offered again while the node's own unconfirmed sweep of it is still in the mempool must come back in a bump request whose StartingFeeRate is no lower than the rate the node had announced (TxPublished/TxReplaced) for exactly that transaction (restart-starts-lower), and, independent of lnd's reports and records, the first transaction of that request pays at least min(fee_old/(weight_old+slack), own ceiling) x its actual weight (restart-fee-rate-decreased; only old sweeps with a change output, whose fee is rate x size). The fee-function arm checks monotonicity, the cap, start >= relay floor, the increased-flag and rate == ceiling at conf target <= 1 directly on FeeRate(). Exploration is the right level: histories and integer roundings are unbounded, the oracles are scenario independent.",
                level_note="Trusted: the simulated mempool policy, the documented size slack, Bitcoin Core default dust limits. Restarts happen at quiescent points only (no crash between a publish and the store write) and re-offer inputs one by one; an input whose pre-restart sweep was replaced by an earlier re-offer of the same restart (immediate sweep of a co-swept input) is counted (probe_restart_sweep_replaced_before_reoffer), not judged: the mempool no longer shows it. Not covered: UpdateParams/BumpFee on a published input, AuxSweeper outputs, CPFP parents, taproot/nested wallet coins, wallet-coin contention. Open findings F1-F4 (findings/); F5 (findings/F5-*.json: a fee bump whose publish failed left a never-published tx as ReplacedTx of the next TxReplaced, the replacement got no TxRecord and the ramp restarted from the bottom after a restart) was found by the restart arm and is fixed in /repo (9d3b87d), its signature replaced-tx-never-published stays in the oracle are reported as KNOWN-FINDING once merged into known_findings.json; signature-carrying violations are raised at the end of a run so that they do not mask the other oracles."),
}

# Entries to merge into /verif/known_findings.json (also in findings/known_findings_C18.json):
KNOWN_FINDINGS = [
    {"property": "C18", "code": "below-relay-floor", "sig": "no-testmempoolaccept", "status": "open",
     "what": "F1 relay floor is enforced only through testmempoolaccept: on backends without it (neutrino, old btcd/bitcoind) a sweep below the relay floor is handed to PublishTransaction"},
    {"property": "C18", "code": "caller-start-above-max", "sig": "start>max", "status": "open",
     "what": "F2 caller-supplied StartingFeeRate above sweeper.maxfeerate is honoured"},
    {"property": "C18", "code": "rate-above-max", "sig": "no-change-output", "status": "open",
     "what": "F3 when the change output is dropped as dust the fee still pays for the absent change output's weight plus the dust remainder: effective fee rate above MaxFeeRate"},
    {"property": "C18", "code": "budget-overshoot", "sig": "budget-over-size-rounded-to-nearest", "status": "open",
     "what": "F4 MaxFeeRateAllowed rounds budget/size to the nearest sat/kw (chainfee.NewSatPerKWeight uses MulF64); for sweeps heavier than 2000 wu the ceiling fee can be budget+1 sat, the sanity check then fails the request at the ceiling instead of publishing it"},
]
