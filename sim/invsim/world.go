package invsim

import (
	"context"
	"errors"
	"fmt"
	"os"
	"path/filepath"
	"sort"
	"strings"
	"testing/synctest"
	"time"

	"github.com/lightningnetwork/lnd/chainntnfs"
	"github.com/lightningnetwork/lnd/channeldb"
	"github.com/lightningnetwork/lnd/invoices"
	"github.com/lightningnetwork/lnd/lntypes"
	"github.com/lightningnetwork/lnd/lnwire"

	"verif/simcore"
)

// RegCfg are the per-run registry parameters (swarm configuration).
type RegCfg struct {
	RejectDelta     int32
	HoldExpiryDelta uint32
	HoldDuration    time.Duration
	AcceptKeySend   bool
	KeysendHold     time.Duration
	AcceptAMP       bool
	Links           int
}

func (c RegCfg) String() string {
	return fmt.Sprintf("reject=%d holdExpiryDelta=%d mppHold=%v keysend=%v(hold %v) amp=%v links=%d",
		c.RejectDelta, c.HoldExpiryDelta, c.HoldDuration, c.AcceptKeySend, c.KeysendHold, c.AcceptAMP, c.Links)
}

// actor is a goroutine that executes registry calls on behalf of a link (or of
// the RPC user). The scheduler (the bubble's root goroutine) hands it one
// closure at a time; exactly one actor runs at any moment.
type actor struct {
	name string
	cmds chan func()
	hodl chan interface{}
}

func newActor(name string) *actor {
	a := &actor{name: name, cmds: make(chan func(), 4), hodl: make(chan interface{}, 4096)}
	go func() {
		for f := range a.cmds {
			f()
		}
	}()
	return a
}

// simNotifier plays the chain backend for the expiry watcher.
type simNotifier struct {
	chainntnfs.ChainNotifier
	epochs chan *chainntnfs.BlockEpoch
}

func (n *simNotifier) RegisterBlockEpochNtfn(*chainntnfs.BlockEpoch) (*chainntnfs.BlockEpochEvent, error) {
	return &chainntnfs.BlockEpochEvent{Epochs: n.epochs, Cancel: func() {}}, nil
}

// interceptor is the HtlcInterceptor stub: it cancels the HTLC set when told to
// by the current command, and never modifies amounts.
//
// It is also a scheduling point the simulator owns: when window is set the
// call parks (durably, on a channel) until the simulator releases it, which is
// how "something else happened while the external interceptor was thinking"
// becomes a replayable interleaving. lnd holds the registry lock across the
// call, so only work that does not need that lock can be scheduled inside the
// window: the event loop's MPP hold timers.
type interceptor struct {
	cancelSet bool
	window    bool
	parked    chan struct{}
	release   chan struct{}
}

func newInterceptor() *interceptor {
	return &interceptor{parked: make(chan struct{}, 1), release: make(chan struct{})}
}

func (i *interceptor) Intercept(_ invoices.HtlcModifyRequest, cb func(invoices.HtlcModifyResponse)) error {
	if i.window {
		i.window = false
		i.parked <- struct{}{}
		<-i.release
	}
	if i.cancelSet {
		cb(invoices.HtlcModifyResponse{CancelSet: true})
	}
	return nil
}

// World is one registry + store under simulation.
type World struct {
	r    *simcore.Run
	Name string // "kv" or "sql"
	SQL  bool
	cfg  RegCfg

	clk      *SimClock
	dir      string
	kv       *simcore.SimKV
	cdb      *channeldb.DB
	sqlPath  string
	sql      *sqlHandle
	idb      invoices.InvoiceDB
	reg      *invoices.InvoiceRegistry
	notifier *simNotifier
	icpt     *interceptor
	links    []*actor
	rpc      *actor
	up       bool
	epoch    int

	o *oracleState
}

func newWorld(r *simcore.Run, name string, sql bool, cfg RegCfg, start time.Time, height uint32) *World {
	w := &World{r: r, Name: name, SQL: sql, cfg: cfg, clk: NewSimClock(start), icpt: newInterceptor()}
	w.dir = r.SubDir("world-" + name)
	for i := 0; i < cfg.Links; i++ {
		w.links = append(w.links, newActor(fmt.Sprintf("link%d", i)))
	}
	w.rpc = newActor("rpc")
	w.o = newOracleState(w)
	if sql {
		tmpl, err := sqliteTemplate()
		r.Must(err, "sqlite template")
		w.sqlPath = filepath.Join(w.dir, "invoices.db")
		r.Must(os.WriteFile(w.sqlPath, tmpl, 0o600), "write sqlite copy")
	} else {
		kv, err := simcore.OpenSimKV(w.dir, "channel.db")
		r.Must(err, "open simkv")
		w.kv = kv
	}
	w.boot(height)
	return w
}

// boot opens the store and starts a fresh registry on it (first start or
// restart).
func (w *World) boot(height uint32) {
	r := w.r
	if w.SQL {
		h, err := openSQL(w.sqlPath, w.clk)
		r.Must(err, "open sqlite")
		w.sql = h
		w.idb = h.idb
	} else {
		cdb, err := channeldb.CreateWithBackend(w.kv, channeldb.OptionClock(w.clk))
		r.Must(err, "channeldb.CreateWithBackend")
		w.cdb = cdb
		w.idb = cdb
	}
	w.notifier = &simNotifier{epochs: make(chan *chainntnfs.BlockEpoch, 64)}
	watcher := invoices.NewInvoiceExpiryWatcher(taggedClock{w.clk, "watcher"}, w.cfg.HoldExpiryDelta, height, nil, w.notifier)
	w.reg = invoices.NewRegistry(w.idb, watcher, &invoices.RegistryConfig{
		FinalCltvRejectDelta: w.cfg.RejectDelta,
		HtlcHoldDuration:     w.cfg.HoldDuration,
		Clock:                taggedClock{w.clk, "registry"},
		AcceptKeySend:        w.cfg.AcceptKeySend,
		AcceptAMP:            w.cfg.AcceptAMP,
		KeysendHoldTime:      w.cfg.KeysendHold,
		HtlcInterceptor:      w.icpt,
	})
	r.Must(w.reg.Start(), "registry start")
	w.up = true
	w.epoch++
	synctest.Wait()
}

// halt stops the registry and closes the store (process exit).
func (w *World) halt() {
	if !w.up {
		return
	}
	w.up = false
	_ = w.reg.Stop()
	synctest.Wait()
	if w.SQL {
		_ = w.sql.Close()
		w.sql = nil
	}
}

// Restart is a process restart on the same store.
func (w *World) Restart(height uint32) {
	w.halt()
	if !w.SQL {
		w.r.Must(w.kv.Reopen(), "simkv reopen")
	}
	w.boot(height)
}

// Shutdown ends the world: registry stopped, stores closed, actors gone.
func (w *World) Shutdown() {
	w.halt()
	if !w.SQL && w.kv != nil {
		_ = w.kv.Close()
	}
	for _, a := range w.links {
		close(a.cmds)
	}
	close(w.rpc.cmds)
	synctest.Wait()
}

// on runs f on actor a and waits until the whole bubble is quiescent again.
func (w *World) on(a *actor, f func()) {
	done := false
	a.cmds <- func() { f(); done = true }
	synctest.Wait()
	if !done {
		w.r.Harness("%s/%s: call did not return at quiescence (blocked inside lnd?)", w.Name, a.name)
	}
}

// Verdict is what a link learns about one HTLC.
type Verdict struct {
	Class        string // settle | fail | accept | error
	Preimage     lntypes.Preimage
	Outcome      string
	AcceptHeight int32
	Err          error
}

func (v Verdict) String() string {
	switch v.Class {
	case "settle":
		return fmt.Sprintf("SETTLE(preimage=%x.. %s acceptHeight=%d)", v.Preimage[:4], v.Outcome, v.AcceptHeight)
	case "fail":
		return fmt.Sprintf("FAIL(%s acceptHeight=%d)", v.Outcome, v.AcceptHeight)
	case "accept":
		return "ACCEPT(held)"
	default:
		return fmt.Sprintf("ERROR(%v)", v.Err)
	}
}

func toVerdict(res invoices.HtlcResolution, err error) Verdict {
	if err != nil {
		return Verdict{Class: "error", Err: err}
	}
	switch x := res.(type) {
	case nil:
		return Verdict{Class: "accept"}
	case *invoices.HtlcSettleResolution:
		return Verdict{Class: "settle", Preimage: x.Preimage, Outcome: x.Outcome.String(), AcceptHeight: x.AcceptHeight}
	case *invoices.HtlcFailResolution:
		return Verdict{Class: "fail", Outcome: x.Outcome.String(), AcceptHeight: x.AcceptHeight}
	default:
		return Verdict{Class: "error", Err: fmt.Errorf("unknown resolution type %T", res)}
	}
}

// Notify delivers the HTLC to NotifyExitHopHtlc from its link's goroutine.
func (w *World) Notify(h *HtlcSpec, height uint32, cancelSet bool) Verdict {
	var v Verdict
	a := w.links[h.Link%len(w.links)]
	w.on(a, w.notifyFn(h, height, cancelSet, a, &v))
	return v
}

// NotifyWindow is Notify with time passing while the call sits in the HTLC
// interceptor: the call parks there, the clock moves on by d and the
// registry's own timers that come due (MPP hold timeouts) run to quiescence
// one by one, then the call is released. The expiry watcher's timers need the
// registry lock the parked call holds; they fire late, after the call has
// returned, as they would in a real process. It reports the number of timers
// fired inside the window, or -1 when the call never reached the interceptor.
func (w *World) NotifyWindow(h *HtlcSpec, height uint32, cancelSet bool, d time.Duration) (Verdict, int) {
	var v Verdict
	a := w.links[h.Link%len(w.links)]
	f := w.notifyFn(h, height, cancelSet, a, &v)
	w.icpt.window = true
	done := false
	a.cmds <- func() { f(); done = true }
	synctest.Wait()
	inside := -1
	select {
	case <-w.icpt.parked:
		inside = w.clk.AdvanceOnly(w.clk.Now().Add(d), "registry")
		w.icpt.release <- struct{}{}
		synctest.Wait()
	default:
		// refused before the interceptor was consulted: time passes after
		// the call instead.
		w.icpt.window = false
	}
	if !done {
		w.r.Harness("%s/%s: call did not return at quiescence (blocked inside lnd?)", w.Name, a.name)
	}
	// whatever came due meanwhile and had to wait for the lock
	w.clk.AdvanceTo(w.clk.Now().Add(func() time.Duration {
		if inside < 0 {
			return d
		}
		return 0
	}()))
	return v, inside
}

func (w *World) notifyFn(h *HtlcSpec, height uint32, cancelSet bool, a *actor, out *Verdict) func() {
	return func() {
		w.icpt.cancelSet = cancelSet
		res, err := w.reg.NotifyExitHopHtlc(
			h.Hash, h.Amt, h.Expiry, int32(height), h.Key, a.hodl, nil, payload{h},
		)
		w.icpt.cancelSet = false
		*out = toVerdict(res, err)
	}
}

// HodlMsg is a resolution delivered asynchronously on a link's hodl channel.
type HodlMsg struct {
	Link int
	Key  invoices.CircuitKey
	V    Verdict
}

// DrainHodl collects everything delivered on the links' hodl channels since the
// last call. lnd iterates Go maps when it notifies a set, so the batch is
// sorted to keep the trace a function of the tape alone.
func (w *World) DrainHodl() []HodlMsg {
	var out []HodlMsg
	for i, a := range w.links {
		for {
			select {
			case m := <-a.hodl:
				res, ok := m.(invoices.HtlcResolution)
				if !ok {
					w.r.Harness("%s: non-resolution %T on hodl channel", w.Name, m)
				}
				out = append(out, HodlMsg{Link: i, Key: res.CircuitKey(), V: toVerdict(res, nil)})
				continue
			default:
			}
			break
		}
	}
	sort.SliceStable(out, func(i, j int) bool {
		a, b := out[i], out[j]
		if a.Link != b.Link {
			return a.Link < b.Link
		}
		if a.Key.ChanID.ToUint64() != b.Key.ChanID.ToUint64() {
			return a.Key.ChanID.ToUint64() < b.Key.ChanID.ToUint64()
		}
		if a.Key.HtlcID != b.Key.HtlcID {
			return a.Key.HtlcID < b.Key.HtlcID
		}
		return a.V.String() < b.V.String()
	})
	return out
}

// AddInvoice adds a harness-created invoice through the registry.
func (w *World) AddInvoice(s *InvSpec) error {
	var err error
	w.on(w.rpc, func() {
		_, err = w.reg.AddInvoice(context.Background(), s.Build(), s.Hash)
	})
	return err
}

func (w *World) SettleHodl(p lntypes.Preimage) error {
	var err error
	w.on(w.rpc, func() { err = w.reg.SettleHodlInvoice(context.Background(), p) })
	return err
}

func (w *World) Cancel(h lntypes.Hash) error {
	var err error
	w.on(w.rpc, func() { err = w.reg.CancelInvoice(context.Background(), h) })
	return err
}

// Block announces a new best height to the expiry watcher.
func (w *World) Block(height uint32) {
	w.notifier.epochs <- &chainntnfs.BlockEpoch{Height: int32(height)}
	synctest.Wait()
}

// Advance moves the simulated wall clock.
func (w *World) Advance(d time.Duration) int {
	return w.clk.AdvanceTo(w.clk.Now().Add(d))
}

// ---- LookupInvoice projection ------------------------------------------

// Ref is one way the harness looks an invoice up after every event.
type Ref struct {
	ByAddr bool
	Hash   lntypes.Hash
	Addr   [32]byte
	Label  string
}

func (f Ref) ref() invoices.InvoiceRef {
	if f.ByAddr {
		return invoices.InvoiceRefByAddr(f.Addr)
	}
	return invoices.InvoiceRefByHash(f.Hash)
}

// HtlcProj is the store-independent view of one recorded HTLC.
type HtlcProj struct {
	Key          invoices.CircuitKey
	State        invoices.HtlcState
	Amt          lnwire.MilliSatoshi
	MppTotal     lnwire.MilliSatoshi
	Expiry       uint32
	AcceptHeight uint32
	AMP          bool
	SetID        [32]byte
	AmpHash      lntypes.Hash
	AmpPreimage  *lntypes.Preimage
}

// AmpSetProj is the view of one AMP sub-invoice.
type AmpSetProj struct {
	SetID   [32]byte
	State   invoices.HtlcState
	AmtPaid lnwire.MilliSatoshi
	Keys    []invoices.CircuitKey
}

// InvProj is the store-independent view of one invoice.
type InvProj struct {
	AddIndex uint64
	State    invoices.ContractState
	AmtPaid  lnwire.MilliSatoshi
	Value    lnwire.MilliSatoshi
	Addr     [32]byte
	Delta    int32
	Hodl     bool
	IsAMP    bool
	ReqAddr  bool
	Preimage *lntypes.Preimage
	Htlcs    []HtlcProj
	AmpSets  []AmpSetProj
}

func keyLess(a, b invoices.CircuitKey) bool {
	if a.ChanID.ToUint64() != b.ChanID.ToUint64() {
		return a.ChanID.ToUint64() < b.ChanID.ToUint64()
	}
	return a.HtlcID < b.HtlcID
}

func keyStr(k invoices.CircuitKey) string {
	return fmt.Sprintf("link%d/%d", int(k.ChanID.TxIndex)-1, k.HtlcID)
}

func project(inv *invoices.Invoice) *InvProj {
	p := &InvProj{
		AddIndex: inv.AddIndex, State: inv.State, AmtPaid: inv.AmtPaid,
		Value: inv.Terms.Value, Addr: inv.Terms.PaymentAddr, Delta: inv.Terms.FinalCltvDelta,
		Hodl: inv.HodlInvoice, IsAMP: inv.IsAMP(),
	}
	if inv.Terms.Features != nil {
		p.ReqAddr = inv.Terms.Features.RequiresFeature(lnwire.PaymentAddrRequired)
	}
	if inv.Terms.PaymentPreimage != nil {
		pp := *inv.Terms.PaymentPreimage
		p.Preimage = &pp
	}
	for k, h := range inv.Htlcs {
		hp := HtlcProj{Key: k, State: h.State, Amt: h.Amt, MppTotal: h.MppTotalAmt,
			Expiry: h.Expiry, AcceptHeight: h.AcceptHeight}
		if h.AMP != nil {
			hp.AMP = true
			hp.SetID = h.AMP.Record.SetID()
			hp.AmpHash = h.AMP.Hash
			if h.AMP.Preimage != nil {
				pp := *h.AMP.Preimage
				hp.AmpPreimage = &pp
			}
		}
		p.Htlcs = append(p.Htlcs, hp)
	}
	sort.Slice(p.Htlcs, func(i, j int) bool { return keyLess(p.Htlcs[i].Key, p.Htlcs[j].Key) })
	for id, st := range inv.AMPState {
		sp := AmpSetProj{SetID: id, State: st.State, AmtPaid: st.AmtPaid}
		for k := range st.InvoiceKeys {
			sp.Keys = append(sp.Keys, k)
		}
		sort.Slice(sp.Keys, func(i, j int) bool { return keyLess(sp.Keys[i], sp.Keys[j]) })
		p.AmpSets = append(p.AmpSets, sp)
	}
	sort.Slice(p.AmpSets, func(i, j int) bool {
		return string(p.AmpSets[i].SetID[:]) < string(p.AmpSets[j].SetID[:])
	})
	return p
}

func htlcStateStr(s invoices.HtlcState) string {
	switch s {
	case invoices.HtlcStateAccepted:
		return "accepted"
	case invoices.HtlcStateCanceled:
		return "canceled"
	case invoices.HtlcStateSettled:
		return "settled"
	}
	return fmt.Sprintf("state%d", s)
}

// String is the canonical form used for the trace and for the KV/SQL
// comparison (AddIndex and timestamps are deliberately not part of it).
func (p *InvProj) String() string {
	if p == nil {
		return "<none>"
	}
	var b strings.Builder
	fmt.Fprintf(&b, "%v paid=%d value=%d delta=%d hodl=%v amp=%v", p.State, p.AmtPaid, p.Value, p.Delta, p.Hodl, p.IsAMP)
	if p.Preimage != nil {
		fmt.Fprintf(&b, " pre=%x..", p.Preimage[:4])
	}
	for _, h := range p.Htlcs {
		fmt.Fprintf(&b, " [%s %s amt=%d tot=%d exp=%d acc=%d", keyStr(h.Key), htlcStateStr(h.State), h.Amt, h.MppTotal, h.Expiry, h.AcceptHeight)
		if h.AMP {
			fmt.Fprintf(&b, " set=%x.. hash=%x..", h.SetID[:3], h.AmpHash[:3])
			if h.AmpPreimage != nil {
				fmt.Fprintf(&b, " pre=%x..", h.AmpPreimage[:4])
			}
		}
		b.WriteString("]")
	}
	for _, s := range p.AmpSets {
		fmt.Fprintf(&b, " {set=%x.. %s paid=%d n=%d}", s.SetID[:3], htlcStateStr(s.State), s.AmtPaid, len(s.Keys))
	}
	return b.String()
}

// Lookup returns the projection for a ref, nil if the store has no such
// invoice, or an error for anything else.
func (w *World) Lookup(f Ref) (*InvProj, error) {
	inv, err := w.reg.LookupInvoiceByRef(context.Background(), f.ref())
	switch {
	case err == nil:
		return project(&inv), nil
	case errors.Is(err, invoices.ErrInvoiceNotFound), errors.Is(err, invoices.ErrNoInvoicesCreated):
		return nil, nil
	default:
		return nil, err
	}
}
