// Package invsim is the deterministic simulation engine for property C15
// ("a preimage is released only for a fully and correctly paid invoice").
//
// One run builds a real invoices.InvoiceRegistry (with its event loop and
// expiry watcher goroutines) on a real invoice store (channeldb KV on SimKV,
// or invoices.SQLStore on sqlite, or both in lock-step) inside a
// testing/synctest bubble, feeds it a tape-chosen sequence of stimuli, waits for
// quiescence after each one and evaluates a safety predicate on everything
// that came out (returned resolutions, hodl-channel resolutions, LookupInvoice).
package invsim

import (
	"fmt"
	"runtime/debug"
	"strings"
	"testing"
	"testing/synctest"

	"verif/simcore"
)

// T is the *testing.T of the runner's TestRun; synctest.Test needs one.
var T *testing.T

// inBubble runs body inside a synctest bubble and transports panics (property
// violations, harness errors, panics in lnd code) out of the bubble into the
// goroutine that called simcore.Execute, because a panic inside the bubble's
// root goroutine would otherwise kill the process.
func inBubble(r *simcore.Run, body func()) {
	if T == nil {
		r.Harness("invsim.T not set: the runner must be a test binary (go test -c)")
	}
	var (
		pv    interface{}
		stack string
		outer interface{}
	)
	func() {
		defer func() {
			if p := recover(); p != nil {
				outer = p
			}
		}()
		synctest.Test(T, func(t *testing.T) {
			defer func() {
				if p := recover(); p != nil {
					pv = p
					stack = string(debug.Stack())
				}
			}()
			body()
		})
	}()
	if pv != nil {
		tn := fmt.Sprintf("%T", pv)
		if tn == "simcore.violationPanic" || tn == "simcore.harnessPanic" {
			panic(pv)
		}
		if panicInHarness(stack) {
			r.Harness("panic in simulator (inside bubble): %v\n%s", pv, stack)
		}
		r.Fail("PANIC", "panic in code under test: %v\n%s", pv, trimStack(stack))
	}
	if outer != nil {
		// "deadlock: main bubble goroutine has exited but blocked goroutines
		// remain" or a bubble-wide deadlock: the simulator failed to shut its
		// world down (or hung); never a property verdict.
		r.Harness("synctest bubble ended abnormally: %v", outer)
	}
}

// panicInHarness: is the first non-runtime frame after panic() simulator code?
func panicInHarness(stack string) bool {
	lines := strings.Split(stack, "\n")
	seenPanic := false
	for i := 0; i < len(lines); i++ {
		l := lines[i]
		if strings.HasPrefix(l, "panic(") {
			seenPanic = true
			continue
		}
		if !seenPanic {
			continue
		}
		if strings.HasPrefix(l, "\t") || l == "" {
			continue
		}
		if strings.HasPrefix(l, "runtime.") || strings.HasPrefix(l, "runtime/") {
			continue
		}
		if strings.HasPrefix(l, "verif/") {
			return true
		}
		if i+1 < len(lines) && strings.Contains(lines[i+1], "/verif/") {
			return true
		}
		return false
	}
	return true
}

func trimStack(st string) string {
	lines := strings.Split(st, "\n")
	if len(lines) > 40 {
		lines = lines[:40]
	}
	return strings.Join(lines, "\n")
}
