package invsim

import (
	"context"
	"fmt"
	"testing/synctest"
	"time"

	"github.com/lightningnetwork/lnd/invoices"
	"github.com/lightningnetwork/lnd/lntypes"
	"github.com/lightningnetwork/lnd/lnwire"
)

func bg() context.Context { return context.Background() }
func waitQuiet()          { synctest.Wait() }

// DrainHodlDiscard throws away undelivered hodl messages (the node crashed:
// whatever it had queued for its links is gone).
func (w *World) DrainHodlDiscard() {
	for _, a := range w.links {
		for {
			select {
			case <-a.hodl:
				continue
			default:
			}
			break
		}
	}
}

// ---- invoices -----------------------------------------------------------

func (s *Sim) genAddInvoice() SubCmd {
	r := s.r
	i := len(s.invs)
	kind := []InvKind{KRegular, KRegular, KHold, KAmp, KOldAddr, KBlinded, KAncient, KHold, KAmp}[r.Draw(9)]
	value := []lnwire.MilliSatoshi{10_000, 10_000, 1_000, 0, 1, 99_999}[r.Draw(6)]
	rd := s.cfg.RejectDelta
	delta := []int32{rd + 4, rd, rd - 2, 40, rd + 1, 9}[r.Draw(6)]
	if delta < 1 {
		delta = 1
	}
	expiry := []time.Duration{3600 * time.Second, 300 * time.Second, 90 * time.Second, 3600 * time.Second, 40 * time.Second}[r.Draw(5)]
	pre := lntypes.Preimage(h32("preimage", i))
	sp := &InvSpec{
		Idx: i, Kind: kind, Preimage: pre, Hash: pre.Hash(), Addr: h32("addr", i),
		Value: value, Delta: delta, Expiry: expiry, Created: s.now,
	}
	s.invs = append(s.invs, sp)
	s.addRef(Ref{Hash: sp.Hash, Label: fmt.Sprintf("inv%d", i)})
	return SubCmd{Kind: "addinv", Inv: sp}
}

func (s *Sim) genSettle() SubCmd {
	r := s.r
	n := len(s.invs) + len(s.ksPre)
	j := r.Draw(n)
	if j < len(s.invs) {
		sp := s.invs[j]
		return SubCmd{Kind: "settle", Preimage: sp.Preimage, Target: fmt.Sprintf("preimage of inv%d/%s", sp.Idx, sp.Kind)}
	}
	j -= len(s.invs)
	return SubCmd{Kind: "settle", Preimage: s.ksPre[j], Target: fmt.Sprintf("keysend preimage %d", j)}
}

func (s *Sim) genCancel() SubCmd {
	r := s.r
	n := len(s.invs) + len(s.ksPre) + len(s.jitAmp)
	j := r.Draw(n + 1)
	switch {
	case j < len(s.invs):
		return SubCmd{Kind: "cancel", Hash: s.invs[j].Hash, Target: fmt.Sprintf("inv%d/%s", j, s.invs[j].Kind)}
	case j < len(s.invs)+len(s.ksPre):
		j -= len(s.invs)
		return SubCmd{Kind: "cancel", Hash: s.ksPre[j].Hash(), Target: fmt.Sprintf("keysend invoice %d", j)}
	case j < n:
		j -= len(s.invs) + len(s.ksPre)
		return SubCmd{Kind: "cancel", Hash: s.jitAmp[j], Target: fmt.Sprintf("spontaneous AMP invoice %d", j)}
	}
	return SubCmd{Kind: "cancel", Hash: h32("nosuchinvoice"), Target: "unknown hash"}
}

func (s *Sim) genReplay(exclude map[int]bool) SubCmd {
	r := s.r
	var cand []*HtlcSpec
	for _, h := range s.htlcs {
		if !exclude[h.Link] && (s.provoke || !(s.staleJIT(h) || (s.ioEvent && s.jitPath(h)) || s.ampReuse(h))) {
			cand = append(cand, h)
		}
	}
	if len(cand) == 0 {
		return SubCmd{Kind: "noop"}
	}
	// prefer recent HTLCs: draw 0 = most recent
	j := r.Draw(len(cand))
	h := cand[len(cand)-1-j]
	return SubCmd{Kind: "replay", H: h, Height: s.height, CancelSet: r.Draw(24) == 23 && s.cancelSetOK(h)}
}

// ---- HTLCs ----------------------------------------------------------------

func (s *Sim) newSpec(link int) *HtlcSpec {
	if link < 0 {
		link = s.r.Draw(s.cfg.Links)
	}
	h := &HtlcSpec{N: len(s.htlcs), Link: link, Attempt: -1}
	h.Key = invoices.CircuitKey{
		ChanID: lnwire.ShortChannelID{BlockHeight: 1, TxIndex: uint32(link + 1)},
		HtlcID: s.nextID[link],
	}
	s.nextID[link]++
	return h
}

func (s *Sim) register(h *HtlcSpec) {
	s.htlcs = append(s.htlcs, h)
	s.byKey[h.Key] = h
	if h.HasAMP && h.HasMPP {
		s.addRef(Ref{ByAddr: true, Addr: h.MppAddr, Label: fmt.Sprintf("amp-by-addr(%x..)", h.MppAddr[:3])})
	} else {
		s.addRef(Ref{Hash: h.Hash, Label: fmt.Sprintf("by-hash(%x..)", h.Hash[:3])})
	}
}

// expiryFor picks an HTLC expiry around the acceptance boundary for an invoice
// with final CLTV delta d.
func (s *Sim) expiryFor(d int32) uint32 {
	r := s.r
	rd := s.cfg.RejectDelta
	m, lo := d, rd
	if rd > m {
		m, lo = rd, d
	}
	h := int32(s.height)
	opts := []int32{h + m, h + m, h + m + 1, h + m + 40, h + m, h + m + 2, h + m + 40, h + m + 1, h + m + 3, h + m + 40,
		h + m - 1, h + lo, h + m - 1, h + lo - 1, h + rd - 1, h + d - 1}
	e := opts[r.Draw(len(opts))]
	if e < 1 {
		e = 1
	}
	return uint32(e)
}

// liveSum returns the amount and the AMP shares of the attempt's shards that
// world 0 currently holds in state accepted.
func (s *Sim) live(a *Attempt) (sum lnwire.MilliSatoshi, shares [][32]byte) {
	snaps := s.lastSnaps[0]
	st := map[invoices.CircuitKey]invoices.HtlcState{}
	seen := map[invoices.CircuitKey]bool{}
	for _, p := range snaps {
		if p == nil {
			continue
		}
		for _, h := range p.Htlcs {
			st[h.Key] = h.State
			seen[h.Key] = true
		}
	}
	for _, n := range a.Shards {
		h := s.htlcs[n]
		if seen[h.Key] && st[h.Key] == invoices.HtlcStateAccepted {
			sum += h.Amt
			shares = append(shares, h.AmpShare)
		}
	}
	return
}

func nz(v lnwire.MilliSatoshi) lnwire.MilliSatoshi {
	if v < 1 {
		return 1
	}
	return v
}

// shardAmt picks the amount of the next shard of an attempt.
func (s *Sim) shardAmt(a *Attempt) lnwire.MilliSatoshi {
	r := s.r
	liveSum, _ := s.live(a)
	t := a.Total
	if t == 0 {
		t = 5000
	}
	rem := t
	if liveSum < t {
		rem = t - liveSum
	}
	switch r.Draw(12) {
	case 0, 1, 2:
		return nz(rem)
	case 3, 4, 5, 6:
		return nz(rem / 2)
	case 7:
		return nz(rem - 1)
	case 8:
		return rem + 1
	case 9:
		return 1
	case 10:
		return nz(rem / 3)
	}
	return t + 7
}

func (s *Sim) addrVariant(right [32]byte, n int) ([32]byte, string) {
	switch s.r.Draw(20) {
	case 8:
		if len(s.invs) > 1 {
			return s.invs[(n+1)%len(s.invs)].Addr, "address of another invoice"
		}
		return h32("strayaddr", n), "unknown address"
	case 9:
		return h32("strayaddr", n), "unknown address"
	case 10:
		return invoices.BlankPayAddr, "blank address"
	case 11:
		a := right
		a[31] ^= 1
		return a, "address off by one bit"
	}
	return right, ""
}

func (s *Sim) totalVariant(v lnwire.MilliSatoshi) (lnwire.MilliSatoshi, string) {
	base := v
	if base == 0 {
		base = 5000
	}
	switch s.r.Draw(16) {
	case 6:
		return base + 1000, "declared total above invoice amount"
	case 7:
		if base > 1 {
			return base - 1, "declared total one below invoice amount"
		}
	case 8:
		return 0, "declared total zero"
	case 9:
		return base * 2, "declared total twice the invoice amount"
	}
	return base, ""
}

// genHtlcCmd creates a brand-new HTLC (new circuit key).
func (s *Sim) genHtlcCmd(link int) SubCmd {
	r := s.r
	h := s.newSpec(link)
	defer s.register(h)
	cmd := SubCmd{Kind: "htlc", H: h, Height: s.height}

	// continue an attempt that still lacks shards?
	var open []*Attempt
	for _, a := range s.attempts {
		if len(a.Shards) < 4 {
			open = append(open, a)
		}
	}
	if !s.provoke {
		// Re-using the set id of an already resolved AMP set trips a known
		// KV-store defect (see oracle: kv-amp-setid-reuse...); keep that to
		// the runs that are meant to provoke known findings.
		var keep []*Attempt
		for _, a := range open {
			if !(a.SetID != [32]byte{} && (s.resolvedShards(a) || s.burstAmp[a.N])) {
				keep = append(keep, a)
			}
		}
		open = keep
	}
	if len(open) > 0 && r.Draw(8) < s.k.ContinueNum {
		a := open[len(open)-1-r.Draw(len(open))]
		s.shard(h, a)
		cmd.CancelSet = r.Draw(24) == 23 && s.cancelSetOK(h)
		return cmd
	}

	// new attempt: choose the target
	type tgt struct {
		kind string
		inv  *InvSpec
	}
	var ts []tgt
	for _, sp := range s.invs {
		ts = append(ts, tgt{"invoice", sp}, tgt{"invoice", sp})
	}
	if s.cfg.AcceptKeySend {
		ts = append(ts, tgt{"keysend", nil}, tgt{"keysend", nil})
	}
	if s.cfg.AcceptAMP {
		ts = append(ts, tgt{"spont-amp", nil}, tgt{"spont-amp", nil})
	}
	// rarely: something the node is not configured to take
	switch {
	case len(ts) == 0:
		ts = append(ts, tgt{"unknown", nil})
	case r.Draw(16) == 15:
		ts = []tgt{{"keysend", nil}, {"spont-amp", nil}, {"unknown", nil}}
	}
	t := ts[r.Draw(len(ts))]
	switch t.kind {
	case "invoice":
		s.newAttemptOnInvoice(h, t.inv)
	case "keysend":
		s.keysend(h)
	case "spont-amp":
		a := &Attempt{N: len(s.attempts), Target: -1, Shape: "amp", SetID: h32("set", len(s.attempts)), Root: h32("root", len(s.attempts))}
		a.Addr = h32("ampaddr", a.N)
		a.Total = []lnwire.MilliSatoshi{8000, 8000, 1, 123_456}[r.Draw(4)]
		s.attempts = append(s.attempts, a)
		s.shard(h, a)
		s.jitAmp = append(s.jitAmp, h.Hash)
	default:
		h.Hash = h32("unknownhash", h.N)
		h.Amt = 5000
		h.Expiry = s.expiryFor(s.cfg.RejectDelta)
		h.Note = "unknown payment hash"
		if r.Draw(2) == 1 {
			h.HasMPP, h.MppTotal, h.MppAddr = true, 5000, h32("strayaddr", h.N)
		}
	}
	cmd.CancelSet = r.Draw(24) == 23 && s.cancelSetOK(h)
	return cmd
}

func (s *Sim) newAttemptOnInvoice(h *HtlcSpec, sp *InvSpec) {
	r := s.r
	// shape, by invoice kind; draw 0 is always the shape the invoice asks for
	var shapes []string
	switch sp.Kind {
	case KAmp:
		shapes = []string{"amp", "amp", "amp", "amp", "amp", "amp", "mpp", "legacy", "amp-no-mpp", "amp"}
	case KBlinded:
		shapes = []string{"blinded", "blinded", "blinded", "blinded", "blinded", "blinded", "mpp", "legacy", "legacy", "keysend-to-invoice"}
	case KAncient, KOldAddr:
		shapes = []string{"legacy", "legacy", "legacy", "mpp", "mpp", "mpp", "mpp", "keysend-to-invoice", "amp-to-nonamp", "blinded"}
	default:
		shapes = []string{"mpp", "mpp", "mpp", "mpp", "mpp", "mpp", "legacy", "legacy", "keysend-to-invoice", "amp-to-nonamp", "blinded", "keysend-to-invoice"}
	}
	shape := shapes[r.Draw(len(shapes))]
	base := sp.Value
	if base == 0 {
		base = 5000
	}
	switch shape {
	case "legacy", "keysend-to-invoice":
		h.Hash = sp.Hash
		h.Amt = []lnwire.MilliSatoshi{base, base, base, base + 1, nz(base - 1), base * 2}[r.Draw(6)]
		h.Expiry = s.expiryFor(sp.Delta)
		h.Note = fmt.Sprintf("legacy payment to inv%d", sp.Idx)
		if shape == "keysend-to-invoice" {
			switch r.Draw(4) {
			case 0, 1:
				h.Keysend = append([]byte(nil), sp.Preimage[:]...)
				h.Note = fmt.Sprintf("legacy payment to inv%d carrying a keysend record with the invoice's own preimage", sp.Idx)
			case 2:
				x := h32("guess", h.N)
				h.Keysend = x[:]
				h.Note = fmt.Sprintf("legacy payment to inv%d carrying a keysend record with a wrong preimage", sp.Idx)
			default:
				h.Keysend = []byte{1, 2, 3}
				h.Note = fmt.Sprintf("legacy payment to inv%d carrying a malformed keysend record", sp.Idx)
			}
		}
		return
	case "amp-no-mpp":
		h.Hash = sp.Hash
		h.Amt = base
		h.Expiry = s.expiryFor(sp.Delta)
		h.HasAMP, h.AmpSetID, h.AmpShare = true, h32("set", 900+h.N), h32("share", 900+h.N)
		h.Note = fmt.Sprintf("AMP record without MPP record to inv%d", sp.Idx)
		return
	}
	a := &Attempt{N: len(s.attempts), Target: sp.Idx, Shape: shape, Hash: sp.Hash}
	var n1, n2 string
	a.Total, n1 = s.totalVariant(sp.Value)
	a.Addr, n2 = s.addrVariant(sp.Addr, sp.Idx)
	if sp.Kind == KAncient && n2 == "" {
		a.Addr = invoices.BlankPayAddr
	}
	if shape == "amp" || shape == "amp-to-nonamp" {
		a.SetID, a.Root = h32("set", a.N), h32("root", a.N)
	}
	s.attempts = append(s.attempts, a)
	s.shard(h, a)
	for _, n := range []string{n1, n2} {
		if n != "" {
			h.Note += "; " + n
		}
	}
}

// shard fills h as the next shard of attempt a.
func (s *Sim) shard(h *HtlcSpec, a *Attempt) {
	r := s.r
	h.Attempt = a.N
	delta := s.cfg.RejectDelta
	if a.Target >= 0 {
		delta = s.invs[a.Target].Delta
	}
	h.Amt = s.shardAmt(a)
	h.Expiry = s.expiryFor(delta)
	total := a.Total
	note := ""
	if r.Draw(14) == 13 {
		total++
		note = "; this shard declares a different total"
	}
	idx := len(a.Shards)
	switch a.Shape {
	case "mpp":
		h.Hash = a.Hash
		h.HasMPP, h.MppTotal, h.MppAddr = true, total, a.Addr
		h.Note = fmt.Sprintf("MPP shard %d of attempt %d on inv%d", idx, a.N, a.Target)
	case "blinded":
		h.Hash = a.Hash
		p := a.Addr
		h.PathID, h.TotalAmt = &p, total
		h.Note = fmt.Sprintf("blinded-path shard %d of attempt %d on inv%d", idx, a.N, a.Target)
	case "amp", "amp-to-nonamp":
		h.HasMPP, h.MppTotal, h.MppAddr = true, total, a.Addr
		h.HasAMP, h.AmpSetID = true, a.SetID
		h.AmpIndex = uint32(idx)
		if r.Draw(16) == 15 && idx > 0 {
			h.AmpIndex = 0
			note += "; child index reused"
		}
		// The shard that completes the amount carries the share that makes
		// the XOR of all live shares equal the root.
		liveSum, shares := s.live(a)
		t := a.Total
		if t == 0 {
			t = 5000
		}
		if liveSum+h.Amt >= t && r.Draw(10) != 9 {
			sh := a.Root
			for _, x := range shares {
				sh = xor32(sh, x)
			}
			h.AmpShare = sh
			note += "; completing share"
		} else {
			h.AmpShare = h32("share", a.N, idx)
		}
		_, h.Hash = ampChild(a.Root, h.AmpShare, h.AmpIndex)
		if a.Shape == "amp-to-nonamp" {
			h.Hash = a.Hash
		} else if r.Draw(20) == 19 {
			h.Hash = h32("wrongchildhash", h.N)
			note += "; child hash does not derive from the root"
		}
		if a.Target >= 0 {
			h.Note = fmt.Sprintf("AMP shard %d of attempt %d on inv%d", idx, a.N, a.Target)
		} else {
			h.Note = fmt.Sprintf("spontaneous AMP shard %d of attempt %d", idx, a.N)
		}
	}
	h.Note += note
	a.Shards = append(a.Shards, h.N)
	if s.burstAmp != nil && a.SetID != [32]byte{} {
		s.burstAmp[a.N] = true
	}
}

// keysend builds a spontaneous keysend HTLC (new preimage or a second payment
// to an earlier keysend hash).
func (s *Sim) keysend(h *HtlcSpec) {
	r := s.r
	j := len(s.ksPre)
	if j > 0 && r.Draw(3) == 2 {
		j = r.Draw(len(s.ksPre))
	}
	if j == len(s.ksPre) {
		s.ksPre = append(s.ksPre, lntypes.Preimage(h32("keysend", j)))
		s.ksAmt = append(s.ksAmt, []lnwire.MilliSatoshi{1000, 1000, 1, 77_777}[r.Draw(4)])
		h.Amt = s.ksAmt[j]
		h.Note = fmt.Sprintf("keysend %d", j)
	} else {
		h.Amt = []lnwire.MilliSatoshi{s.ksAmt[j], s.ksAmt[j] + 5, nz(s.ksAmt[j] - 1)}[r.Draw(3)]
		h.Note = fmt.Sprintf("second keysend payment to hash %d", j)
	}
	pre := s.ksPre[j]
	h.Hash = pre.Hash()
	h.Expiry = s.expiryFor(s.cfg.RejectDelta)
	switch r.Draw(10) {
	case 7:
		x := h32("guess", h.N)
		h.Keysend = x[:]
		h.Note += "; keysend record holds a wrong preimage"
	case 8:
		h.Keysend = []byte{9, 9, 9, 9, 9}
		h.Note += "; malformed keysend record"
	case 9:
		h.Keysend = append([]byte(nil), pre[:]...)
		h.HasMPP, h.MppTotal = true, h.Amt
		h.Note += "; keysend with an MPP record"
	default:
		h.Keysend = append([]byte(nil), pre[:]...)
	}
}

// genBurst: 2-3 calls parked on different goroutines, released in drawn order.
func (s *Sim) genBurst() []SubCmd {
	r := s.r
	n := 2 + r.Draw(2)
	s.burstAmp = map[int]bool{}
	defer func() { s.burstAmp = nil }()
	var subs []SubCmd
	usedLinks := map[int]bool{}
	rpcUsed := false
	for len(subs) < n {
		opts := []string{}
		if len(usedLinks) < s.cfg.Links {
			if len(s.htlcs) < s.k.MaxHtlcs+2 {
				opts = append(opts, "htlc", "htlc")
			}
			free := false
			for _, h := range s.htlcs {
				if !usedLinks[h.Link] {
					free = true
				}
			}
			if free {
				opts = append(opts, "replay")
			}
		}
		if !rpcUsed && len(s.invs)+len(s.ksPre) > 0 {
			opts = append(opts, "settle", "cancel")
		}
		if len(opts) == 0 {
			break
		}
		switch opts[r.Draw(len(opts))] {
		case "htlc":
			var free []int
			for l := 0; l < s.cfg.Links; l++ {
				if !usedLinks[l] {
					free = append(free, l)
				}
			}
			l := free[r.Draw(len(free))]
			usedLinks[l] = true
			subs = append(subs, s.genHtlcCmd(l))
		case "replay":
			c := s.genReplay(usedLinks)
			if c.H == nil {
				n--
				continue
			}
			usedLinks[c.H.Link] = true
			subs = append(subs, c)
		case "settle":
			rpcUsed = true
			subs = append(subs, s.genSettle())
		case "cancel":
			rpcUsed = true
			subs = append(subs, s.genCancel())
		}
	}
	// tape-chosen release order
	for i := len(subs) - 1; i > 0; i-- {
		j := r.Draw(i + 1)
		subs[i], subs[j] = subs[j], subs[i]
	}
	return subs
}

// staleJIT: replaying h now would run into lnd's just-in-time invoice
// pre-check (processKeySend / processAMP compare the expiry with the CURRENT
// height before the HTLC is looked up): a known finding, provoked only in the
// runs drawn for it.
func (s *Sim) staleJIT(h *HtlcSpec) bool {
	if int64(h.Expiry) >= int64(s.height)+int64(s.cfg.RejectDelta) {
		return false
	}
	return s.jitPath(h)
}

// jitPath: NotifyExitHopHtlc will try a just-in-time AddInvoice for h.
func (s *Sim) jitPath(h *HtlcSpec) bool {
	if h.HasAMP {
		return s.cfg.AcceptAMP && h.HasMPP
	}
	return s.cfg.AcceptKeySend && h.KnowsPreimage() && !h.HasMPP
}

// resolvedShards: world 0 holds at least one shard of the attempt in a final
// state.
func (s *Sim) resolvedShards(a *Attempt) bool {
	for _, p := range s.lastSnaps[0] {
		if p == nil {
			continue
		}
		for _, h := range p.Htlcs {
			if h.State == invoices.HtlcStateAccepted {
				continue
			}
			for _, n := range a.Shards {
				if s.htlcs[n].Key == h.Key {
					return true
				}
			}
		}
	}
	return false
}

// ampReuse: h is an AMP HTLC that the store does not (or no longer) hold while
// other shards of its set are already resolved; delivering it again re-uses a
// resolved set id (known KV-store finding).
func (s *Sim) ampReuse(h *HtlcSpec) bool {
	if !h.HasAMP || h.Attempt < 0 {
		return false
	}
	for _, p := range s.lastSnaps[0] {
		if p == nil {
			continue
		}
		for _, x := range p.Htlcs {
			if x.Key == h.Key {
				return false
			}
		}
	}
	return s.resolvedShards(s.attempts[h.Attempt])
}

// cancelSetOK: the interceptor client only vetoes HTLCs that present the
// invoice's own payment address (or none). With a foreign address the KV store
// still finds the invoice by hash (and fails the HTLC later) while the SQL
// store reports "not found" before the interceptor is asked; both refuse the
// HTLC, but a blind veto would cancel the pending set on one store only.
func (s *Sim) cancelSetOK(h *HtlcSpec) bool {
	a, carries := h.CarriesAddr()
	if !carries {
		return true
	}
	for _, sp := range s.invs {
		if sp.Hash == h.Hash && sp.Addr != *a {
			return false
		}
	}
	return true
}
