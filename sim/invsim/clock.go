package invsim

import (
	"sort"
	"sync"
	"testing/synctest"
	"time"

	"github.com/lightningnetwork/lnd/clock"
)

// SimClock is the simulated wall clock handed to the registry, the expiry
// watcher and the stores. It knows every pending TickAfter deadline, so that
// advancing time fires ONE timer at a time (ordered by deadline, then by
// registration), waiting for quiescence after each. That removes the only
// source of runtime races between the registry's event loop (MPP set timeout)
// and the expiry watcher.
type SimClock struct {
	mu      sync.Mutex
	now     time.Time
	seq     int
	pending []*simTimer
}

type simTimer struct {
	at  time.Time
	seq int
	ch  chan time.Time
	tag string
}

// taggedClock is a view of a SimClock whose timers carry a tag, so that the
// simulator can tell the registry's own timers (MPP hold timeouts, handled by
// the event loop without the registry lock) from the expiry watcher's.
type taggedClock struct {
	c   *SimClock
	tag string
}

var _ clock.Clock = taggedClock{}

func (t taggedClock) Now() time.Time { return t.c.Now() }
func (t taggedClock) TickAfter(d time.Duration) <-chan time.Time {
	return t.c.tickAfter(d, t.tag)
}

var _ clock.Clock = (*SimClock)(nil)

func NewSimClock(start time.Time) *SimClock { return &SimClock{now: start} }

func (c *SimClock) Now() time.Time {
	c.mu.Lock()
	defer c.mu.Unlock()
	return c.now
}

func (c *SimClock) TickAfter(d time.Duration) <-chan time.Time {
	return c.tickAfter(d, "")
}

func (c *SimClock) tickAfter(d time.Duration, tag string) <-chan time.Time {
	c.mu.Lock()
	defer c.mu.Unlock()
	ch := make(chan time.Time, 1)
	if d <= 0 {
		// A zero wait still lets a real clock move on; without this the
		// expiry watcher spins forever when the simulated time stands exactly
		// on an invoice's expiry instant (it cancels only when expiry is
		// strictly before Now() but asks for a zero-length tick until then).
		c.now = c.now.Add(time.Nanosecond)
		ch <- c.now
		return ch
	}
	c.seq++
	c.pending = append(c.pending, &simTimer{at: c.now.Add(d), seq: c.seq, ch: ch, tag: tag})
	return ch
}

func (c *SimClock) popDue(limit time.Time, only string) *simTimer {
	c.mu.Lock()
	defer c.mu.Unlock()
	if len(c.pending) == 0 {
		return nil
	}
	sort.SliceStable(c.pending, func(i, j int) bool {
		if !c.pending[i].at.Equal(c.pending[j].at) {
			return c.pending[i].at.Before(c.pending[j].at)
		}
		return c.pending[i].seq < c.pending[j].seq
	})
	at := 0
	if only != "" {
		at = -1
		for i, t := range c.pending {
			if t.tag == only {
				at = i
				break
			}
		}
		if at < 0 {
			return nil
		}
	}
	t := c.pending[at]
	if t.at.After(limit) {
		return nil
	}
	c.pending = append(c.pending[:at:at], c.pending[at+1:]...)
	// The watcher only cancels when expiry is strictly before Now(); a real
	// clock has always moved on a little by the time the tick is handled.
	n := t.at.Add(time.Nanosecond)
	if n.After(c.now) {
		c.now = n
	}
	return t
}

// AdvanceTo moves the clock to target, firing due timers one by one and
// waiting for the bubble to become quiescent after each. It returns the number
// of timers fired.
func (c *SimClock) AdvanceTo(target time.Time) int {
	return c.advanceTo(target, "")
}

// AdvanceOnly is AdvanceTo restricted to the timers carrying tag; timers of
// other owners that come due stay pending and fire late, at the next
// AdvanceTo.
func (c *SimClock) AdvanceOnly(target time.Time, tag string) int {
	return c.advanceTo(target, tag)
}

func (c *SimClock) advanceTo(target time.Time, only string) int {
	fired := 0
	for {
		t := c.popDue(target, only)
		if t == nil {
			break
		}
		t.ch <- c.Now()
		fired++
		synctest.Wait()
	}
	c.mu.Lock()
	if target.After(c.now) {
		c.now = target
	}
	c.mu.Unlock()
	synctest.Wait()
	return fired
}
