package invsim

import (
	"crypto/sha256"
	"errors"
	"fmt"
	"os"
	"sort"
	"strings"
	"time"

	"github.com/lightningnetwork/lnd/invoices"
	"github.com/lightningnetwork/lnd/lnwire"

	"verif/simcore"
)

// SubCmd is one registry call of an event (a burst has several).
type SubCmd struct {
	Kind      string // htlc | replay | settle | cancel | addinv
	H         *HtlcSpec
	Inv       *InvSpec
	Target    string // human label of the settle/cancel target
	Hash      [32]byte
	Preimage  [32]byte
	CancelSet bool
	Height    uint32
	// Window > 0: this much time passes while the call sits in the HTLC
	// interceptor (see World.NotifyWindow).
	Window time.Duration
}

// SubResult is the synchronous outcome of a SubCmd in one world.
type SubResult struct {
	V   Verdict // htlc / replay
	Err error   // settle / cancel / addinv
}

// Event is one simulator step as seen by the oracle.
type Event struct {
	No    int
	Kind  string
	Subs  []SubCmd // in execution order
	Fault string   // "", failwrite, crashbefore, crashafter
	Fired bool     // the injected fault actually fired
	// Windowed: time passed (and timers may have run) inside a call of this
	// event, so the store can have changed between the call's start and the
	// moment it was decided.
	Windowed bool
}

// Obs is everything one world showed during an event.
type Obs struct {
	Rets  []SubResult
	Hodl  []HodlMsg
	Snaps []*InvProj // one per universe ref, nil if not found
}

type htlcTrack struct {
	recorded     bool
	inv          uint64
	acceptHeight uint32
	state        invoices.HtlcState
	settleRes    bool
	cancelRes    bool

	lastClass    string
	lastPreimage [32]byte
	lastEvent    int
	lastHeight   uint32
	lastCancel   bool
	lastSeen     bool
}

type oracleState struct {
	w    *World
	prev map[uint64]*InvProj
	htlc map[invoices.CircuitKey]*htlcTrack
	// mutation counter: the number of the last event in which anything the
	// registry decides on changed (store contents, time, height, restart).
	lastChange int

	settledHtlcs, canceledHtlcs, refused int
}

func newOracleState(w *World) *oracleState {
	return &oracleState{w: w, prev: map[uint64]*InvProj{}, htlc: map[invoices.CircuitKey]*htlcTrack{}}
}

func (o *oracleState) track(k invoices.CircuitKey) *htlcTrack {
	t := o.htlc[k]
	if t == nil {
		t = &htlcTrack{lastEvent: -10}
		o.htlc[k] = t
	}
	return t
}

func invStateRank(s invoices.ContractState) int {
	switch s {
	case invoices.ContractOpen:
		return 0
	case invoices.ContractAccepted:
		return 1
	default:
		return 2 // settled, canceled: terminal
	}
}

func classOfState(s invoices.HtlcState) string {
	switch s {
	case invoices.HtlcStateAccepted:
		return "accept"
	case invoices.HtlcStateSettled:
		return "settle"
	default:
		return "fail"
	}
}

func injected(err error) bool {
	return errors.Is(err, simcore.ErrSimIO) || errors.Is(err, simcore.ErrSimCrashed) ||
		errors.Is(err, ErrSimSQLIO) ||
		(err != nil && (strings.Contains(err.Error(), simcore.ErrSimIO.Error()) ||
			strings.Contains(err.Error(), simcore.ErrSimCrashed.Error()) ||
			strings.Contains(err.Error(), ErrSimSQLIO.Error())))
}

// Check evaluates the C15 predicate on one event of one world. uni resolves
// circuit keys to what the harness actually sent.
func (o *oracleState) Check(s *Sim, ev *Event, obs *Obs) {
	r := o.w.r
	wn := o.w.Name
	fail := func(code, format string, args ...interface{}) {
		r.Fail(code, "[%s store, event %d %s] %s", wn, ev.No, ev.Kind, fmt.Sprintf(format, args...))
	}

	// ---- A. current view, one entry per invoice -------------------------
	cur := map[uint64]*InvProj{}
	for _, p := range obs.Snaps {
		if p != nil {
			cur[p.AddIndex] = p
		}
	}
	type loc struct {
		inv *InvProj
		h   *HtlcProj
	}
	where := map[invoices.CircuitKey]loc{}
	var idxs []uint64
	for i := range cur {
		idxs = append(idxs, i)
	}
	sort.Slice(idxs, func(a, b int) bool { return idxs[a] < idxs[b] })
	for _, i := range idxs {
		p := cur[i]
		for j := range p.Htlcs {
			h := &p.Htlcs[j]
			if l, dup := where[h.Key]; dup {
				fail("htlc-on-two-invoices", "HTLC %s is recorded on invoice #%d and on invoice #%d", keyStr(h.Key), l.inv.AddIndex, p.AddIndex)
			}
			where[h.Key] = loc{p, h}
		}
	}

	sentNow := map[invoices.CircuitKey]*SubCmd{}
	for i := range ev.Subs {
		c := &ev.Subs[i]
		if c.H != nil {
			sentNow[c.H.Key] = c
		}
	}

	// Structural signature of a known lnd defect: the KV store rewrites the
	// per-set HTLC blob of an AMP sub-invoice from the ACCEPTED members only,
	// so a new HTLC that reuses the set id of an already resolved set erases
	// the resolved members' records.
	setIDReuseSig := func(victim invoices.CircuitKey, setID [32]byte) string {
		if o.w.SQL {
			return ""
		}
		for _, c := range ev.Subs {
			if c.H != nil && c.H.HasAMP && c.H.AmpSetID == setID && c.H.Key != victim {
				if _, ok := where[c.H.Key]; ok {
					return "kv-amp-setid-reuse-erases-resolved-htlcs"
				}
			}
		}
		return ""
	}

	// ---- B. states only move forward ------------------------------------
	changed := false
	var prevIdx []uint64
	for i := range o.prev {
		prevIdx = append(prevIdx, i)
	}
	sort.Slice(prevIdx, func(a, b int) bool { return prevIdx[a] < prevIdx[b] })
	for _, i := range prevIdx {
		pp := o.prev[i]
		cp := cur[i]
		if cp == nil {
			fail("invoice-vanished", "invoice #%d (%s) can no longer be looked up", i, pp)
		}
		if cp.State != pp.State {
			changed = true
			if invStateRank(cp.State) <= invStateRank(pp.State) {
				fail("invoice-state-backwards", "invoice #%d moved %v -> %v", i, pp.State, cp.State)
			}
		}
		if cp.Value != pp.Value || cp.Addr != pp.Addr || cp.Delta != pp.Delta || cp.Hodl != pp.Hodl {
			fail("invoice-terms-changed", "invoice #%d terms changed: %s -> %s", i, pp, cp)
		}
		if cp.AmtPaid != pp.AmtPaid {
			changed = true
		}
		for j := range pp.Htlcs {
			ph := &pp.Htlcs[j]
			l, ok := where[ph.Key]
			if !ok || l.inv.AddIndex != i {
				// Structural signature of a known lnd defect: the KV
				// store rewrites the per-set HTLC blob of an AMP
				// sub-invoice from the ACCEPTED members only, so a new
				// HTLC that reuses the set id of an already resolved
				// set erases the resolved members' records.
				sig := ""
				if ph.AMP && ph.State != invoices.HtlcStateAccepted {
					sig = setIDReuseSig(ph.Key, ph.SetID)
				}
				r.FailSig("htlc-vanished", sig, "[%s store, event %d %s] HTLC %s (was %s on invoice #%d) is no longer recorded there", wn, ev.No, ev.Kind, keyStr(ph.Key), htlcStateStr(ph.State), i)
			}
			ch := l.h
			if ch.State != ph.State {
				changed = true
				if ph.State != invoices.HtlcStateAccepted {
					fail("htlc-state-backwards", "HTLC %s on invoice #%d moved %s -> %s", keyStr(ph.Key), i, htlcStateStr(ph.State), htlcStateStr(ch.State))
				}
			}
			if ch.Amt != ph.Amt || ch.Expiry != ph.Expiry || ch.AcceptHeight != ph.AcceptHeight || ch.MppTotal != ph.MppTotal {
				fail("htlc-record-changed", "HTLC %s on invoice #%d: recorded fields changed", keyStr(ph.Key), i)
			}
		}
	}

	// ---- C. newly recorded HTLCs ------------------------------------------
	var keys []invoices.CircuitKey
	for k := range where {
		keys = append(keys, k)
	}
	sort.Slice(keys, func(a, b int) bool { return keyLess(keys[a], keys[b]) })
	for _, k := range keys {
		l := where[k]
		t := o.track(k)
		if !t.recorded {
			changed = true
			c := sentNow[k]
			spec := s.specByKey(k)
			if spec == nil {
				fail("htlc-appeared", "invoice #%d records HTLC %s which nobody sent", l.inv.AddIndex, keyStr(k))
			}
			if c == nil {
				fail("htlc-appeared", "invoice #%d records HTLC %s although it was not delivered in this event", l.inv.AddIndex, keyStr(k))
			}
			t.recorded = true
			t.inv = l.inv.AddIndex
			t.acceptHeight = c.Height
			wantTotal := lnwire.MilliSatoshi(0)
			if !spec.IsLegacy() {
				wantTotal = spec.DeclaredTotal()
			}
			h := l.h
			if h.Amt != spec.Amt || h.Expiry != spec.Expiry || h.AcceptHeight != c.Height || h.MppTotal != wantTotal {
				fail("htlc-record-mismatch", "HTLC %s recorded as amt=%d total=%d expiry=%d acceptHeight=%d, but it was sent as amt=%d total=%d expiry=%d at height %d",
					keyStr(k), h.Amt, h.MppTotal, h.Expiry, h.AcceptHeight, spec.Amt, wantTotal, spec.Expiry, c.Height)
			}
			if h.AMP != spec.HasAMP || (h.AMP && (h.SetID != spec.AmpSetID || h.AmpHash != spec.Hash)) {
				fail("htlc-record-mismatch", "HTLC %s: recorded AMP data does not match what was sent", keyStr(k))
			}
		}
	}

	// ---- D. the safety predicate on every newly settled set --------------
	type group struct {
		inv  *InvProj
		name string
		hs   []*HtlcProj
	}
	groups := map[string]*group{}
	var gorder []string
	for _, k := range keys {
		l := where[k]
		if l.h.State != invoices.HtlcStateSettled || o.wasSettled(k) {
			continue
		}
		spec := s.specByKey(k)
		var gk string
		switch {
		case l.h.AMP:
			gk = fmt.Sprintf("%d/amp:%x", l.inv.AddIndex, l.h.SetID)
		case spec.IsLegacy():
			gk = fmt.Sprintf("%d/single:%s", l.inv.AddIndex, keyStr(k))
		default:
			gk = fmt.Sprintf("%d/mpp", l.inv.AddIndex)
		}
		g := groups[gk]
		if g == nil {
			g = &group{inv: l.inv, name: gk}
			groups[gk] = g
			gorder = append(gorder, gk)
		}
		g.hs = append(g.hs, l.h)
	}
	for _, gk := range gorder {
		g := groups[gk]
		inv := g.inv
		var (
			sum      lnwire.MilliSatoshi
			total    lnwire.MilliSatoshi
			totalSet bool
			desc     []string
		)
		for _, h := range g.hs {
			spec := s.specByKey(h.Key)
			t := o.track(h.Key)
			desc = append(desc, spec.String())
			// preimage must open this HTLC's own payment hash
			var pre *[32]byte
			if h.AMP {
				if h.AmpPreimage != nil {
					p := [32]byte(*h.AmpPreimage)
					pre = &p
				}
			} else if inv.Preimage != nil {
				p := [32]byte(*inv.Preimage)
				pre = &p
			}
			if pre == nil {
				fail("settled-without-preimage", "HTLC %s is settled on invoice #%d but the record holds no preimage for it", keyStr(h.Key), inv.AddIndex)
			}
			if sha256.Sum256(pre[:]) != [32]byte(spec.Hash) {
				fail("preimage-mismatch", "HTLC %s settled with a preimage that does not hash to its payment hash %x", keyStr(h.Key), spec.Hash[:])
			}
			// payment address
			addr, carries := spec.CarriesAddr()
			if inv.ReqAddr && !carries && !spec.KnowsPreimage() {
				fail("address-missing", "invoice #%d requires a payment address, HTLC %s carried none and was settled: %s", inv.AddIndex, keyStr(h.Key), spec)
			}
			if inv.ReqAddr && !carries && spec.KnowsPreimage() {
				if s.strictKeysend {
					r.FailSig("address-missing", "keysend-record-holds-invoice-preimage",
						"[%s store, event %d %s] invoice #%d requires a payment address; HTLC %s carried none (only a keysend record holding the invoice's own preimage) and was settled: %s",
						wn, ev.No, ev.Kind, inv.AddIndex, keyStr(h.Key), spec)
				}
				r.Count("probe_keysend_preimage_known_bypasses_address")
			}
			if carries && inv.Addr != invoices.BlankPayAddr && *addr != inv.Addr {
				fail("address-mismatch", "HTLC %s carried payment address %x but invoice #%d has %x and it was settled: %s", keyStr(h.Key), addr[:], inv.AddIndex, inv.Addr[:], spec)
			}
			// common total
			dt := spec.DeclaredTotal()
			if !totalSet {
				total, totalSet = dt, true
			} else if dt != total {
				fail("total-mismatch", "settled set %s mixes declared totals %d and %d: %s", g.name, total, dt, strings.Join(desc, " | "))
			}
			sum += spec.Amt
			// final CLTV margin at acceptance
			need := inv.Delta
			if o.w.cfg.RejectDelta > need {
				need = o.w.cfg.RejectDelta
			}
			if int64(spec.Expiry) < int64(t.acceptHeight)+int64(need) {
				fail("cltv-margin", "HTLC %s (expiry %d) was accepted at height %d and settled, but invoice #%d needs expiry >= height + max(final_cltv_delta=%d, reject_delta=%d)",
					keyStr(h.Key), spec.Expiry, t.acceptHeight, inv.AddIndex, inv.Delta, o.w.cfg.RejectDelta)
			}
		}
		if total < inv.Value {
			fail("total-below-invoice", "settled set %s declares total %d below the invoice amount %d: %s", g.name, total, inv.Value, strings.Join(desc, " | "))
		}
		if sum < total {
			fail("set-underpaid", "settled set %s sums to %d but declared total %d (invoice #%d amount %d): %s", g.name, sum, total, inv.AddIndex, inv.Value, strings.Join(desc, " | "))
		}
		r.Count("settled_sets")
		if len(g.hs) > 1 {
			r.Count("probe_multi_shard_set_settled")
		}
		if g.hs[0].AMP {
			r.Count("probe_amp_set_settled")
		}
	}

	// ---- E/F. resolutions handed to links --------------------------------
	type vk struct {
		k     invoices.CircuitKey
		v     Verdict
		async bool
	}
	var verdicts []vk
	for i, c := range ev.Subs {
		if c.H != nil && i < len(obs.Rets) {
			verdicts = append(verdicts, vk{c.H.Key, obs.Rets[i].V, false})
		}
	}
	for _, m := range obs.Hodl {
		verdicts = append(verdicts, vk{m.Key, m.V, true})
	}
	for _, x := range verdicts {
		spec := s.specByKey(x.k)
		if spec == nil {
			fail("resolution-for-unknown-htlc", "resolution %s for circuit key %s which nobody sent", x.v, keyStr(x.k))
		}
		t := o.track(x.k)
		l, rec := where[x.k]
		switch x.v.Class {
		case "settle":
			if sha256.Sum256(x.v.Preimage[:]) != [32]byte(spec.Hash) {
				fail("preimage-mismatch", "link told to settle HTLC %s with preimage %x which does not hash to its payment hash %x", keyStr(x.k), x.v.Preimage[:], spec.Hash[:])
			}
			if !rec || l.h.State != invoices.HtlcStateSettled {
				st := "not recorded on any invoice"
				if rec {
					st = "recorded as " + htlcStateStr(l.h.State)
				}
				sig := ""
				if spec.HasAMP && !rec {
					sig = setIDReuseSig(x.k, spec.AmpSetID)
				}
				r.FailSig("settle-unrecorded", sig, "[%s store, event %d %s] link told to settle HTLC %s (%s) but the HTLC is %s", wn, ev.No, ev.Kind, keyStr(x.k), x.v, st)
			}
			t.settleRes = true
			r.Count("settle_resolutions")
		case "fail":
			if x.async || rec {
				t.cancelRes = true
			}
			if !rec {
				o.refused++
			}
		}
	}

	// ---- G. AmtPaid of settled non-AMP invoices -------------------------
	for _, i := range idxs {
		p := cur[i]
		if p.IsAMP || p.State != invoices.ContractSettled {
			continue
		}
		var sum lnwire.MilliSatoshi
		for _, h := range p.Htlcs {
			if h.State == invoices.HtlcStateSettled {
				sum += h.Amt
			}
		}
		if p.AmtPaid != sum {
			fail("amt-paid", "settled invoice #%d records AmtPaid=%d but its settled HTLCs sum to %d: %s", i, p.AmtPaid, sum, p)
		}
	}

	// ---- H. replays get the verdict the HTLC already has ----------------
	single := len(ev.Subs) == 1 && !ev.Windowed
	for i, c := range ev.Subs {
		if c.H == nil || i >= len(obs.Rets) {
			continue
		}
		v := obs.Rets[i].V
		t := o.track(c.H.Key)
		if v.Class == "error" {
			if ev.Fired && injected(v.Err) {
				r.Count("io_error_returned")
			} else {
				r.Count("probe_notify_returned_error")
				r.Logf("    note: NotifyExitHopHtlc returned error: %v", v.Err)
				if os.Getenv("VERIF_C15_DEBUG_ERR") != "" {
					fail("debug-notify-error", "NotifyExitHopHtlc returned error: %v", v.Err)
				}
			}
		}
		var prevH *HtlcProj
		for _, pp := range o.prev {
			for j := range pp.Htlcs {
				if pp.Htlcs[j].Key == c.H.Key {
					prevH = &pp.Htlcs[j]
				}
			}
		}
		switch {
		case prevH != nil && !(ev.Fired && injected(v.Err)):
			want := classOfState(prevH.State)
			ok := v.Class == want
			if !ok && !single {
				// another call of the same burst may have resolved it first
				if l, rec := where[c.H.Key]; rec && v.Class == classOfState(l.h.State) {
					ok = true
				}
			}
			if !ok {
				// Structural signature of a known lnd defect: for
				// spontaneous payments (keysend / AMP with
				// AcceptKeySend / AcceptAMP) NotifyExitHopHtlc runs
				// the just-in-time invoice pre-check (expiry against
				// the CURRENT height) before it looks the HTLC up, so
				// a replay at a later height is refused although the
				// HTLC is recorded as settled/accepted.
				sig := ""
				jitFail := v.Class == "fail" &&
					(v.Outcome == invoices.ResultKeySendError.String() || v.Outcome == invoices.ResultAmpError.String())
				switch {
				case jitFail && ev.Fault != "" && ev.Fired:
					// same root cause, other trigger: the just-in-time
					// AddInvoice hit the injected write error and the
					// registry turned that into a FAIL verdict.
					sig = "jit-invoice-insert-io-error-answered-as-failure"
				case jitFail && c.Height > t.acceptHeight:
					sig = "jit-invoice-precheck-refuses-replay-at-later-height"
				}
				r.FailSig("replay-verdict", sig, "[%s store, event %d %s] replayed HTLC %s is recorded as %s, so a replay must be answered with %q, got %s", wn, ev.No, ev.Kind, keyStr(c.H.Key), htlcStateStr(prevH.State), want, v)
			}
			r.Count("replays_of_recorded_htlc")
		case prevH == nil && single && t.lastEvent == ev.No-1 && o.lastChange < ev.No-1 &&
			t.lastHeight == c.Height && t.lastCancel == c.CancelSet && t.lastClass != "error" && v.Class != "error" && ev.Fault == "":
			// Same HTLC, same height, nothing happened in between, and it
			// was not recorded the first time: same answer.
			if v.Class != t.lastClass || (v.Class == "settle" && [32]byte(v.Preimage) != t.lastPreimage) {
				fail("replay-verdict", "HTLC %s was answered %q, replayed immediately (nothing changed in between) it is answered %s", keyStr(c.H.Key), t.lastClass, v)
			}
			r.Count("replays_immediate_of_refused_htlc")
		}
		t.lastClass, t.lastPreimage, t.lastEvent, t.lastHeight, t.lastCancel = v.Class, v.Preimage, ev.No, c.Height, c.CancelSet
	}

	// ---- no HTLC both settled and canceled ------------------------------
	for _, k := range keys {
		l := where[k]
		t := o.track(k)
		settled := t.settleRes || l.h.State == invoices.HtlcStateSettled
		canceled := t.cancelRes || l.h.State == invoices.HtlcStateCanceled
		if settled && canceled {
			fail("settled-and-canceled", "HTLC %s: store says %s, settle resolution seen=%v, cancel resolution seen=%v", keyStr(k), htlcStateStr(l.h.State), t.settleRes, t.cancelRes)
		}
	}

	// ---- I. a call that failed with an injected write error changes nothing
	if ev.Fault == "failwrite" && ev.Fired && len(ev.Subs) == 1 {
		failedCall := false
		if ev.Subs[0].H != nil {
			failedCall = obs.Rets[0].V.Class == "error"
		} else {
			failedCall = obs.Rets[0].Err != nil
		}
		if failedCall {
			for _, m := range obs.Hodl {
				if m.V.Class == "settle" {
					fail("settle-before-persist", "the store write failed (injected), yet link was told to settle HTLC %s", keyStr(m.Key))
				}
			}
			for _, i := range prevIdx {
				pp, cp := o.prev[i], cur[i]
				if pp.String() != cp.String() {
					fail("failed-write-changed-state", "the call failed with an injected write error but invoice #%d changed: %s -> %s", i, pp, cp)
				}
			}
		}
	}

	// ---- bookkeeping ------------------------------------------------------
	for _, k := range keys {
		l := where[k]
		t := o.track(k)
		if l.h.State != t.state || !o.wasSeen(k) {
			switch l.h.State {
			case invoices.HtlcStateSettled:
				o.settledHtlcs++
			case invoices.HtlcStateCanceled:
				o.canceledHtlcs++
			}
		}
		t.state = l.h.State
		o.seen(k)
	}
	if len(cur) != len(o.prev) {
		changed = true
	}
	if changed || ev.Kind == "time" || ev.Kind == "block" || ev.Kind == "restart" || ev.Fault != "" || ev.Windowed {
		o.lastChange = ev.No
	}
	o.prev = cur
}

// seenKeys tracks which keys have been through the bookkeeping at least once
// (t.state is zero == accepted for a fresh track, so "seen" needs its own bit).
func (o *oracleState) wasSeen(k invoices.CircuitKey) bool {
	t := o.htlc[k]
	return t != nil && t.lastSeen
}

func (o *oracleState) seen(k invoices.CircuitKey) { o.track(k).lastSeen = true }

// wasSettled: the previous bookkeeping pass already saw k settled.
func (o *oracleState) wasSettled(k invoices.CircuitKey) bool {
	t := o.htlc[k]
	return t != nil && t.lastSeen && t.state == invoices.HtlcStateSettled
}
