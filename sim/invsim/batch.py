#!/usr/bin/env python3
"""Run one sharded C15 batch exactly like ./check does per worker (16 worker
processes, VERIF_SHARD=i/16) and print the merged counters. Stand-alone helper
for the engine author; ./check is the registered entry point.

usage: batch.py SEED [RUNS] [WALL] [--bin PATH] [--known PATH] [--out DIR] [--gomaxprocs N]
exit: 0 no unknown violation, 1 violation, 2 harness trouble
"""
import json, os, subprocess, sys, time

def main():
    a = sys.argv[1:]
    opts = {"--bin": "/verif/build/run_invsim", "--known": "/verif/sim/invsim/known_findings.json",
            "--out": "/dev/shm/c15-batch", "--gomaxprocs": "", "--tier": "quick", "--workers": "16"}
    pos = []
    i = 0
    while i < len(a):
        if a[i] in opts:
            opts[a[i]] = a[i + 1]; i += 2
        else:
            pos.append(a[i]); i += 1
    seed = pos[0]
    runs = pos[1] if len(pos) > 1 else "3200"
    wall = pos[2] if len(pos) > 2 else "75"
    n = int(opts["--workers"])
    out = os.path.join(opts["--out"], "seed-%s" % seed)
    os.makedirs(out, exist_ok=True)
    procs = []
    t0 = time.time()
    for sh in range(n):
        env = dict(os.environ, VERIF_PROP="C15", VERIF_TIER=opts["--tier"], VERIF_SEED=seed, VERIF_RUNS=runs,
                   VERIF_WALL=wall, VERIF_SHARD="%d/%d" % (sh, n), VERIF_OUT=os.path.join(out, "w%d.json" % sh),
                   VERIF_REPLAY_DIR=os.path.join(out, "replays"), VERIF_KNOWN=opts["--known"],
                   GODEBUG="randseednop=0")
        if opts["--gomaxprocs"]:
            env["GOMAXPROCS"] = opts["--gomaxprocs"]
        procs.append(subprocess.Popen([opts["--bin"], "-test.run=^TestRun$", "-test.timeout=0"], env=env,
                                      stdout=subprocess.PIPE, stderr=subprocess.STDOUT, text=True))
    rc = 0
    known = 0
    lines = []
    for p in procs:
        o, _ = p.communicate()
        for l in o.splitlines():
            if l.startswith("KNOWN-FINDING"):
                known += 1
            elif l.strip() and not l.startswith("PASS") and not l.startswith("ok"):
                lines.append(l)
        if p.returncode == 2:
            rc = 2
        elif p.returncode == 1 and rc == 0:
            rc = 1
        elif p.returncode not in (0, 1, 2):
            rc = 2
            lines.append("worker exited with %s" % p.returncode)
    wall_s = time.time() - t0
    tot = {"runs": 0, "steps": 0, "nontrivial": 0}
    stats, arms, hashes, states = {}, {}, set(), set()
    viol = []
    for sh in range(n):
        f = os.path.join(out, "w%d.json" % sh)
        if not os.path.exists(f):
            continue
        d = json.load(open(f))
        for k in tot:
            tot[k] += d[k]
        for k, v in d["stats"].items():
            stats[k] = stats.get(k, 0) + v
        for k, v in d["arms"].items():
            arms[k] = arms.get(k, 0) + v
        hashes.update(d["hashes"] or [])
        states.update(d["states"] or [])
        viol += d["violations"] or []
    print("seed=%s runs=%d steps=%d nontrivial=%d distinct_nontrivial=%d states=%d wall=%.1fs (%.0f runs/s) known_findings=%d exit=%d"
          % (seed, tot["runs"], tot["steps"], tot["nontrivial"], len(hashes), len(states), wall_s, tot["runs"] / wall_s, known, rc))
    print("arms:", json.dumps(arms, sort_keys=True))
    if "--stats" in a or os.environ.get("BATCH_STATS"):
        for k in sorted(stats):
            print("  %-60s %d" % (k, stats[k]))
    for l in lines[:40]:
        print(l)
    json.dump({"hashes": sorted(hashes), "stats": stats, "arms": arms, "violations": viol, **tot},
              open(os.path.join(out, "merged.json"), "w"))
    sys.exit(rc)

main()
