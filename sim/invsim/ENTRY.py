# Table / manifest entries for property C15 (engine invsim).
import json as _json, os as _os

INVSIM_STUB = {
    "invoices.InvoiceRegistry (NotifyExitHopHtlc, SettleHodlInvoice, CancelInvoice, AddInvoice, LookupInvoice, hodl subscriptions, invoiceEventLoop, MPP set timeout)": "real, started and stopped (restart) inside a testing/synctest bubble",
    "invoices.InvoiceExpiryWatcher (time and height based expiry)": "real, fed by the simulator's block epochs and clock",
    "invoices/update.go, update_invoice.go (updateMpp/updateLegacy/AMP reconstruction, appliers)": "real",
    "channeldb KV invoice store": "real on a SimKV bbolt file (failed write / crash before / crash after at transaction granularity)",
    "invoices.SQLStore on sqlite (sqldb, sqlc queries, lnd's migrations)": "real; injected I/O errors at the transaction executor",
    "clock": "simulator clock (clock.Clock): fires ONE pending timer at a time in deadline order, quiescence after each",
    "chain notifier (block epochs)": "simulator",
    "links": "1-3 simulated links calling NotifyExitHopHtlc (sequentially, or parked and released as a burst)",
    "htlcswitch, interceptor RPC, invoice RPC server, postgres": "not simulated (an HTLC-modifier stub is used for the 'external validation' arm; the stub is also a scheduling point: a call can be parked inside it while the clock moves on and the registry's MPP hold timers run, then released)",
}
INVSIM_ASSUME = [
    "bbolt and sqlite transaction atomicity/durability are trusted; crash granularity is one database transaction",
    "the oracle is the safety predicate of the property evaluated on what the harness itself sent (amount, declared total, payment address, expiry, AMP shares) and on LookupInvoice projections; it never re-implements the registry's accept/reject logic, so 'refused' is never a violation",
    "a keysend HTLC whose keysend record holds the invoice's own preimage settles an address-requiring invoice: counted (probe_keysend_preimage_known_bypasses_address), judged only with VERIF_C15_STRICT_KEYSEND=1 (the sender proves knowledge of the preimage, the property's purpose is met)",
    "runs that deliberately walk into the recorded known findings are confined to 1/16 of the runs",
    "a clean batch is evidence, not proof: histories are sampled from a seeded PRNG",
]

CHECK = {
    "C15": dict(
        bin="run_invsim", build="gotest", pkg="run_invsim", level="exploration",
        quick=dict(runs=6400, wall=90), thorough=dict(runs=200000, wall=1500),
        rule="one evaluation = one seeded history of 25-60 events over <= 5 invoices (regular, hold, zero-amount, AMP, keysend accepted or not, "
             "spontaneous AMP, blinded-path) and <= 14 HTLCs: deliver an HTLC (amount around the invoice value or an arbitrary split, MPP total "
             "equal/different/absent, right/wrong/absent payment address, expiry at height+delta+{-1,0,+1}, AMP shares good or corrupted), replay a "
             "seen circuit key, SettleHodlInvoice, CancelInvoice, advance the clock across hold / set-timeout / invoice expiry, connect blocks, restart the "
             "registry on the same store, bursts of 2-3 links notifying concurrently, deliveries during which time passes (and MPP hold timers fire) while the call sits in the HTLC interceptor; arms: KV store, SQL store, KV and SQL in lock step (answers and "
             "LookupInvoice projections must be identical), KV/SQL with injected write failures and crashes. After every event the safety predicate is "
             "evaluated on every settle resolution and on every invoice projection. non-trivial = at least one HTLC set was settled and (fault arms) a "
             "fault fired with a later event completing; distinct = distinct event-trace hash",
        states_measure="distinct (invoice states, accepted/settled/canceled HTLC counts per invoice, height offset, pending timers) tuples",
        expected_probes=["probe_multi_shard_set_settled", "probe_amp_set_settled", "probe_hold_invoice_accepted", "probe_hold_invoice_settled",
                         "probe_hodl_settle_resolution", "probe_hodl_cancel_resolution", "probe_burst_parked_calls", "fault_mpp_set_timeout",
                         "fault_invoice_expired_by_time", "fault_hold_invoice_expired_by_height", "fault_restart", "fault_replay",
                         "fault_io_failwrite", "fault_io_crashbefore", "fault_io_crashafter",
                         "fault_time_passes_inside_interceptor_call", "probe_window_hold_timers_fired_inside_call"],
        real_vs_stub=INVSIM_STUB, assumptions=INVSIM_ASSUME,
        simulated_time="simulated seconds and blocks are reported in counters sim_seconds / sim_blocks (fake clock, one timer at a time)",
        determinism="actor engine in a synctest bubble, one stimulus at a time to quiescence, one timer at a time; seam-deterministic (bursts release "
                    "2-3 calls whose internal order the Go runtime picks); oracles are schedule independent",
    ),
}

ENGINE = {"name": "invsim", "path": "/verif/sim/invsim", "serves_properties": ["C15"],
          "kind_free_text": "real InvoiceRegistry + expiry watcher over the real KV (SimKV/bbolt) and SQL (sqlite) invoice stores inside a synctest bubble; "
                            "simulated links, clock (one timer at a time), blocks, restarts, store faults; safety-predicate oracle on every settle resolution "
                            "and every LookupInvoice projection; KV-vs-SQL lock-step differential"}

TEXT = {
    "C15": dict(engine="invsim", design_ref="DESIGN.md 5 C15",
                technique="deterministic simulation: seeded HTLC/cancel/settle/timeout/block/restart histories with store faults against the real registry on KV and SQL stores; property safety predicate as oracle; KV-vs-SQL differential",
                level_text="Seeded exploration of event histories against the real invoice registry. Whenever a settle is ordered (return value of NotifyExitHopHtlc or a hodl "
                           "resolution) and whenever an HTLC is recorded as settled: the preimage hashes to that HTLC's payment hash; the settled set carries the invoice's payment "
                           "address when one is required; all members declare one common total, not below the invoice amount; the set sums to at least that total; each member "
                           "was accepted with expiry >= accept height + max(final CLTV delta, reject delta). After every event, from LookupInvoice: invoices never vanish, terms "
                           "never change, invoice and HTLC states only move forward, recorded HTLC fields equal what was sent, no HTLC appears that nobody sent or sits on two "
                           "invoices, a settled non-AMP invoice records AmtPaid = sum of settled HTLCs, no HTLC is both settled and canceled, a replayed HTLC is answered "
                           "with the verdict class recorded for it, a failed (injected) store write orders no settle and changes no state. KV and SQL stores driven in lock step "
                           "must give identical answers and projections. In half of the runs a delivery may sit in the HTLC interceptor while the clock moves on and the registry's MPP hold "
                           "timers fire (the interceptor call is made under the registry lock, the timers do not take it): the same predicate must hold for what is then settled. "
                           "Exploration is the right level: the history space is unbounded, the oracle is history independent.",
                level_note="Trusted: bbolt/sqlite atomicity; testing/synctest quiescence; the harness's own record of what it sent. Not covered: the HTLC interceptor RPC path beyond a stub, "
                           "postgres, invoice RPC server. Bursts are seam-deterministic only. Known findings (open): AMP set-id reuse erases resolved HTLC records in the KV store; "
                           "replays of spontaneous (keysend/AMP) HTLCs are answered differently once the height moved or the just-in-time insert fails (see known_findings.json)."),
}

KNOWN_FINDINGS = _json.load(open(_os.path.join(_os.path.dirname(_os.path.abspath(__file__)) if "__file__" in globals() else "/verif/sim/invsim", "known_findings.json")))
