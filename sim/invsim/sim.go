package invsim

import (
	"fmt"
	"os"
	"strings"
	"time"

	"github.com/lightningnetwork/lnd/invoices"
	"github.com/lightningnetwork/lnd/lntypes"
	"github.com/lightningnetwork/lnd/lnwire"

	"verif/simcore"
)

var simStart = time.Date(2024, time.January, 1, 0, 0, 0, 0, time.UTC)

const (
	startHeight = 1000
	maxInvoices = 5
)

// Knobs are the per-run event-mix weights (swarm).
type Knobs struct {
	AddW, HtlcW, ReplayW, TimeW, BlockW, SettleW, CancelW, RestartW, BurstW, IoW int
	MaxSteps, MaxHtlcs                                                           int
	ContinueNum                                                                  int // of 8: continue an open attempt
}

// Sim is one run: the shared universe plus one or two worlds.
type Sim struct {
	r      *simcore.Run
	cfg    RegCfg
	k      Knobs
	worlds []*World
	pair   bool
	io     bool

	strictKeysend bool
	provoke       bool // this run may walk into known lnd findings
	windowArm     bool // deliveries may have time pass inside the interceptor call
	ioEvent       bool // the event being generated carries an injected store fault
	burstAmp      map[int]bool
	acctPrev      map[uint64]invoices.ContractState

	now    time.Time
	height uint32

	invs     []*InvSpec
	htlcs    []*HtlcSpec
	byKey    map[invoices.CircuitKey]*HtlcSpec
	attempts []*Attempt
	refs     []Ref
	refSeen  map[string]bool
	nextID   []uint64
	ksPre    []lntypes.Preimage // spontaneous keysend preimages used so far
	ksAmt    []lnwire.MilliSatoshi
	jitAmp   []lntypes.Hash // first child hash of every spontaneous AMP attempt

	events    int
	lastSnaps [][]*InvProj // per world, per ref
	faults    int
	postFault int
}

func (s *Sim) specByKey(k invoices.CircuitKey) *HtlcSpec { return s.byKey[k] }

func (s *Sim) addRef(f Ref) {
	key := fmt.Sprintf("%v/%x/%x", f.ByAddr, f.Hash, f.Addr)
	if s.refSeen[key] {
		return
	}
	s.refSeen[key] = true
	s.refs = append(s.refs, f)
}

// Run is the simcore entry point for property C15.
func Run(r *simcore.Run) {
	t := r.Tape
	// ---- swarm configuration (before the first step) ---------------------
	arm := []string{"kv", "kv", "kv", "sql", "sql", "pair", "pair", "kv/io", "kv/io", "sql/io"}[t.CfgDraw(10)]
	cfg := RegCfg{
		RejectDelta:     []int32{3, 6, 19}[t.CfgDraw(3)],
		HoldExpiryDelta: []uint32{0, 2, 5}[t.CfgDraw(3)],
		HoldDuration:    []time.Duration{10500 * time.Millisecond, 30500 * time.Millisecond, 120500 * time.Millisecond}[t.CfgDraw(3)],
		AcceptKeySend:   t.CfgDraw(3) > 0,
		KeysendHold:     []time.Duration{0, 0, 60 * time.Second}[t.CfgDraw(3)],
		AcceptAMP:       t.CfgDraw(3) > 0,
		Links:           1 + t.CfgDraw(3),
	}
	k := Knobs{
		AddW:        []int{1, 2, 4}[t.CfgDraw(3)],
		HtlcW:       []int{6, 10, 16}[t.CfgDraw(3)],
		ReplayW:     []int{1, 3, 6}[t.CfgDraw(3)],
		TimeW:       []int{1, 2, 4}[t.CfgDraw(3)],
		BlockW:      []int{0, 1, 3}[t.CfgDraw(3)],
		SettleW:     []int{1, 2, 4}[t.CfgDraw(3)],
		CancelW:     []int{0, 1, 2}[t.CfgDraw(3)],
		RestartW:    []int{0, 1, 2}[t.CfgDraw(3)],
		BurstW:      []int{0, 1, 3}[t.CfgDraw(3)],
		MaxSteps:    []int{25, 40, 60}[t.CfgDraw(3)],
		MaxHtlcs:    []int{6, 10, 14}[t.CfgDraw(3)],
		ContinueNum: []int{3, 5, 7}[t.CfgDraw(3)],
	}
	provoke := t.CfgDraw(16) == 15 && os.Getenv("VERIF_C15_NOPROVOKE") == ""
	r.Arm = arm
	s := &Sim{
		r: r, cfg: cfg, k: k, now: simStart, height: startHeight,
		byKey: map[invoices.CircuitKey]*HtlcSpec{}, refSeen: map[string]bool{},
		acctPrev:      map[uint64]invoices.ContractState{},
		nextID:        make([]uint64, cfg.Links),
		strictKeysend: os.Getenv("VERIF_C15_STRICT_KEYSEND") != "",
		provoke:       provoke,
	}
	switch arm {
	case "kv/io", "sql/io":
		s.io = true
		s.k.IoW = []int{2, 4, 6}[t.CfgDraw(3)]
	case "pair":
		s.pair = true
	}
	// appended last so that older tapes keep their meaning
	s.windowArm = t.CfgDraw(2) == 1
	if r.Tier == "thorough" {
		s.k.MaxSteps += 20
	}
	if os.Getenv("VERIF_C15_TIMING") != "" {
		// debugging aid only: wall time per arm into (unhashed) counters
		t0 := time.Now()
		defer func() { r.Add("wall_us_"+arm, int64(time.Since(t0)/time.Microsecond)) }()
	}
	inBubble(r, s.main)
}

func (s *Sim) main() {
	r := s.r
	switch {
	case s.pair:
		s.worlds = []*World{
			newWorld(r, "kv", false, s.cfg, s.now, s.height),
			newWorld(r, "sql", true, s.cfg, s.now, s.height),
		}
	case strings.HasPrefix(r.Arm, "sql"):
		s.worlds = []*World{newWorld(r, "sql", true, s.cfg, s.now, s.height)}
	default:
		s.worlds = []*World{newWorld(r, "kv", false, s.cfg, s.now, s.height)}
	}
	s.lastSnaps = make([][]*InvProj, len(s.worlds))
	defer func() {
		for _, w := range s.worlds {
			w.Shutdown()
		}
	}()
	r.Logf("config: arm=%s %s provoke-known=%v knobs=%+v", r.Arm, s.cfg, s.provoke, s.k)

	for s.events < s.k.MaxSteps && r.Step() {
		s.step()
	}
	s.windDown()

	o := s.worlds[0].o
	if s.io {
		r.Nontrivial = s.faults > 0 && s.postFault > 0
	} else {
		r.Nontrivial = o.settledHtlcs > 0 && (o.refused > 0 || o.canceledHtlcs > 0)
	}
}

type choice struct {
	kind string
	w    int
}

func (s *Sim) step() {
	r := s.r
	var cs []choice
	jit := s.cfg.AcceptKeySend || s.cfg.AcceptAMP
	if len(s.invs) == 0 && !jit {
		cs = append(cs, choice{"addinv", 1})
	} else {
		if len(s.invs) < maxInvoices {
			w := s.k.AddW
			if len(s.invs) == 0 {
				w = 12
			}
			cs = append(cs, choice{"addinv", w})
		}
		if len(s.htlcs) < s.k.MaxHtlcs {
			cs = append(cs, choice{"htlc", s.k.HtlcW})
		}
		if len(s.htlcs) > 0 {
			cs = append(cs, choice{"replay", s.k.ReplayW})
			if s.cfg.Links >= 2 && s.k.BurstW > 0 {
				cs = append(cs, choice{"burst", s.k.BurstW})
			}
		}
		cs = append(cs, choice{"time", s.k.TimeW})
		if s.k.BlockW > 0 {
			cs = append(cs, choice{"block", s.k.BlockW})
		}
		if len(s.invs)+len(s.ksPre) > 0 {
			cs = append(cs, choice{"settle", s.k.SettleW})
			if s.k.CancelW > 0 {
				cs = append(cs, choice{"cancel", s.k.CancelW})
			}
		}
		if s.k.RestartW > 0 {
			cs = append(cs, choice{"restart", s.k.RestartW})
		}
		if s.io && s.faults < 4 {
			cs = append(cs, choice{"io", s.k.IoW})
		}
	}
	total := 0
	for _, c := range cs {
		total += c.w
	}
	pick := r.Draw(total)
	kind := cs[len(cs)-1].kind
	for _, c := range cs {
		if pick < c.w {
			kind = c.kind
			break
		}
		pick -= c.w
	}
	s.events++
	ev := &Event{No: s.events, Kind: kind}
	switch kind {
	case "addinv":
		ev.Subs = []SubCmd{s.genAddInvoice()}
	case "htlc":
		ev.Subs = []SubCmd{s.genHtlcCmd(-1)}
		s.maybeWindow(ev)
	case "replay":
		ev.Subs = []SubCmd{s.genReplay(nil)}
		s.maybeWindow(ev)
	case "settle":
		ev.Subs = []SubCmd{s.genSettle()}
	case "cancel":
		ev.Subs = []SubCmd{s.genCancel()}
	case "burst":
		ev.Subs = s.genBurst()
	case "io":
		var base []string
		if len(s.htlcs) < s.k.MaxHtlcs {
			base = append(base, "htlc", "htlc")
		}
		if len(s.htlcs) > 0 {
			base = append(base, "replay")
		}
		if len(s.invs)+len(s.ksPre) > 0 {
			base = append(base, "settle", "cancel")
		}
		// No injection into "time" events: which background write would be
		// hit depends on the order in which the expiry watcher walks
		// invoices that expire at the same instant (a Go map after a
		// restart), and the tape could not reproduce that.
		if len(base) == 0 {
			base = append(base, "htlc")
		}
		b := base[r.Draw(len(base))]
		s.ioEvent = true
		defer func() { s.ioEvent = false }()
		faults := []string{"failwrite", "crashafter", "crashbefore"}
		if s.worlds[0].SQL {
			faults = faults[:1]
		}
		ev.Fault = faults[r.Draw(len(faults))]
		ev.Kind = b + "!" + ev.Fault
		switch b {
		case "htlc":
			ev.Subs = []SubCmd{s.genHtlcCmd(-1)}
		case "replay":
			ev.Subs = []SubCmd{s.genReplay(nil)}
		case "settle":
			ev.Subs = []SubCmd{s.genSettle()}
		case "cancel":
			ev.Subs = []SubCmd{s.genCancel()}
		}
	}
	r.Kind(ev.Kind)

	var (
		dur   time.Duration
		dh    uint32
		which int
	)
	base := strings.SplitN(ev.Kind, "!", 2)[0]
	switch base {
	case "time":
		half := (s.cfg.HoldDuration - 500*time.Millisecond) / 2
		durs := []time.Duration{time.Second, 3 * time.Second, half, s.cfg.HoldDuration + time.Second,
			time.Second, half, s.cfg.HoldDuration + time.Second, 41 * time.Second, 95 * time.Second, 301 * time.Second, 3601 * time.Second}
		dur = durs[r.Draw(len(durs))]
	case "block":
		dhs := []uint32{1, 1, 2, 5, 20, uint32(s.cfg.RejectDelta)}
		dh = dhs[r.Draw(len(dhs))]
	}
	if ev.Fault != "" {
		which = 1 + r.Draw(2)
	}

	// ---- log what is about to happen -----------------------------------
	switch base {
	case "time":
		r.Logf("#%d %s +%v (now %s)", ev.No, ev.Kind, dur, s.now.Add(dur).Format("15:04:05.000"))
	case "block":
		r.Logf("#%d block +%d -> height %d", ev.No, dh, s.height+dh)
	case "restart":
		r.Logf("#%d restart registry on the same store", ev.No)
	default:
		for _, c := range ev.Subs {
			r.Logf("#%d %s: %s", ev.No, ev.Kind, describe(&c))
		}
	}
	if ev.Fault != "" {
		r.Logf("    inject %s on write #%d of this event", ev.Fault, which)
	}

	// ---- apply to every world, judge each -----------------------------
	obss := make([]*Obs, len(s.worlds))
	for wi, w := range s.worlds {
		obs := &Obs{}
		if ev.Fault != "" {
			s.arm(w, ev.Fault, which)
		}
		switch base {
		case "time":
			n := w.Advance(dur)
			r.Add("timers_fired", int64(n))
		case "block":
			for i := uint32(1); i <= dh; i++ {
				w.Block(s.height + i)
			}
		case "restart":
			w.Restart(s.height)
		case "burst":
			obs.Rets = s.runBurst(w, ev.Subs)
		default:
			for i := range ev.Subs {
				obs.Rets = append(obs.Rets, s.exec(w, &ev.Subs[i]))
			}
		}
		if ev.Fault != "" {
			ev.Fired = s.disarm(w, ev.Fault)
		}
		obs.Hodl = w.DrainHodl()
		s.snapshot(w, wi, obs)
		obss[wi] = obs
		s.logObs(w, ev, obs)
		w.o.Check(s, ev, obs)
	}
	if base == "time" {
		s.now = s.now.Add(dur)
		r.Add("sim_seconds", int64(dur/time.Second))
	}
	if ev.Windowed {
		s.now = s.now.Add(ev.Subs[0].Window)
		r.Add("sim_seconds", int64(ev.Subs[0].Window/time.Second))
	}
	if base == "block" {
		s.height += dh
		r.Add("sim_blocks", int64(dh))
	}
	if base == "restart" {
		r.Count("fault_restart")
	}
	if s.pair {
		s.compare(ev, obss[0], obss[1])
	}
	s.account(ev, obss[0])
}

// maybeWindow turns a single delivery into one during which time passes while
// the call sits in the HTLC interceptor.
func (s *Sim) maybeWindow(ev *Event) {
	if !s.windowArm || ev.Subs[0].H == nil || s.r.Draw(3) != 0 {
		return
	}
	half := (s.cfg.HoldDuration - 500*time.Millisecond) / 2
	durs := []time.Duration{s.cfg.HoldDuration + time.Second, half, 3 * time.Second, s.cfg.HoldDuration + time.Second}
	ev.Subs[0].Window = durs[s.r.Draw(len(durs))]
	ev.Windowed = true
}

func describe(c *SubCmd) string {
	switch c.Kind {
	case "htlc":
		return fmt.Sprintf("deliver %s at height %d%s%s", c.H, c.Height, csNote(c.CancelSet), winNote(c.Window))
	case "replay":
		return fmt.Sprintf("REPLAY %s at height %d%s%s", c.H, c.Height, csNote(c.CancelSet), winNote(c.Window))
	case "addinv":
		return "AddInvoice " + c.Inv.String()
	case "settle":
		return "SettleHodlInvoice(" + c.Target + ")"
	case "cancel":
		return "CancelInvoice(" + c.Target + ")"
	case "noop":
		return "nothing to replay"
	}
	return c.Kind
}

func winNote(d time.Duration) string {
	if d > 0 {
		return fmt.Sprintf(" [+%v pass while the call sits in the interceptor]", d)
	}
	return ""
}

func csNote(b bool) string {
	if b {
		return " [interceptor cancels the set]"
	}
	return ""
}

// exec runs one sub-command in one world.
func (s *Sim) exec(w *World, c *SubCmd) SubResult {
	switch c.Kind {
	case "htlc", "replay":
		if c.Window > 0 {
			v, n := w.NotifyWindow(c.H, c.Height, c.CancelSet, c.Window)
			s.r.Count("fault_time_passes_inside_interceptor_call")
			switch {
			case n < 0:
				s.r.Count("probe_window_call_refused_before_interceptor")
			case n > 0:
				s.r.Add("probe_window_hold_timers_fired_inside_call", int64(n))
			}
			return SubResult{V: v}
		}
		return SubResult{V: w.Notify(c.H, c.Height, c.CancelSet)}
	case "noop":
		return SubResult{}
	case "addinv":
		return SubResult{Err: w.AddInvoice(c.Inv)}
	case "settle":
		return SubResult{Err: w.SettleHodl(c.Preimage)}
	case "cancel":
		return SubResult{Err: w.Cancel(c.Hash)}
	}
	s.r.Harness("unknown sub command %q", c.Kind)
	return SubResult{}
}

// runBurst parks every call of the burst on its own goroutine behind a gate and
// releases them one at a time in the (tape-chosen) order of subs. The registry
// serialises its critical sections with one mutex, so call granularity is the
// finest schedule that can be forced from outside.
func (s *Sim) runBurst(w *World, subs []SubCmd) []SubResult {
	res := make([]SubResult, len(subs))
	gates := make([]chan struct{}, len(subs))
	done := make([]bool, len(subs))
	for i := range subs {
		i := i
		c := &subs[i]
		gates[i] = make(chan struct{})
		a := w.rpc
		if c.H != nil {
			a = w.links[c.H.Link%len(w.links)]
		}
		var f func()
		switch c.Kind {
		case "htlc", "replay":
			f = w.notifyFn(c.H, c.Height, c.CancelSet, a, &res[i].V)
		case "settle":
			f = func() { res[i].Err = w.reg.SettleHodlInvoice(bg(), c.Preimage) }
		case "cancel":
			f = func() { res[i].Err = w.reg.CancelInvoice(bg(), c.Hash) }
		}
		a.cmds <- func() { <-gates[i]; f(); done[i] = true }
	}
	waitQuiet()
	for i := range subs {
		close(gates[i])
		waitQuiet()
		if !done[i] {
			s.r.Harness("burst call %d did not return at quiescence", i)
		}
	}
	s.r.Count("probe_burst_parked_calls")
	return res
}

func (s *Sim) arm(w *World, fault string, k int) {
	if w.SQL {
		w.sql.hook.Fired = 0
		w.sql.hook.FailWrite(k)
		return
	}
	w.kv.FiredFail, w.kv.FiredCrashAfter, w.kv.FiredCrashBefore = 0, 0, 0
	switch fault {
	case "failwrite":
		w.kv.FailWrite(k)
	case "crashafter":
		w.kv.CrashAfter(k)
	case "crashbefore":
		w.kv.CrashBefore(k)
	}
}

// disarm clears the injection; if the node "crashed" it is restarted. Returns
// whether the fault fired.
func (s *Sim) disarm(w *World, fault string) bool {
	r := s.r
	fired := false
	if w.SQL {
		fired = w.sql.hook.Fired > 0
		w.sql.hook.Disarm()
	} else {
		fired = w.kv.FiredFail+w.kv.FiredCrashAfter+w.kv.FiredCrashBefore > 0
		crashed := w.kv.Fenced()
		w.kv.Disarm()
		if crashed {
			w.DrainHodlDiscard()
			w.Restart(s.height)
		}
	}
	if fired {
		r.Count("fault_io_" + fault)
		s.faults++
		r.Logf("    %s: injected %s fired", w.Name, fault)
	}
	return fired
}

func (s *Sim) snapshot(w *World, wi int, obs *Obs) {
	obs.Snaps = make([]*InvProj, len(s.refs))
	for i, f := range s.refs {
		p, err := w.Lookup(f)
		if err != nil {
			s.r.Harness("%s: LookupInvoice(%s): %v", w.Name, f.Label, err)
		}
		obs.Snaps[i] = p
	}
	s.lastSnaps[wi] = obs.Snaps
}

func (s *Sim) logObs(w *World, ev *Event, obs *Obs) {
	r := s.r
	for i, c := range ev.Subs {
		if i >= len(obs.Rets) {
			break
		}
		if c.H != nil {
			r.Logf("    %s: %s -> %s", w.Name, keyStr(c.H.Key), obs.Rets[i].V)
		} else {
			r.Logf("    %s: %s -> err=%v", w.Name, c.Kind, obs.Rets[i].Err)
		}
	}
	for _, m := range obs.Hodl {
		r.Logf("    %s: hodl[link%d] %s -> %s", w.Name, m.Link, keyStr(m.Key), m.V)
	}
	seen := map[uint64]bool{}
	for i, p := range obs.Snaps {
		if p == nil || seen[p.AddIndex] {
			continue
		}
		seen[p.AddIndex] = true
		if old := w.o.prev[p.AddIndex]; old == nil || old.String() != p.String() {
			r.Logf("    %s: %s = %s", w.Name, s.refs[i].Label, p)
		}
	}
}

// compare: identical event lists must give identical resolutions and identical
// LookupInvoice projections on the KV and the SQL store.
func (s *Sim) compare(ev *Event, a, b *Obs) {
	r := s.r
	cls := func(v Verdict) string {
		if v.Class == "settle" {
			return fmt.Sprintf("settle:%x", v.Preimage[:])
		}
		return v.Class
	}
	for i := range a.Rets {
		if ev.Subs[i].H != nil {
			if cls(a.Rets[i].V) != cls(b.Rets[i].V) {
				r.Fail("kv-sql-diverge", "event %d %s: HTLC %s answered %s on the KV store but %s on the SQL store", ev.No, ev.Kind, keyStr(ev.Subs[i].H.Key), a.Rets[i].V, b.Rets[i].V)
			}
		} else if (a.Rets[i].Err == nil) != (b.Rets[i].Err == nil) {
			r.Fail("kv-sql-diverge", "event %d %s: %s returned %v on the KV store but %v on the SQL store", ev.No, ev.Kind, describe(&ev.Subs[i]), a.Rets[i].Err, b.Rets[i].Err)
		}
	}
	hs := func(o *Obs) string {
		var parts []string
		for _, m := range o.Hodl {
			parts = append(parts, fmt.Sprintf("link%d %s %s", m.Link, keyStr(m.Key), cls(m.V)))
		}
		return strings.Join(parts, "; ")
	}
	if hs(a) != hs(b) {
		r.Fail("kv-sql-diverge", "event %d %s: hodl resolutions differ: KV {%s} vs SQL {%s}", ev.No, ev.Kind, hs(a), hs(b))
	}
	for i := range s.refs {
		if a.Snaps[i].String() != b.Snaps[i].String() {
			r.Fail("kv-sql-diverge", "event %d %s: LookupInvoice(%s) differs:\n KV : %s\n SQL: %s", ev.No, ev.Kind, s.refs[i].Label, a.Snaps[i], b.Snaps[i])
		}
	}
	r.Count("pair_events_compared")
}

// account updates coverage counters and the abstract-state measure.
func (s *Sim) account(ev *Event, obs *Obs) {
	r := s.r
	for i, c := range ev.Subs {
		if c.H == nil || i >= len(obs.Rets) {
			continue
		}
		v := obs.Rets[i].V
		r.Count("verdict_" + v.Class)
		if v.Class == "fail" {
			r.Count("fail_" + strings.ReplaceAll(v.Outcome, " ", "_"))
		}
		if c.Kind == "replay" {
			r.Count("fault_replay")
		}
		if s.faults > 0 && (v.Class == "settle" || v.Class == "accept") {
			s.postFault++
		}
	}
	for _, m := range obs.Hodl {
		switch {
		case m.V.Class == "fail" && strings.Contains(m.V.Outcome, "mpp timeout"):
			r.Count("fault_mpp_set_timeout")
		case m.V.Class == "fail" && strings.Contains(m.V.Outcome, "canceled"):
			r.Count("probe_hodl_cancel_resolution")
		case m.V.Class == "fail" && strings.Contains(m.V.Outcome, "external"):
			r.Count("fault_interceptor_cancel_set")
		case m.V.Class == "settle":
			r.Count("probe_hodl_settle_resolution")
		}
	}
	var parts []string
	seen := map[uint64]bool{}
	for _, p := range obs.Snaps {
		if p == nil || seen[p.AddIndex] {
			continue
		}
		seen[p.AddIndex] = true
		if old := s.acctPrev[p.AddIndex]; old != p.State {
			s.acctPrev[p.AddIndex] = p.State
			switch {
			case p.State == invoices.ContractCanceled && ev.Kind == "time":
				r.Count("fault_invoice_expired_by_time")
			case p.State == invoices.ContractCanceled && ev.Kind == "block":
				r.Count("fault_hold_invoice_expired_by_height")
			case p.State == invoices.ContractCanceled:
				r.Count("probe_invoice_canceled_by_call")
			case p.State == invoices.ContractSettled && p.Hodl:
				r.Count("probe_hold_invoice_settled")
			case p.State == invoices.ContractAccepted:
				r.Count("probe_hold_invoice_accepted")
			}
		}
		var a, st, c int
		for _, h := range p.Htlcs {
			switch h.State {
			case invoices.HtlcStateAccepted:
				a++
			case invoices.HtlcStateSettled:
				st++
			default:
				c++
			}
		}
		parts = append(parts, fmt.Sprintf("%v/%v/%v:%d.%d.%d", p.State, p.Hodl, p.IsAMP, a, st, c))
	}
	r.State(strings.Join(parts, ","))
}

// windDown: every HTLC ever sent is replayed once more; recorded ones must be
// answered according to their recorded state.
func (s *Sim) windDown() {
	r := s.r
	if len(s.htlcs) == 0 {
		return
	}
	r.Logf("wind-down: replay every HTLC once")
	for _, h := range s.htlcs {
		if !s.provoke && (s.staleJIT(h) || s.ampReuse(h)) {
			continue
		}
		s.events++
		ev := &Event{No: s.events, Kind: "final-replay", Subs: []SubCmd{{Kind: "replay", H: h, Height: s.height}}}
		var obss []*Obs
		for wi, w := range s.worlds {
			obs := &Obs{Rets: []SubResult{s.exec(w, &ev.Subs[0])}}
			obs.Hodl = w.DrainHodl()
			s.snapshot(w, wi, obs)
			s.logObs(w, ev, obs)
			w.o.Check(s, ev, obs)
			obss = append(obss, obs)
		}
		if s.pair {
			s.compare(ev, obss[0], obss[1])
		}
	}
}
