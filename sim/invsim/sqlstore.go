package invsim

import (
	"context"
	"database/sql"
	"errors"
	"fmt"
	"os"
	"path/filepath"
	"sync"

	"github.com/lightningnetwork/lnd/clock"
	"github.com/lightningnetwork/lnd/invoices"
	"github.com/lightningnetwork/lnd/sqldb"
)

// ErrSimSQLIO is the injected "cannot begin transaction" error of the SQL arm.
var ErrSimSQLIO = errors.New("invsim: injected SQL I/O error (begin tx failed)")

var (
	tmplOnce  sync.Once
	tmplBytes []byte
	tmplErr   error
)

// sqliteTemplate returns the bytes of a freshly migrated, empty lnd sqlite
// database. Migrations are slow (tens of ms), so they run once per process,
// outside any synctest bubble; every run starts from a copy.
func sqliteTemplate() ([]byte, error) {
	tmplOnce.Do(func() {
		base := "/dev/shm"
		if _, err := os.Stat(base); err != nil {
			base = os.TempDir()
		}
		dir, err := os.MkdirTemp(base, fmt.Sprintf("verif-%d-sqltmpl-", os.Getpid()))
		if err != nil {
			tmplErr = err
			return
		}
		defer os.RemoveAll(dir)
		path := filepath.Join(dir, "tmpl.db")
		st, err := sqldb.NewSqliteStore(&sqldb.SqliteConfig{}, path)
		if err != nil {
			tmplErr = err
			return
		}
		err = st.ApplyAllMigrations(context.Background(), sqldb.GetMigrations())
		if err != nil {
			st.DB.Close()
			tmplErr = err
			return
		}
		// Fold the WAL into the main file so that one file is the whole DB.
		if _, err := st.DB.Exec("PRAGMA wal_checkpoint(TRUNCATE)"); err != nil {
			st.DB.Close()
			tmplErr = err
			return
		}
		if err := st.DB.Close(); err != nil {
			tmplErr = err
			return
		}
		tmplBytes, tmplErr = os.ReadFile(path)
	})
	return tmplBytes, tmplErr
}

// hookedSQL wraps the sqlite BaseDB so that the simulator sees every
// transaction begin (write counter, injected begin failure).
type hookedSQL struct {
	*sqldb.BaseDB

	mu      sync.Mutex
	writes  int
	failAt  int
	Fired   int
	stopped bool
}

func (h *hookedSQL) BeginTx(ctx context.Context, opts sqldb.TxOptions) (*sql.Tx, error) {
	if !opts.ReadOnly() {
		h.mu.Lock()
		h.writes++
		fail := h.failAt != 0 && h.writes == h.failAt
		if fail {
			h.Fired++
		}
		h.mu.Unlock()
		if fail {
			return nil, ErrSimSQLIO
		}
	}
	return h.BaseDB.BeginTx(ctx, opts)
}

// FailWrite makes the k-th write transaction from now fail at begin.
func (h *hookedSQL) FailWrite(k int) {
	h.mu.Lock()
	h.failAt = h.writes + k
	h.mu.Unlock()
}

func (h *hookedSQL) Disarm() {
	h.mu.Lock()
	h.failAt = 0
	h.mu.Unlock()
}

type sqlHandle struct {
	store *sqldb.SqliteStore
	hook  *hookedSQL
	idb   *invoices.SQLStore
}

// openSQL opens the sqlite file at path (already migrated) as an invoice store.
func openSQL(path string, clk clock.Clock) (*sqlHandle, error) {
	st, err := sqldb.NewSqliteStore(&sqldb.SqliteConfig{SkipMigrations: true}, path)
	if err != nil {
		return nil, err
	}
	hook := &hookedSQL{BaseDB: st.BaseDB}
	executor := sqldb.NewTransactionExecutor(
		hook, func(tx *sql.Tx) invoices.SQLInvoiceQueries {
			return st.BaseDB.WithTx(tx)
		},
	)
	return &sqlHandle{store: st, hook: hook, idb: invoices.NewSQLStore(executor, clk)}, nil
}

func (s *sqlHandle) Close() error { return s.store.DB.Close() }
