package invsim

import (
	"crypto/sha256"
	"encoding/binary"
	"fmt"
	"time"

	"github.com/btcsuite/btcd/chainhash/v2"
	"github.com/lightningnetwork/lnd/invoices"
	"github.com/lightningnetwork/lnd/lntypes"
	"github.com/lightningnetwork/lnd/lnwire"
	"github.com/lightningnetwork/lnd/record"
)

// h32 derives a deterministic 32-byte value from a label and indices: all
// hashes, preimages, addresses and AMP shares of the universe are functions of
// small integers, so that shrunk tapes stay meaningful.
func h32(label string, idx ...int) [32]byte {
	h := sha256.New()
	h.Write([]byte("invsim/" + label))
	var b [8]byte
	for _, i := range idx {
		binary.BigEndian.PutUint64(b[:], uint64(i))
		h.Write(b[:])
	}
	var out [32]byte
	copy(out[:], h.Sum(nil))
	return out
}

// InvKind is the kind of a generated invoice.
type InvKind int

const (
	KRegular InvKind = iota // preimage known, payment address required
	KOldAddr                // preimage known, payment address optional (pre-0.11 style)
	KAncient                // preimage known, empty feature vector
	KHold                   // hold invoice, address required
	KAmp                    // AMP invoice
	KBlinded                // blinded-path invoice: address optional, path id = address
	nInvKinds
)

func (k InvKind) String() string {
	return [...]string{"regular", "old-addr-optional", "ancient", "hold", "amp", "blinded"}[k]
}

// InvSpec is what the harness knows about an invoice it created itself.
type InvSpec struct {
	Idx      int
	Kind     InvKind
	Preimage lntypes.Preimage
	Hash     lntypes.Hash
	Addr     [32]byte
	Value    lnwire.MilliSatoshi
	Delta    int32
	Expiry   time.Duration
	Created  time.Time
}

func (s *InvSpec) String() string {
	return fmt.Sprintf("inv%d(%s value=%d delta=%d expiry=%v)", s.Idx, s.Kind, s.Value, s.Delta, s.Expiry)
}

func features(k InvKind) *lnwire.FeatureVector {
	var raw *lnwire.RawFeatureVector
	switch k {
	case KRegular, KHold:
		raw = lnwire.NewRawFeatureVector(
			lnwire.TLVOnionPayloadRequired, lnwire.PaymentAddrRequired, lnwire.MPPOptional,
		)
	case KOldAddr:
		raw = lnwire.NewRawFeatureVector(
			lnwire.TLVOnionPayloadOptional, lnwire.PaymentAddrOptional, lnwire.MPPOptional,
		)
	case KAncient:
		raw = lnwire.NewRawFeatureVector()
	case KAmp:
		raw = lnwire.NewRawFeatureVector(
			lnwire.TLVOnionPayloadRequired, lnwire.PaymentAddrRequired, lnwire.AMPRequired,
		)
	case KBlinded:
		raw = lnwire.NewRawFeatureVector(
			lnwire.TLVOnionPayloadRequired, lnwire.PaymentAddrOptional, lnwire.MPPOptional,
			lnwire.RouteBlindingOptional, lnwire.Bolt11BlindedPathsRequired,
		)
	}
	return lnwire.NewFeatureVector(raw, lnwire.Features)
}

// Build returns the invoices.Invoice to hand to AddInvoice.
func (s *InvSpec) Build() *invoices.Invoice {
	inv := &invoices.Invoice{
		CreationDate:   s.Created,
		Memo:           []byte(fmt.Sprintf("inv%d", s.Idx)),
		PaymentRequest: []byte(fmt.Sprintf("lnsim1invoice%d", s.Idx)),
		Terms: invoices.ContractTerm{
			FinalCltvDelta: s.Delta,
			Expiry:         s.Expiry,
			Value:          s.Value,
			Features:       features(s.Kind),
		},
	}
	if s.Kind != KAncient {
		inv.Terms.PaymentAddr = s.Addr
	}
	switch s.Kind {
	case KHold:
		inv.HodlInvoice = true
	case KAmp:
	default:
		p := s.Preimage
		inv.Terms.PaymentPreimage = &p
	}
	return inv
}

// HtlcSpec is everything the harness sent for one HTLC (one circuit key). A
// replay re-sends exactly this, at the then-current height.
type HtlcSpec struct {
	N      int // index in universe
	Link   int
	Key    invoices.CircuitKey
	Hash   lntypes.Hash
	Amt    lnwire.MilliSatoshi
	Expiry uint32

	// Onion payload.
	HasMPP   bool
	MppTotal lnwire.MilliSatoshi
	MppAddr  [32]byte
	HasAMP   bool
	AmpShare [32]byte
	AmpSetID [32]byte
	AmpIndex uint32
	PathID   *[32]byte
	TotalAmt lnwire.MilliSatoshi // total_amount_msat of a blinded final hop
	Keysend  []byte              // value of the keysend custom record, nil if absent

	// Generator bookkeeping (not sent).
	Attempt int    // payment attempt this shard belongs to, -1 if none
	Note    string // human description for the trace
}

// CarriesAddr returns the payment address / path id the HTLC carried.
func (h *HtlcSpec) CarriesAddr() (*[32]byte, bool) {
	if h.PathID != nil {
		return h.PathID, true
	}
	if h.HasMPP {
		a := h.MppAddr
		return &a, true
	}
	return nil, false
}

// DeclaredTotal is the total the HTLC declared for its set. A legacy HTLC (no
// MPP record, no blinded total) is a payment of its own: the total is its
// amount.
func (h *HtlcSpec) DeclaredTotal() lnwire.MilliSatoshi {
	switch {
	case h.HasMPP:
		return h.MppTotal
	case h.PathID != nil:
		return h.TotalAmt
	default:
		return h.Amt
	}
}

// IsLegacy: neither MPP record nor blinded path id.
func (h *HtlcSpec) IsLegacy() bool { return !h.HasMPP && h.PathID == nil }

// KnowsPreimage reports whether the HTLC carried a keysend record holding a
// preimage of its own payment hash (the payer demonstrably knows the secret).
func (h *HtlcSpec) KnowsPreimage() bool {
	if len(h.Keysend) != 32 {
		return false
	}
	return sha256.Sum256(h.Keysend) == [32]byte(h.Hash)
}

func (h *HtlcSpec) String() string {
	s := fmt.Sprintf("htlc%d[link%d/%d] hash=%x.. amt=%d expiry=%d", h.N, h.Link, h.Key.HtlcID, h.Hash[:3], h.Amt, h.Expiry)
	if h.HasMPP {
		s += fmt.Sprintf(" mpp(total=%d addr=%x..)", h.MppTotal, h.MppAddr[:3])
	}
	if h.HasAMP {
		s += fmt.Sprintf(" amp(set=%x.. idx=%d)", h.AmpSetID[:3], h.AmpIndex)
	}
	if h.PathID != nil {
		s += fmt.Sprintf(" blinded(path=%x.. total=%d)", h.PathID[:3], h.TotalAmt)
	}
	if h.Keysend != nil {
		s += fmt.Sprintf(" keysend(%dB known=%v)", len(h.Keysend), h.KnowsPreimage())
	}
	if h.Note != "" {
		s += " {" + h.Note + "}"
	}
	return s
}

// payload implements invoices.Payload for an HtlcSpec.
type payload struct{ h *HtlcSpec }

var _ invoices.Payload = payload{}

func (p payload) MultiPath() *record.MPP {
	if !p.h.HasMPP {
		return nil
	}
	return record.NewMPP(p.h.MppTotal, p.h.MppAddr)
}

func (p payload) AMPRecord() *record.AMP {
	if !p.h.HasAMP {
		return nil
	}
	return record.NewAMP(p.h.AmpShare, p.h.AmpSetID, p.h.AmpIndex)
}

func (p payload) CustomRecords() record.CustomSet {
	cs := make(record.CustomSet)
	if p.h.Keysend != nil {
		cs[record.KeySendType] = append([]byte(nil), p.h.Keysend...)
	}
	return cs
}

func (p payload) Metadata() []byte { return nil }

func (p payload) PathID() *chainhash.Hash {
	if p.h.PathID == nil {
		return nil
	}
	h := chainhash.Hash(*p.h.PathID)
	return &h
}

func (p payload) TotalAmtMsat() lnwire.MilliSatoshi { return p.h.TotalAmt }

// ampChild is the sender side of AMP, written from the AMP description
// (child_preimage = SHA256(root || share || be32(index)), child_hash =
// SHA256(child_preimage)) independently of lnd's amp package.
func ampChild(root, share [32]byte, index uint32) (pre lntypes.Preimage, hash lntypes.Hash) {
	var ib [4]byte
	binary.BigEndian.PutUint32(ib[:], index)
	h := sha256.New()
	h.Write(root[:])
	h.Write(share[:])
	h.Write(ib[:])
	copy(pre[:], h.Sum(nil))
	hash = sha256.Sum256(pre[:])
	return
}

func xor32(a, b [32]byte) (o [32]byte) {
	for i := range o {
		o[i] = a[i] ^ b[i]
	}
	return
}

// Attempt groups the shards of one payment attempt (MPP, AMP or blinded).
type Attempt struct {
	N      int
	Target int // invoice index, -1 for a spontaneous AMP payment
	Shape  string
	Total  lnwire.MilliSatoshi
	Addr   [32]byte
	Hash   lntypes.Hash // payment hash (non-AMP)
	// AMP
	SetID [32]byte
	Root  [32]byte
	// shards sent so far (universe indices)
	Shards []int
}
