// Command run_gossipsim is the worker for property C20 (engine gossipsim).
// The engine needs a testing/synctest bubble, so the real entry point is
// TestRun in main_test.go and the binary is built with
//
//	go test -c -vet=off -o /verif/build/run_gossipsim ./run_gossipsim
//
// and started with -test.run=^TestRun$ -test.timeout=0.
//
//go:debug randseednop=0
package main

import (
	"fmt"
	"os"
)

func main() {
	fmt.Fprintln(os.Stderr, "HARNESS: run_gossipsim must be built with `go test -c` (synctest bubble)")
	os.Exit(2)
}
