package main

import (
	"fmt"
	"os"
	"testing"

	"verif/gossipsim"
	"verif/simcore"
)

// TestRun is the worker entry point; it never returns (WorkerMain exits).
func TestRun(t *testing.T) {
	prop := os.Getenv("VERIF_PROP")
	if prop == "" {
		prop = "C20"
	}
	if prop != "C20" {
		fmt.Fprintf(os.Stderr, "HARNESS: unknown VERIF_PROP %q\n", prop)
		os.Exit(2)
	}
	thorough := os.Getenv("VERIF_TIER") == "thorough"
	simcore.WorkerMain(simcore.Spec{
		Property: prop,
		Engine:   "gossipsim",
		Run: func(r *simcore.Run) {
			gossipsim.Run(t, r, thorough)
		},
		ShrinkBudget: 250,
	})
}
