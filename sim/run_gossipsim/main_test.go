package main

import (
	"fmt"
	"os"
	"runtime/pprof"
	"testing"
	"time"

	"verif/gossipsim"
	"verif/simcore"
)

// TestRun is the worker entry point; it never returns (WorkerMain exits).
func TestRun(t *testing.T) {
	prop := os.Getenv("VERIF_PROP")
	if prop == "" {
		prop = "C20"
	}
	if prop != "C20" {
		fmt.Fprintf(os.Stderr, "HARNESS: unknown VERIF_PROP %q\n", prop)
		os.Exit(2)
	}
	thorough := os.Getenv("VERIF_TIER") == "thorough"
	if pf := os.Getenv("GOSSIPSIM_CPUPROFILE"); pf != "" {
		// debugging aid: WorkerMain exits the process, so the profile is
		// closed by a timer after 8s
		f, err := os.Create(pf)
		if err == nil && pprof.StartCPUProfile(f) == nil {
			time.AfterFunc(8*time.Second, func() { pprof.StopCPUProfile(); f.Close() })
		}
	}
	simcore.WorkerMain(simcore.Spec{
		Property: prop,
		Engine:   "gossipsim",
		Run: func(r *simcore.Run) {
			gossipsim.Run(t, r, thorough)
		},
		ShrinkBudget: 250,
	})
}
