// Package simcore is the deterministic-simulation kernel shared by all
// engines: one PRNG per run (derived from VERIF_SEED), a recorded tape of every
// choice, replay, shrinking, a crash-injecting kvdb wrapper, and the worker
// loop that writes per-shard results for ./check to merge into evidence.
package simcore

import (
	"fmt"
	"math/rand/v2"
)

// Step is one recorded simulator step: a kind label plus every integer the
// step drew, in order. In replay mode the draws are served back from Vals; an
// exhausted step yields 0. Any sub-list of steps is therefore a valid run.
type Step struct {
	Kind string `json:"k"`
	Vals []int  `json:"v"`
}

// Tape is the only source of nondeterminism an engine may use.
type Tape struct {
	rng    *rand.Rand
	replay bool

	// Header draws (swarm configuration) are step 0 conceptually; they live
	// in Cfg so that shrinking can treat them separately.
	Cfg   []int
	cfgAt int

	Steps []Step
	at    int // index of current step in replay mode
	pos   int // position inside current step's Vals in replay mode

	inCfg bool
	// Exhausted is set in replay mode when NextStep is called past the end
	// of the recorded steps: engines must then stop generating workload and
	// go to wind-down.
	exhausted bool
}

// NewTape creates a recording tape.
func NewTape(seed uint64) *Tape {
	return &Tape{
		rng:   rand.New(rand.NewPCG(seed, seed^0x9e3779b97f4a7c15)),
		inCfg: true,
	}
}

// NewReplayTape creates a tape that replays recorded choices.
func NewReplayTape(cfg []int, steps []Step) *Tape {
	c := make([]int, len(cfg))
	copy(c, cfg)
	s := make([]Step, len(steps))
	for i := range steps {
		s[i] = Step{Kind: steps[i].Kind, Vals: append([]int(nil), steps[i].Vals...)}
	}
	return &Tape{replay: true, Cfg: c, Steps: s, inCfg: true, at: -1}
}

// Replay reports whether the tape is in replay mode.
func (t *Tape) Replay() bool { return t.replay }

// CfgDraw draws a configuration value in [0,n). Must be called before the
// first NextStep.
func (t *Tape) CfgDraw(n int) int {
	if n <= 0 {
		panic("CfgDraw n<=0")
	}
	if !t.inCfg {
		panic("CfgDraw after NextStep")
	}
	if t.replay {
		if t.cfgAt >= len(t.Cfg) {
			t.cfgAt++
			return 0
		}
		v := t.Cfg[t.cfgAt]
		t.cfgAt++
		if v < 0 {
			v = -v
		}
		return v % n
	}
	v := t.rng.IntN(n)
	t.Cfg = append(t.Cfg, v)
	return v
}

// NextStep begins a new step. In record mode it always returns true. In
// replay mode it returns false when the recorded steps are exhausted.
func (t *Tape) NextStep() bool {
	t.inCfg = false
	if t.replay {
		t.at++
		t.pos = 0
		if t.at >= len(t.Steps) {
			t.exhausted = true
			return false
		}
		return true
	}
	t.Steps = append(t.Steps, Step{})
	return true
}

// SetKind labels the current step (record mode); in replay mode it is a no-op
// except for relabelling so traces of shrunk tapes stay truthful.
func (t *Tape) SetKind(kind string) {
	if t.replay {
		if t.at >= 0 && t.at < len(t.Steps) {
			t.Steps[t.at].Kind = kind
		}
		return
	}
	if len(t.Steps) == 0 {
		panic("SetKind before NextStep")
	}
	t.Steps[len(t.Steps)-1].Kind = kind
}

// Draw returns a value in [0,n) for the current step.
func (t *Tape) Draw(n int) int {
	if n <= 0 {
		panic(fmt.Sprintf("Draw n=%d", n))
	}
	if t.inCfg {
		panic("Draw before NextStep")
	}
	if t.replay {
		if t.at < 0 || t.at >= len(t.Steps) {
			return 0
		}
		st := &t.Steps[t.at]
		if t.pos >= len(st.Vals) {
			t.pos++
			return 0
		}
		v := st.Vals[t.pos]
		t.pos++
		if v < 0 {
			v = -v
		}
		return v % n
	}
	v := t.rng.IntN(n)
	st := &t.Steps[len(t.Steps)-1]
	st.Vals = append(st.Vals, v)
	return v
}

// Chance returns true with probability num/den.
func (t *Tape) Chance(num, den int) bool { return t.Draw(den) >= den-num }

// CfgChance is Chance for configuration draws.
func (t *Tape) CfgChance(num, den int) bool { return t.CfgDraw(den) >= den-num }

// Bytes fills b deterministically from the tape (one draw per 3 bytes would
// bloat tapes, so a single 31-bit draw seeds a local PCG).
func (t *Tape) Bytes(b []byte) {
	s := uint64(t.Draw(1 << 30))
	r := rand.New(rand.NewPCG(s, 0xda942042e4dd58b5))
	for i := range b {
		b[i] = byte(r.UintN(256))
	}
}

// SplitMix derives run seeds from the batch seed.
func SplitMix(seed uint64, idx uint64) uint64 {
	z := seed + (idx+1)*0x9e3779b97f4a7c15
	z = (z ^ (z >> 30)) * 0xbf58476d1ce4e5b9
	z = (z ^ (z >> 27)) * 0x94d049bb133111eb
	z = z ^ (z >> 31)
	return z &^ (1 << 63) // keep it a positive int64 for JSON friendliness
}
