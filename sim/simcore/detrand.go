package simcore

import (
	"encoding/binary"
	"math/rand/v2"
	"sync"
)

// DetReader is a deterministic io.Reader used in place of crypto/rand.Reader.
type DetReader struct {
	mu  sync.Mutex
	rng *rand.ChaCha8
}

// NewDetReader returns a reader whose output is a pure function of seed.
func NewDetReader(seed uint64) *DetReader {
	var s [32]byte
	binary.LittleEndian.PutUint64(s[:], seed)
	binary.LittleEndian.PutUint64(s[8:], seed^0xa5a5a5a5a5a5a5a5)
	return &DetReader{rng: rand.NewChaCha8(s)}
}

func (d *DetReader) Read(p []byte) (int, error) {
	d.mu.Lock()
	defer d.mu.Unlock()
	return d.rng.Read(p)
}
