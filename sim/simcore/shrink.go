package simcore

import (
	"os"
	"strconv"
	"time"
)

// Shrink minimises (cfg, steps) while the same violation code persists:
// delete step chunks (halving), delete single steps, zero step arguments,
// lower configuration draws. Deterministic; bounded by spec.ShrinkBudget
// executions and - for engines whose failing executions are slow, e.g. because
// each one waits out a real-time grace period for an event that never comes -
// by a wall-clock limit per violation (VERIF_SHRINK_WALL seconds, default 240).
// The limit only decides how far minimisation gets; whatever it has reached
// by then is a schedule that reproduces the violation.
func Shrink(spec Spec, cfg []int, steps []Step, seed uint64, tier string,
	v Violation, trace []string) ([]int, []Step, Violation, []string, int) {

	execs := 0
	budget := spec.ShrinkBudget
	wall := 240 * time.Second
	if n, err := strconv.Atoi(os.Getenv("VERIF_SHRINK_WALL")); err == nil && n > 0 {
		wall = time.Duration(n) * time.Second
	}
	deadline := time.Now().Add(wall)
	try := func(c []int, s []Step) (bool, Violation, []string) {
		if execs < budget && time.Now().After(deadline) {
			budget = execs
		}
		if execs >= budget {
			return false, Violation{}, nil
		}
		execs++
		out := Execute(spec.Run, NewReplayTape(c, s), seed, tier)
		if out.Violation != nil && out.Violation.Code == v.Code && out.HarnessErr == "" {
			return true, *out.Violation, out.Trace
		}
		return false, Violation{}, nil
	}
	cloneSteps := func(s []Step) []Step {
		o := make([]Step, len(s))
		for i := range s {
			o[i] = Step{Kind: s[i].Kind, Vals: append([]int(nil), s[i].Vals...)}
		}
		return o
	}

	// Truncate everything after the failing step first.
	if v.Step >= 0 && v.Step+1 < len(steps) {
		cand := cloneSteps(steps[:v.Step+1])
		if ok, nv, tr := try(cfg, cand); ok {
			steps, v, trace = cand, nv, tr
		}
	}
	// Chunk deletion.
	for chunk := len(steps) / 2; chunk >= 1 && execs < budget; chunk /= 2 {
		for i := 0; i+chunk <= len(steps) && execs < budget; {
			cand := append(cloneSteps(steps[:i]), cloneSteps(steps[i+chunk:])...)
			if ok, nv, tr := try(cfg, cand); ok {
				steps, v, trace = cand, nv, tr
			} else {
				i += chunk
			}
		}
	}
	// Zero / halve step arguments.
	for i := 0; i < len(steps) && execs < budget; i++ {
		for j := 0; j < len(steps[i].Vals) && execs < budget; j++ {
			if steps[i].Vals[j] == 0 {
				continue
			}
			cand := cloneSteps(steps)
			cand[i].Vals[j] = 0
			if ok, nv, tr := try(cfg, cand); ok {
				steps, v, trace = cand, nv, tr
			}
		}
	}
	// Lower configuration draws.
	for i := 0; i < len(cfg) && execs < budget; i++ {
		if cfg[i] == 0 {
			continue
		}
		c := append([]int(nil), cfg...)
		c[i] = 0
		if ok, nv, tr := try(c, steps); ok {
			cfg, v, trace = c, nv, tr
		}
	}
	// Steps may have been relabelled by the final successful replay; rerun
	// once to obtain truthful kinds for the stored file.
	final := NewReplayTape(cfg, steps)
	out := Execute(spec.Run, final, seed, tier)
	execs++
	if out.Violation != nil && out.Violation.Code == v.Code {
		steps = final.Steps
		trace = out.Trace
		v = *out.Violation
	}
	return cfg, steps, v, trace, execs
}
