package simcore

import (
	"errors"
	"io"
	"os"
	"path/filepath"
	"sync"

	"github.com/btcsuite/btcwallet/walletdb"
	"github.com/lightningnetwork/lnd/kvdb"
)

// Errors injected by SimKV.
var (
	ErrSimCrashed = errors.New("simkv: node crashed (epoch fenced)")
	ErrSimIO      = errors.New("simkv: injected I/O error (disk full)")
)

// SimKV is a walletdb.DB wrapper around a real bbolt file on tmpfs that
// counts write transactions and injects crashes and write failures at
// transaction granularity. It deliberately does not implement
// walletdb.BatchDB, so kvdb.Batch degrades to a plain (deterministic) Update.
type SimKV struct {
	mu    sync.Mutex
	inner walletdb.DB
	dir   string
	name  string

	writes int // write transactions attempted in this epoch
	reads  int

	crashBefore int // 1-based index of the write that hits the fence at entry
	crashAfter  int // 1-based index of the write that commits, then fences
	failAt      int // 1-based index of the write that returns ErrSimIO
	fenced      bool

	afterAt int    // 1-based index of the write after whose commit afterFn runs
	afterFn func() // called once, on the writing goroutine, without the lock
	// FiredAfterWrite counts after-write callbacks that actually ran.
	FiredAfterWrite int

	// OnCommitted, if set, is called (without the lock, on the writing
	// goroutine) after EVERY write transaction that committed: the seam for
	// enumerating crash points between the write transactions of one call.
	OnCommitted func(k int)

	// Fired counters (what actually happened, not what was configured).
	FiredCrashBefore, FiredCrashAfter, FiredFail int

	// OnTx, if set, is called at the entry of every transaction
	// (write=true/false) before the injection logic; used as a yield point by
	// engines with concurrent simulated clients. Called without the lock.
	OnTx func(write bool)
	// OnTxEnd, if set, is called when a closure-style transaction (Update /
	// View) has returned to the wrapper, before the wrapper returns to lnd:
	// the second half of the yield-point pair for engines that schedule
	// caller goroutines at the database boundary. Called without the lock.
	OnTxEnd func(write bool)
}

var _ walletdb.DB = (*SimKV)(nil)

func openBolt(dir, name string) (walletdb.DB, error) {
	return kvdb.GetBoltBackend(&kvdb.BoltBackendConfig{
		DBPath:            dir,
		DBFileName:        name,
		NoFreelistSync:    true,
		AutoCompact:       false,
		AutoCompactMinAge: kvdb.DefaultBoltAutoCompactMinAge,
		DBTimeout:         kvdb.DefaultDBTimeout,
	})
}

// OpenSimKV opens (creating if needed) dir/name.
func OpenSimKV(dir, name string) (*SimKV, error) {
	if err := os.MkdirAll(dir, 0o700); err != nil {
		return nil, err
	}
	db, err := openBolt(dir, name)
	if err != nil {
		return nil, err
	}
	return &SimKV{inner: db, dir: dir, name: name}, nil
}

// Path returns the backing file path.
func (s *SimKV) Path() string { return filepath.Join(s.dir, s.name) }

// Writes returns the number of write transactions attempted in this epoch.
func (s *SimKV) Writes() int { s.mu.Lock(); defer s.mu.Unlock(); return s.writes }

// Fenced reports whether the node is considered crashed.
func (s *SimKV) Fenced() bool { s.mu.Lock(); defer s.mu.Unlock(); return s.fenced }

// CrashBefore arms a crash at the entry of the k-th write from now (k>=1).
func (s *SimKV) CrashBefore(k int) { s.mu.Lock(); s.crashBefore = s.writes + k; s.mu.Unlock() }

// CrashAfter arms a crash right after the k-th write from now commits.
func (s *SimKV) CrashAfter(k int) { s.mu.Lock(); s.crashAfter = s.writes + k; s.mu.Unlock() }

// FailWrite makes the k-th write from now return ErrSimIO (no fence).
func (s *SimKV) FailWrite(k int) { s.mu.Lock(); s.failAt = s.writes + k; s.mu.Unlock() }

// AfterWrite arms a callback that runs right after the k-th write from now
// has committed, on the goroutine that made the write and before the writing
// call returns: a seam for faults that must land INSIDE an operation (e.g. a
// peer disconnect between a durable write and the in-memory hand-over that
// follows it). The write itself is unaffected.
func (s *SimKV) AfterWrite(k int, f func()) {
	s.mu.Lock()
	s.afterAt, s.afterFn = s.writes+k, f
	s.mu.Unlock()
}

// Disarm clears pending injections.
func (s *SimKV) Disarm() {
	s.mu.Lock()
	s.crashBefore, s.crashAfter, s.failAt = 0, 0, 0
	s.afterAt, s.afterFn = 0, nil
	s.mu.Unlock()
}

// Fence crashes the node now.
func (s *SimKV) Fence() { s.mu.Lock(); s.fenced = true; s.mu.Unlock() }

// Reopen closes the file and opens a new epoch on it (a restart): fence and
// injections cleared, counters reset.
func (s *SimKV) Reopen() error {
	s.mu.Lock()
	defer s.mu.Unlock()
	if s.inner != nil {
		s.inner.Close()
	}
	db, err := openBolt(s.dir, s.name)
	if err != nil {
		return err
	}
	s.inner = db
	s.fenced = false
	s.writes, s.reads = 0, 0
	s.crashBefore, s.crashAfter, s.failAt = 0, 0, 0
	s.afterAt, s.afterFn = 0, nil
	return nil
}

// Fork copies the durable state into dir and opens it as an independent
// database (used to examine "what a crash right now would leave behind"
// without disturbing the main run).
func (s *SimKV) Fork(dir string) (*SimKV, error) {
	if err := os.MkdirAll(dir, 0o700); err != nil {
		return nil, err
	}
	f, err := os.Create(filepath.Join(dir, s.name))
	if err != nil {
		return nil, err
	}
	s.mu.Lock()
	err = s.inner.Copy(f)
	s.mu.Unlock()
	f.Close()
	if err != nil {
		return nil, err
	}
	return OpenSimKV(dir, s.name)
}

// pre is the injection logic at write entry. It returns (k, error).
func (s *SimKV) pre() (int, error) {
	s.mu.Lock()
	defer s.mu.Unlock()
	if s.fenced {
		return 0, ErrSimCrashed
	}
	s.writes++
	k := s.writes
	if s.crashBefore == k {
		s.fenced = true
		s.FiredCrashBefore++
		return k, ErrSimCrashed
	}
	if s.failAt == k {
		s.FiredFail++
		return k, ErrSimIO
	}
	return k, nil
}

func (s *SimKV) post(k int, err error) error {
	if err != nil {
		return err
	}
	s.mu.Lock()
	if s.crashAfter == k {
		s.fenced = true
		s.FiredCrashAfter++
		s.mu.Unlock()
		return ErrSimCrashed
	}
	var fn func()
	if s.afterAt == k && s.afterFn != nil {
		fn = s.afterFn
		s.afterAt, s.afterFn = 0, nil
		s.FiredAfterWrite++
	}
	oc := s.OnCommitted
	s.mu.Unlock()
	if oc != nil {
		oc(k)
	}
	if fn != nil {
		fn()
	}
	return nil
}

func (s *SimKV) Update(f func(tx walletdb.ReadWriteTx) error, reset func()) error {
	if s.OnTx != nil {
		s.OnTx(true)
	}
	k, err := s.pre()
	if err != nil {
		return err
	}
	err = s.post(k, s.inner.Update(f, reset))
	if s.OnTxEnd != nil {
		s.OnTxEnd(true)
	}
	return err
}

func (s *SimKV) View(f func(tx walletdb.ReadTx) error, reset func()) error {
	if s.OnTx != nil {
		s.OnTx(false)
	}
	s.mu.Lock()
	if s.fenced {
		s.mu.Unlock()
		return ErrSimCrashed
	}
	s.reads++
	s.mu.Unlock()
	err := s.inner.View(f, reset)
	if s.OnTxEnd != nil {
		s.OnTxEnd(false)
	}
	return err
}

type simRwTx struct {
	walletdb.ReadWriteTx
	s *SimKV
	k int
}

func (t *simRwTx) Commit() error {
	return t.s.post(t.k, t.ReadWriteTx.Commit())
}

func (s *SimKV) BeginReadWriteTx() (walletdb.ReadWriteTx, error) {
	if s.OnTx != nil {
		s.OnTx(true)
	}
	k, err := s.pre()
	if err != nil {
		return nil, err
	}
	tx, err := s.inner.BeginReadWriteTx()
	if err != nil {
		return nil, err
	}
	return &simRwTx{ReadWriteTx: tx, s: s, k: k}, nil
}

func (s *SimKV) BeginReadTx() (walletdb.ReadTx, error) {
	if s.OnTx != nil {
		s.OnTx(false)
	}
	s.mu.Lock()
	if s.fenced {
		s.mu.Unlock()
		return nil, ErrSimCrashed
	}
	s.mu.Unlock()
	return s.inner.BeginReadTx()
}

func (s *SimKV) Copy(w io.Writer) error { return s.inner.Copy(w) }
func (s *SimKV) PrintStats() string     { return s.inner.PrintStats() }
func (s *SimKV) Close() error {
	s.mu.Lock()
	defer s.mu.Unlock()
	if s.inner == nil {
		return nil
	}
	err := s.inner.Close()
	s.inner = nil
	return err
}
