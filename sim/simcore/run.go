package simcore

import (
	crand "crypto/rand"
	"fmt"
	"hash/fnv"
	mrand "math/rand"
	"os"
	"path/filepath"
	"runtime/debug"
	"sort"
	"strings"
)

// Violation is a property violation found by an oracle.
type Violation struct {
	Code string `json:"code"` // e.g. "C01.conservation"
	Msg  string `json:"message"`
	Step int    `json:"step"`
	// Sig is a structural signature used to match known findings (never a
	// seed). Empty means Code alone.
	Sig string `json:"sig,omitempty"`
}

type violationPanic struct{ v Violation }
type harnessPanic struct{ msg string }

// unjudgedPanic ends a run that reached a situation the engine cannot judge
// either way (see Run.Unjudged).
type unjudgedPanic struct{ why string }

// Run is the context handed to an engine for one simulated execution.
type Run struct {
	Tape  *Tape
	Seed  uint64
	Tier  string
	Quiet bool

	trace      []string
	traceDrop  int
	hasher     hashWriter
	Stats      map[string]int64
	Nontrivial bool
	states     map[string]struct{}
	steps      int
	dir        string
	cleanups   []func()
	// Arm lets a spec split a batch into fault-free / faulty etc. arms.
	Arm string
	// KnownHits counts hits of recorded known findings (by description).
	KnownHits map[string]int
}

type hashWriter struct{ h uint64 }

func (w *hashWriter) add(s string) {
	h := fnv.New64a()
	var b [8]byte
	for i := 0; i < 8; i++ {
		b[i] = byte(w.h >> (8 * i))
	}
	h.Write(b[:])
	h.Write([]byte(s))
	w.h = h.Sum64()
}

const maxTrace = 4000

// Logf appends one line to the event trace. Never draws, never reads a clock.
func (r *Run) Logf(format string, args ...interface{}) {
	s := fmt.Sprintf(format, args...)
	r.hasher.add(s)
	if len(r.trace) >= maxTrace {
		r.trace = r.trace[1:]
		r.traceDrop++
	}
	r.trace = append(r.trace, s)
}

// Count increments a named counter (fault kinds fired, probes, sim time).
func (r *Run) Count(name string) { r.Stats[name]++ }

// Add adds n to a named counter.
func (r *Run) Add(name string, n int64) { r.Stats[name] += n }

// State records an abstract state for the distinct-states measure.
func (r *Run) State(key string) {
	if len(r.states) < 4096 {
		r.states[key] = struct{}{}
	}
}

// Step begins the next step; returns false when a replay tape is exhausted.
func (r *Run) Step() bool {
	ok := r.Tape.NextStep()
	if ok {
		r.steps++
	}
	return ok
}

// StepNo is the index of the current step.
func (r *Run) StepNo() int { return r.steps - 1 }

func (r *Run) Draw(n int) int           { return r.Tape.Draw(n) }
func (r *Run) Chance(num, den int) bool { return r.Tape.Chance(num, den) }
func (r *Run) Kind(k string)            { r.Tape.SetKind(k) }

// Fail reports a property violation and aborts the run.
func (r *Run) Fail(code, format string, args ...interface{}) {
	panic(violationPanic{Violation{Code: code, Msg: fmt.Sprintf(format, args...), Step: r.StepNo()}})
}

// FailSig is Fail with a structural signature for known-finding matching.
func (r *Run) FailSig(code, sig, format string, args ...interface{}) {
	panic(violationPanic{Violation{Code: code, Sig: sig, Msg: fmt.Sprintf(format, args...), Step: r.StepNo()}})
}

// ActiveKnown is the list of recorded (open) known findings for the property
// being run; set by WorkerMain. Read-only at run time.
var ActiveKnown []KnownFinding

// KnownFinding is one entry of /verif/known_findings.json.
type KnownFinding struct {
	Property string `json:"property"`
	Code     string `json:"code"`
	Sig      string `json:"sig"`
	What     string `json:"what"`
	Status   string `json:"status"` // "open" or "fixed"
	Commit   string `json:"commit,omitempty"`
}

// FailOrKnown reports a violation with a structural signature. If exactly
// this (code, sig) is a recorded open known finding, the hit is counted and
// the run CONTINUES (so the finding does not mask other checks); otherwise it
// is a violation like any other.
func (r *Run) FailOrKnown(code, sig, format string, args ...interface{}) {
	for _, k := range ActiveKnown {
		if k.Code == code && k.Sig == sig && k.Status != "fixed" {
			r.KnownHits[k.What]++
			r.Logf("KNOWN-FINDING hit (%s/%s): %s", code, sig, fmt.Sprintf(format, args...))
			return
		}
	}
	panic(violationPanic{Violation{Code: code, Sig: sig, Msg: fmt.Sprintf(format, args...), Step: r.StepNo()}})
}

// Unjudged ends the run without a verdict: neither a violation nor a clean
// run is claimed for what follows. It is counted (run_ended_unjudged) so that
// the evidence shows how often it happened.
func (r *Run) Unjudged(why string) {
	panic(unjudgedPanic{why})
}

// Harness aborts the run because the simulator itself is confused. This is
// never reported as a violation (exit 2).
func (r *Run) Harness(format string, args ...interface{}) {
	panic(harnessPanic{fmt.Sprintf(format, args...)})
}

// Must aborts with a harness error if err != nil.
func (r *Run) Must(err error, what string) {
	if err != nil {
		panic(harnessPanic{fmt.Sprintf("%s: %v", what, err)})
	}
}

// TempDir returns a per-run scratch directory on tmpfs, removed after the run.
func (r *Run) TempDir() string {
	if r.dir == "" {
		base := "/dev/shm"
		if _, err := os.Stat(base); err != nil {
			base = os.TempDir()
		}
		d, err := os.MkdirTemp(base, fmt.Sprintf("verif-%d-", os.Getpid()))
		if err != nil {
			panic(harnessPanic{"mkdtemp: " + err.Error()})
		}
		r.dir = d
	}
	return r.dir
}

// SubDir creates a fresh sub directory of the scratch directory.
func (r *Run) SubDir(name string) string {
	d := filepath.Join(r.TempDir(), name)
	if err := os.MkdirAll(d, 0o700); err != nil {
		panic(harnessPanic{"mkdir: " + err.Error()})
	}
	return d
}

// Cleanup registers a function to run when the run ends (LIFO).
func (r *Run) Cleanup(f func()) { r.cleanups = append(r.cleanups, f) }

// Outcome of one execution.
type Outcome struct {
	Violation  *Violation
	HarnessErr string
	Trace      []string
	TraceDrop  int
	Hash       uint64
	Stats      map[string]int64
	Nontrivial bool
	States     []string
	Steps      int
	Arm        string
	KnownHits  map[string]int
}

// Execute runs fn once on the given tape with all global randomness pinned.
func Execute(fn func(*Run), tape *Tape, seed uint64, tier string) (out Outcome) {
	r := &Run{
		Tape: tape, Seed: seed, Tier: tier,
		Stats:     map[string]int64{},
		states:    map[string]struct{}{},
		KnownHits: map[string]int{},
	}
	// Pin process-global randomness. GODEBUG=randseednop=0 must be set for
	// Seed to take effect (checked by the worker at start-up).
	crand.Reader = NewDetReader(seed)
	mrand.Seed(int64(seed & 0x7fffffffffffffff)) //nolint:staticcheck

	defer func() {
		rec := recover()
		// run cleanups (protected)
		for i := len(r.cleanups) - 1; i >= 0; i-- {
			func() {
				defer func() { _ = recover() }()
				r.cleanups[i]()
			}()
		}
		if r.dir != "" {
			os.RemoveAll(r.dir)
		}
		out.Trace = r.trace
		out.TraceDrop = r.traceDrop
		out.Hash = r.hasher.h
		out.Stats = r.Stats
		out.Nontrivial = r.Nontrivial
		out.Steps = r.steps
		out.Arm = r.Arm
		out.KnownHits = r.KnownHits
		for k := range r.states {
			out.States = append(out.States, k)
		}
		sort.Strings(out.States)
		switch p := rec.(type) {
		case nil:
		case violationPanic:
			v := p.v
			out.Violation = &v
		case harnessPanic:
			out.HarnessErr = p.msg
		case unjudgedPanic:
			out.Stats["run_ended_unjudged"]++
			out.Nontrivial = false
		default:
			// A panic that originates in lnd code is a violation (the
			// properties say "never panics" for reload etc.); one that
			// originates in simulator code is a harness error.
			st := string(debug.Stack())
			if panicInHarness(st) {
				out.HarnessErr = fmt.Sprintf("panic in simulator: %v\n%s", rec, st)
			} else {
				out.Violation = &Violation{
					Code: "PANIC",
					Msg:  fmt.Sprintf("panic in code under test: %v\n%s", rec, trimStack(st)),
					Step: r.StepNo(),
				}
			}
		}
	}()
	fn(r)
	return
}

// panicInHarness inspects a stack trace: the frame that raised the panic is
// the first one after the runtime's panic frames.
func panicInHarness(stack string) bool {
	lines := strings.Split(stack, "\n")
	// Engines re-raise panics from deferred clean-up functions, so the trace
	// can show several nested "panic(" frames; the one that matters is the
	// innermost (last) - the frame below it is where the panic was raised.
	last := -1
	for i, l := range lines {
		if strings.HasPrefix(l, "panic(") {
			last = i
		}
	}
	if last > 0 {
		lines = lines[last:]
	}
	seenPanic := false
	for i := 0; i < len(lines); i++ {
		l := lines[i]
		if strings.HasPrefix(l, "panic(") {
			seenPanic = true
			continue
		}
		if !seenPanic {
			continue
		}
		if strings.HasPrefix(l, "\t") || l == "" {
			continue
		}
		if strings.HasPrefix(l, "runtime.") || strings.HasPrefix(l, "runtime/") {
			continue
		}
		// first non-runtime function after panic()
		if strings.HasPrefix(l, "verif/") || strings.Contains(l, "zzVerif") || strings.Contains(l, "zz_verif") {
			return true
		}
		// file line follows; check the path too
		if i+1 < len(lines) && (strings.Contains(lines[i+1], "/verif/") || strings.Contains(lines[i+1], "zz_verif")) {
			return true
		}
		return false
	}
	return true
}

func trimStack(st string) string {
	lines := strings.Split(st, "\n")
	if len(lines) > 40 {
		lines = lines[:40]
	}
	return strings.Join(lines, "\n")
}
