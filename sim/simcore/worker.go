package simcore

import (
	"encoding/json"
	"fmt"
	"os"
	"strconv"
	"strings"
	"time"
)

// Spec describes one property check built on an engine.
type Spec struct {
	Property string // "C01"
	Engine   string
	// Run executes one simulated run. All nondeterminism comes from r.Tape.
	Run func(r *Run)
	// ShrinkBudget bounds minimisation (executions).
	ShrinkBudget int
}

// ReplayFile is what a violation is reported as.
type ReplayFile struct {
	Property  string    `json:"property"`
	Engine    string    `json:"engine"`
	Seed      uint64    `json:"seed"`
	Tier      string    `json:"tier"`
	Cfg       []int     `json:"cfg"`
	Steps     []Step    `json:"steps"`
	Violation Violation `json:"violation"`
	Trace     []string  `json:"trace"`
	Shrink    string    `json:"shrink,omitempty"`
}

// ViolationRecord is a worker's report of one violation.
type ViolationRecord struct {
	Seed   uint64 `json:"seed"`
	Code   string `json:"code"`
	Sig    string `json:"sig"`
	Msg    string `json:"message"`
	Replay string `json:"replay"`
	Known  string `json:"known,omitempty"`
}

// WorkerResult is merged by ./check into the evidence file.
type WorkerResult struct {
	Property    string            `json:"property"`
	Engine      string            `json:"engine"`
	Shard       string            `json:"shard"`
	Runs        int               `json:"runs"`
	Steps       int64             `json:"steps"`
	Nontrivial  int               `json:"nontrivial"`
	Hashes      []string          `json:"hashes"` // trace hashes of non-trivial runs
	States      []string          `json:"states"`
	Stats       map[string]int64  `json:"stats"`
	Arms        map[string]int    `json:"arms"`
	Violations  []ViolationRecord `json:"violations"`
	HarnessErrs []string          `json:"harness_errors"`
	Samples     []interface{}     `json:"samples"`
	WallS       float64           `json:"wall_s"`
	FirstSeed   uint64            `json:"first_seed"`
	ShrinkExecs int               `json:"shrink_execs"`
	KnownHits   map[string]int    `json:"known_hits"`
}

type knownFinding = KnownFinding

func loadKnown(path, property string) []knownFinding {
	var all []knownFinding
	b, err := os.ReadFile(path)
	if err != nil {
		return nil
	}
	if err := json.Unmarshal(b, &all); err != nil {
		return nil
	}
	var out []knownFinding
	for _, k := range all {
		if k.Property == property && k.Status != "fixed" {
			out = append(out, k)
		}
	}
	return out
}

func envInt(name string, def int) int {
	if v := os.Getenv(name); v != "" {
		if n, err := strconv.Atoi(v); err == nil {
			return n
		}
	}
	return def
}

// WorkerMain is called by each runner's TestMain/Test function. It never
// returns: it exits 0 (no unknown violation), 1 (violation), 2 (harness trouble).
func WorkerMain(spec Spec) {
	if os.Getenv("GODEBUG") == "" || !strings.Contains(os.Getenv("GODEBUG"), "randseednop=0") {
		fmt.Fprintln(os.Stderr, "HARNESS: GODEBUG=randseednop=0 must be set (math/rand.Seed would be a no-op)")
		os.Exit(2)
	}
	if spec.ShrinkBudget == 0 {
		spec.ShrinkBudget = 400
	}
	tier := os.Getenv("VERIF_TIER")
	if tier == "" {
		tier = "quick"
	}
	if p := os.Getenv("VERIF_REPLAY"); p != "" {
		ActiveKnown = loadKnown(os.Getenv("VERIF_KNOWN"), spec.Property)
		os.Exit(replayMain(spec, p, tier))
	}
	seedStr := os.Getenv("VERIF_SEED")
	batchSeed := uint64(1)
	if seedStr != "" {
		if n, err := strconv.ParseUint(seedStr, 10, 64); err == nil {
			batchSeed = n
		}
	}
	shard, nshards := 0, 1
	if s := os.Getenv("VERIF_SHARD"); s != "" {
		fmt.Sscanf(s, "%d/%d", &shard, &nshards)
	}
	runs := envInt("VERIF_RUNS", 100)
	wall := time.Duration(envInt("VERIF_WALL", 60)) * time.Second
	outPath := os.Getenv("VERIF_OUT")
	replayDir := os.Getenv("VERIF_REPLAY_DIR")
	if replayDir == "" {
		replayDir = "/verif/replays"
	}
	known := loadKnown(os.Getenv("VERIF_KNOWN"), spec.Property)
	ActiveKnown = known
	maxViol := envInt("VERIF_MAX_VIOLATIONS", 3)

	res := WorkerResult{
		Property: spec.Property, Engine: spec.Engine,
		Shard: fmt.Sprintf("%d/%d", shard, nshards),
		Stats: map[string]int64{}, Arms: map[string]int{}, KnownHits: map[string]int{},
	}
	stateSet := map[string]struct{}{}
	start := time.Now()
	exit := 0
	for i := shard; i < runs; i += nshards {
		if time.Since(start) > wall {
			break
		}
		seed := SplitMix(batchSeed, uint64(i))
		if res.Runs == 0 {
			res.FirstSeed = seed
		}
		tape := NewTape(seed)
		out := Execute(spec.Run, tape, seed, tier)
		res.Runs++
		res.Steps += int64(out.Steps)
		res.Arms[out.Arm]++
		for k, v := range out.Stats {
			res.Stats[k] += v
		}
		for k, v := range out.KnownHits {
			res.KnownHits[k] += v
		}
		for _, s := range out.States {
			if len(stateSet) < 200000 {
				stateSet[s] = struct{}{}
			}
		}
		if out.Nontrivial {
			res.Nontrivial++
			res.Hashes = append(res.Hashes, fmt.Sprintf("%016x", out.Hash))
		}
		if len(res.Samples) < 2 && out.Nontrivial {
			tr := out.Trace
			if len(tr) > 60 {
				tr = tr[:60]
			}
			res.Samples = append(res.Samples, map[string]interface{}{
				"seed": seed, "arm": out.Arm, "cfg": tape.Cfg,
				"steps": compactSteps(tape.Steps, 80), "trace_head": tr,
			})
		}
		if out.HarnessErr != "" {
			res.HarnessErrs = append(res.HarnessErrs, fmt.Sprintf("seed=%d: %s", seed, out.HarnessErr))
			fmt.Fprintf(os.Stderr, "HARNESS-ERROR property=%s seed=%d: %s\n", spec.Property, seed, out.HarnessErr)
			if exit == 0 {
				exit = 2
			}
			if len(res.HarnessErrs) >= 3 {
				break
			}
			continue
		}
		if out.Violation != nil {
			rec := handleViolation(spec, &res, tape, seed, tier, out, replayDir, known)
			res.Violations = append(res.Violations, rec)
			if rec.Known == "" {
				exit = 1
				nv := 0
				for _, v := range res.Violations {
					if v.Known == "" {
						nv++
					}
				}
				if nv >= maxViol {
					break
				}
			}
		}
	}
	for s := range stateSet {
		res.States = append(res.States, s)
	}
	res.WallS = time.Since(start).Seconds()
	if outPath != "" {
		b, _ := json.Marshal(res)
		if err := os.WriteFile(outPath, b, 0o644); err != nil {
			fmt.Fprintf(os.Stderr, "HARNESS: cannot write %s: %v\n", outPath, err)
			os.Exit(2)
		}
	}
	os.Exit(exit)
}

func compactSteps(steps []Step, max int) []interface{} {
	var out []interface{}
	for i, s := range steps {
		if i >= max {
			out = append(out, fmt.Sprintf("… %d more", len(steps)-max))
			break
		}
		row := []interface{}{s.Kind}
		for _, v := range s.Vals {
			row = append(row, v)
		}
		out = append(out, row)
	}
	return out
}

func handleViolation(spec Spec, res *WorkerResult, tape *Tape, seed uint64, tier string,
	out Outcome, replayDir string, known []knownFinding) ViolationRecord {

	v := *out.Violation
	cfg, steps := tape.Cfg, tape.Steps
	// 1. confirm by replay in the same process
	conf := Execute(spec.Run, NewReplayTape(cfg, steps), seed, tier)
	note := ""
	bestTrace := out.Trace
	if conf.Violation == nil || conf.Violation.Code != v.Code {
		note = "replay-in-process did NOT reproduce (nondeterministic run); unshrunk"
	} else {
		// 2. shrink
		var execs int
		cfg, steps, v, bestTrace, execs = Shrink(spec, cfg, steps, seed, tier, v, conf.Trace)
		res.ShrinkExecs += execs
		note = fmt.Sprintf("shrunk %d→%d steps in %d executions", len(tape.Steps), len(steps), execs)
	}
	rf := ReplayFile{
		Property: spec.Property, Engine: spec.Engine, Seed: seed, Tier: tier,
		Cfg: cfg, Steps: steps, Violation: v, Trace: bestTrace, Shrink: note,
	}
	os.MkdirAll(replayDir, 0o755)
	path := fmt.Sprintf("%s/%s-%d.json", replayDir, spec.Property, seed)
	b, _ := json.MarshalIndent(rf, "", " ")
	os.WriteFile(path, b, 0o644)

	rec := ViolationRecord{Seed: seed, Code: v.Code, Sig: v.Sig, Msg: v.Msg, Replay: path}
	for _, k := range known {
		if k.Code == v.Code && (k.Sig == "" || k.Sig == v.Sig) {
			rec.Known = k.What
			fmt.Printf("KNOWN-FINDING: property=%s %s\n", spec.Property, k.What)
			return rec
		}
	}
	fmt.Printf("VIOLATION property=%s replay=%s\n", spec.Property, path)
	fmt.Printf("  code=%s seed=%d step=%d: %s\n", v.Code, seed, v.Step, firstLine(v.Msg))
	return rec
}

func firstLine(s string) string {
	if i := strings.IndexByte(s, '\n'); i >= 0 {
		return s[:i]
	}
	return s
}

func replayMain(spec Spec, path, tier string) int {
	b, err := os.ReadFile(path)
	if err != nil {
		fmt.Fprintf(os.Stderr, "HARNESS: %v\n", err)
		return 2
	}
	var rf ReplayFile
	if err := json.Unmarshal(b, &rf); err != nil {
		fmt.Fprintf(os.Stderr, "HARNESS: %v\n", err)
		return 2
	}
	if rf.Tier != "" {
		tier = rf.Tier
	}
	out := Execute(spec.Run, NewReplayTape(rf.Cfg, rf.Steps), rf.Seed, tier)
	if os.Getenv("VERIF_TRACE") != "" {
		for _, l := range out.Trace {
			fmt.Println("  | " + l)
		}
	}
	if out.HarnessErr != "" {
		fmt.Fprintf(os.Stderr, "HARNESS-ERROR during replay: %s\n", out.HarnessErr)
		return 2
	}
	if out.Violation != nil && out.Violation.Code == rf.Violation.Code {
		fmt.Printf("VIOLATION property=%s replay=%s\n", spec.Property, path)
		fmt.Printf("  REPRODUCED code=%s step=%d: %s\n", out.Violation.Code, out.Violation.Step, firstLine(out.Violation.Msg))
		return 1
	}
	if out.Violation != nil {
		fmt.Printf("VIOLATION property=%s replay=%s\n", spec.Property, path)
		fmt.Printf("  DIFFERENT violation on replay: code=%s (recorded %s): %s\n", out.Violation.Code, rf.Violation.Code, firstLine(out.Violation.Msg))
		return 1
	}
	fmt.Printf("NOT-REPRODUCED property=%s replay=%s (run passed on this tree)\n", spec.Property, path)
	return 0
}
