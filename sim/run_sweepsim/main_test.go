package main

import (
	"encoding/json"
	"fmt"
	"os"
	"testing"

	"verif/simcore"
)

// TestRun is the worker entry point; WorkerMain never returns (os.Exit).
func TestRun(t *testing.T) {
	simcore.WorkerMain(spec(t))
}

// TestRefresh is a maintenance tool for the files under sweepsim/findings:
// it replays VERIF_REPLAY on the current tree, minimises it again and writes a
// replay file with the current trace and message to VERIF_C18_REFRESH.
//
//	VERIF_REPLAY=old.json VERIF_C18_REFRESH=new.json run_sweepsim -test.run='^TestRefresh$'
func TestRefresh(t *testing.T) {
	in, out := os.Getenv("VERIF_REPLAY"), os.Getenv("VERIF_C18_REFRESH")
	if in == "" || out == "" {
		t.Skip("VERIF_REPLAY / VERIF_C18_REFRESH not set")
	}
	b, err := os.ReadFile(in)
	if err != nil {
		t.Fatal(err)
	}
	var rf simcore.ReplayFile
	if err := json.Unmarshal(b, &rf); err != nil {
		t.Fatal(err)
	}
	sp := spec(t)
	sp.ShrinkBudget = 600
	o := simcore.Execute(sp.Run, simcore.NewReplayTape(rf.Cfg, rf.Steps), rf.Seed, rf.Tier)
	if o.Violation == nil {
		t.Fatalf("replay passes on this tree (harness error: %q)", o.HarnessErr)
	}
	cfg, steps, v, trace, execs := simcore.Shrink(sp, rf.Cfg, rf.Steps, rf.Seed, rf.Tier, *o.Violation, o.Trace)
	nf := simcore.ReplayFile{Property: rf.Property, Engine: rf.Engine, Seed: rf.Seed, Tier: rf.Tier,
		Cfg: cfg, Steps: steps, Violation: v, Trace: trace,
		Shrink: fmt.Sprintf("refreshed: %d→%d steps in %d executions", len(rf.Steps), len(steps), execs)}
	nb, _ := json.MarshalIndent(nf, "", " ")
	if err := os.WriteFile(out, nb, 0o644); err != nil {
		t.Fatal(err)
	}
	fmt.Printf("refreshed %s: code=%s sig=%s steps=%d\n", out, v.Code, v.Sig, len(steps))
}
