package main

import (
	"testing"

	"verif/simcore"
)

// TestRun is the worker entry point; WorkerMain never returns (os.Exit).
func TestRun(t *testing.T) {
	simcore.WorkerMain(spec(t))
}
