// Command run_sweepsim is the worker for property C18 (engine sweepsim). The
// engine drives lnd's UtxoSweeper/TxPublisher inside a testing/synctest bubble,
// which needs a *testing.T, so the worker is built as a TEST binary:
//
//	go test -c -vet=off -o /verif/build/run_sweepsim ./run_sweepsim
//	/verif/build/run_sweepsim -test.run=^TestRun$ -test.timeout=0
//
// (see main_test.go). This file only holds the spec shared with the test.
//
//go:debug randseednop=0
package main

import (
	"fmt"
	"os"
	"testing"

	"verif/simcore"
	"verif/sweepsim"
)

func spec(t *testing.T) simcore.Spec {
	prop := os.Getenv("VERIF_PROP")
	if prop == "" {
		prop = "C18"
	}
	if prop != "C18" {
		fmt.Fprintf(os.Stderr, "HARNESS: unknown VERIF_PROP %q\n", prop)
		os.Exit(2)
	}
	return simcore.Spec{
		Property: prop,
		Engine:   "sweepsim",
		Run:      func(r *simcore.Run) { sweepsim.Run(t, r) },
	}
}

func main() {
	fmt.Fprintln(os.Stderr, "HARNESS: run_sweepsim must be built with `go test -c` (it needs testing/synctest)")
	os.Exit(2)
}
