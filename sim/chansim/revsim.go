package chansim

import (
	"bytes"

	"github.com/btcsuite/btcd/chainhash/v2"
	"github.com/lightningnetwork/lnd/shachain"

	"verif/simcore"
)

// deriveFrom implements BOLT-3 derive_secret: from a known secret at index
// `from`, derive the secret at index `to` (possible iff `from` is a prefix of
// `to`, i.e. they agree on all bits above from's trailing zeros).
func deriveFrom(base [32]byte, from, to uint64, bits int) ([32]byte, bool) {
	// number of trailing zero bits of from (its "bucket")
	tz := 0
	for tz < 48 && from&(uint64(1)<<uint(tz)) == 0 {
		tz++
	}
	_ = bits
	mask := ^((uint64(1) << uint(tz)) - 1)
	if from&mask != to&mask {
		return [32]byte{}, false
	}
	p := base
	for b := tz - 1; b >= 0; b-- {
		if to&(uint64(1)<<uint(b)) != 0 {
			p[b/8] ^= 1 << uint(b%8)
			p = sha256sum(p[:])
		}
	}
	return p, true
}

// runRevStore streams a counterparty's secrets into the real
// shachain.RevocationStore with Byzantine faults and restarts.
func runRevStore(r *simcore.Run, thorough bool) {
	t := r.Tape
	var seed chainhash.Hash
	for i := range seed {
		seed[i] = byte(t.CfgDraw(256))
	}
	n := []int{40, 200, 1100}[t.CfgDraw(3)]
	if thorough {
		n = []int{300, 2100, 9000, 20000}[t.CfgDraw(4)]
	}
	faultRate := []int{0, 12, 40}[t.CfgDraw(3)]
	store := shachain.NewRevocationStore()

	// Where the stream starts (drawn after every other configuration draw).
	// Streaming from height 0 never gets past a few thousand secrets; the
	// index space has 48 bits. In half of the runs the store is therefore
	// first brought to the state it has after k0 secrets - assembled from the
	// BOLT-3 definition (bucket b holds the last received index with exactly b
	// trailing zero bits) in the store's own serialisation and loaded with
	// NewRevocationStoreFromBytes - with k0 just below a power of two, just
	// above one, or an arbitrary bit pattern, and the stream continues there.
	k0 := uint64(0)
	switch t.CfgDraw(4) {
	case 2:
		// b up to 47: the stream then crosses 2^47 received secrets, where
		// the store fills its 48th and last bucket
		b := 3 + t.CfgDraw(45)
		k0 = (uint64(1) << uint(b)) - uint64(t.CfgDraw(6))
		if b == 47 && k0 == uint64(1)<<47 {
			k0-- // start below the boundary and stream across it
		}
		if t.CfgDraw(3) == 0 && b < 44 {
			// several high bits set: j * 2^b - c
			k0 = (uint64(1+t.CfgDraw(7)) << uint(b)) - uint64(t.CfgDraw(6))
		}
	case 3:
		for i := 0; i < 6; i++ {
			k0 = k0<<8 | uint64(t.CfgDraw(256))
		}
		// anywhere in the 48-bit index space that leaves room for the stream
		k0 &= (uint64(1) << 48) - 1
		if lim := (uint64(1) << 48) - 1 - 40000; k0 > lim {
			k0 = lim
		}
	}
	r.Logf("revstore: seed=%x n=%d faultRate=1/%d start=%d", seed[:4], n, faultRate, k0)

	// what the store has accepted so far: index -> secret (by height)
	accepted := 0 // heights 0..accepted-1 accepted
	// The oracle's own compact knowledge: for each height accepted we can
	// recompute from the producer seed (honest source), so "consistent with
	// earlier ones" is decided by trying to derive every earlier accepted
	// secret from the candidate under BOLT-3 rules.
	honest := func(h uint64) [32]byte { return DeriveSecret(seed, h) }
	idxOf := func(h uint64) uint64 { return (uint64(1) << 48) - 1 - h }

	// consistent: would BOLT-3 insert_secret accept `cand` at height h given
	// the honest secrets 0..h-1 stored before? It must be able to re-derive
	// every previously stored secret whose index has `idx(h)` as a prefix.
	consistent := func(h uint64, cand [32]byte) bool {
		I := idxOf(h)
		tz := 0
		for tz < 48 && I&(uint64(1)<<uint(tz)) == 0 {
			tz++
		}
		// previously inserted secrets derivable from this one are those
		// at indexes I+1 .. I+2^tz-1 (heights h-1 .. h-(2^tz-1)).
		span := (uint64(1) << uint(tz)) - 1
		for d := uint64(1); d <= span && d <= h; d++ {
			// BOLT-3 checks only the stored bucket heads; checking
			// all derivable ones is equivalent for an honest prefix.
			got, ok := deriveFrom(cand, I, I+d, 48)
			if !ok {
				return true
			}
			if got != honest(h-d) {
				return false
			}
			if d > 4096 {
				break
			}
		}
		return true
	}

	if k0 > 0 {
		var b bytes.Buffer
		low := idxOf(k0 - 1) // lowest index received so far
		var elems [][40]byte
		for tz := 0; tz < 48; tz++ {
			// the lowest index >= low with exactly tz trailing zero bits
			step := uint64(1) << uint(tz)
			x := (low + step - 1) &^ (step - 1)
			if x&(step<<1-1) == 0 {
				x += step // one more trailing zero than wanted
			}
			if x > idxOf(0) {
				break
			}
			var e [40]byte
			for i := 0; i < 8; i++ {
				e[i] = byte(x >> uint(56-8*i))
			}
			sec := honest(idxOf(0) - x)
			copy(e[8:], sec[:])
			elems = append(elems, e)
		}
		b.WriteByte(byte(len(elems)))
		for _, e := range elems {
			b.Write(e[:])
		}
		next := idxOf(k0)
		for i := 0; i < 8; i++ {
			b.WriteByte(byte(next >> uint(56-8*i)))
		}
		ns, err := shachain.NewRevocationStoreFromBytes(bytes.NewReader(b.Bytes()))
		if err != nil && len(elems) <= 48 {
			// The bytes are the store's own serialisation of a state BOLT-3
			// defines (at most 48 buckets for a 48-bit index space; bucket
			// b holds the last received index with b trailing zero bits,
			// the secrets are the honest ones): a store that can hold
			// this state must be able to load it. (On the unchanged tree
			// every assembled state loads and answers every lookup.)
			r.Fail("store-decode", "the store state after %d received secrets (%d buckets) cannot be loaded from its serialisation: %v", k0, len(elems), err)
		} else if err != nil {
			r.Harness("assembled store for %d received secrets does not load: %v", k0, err)
		}
		store = ns
		accepted = int(k0)
		n += accepted
		r.Count("probe_store_started_at_large_height")
		if k0 >= 1<<32 {
			r.Count("probe_store_started_above_2^32")
		}
		checkLookups(r, store, accepted, honest, 24)
	}
	for accepted < n && r.Step() {
		h := uint64(accepted)
		sec := honest(h)
		fault := ""
		if faultRate > 0 && r.Chance(1, faultRate) && (h%2 == 1 || r.Chance(1, 4)) {
			switch r.Draw(5) {
			case 0:
				fault = "bitflip"
				sec[r.Draw(32)] ^= 1 << uint(r.Draw(8))
			case 1:
				fault = "other-seed"
				var s2 chainhash.Hash
				t.Bytes(s2[:])
				sec = DeriveSecret(s2, h)
			case 2:
				fault = "replay-earlier"
				if h > 0 {
					sec = honest(uint64(r.Draw(int(h))))
				} else {
					fault = ""
				}
			case 3:
				fault = "skip-ahead"
				sec = honest(h + 1 + uint64(r.Draw(3)))
			case 4:
				fault = "restart"
			}
		}
		if fault == "restart" {
			var b bytes.Buffer
			if err := store.Encode(&b); err != nil {
				r.Fail("store-encode", "Encode: %v", err)
			}
			if b.Len() > 1+49*(8+32)+8 {
				r.Fail("store-size", "encoded store is %d bytes, more than 49 (index,secret) entries", b.Len())
			}
			ns, err := shachain.NewRevocationStoreFromBytes(bytes.NewReader(b.Bytes()))
			if err != nil {
				r.Fail("store-decode", "store does not survive serialisation after %d inserts: %v", accepted, err)
			}
			store = ns
			r.Count("fault_store_restart")
			r.Kind("restart")
			checkLookups(r, store, accepted, honest, 8)
			continue
		}
		hash := chainhash.Hash(sec)
		err := store.AddNextEntry(&hash)
		if fault == "" {
			r.Kind("insert")
			if err != nil {
				r.Fail("store-rejects-honest", "store rejected the honest secret for height %d: %v", h, err)
			}
			accepted++
		} else {
			r.Kind("insert!" + fault)
			r.Count("fault_store_" + fault)
			bad := sec != honest(h)
			if !bad {
				// the "fault" produced the honest value by chance
				if err != nil {
					r.Fail("store-rejects-honest", "store rejected the honest secret for height %d: %v", h, err)
				}
				accepted++
			} else if err == nil {
				if !consistent(h, sec) {
					r.Fail("store-accepts-inconsistent", "store accepted a %s secret at height %d that cannot re-derive earlier secrets under the BOLT-3 rule", fault, h)
				}
				// Accepted by design: nothing earlier contradicts it
				// (no lower bucket). The chain is now poisoned for
				// this index; an honest peer never does this. End.
				r.Count("probe_store_accepts_uncheckable")
				r.Logf("height %d: %s secret accepted (no earlier secret derivable from it): run ends", h, fault)
				r.Nontrivial = true
				return
			} else {
				r.Count("probe_store_rejects_bad")
				if !consistent(h, sec) {
					// rejected and indeed inconsistent: good. The
					// store must be unchanged: continue with honest.
				}
				// A rejected secret was not received: the store neither
				// answers for that height nor changes what it answers
				// for the earlier ones, and its serialisation is what it
				// was (no draw: replay files stay valid).
				if got, errL := store.LookUp(h); errL == nil {
					what := "a value that is not the peer's secret"
					if *got == hash {
						what = "the rejected value"
					}
					r.Fail("store-serves-rejected", "store rejected a %s secret for height %d, yet LookUp(%d) now succeeds and returns %s", fault, h, h, what)
				}
				if accepted > 0 {
					checkLookups(r, store, accepted, honest, 8)
				}
				hh := chainhash.Hash(honest(h))
				if err2 := store.AddNextEntry(&hh); err2 != nil {
					r.Fail("store-corrupted-by-reject", "after rejecting a bad secret at height %d the store also rejects the honest one: %v", h, err2)
				}
				accepted++
			}
		}
		// lookups
		if accepted%97 == 0 || accepted < 70 || accepted&(accepted-1) == 0 || (accepted+1)&accepted == 0 {
			checkLookups(r, store, accepted, honest, 24)
		}
	}
	checkLookups(r, store, accepted, honest, 200)
	var b bytes.Buffer
	store.Encode(&b)
	if b.Len() > 1+49*(8+32)+8 {
		r.Fail("store-size", "encoded store is %d bytes, more than 49 entries", b.Len())
	}
	// every run ends with a restart: whatever the store holds by now must
	// survive its own serialisation and still answer for every height
	ns, err := shachain.NewRevocationStoreFromBytes(bytes.NewReader(b.Bytes()))
	if err != nil {
		r.Fail("store-decode", "store does not survive serialisation after %d inserts: %v", accepted, err)
	}
	checkLookups(r, ns, accepted, honest, 48)
	if uint64(accepted) >= uint64(1)<<47 {
		r.Count("probe_store_restart_with_48_buckets")
	}
	r.Add("store_inserts", int64(accepted))
	r.Nontrivial = accepted >= 8
}

func checkLookups(r *simcore.Run, store shachain.Store, accepted int, honest func(uint64) [32]byte, samples int) {
	check := func(h uint64) {
		got, err := store.LookUp(h)
		if err != nil {
			r.Fail("store-lookup", "LookUp(%d) fails after %d inserts: %v", h, accepted, err)
		}
		want := honest(h)
		if !bytes.Equal(got[:], want[:]) {
			r.Fail("store-lookup", "LookUp(%d) returns a wrong secret after %d inserts", h, accepted)
		}
	}
	if accepted == 0 {
		return
	}
	if accepted <= 512 {
		for h := 0; h < accepted; h++ {
			check(uint64(h))
		}
	} else {
		// power-of-two neighbourhoods and a deterministic spread
		for p := 1; p < accepted; p <<= 1 {
			for d := -1; d <= 1; d++ {
				if h := p + d; h >= 0 && h < accepted {
					check(uint64(h))
				}
			}
		}
		step := accepted/samples + 1
		for h := 0; h < accepted; h += step {
			check(uint64(h))
		}
		check(uint64(accepted - 1))
		// the neighbourhoods of the latest secrets: accepted-1-2^j
		for j := uint(0); j < 48; j++ {
			for d := -1; d <= 1; d++ {
				if h := accepted - 1 - (1 << j) + d; h >= 0 && h < accepted {
					check(uint64(h))
				}
			}
		}
	}
	// an index not yet received must not be answered
	if _, err := store.LookUp(uint64(accepted)); err == nil {
		r.Fail("store-lookup", "LookUp(%d) succeeds although only %d secrets were received", accepted, accepted)
	}
	r.Count("store_lookup_rounds")
}
