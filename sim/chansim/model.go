package chansim

import (
	"fmt"
	"sort"

	"github.com/lightningnetwork/lnd/lnwire"
)

// The reference model is written from BOLT 2: each side keeps an ordered log
// of the updates it sent; a commitment is fully described by the pair of log
// prefixes it includes. It knows nothing about fee formulas, weights, dust
// constants or lnd's internal indexes.

type UpdKind int

const (
	UAdd UpdKind = iota
	USettle
	UFail
	UMalformed
	UFee
)

func (k UpdKind) String() string {
	return [...]string{"add", "settle", "fail", "malformed", "fee"}[k]
}

// Upd is one update message one side sent.
type Upd struct {
	Kind   UpdKind
	HtlcID uint64 // for adds: this side's HTLC id; for removals: the peer's HTLC id being removed
	Amt    lnwire.MilliSatoshi
	Hash   [32]byte
	Expiry uint32
	PayNo  uint64 // preimage number (adds)
	Fee    int64  // sat/kw (fee updates)
	Wire   []byte // serialised wire message as first sent
	Open   uint64 // fabricated circuit key HtlcID passed as openKey (adds)
	Close  uint64 // fabricated circuit key HtlcID passed as closeKey (settle/fail)
	Coalesced int // how many later update_fee messages this entry absorbed
	HasSrc bool   // removal was issued with a forwarding-package add reference
	SrcH   uint64 // ... its package height
	SrcI   uint16 // ... and index
}

// Commit identifies a commitment: height on its owner's chain and the prefix
// of each side's log it includes. N[0] is A's log, N[1] is B's.
type Commit struct {
	Height uint64
	N      [2]int
}

// MSide is the model's view of what one side knows.
type MSide struct {
	Log   []Upd // updates this side sent and has not lost
	Recvd int   // how many of the peer's updates this side has received

	LocalTail  Commit  // own commitment, the one it would broadcast (durable)
	LocalTip   *Commit // own commitment received but not yet revoked-into (memory only)
	RemoteTail Commit  // peer's commitment, last one known revoked-into
	RemoteTip  *Commit // peer's commitment signed, awaiting revocation (durable)

	SigSeq, RevSeq int // send-order stamps of the last signature / revocation
	Revoked        int64 // highest own height whose secret was released (-1 none)
}

// Model is the two-party reference model.
type Model struct {
	S        [2]MSide
	Init     [2]lnwire.MilliSatoshi // initial pre-fee balances
	Opener   int
	InitFee  int64
	seq      int
}

func NewModel(initA, initB lnwire.MilliSatoshi, opener int, fee int64) *Model {
	m := &Model{Init: [2]lnwire.MilliSatoshi{initA, initB}, Opener: opener, InitFee: fee}
	m.S[0].Revoked, m.S[1].Revoked = -1, -1
	return m
}

// Clone deep-copies the model.
func (m *Model) Clone() *Model {
	c := *m
	for i := 0; i < 2; i++ {
		c.S[i].Log = append([]Upd(nil), m.S[i].Log...)
		if m.S[i].LocalTip != nil {
			t := *m.S[i].LocalTip
			c.S[i].LocalTip = &t
		}
		if m.S[i].RemoteTip != nil {
			t := *m.S[i].RemoteTip
			c.S[i].RemoteTip = &t
		}
	}
	return &c
}

// MHtlc is an HTLC the model expects on a commitment.
type MHtlc struct {
	Sender int
	ID     uint64
	Amt    lnwire.MilliSatoshi
	Hash   [32]byte
	Expiry uint32
	PayNo  uint64
}

// View is what the model expects a commitment to contain.
type View struct {
	Bal   [2]lnwire.MilliSatoshi // pre-fee balances
	Htlcs []MHtlc
	Fee   int64
	// Underflow is set when a balance would go negative: the model refuses
	// to judge such a commitment (cannot happen between honest peers).
	Underflow bool
}

// removalOf finds, in log[:n], the update removing HTLC id (sent by the other side).
func removalOf(log []Upd, n int, id uint64) *Upd {
	for i := 0; i < n && i < len(log); i++ {
		u := &log[i]
		if (u.Kind == USettle || u.Kind == UFail || u.Kind == UMalformed) && u.HtlcID == id {
			return u
		}
	}
	return nil
}

// Eval computes the expected content of commitment c.
func (m *Model) Eval(c Commit) View {
	v := View{Fee: m.InitFee}
	bal := [2]int64{int64(m.Init[0]), int64(m.Init[1])}
	for s := 0; s < 2; s++ {
		o := 1 - s
		for i := 0; i < c.N[s] && i < len(m.S[s].Log); i++ {
			u := m.S[s].Log[i]
			switch u.Kind {
			case UAdd:
				rem := removalOf(m.S[o].Log, c.N[o], u.HtlcID)
				switch {
				case rem == nil:
					bal[s] -= int64(u.Amt)
					v.Htlcs = append(v.Htlcs, MHtlc{Sender: s, ID: u.HtlcID, Amt: u.Amt,
						Hash: u.Hash, Expiry: u.Expiry, PayNo: u.PayNo})
				case rem.Kind == USettle:
					bal[s] -= int64(u.Amt)
					bal[o] += int64(u.Amt)
				default: // failed: refunded
				}
			case UFee:
				if s == m.Opener {
					v.Fee = u.Fee
				}
			}
		}
	}
	if bal[0] < 0 || bal[1] < 0 {
		v.Underflow = true
	}
	v.Bal = [2]lnwire.MilliSatoshi{lnwire.MilliSatoshi(bal[0]), lnwire.MilliSatoshi(bal[1])}
	sort.Slice(v.Htlcs, func(i, j int) bool {
		if v.Htlcs[i].Sender != v.Htlcs[j].Sender {
			return v.Htlcs[i].Sender < v.Htlcs[j].Sender
		}
		return v.Htlcs[i].ID < v.Htlcs[j].ID
	})
	return v
}

// NextHtlcID is the id the next add of side s gets.
func (m *Model) NextHtlcID(s int) uint64 {
	var n uint64
	for _, u := range m.S[s].Log {
		if u.Kind == UAdd {
			n++
		}
	}
	return n
}

// lastSigned is the newest commitment side s has signed for its peer.
func (m *Model) lastSigned(s int) Commit {
	if m.S[s].RemoteTip != nil {
		return *m.S[s].RemoteTip
	}
	return m.S[s].RemoteTail
}

// nextToSign is the (prefix pair of the) commitment s would sign now.
func (m *Model) nextToSign(s int) [2]int {
	var n [2]int
	n[s] = len(m.S[s].Log)
	n[1-s] = m.S[s].LocalTail.N[1-s]
	return n
}

// Owes reports whether s has something new to sign.
func (m *Model) Owes(s int) bool { return m.nextToSign(s) != m.lastSigned(s).N }

// HasWindow reports whether s may sign (no unrevoked commitment outstanding).
func (m *Model) HasWindow(s int) bool { return m.S[s].RemoteTip == nil }

// LockedIn lists the peer's adds that s may settle or fail now: irrevocably
// committed on both sides from s's point of view and not yet removed by s.
func (m *Model) LockedIn(s int) []Upd {
	o := 1 - s
	n := m.S[s].LocalTail.N[o]
	if m.S[s].RemoteTail.N[o] < n {
		n = m.S[s].RemoteTail.N[o]
	}
	var out []Upd
	for i := 0; i < n && i < len(m.S[o].Log); i++ {
		u := m.S[o].Log[i]
		if u.Kind != UAdd {
			continue
		}
		if removalOf(m.S[s].Log, len(m.S[s].Log), u.HtlcID) != nil {
			continue
		}
		out = append(out, u)
	}
	return out
}

// LiveHtlcs counts HTLCs not yet removed on the fullest view.
func (m *Model) LiveHtlcs() int {
	n := 0
	for s := 0; s < 2; s++ {
		for _, u := range m.S[s].Log {
			if u.Kind == UAdd && removalOf(m.S[1-s].Log, len(m.S[1-s].Log), u.HtlcID) == nil {
				n++
			}
		}
	}
	return n
}

// Send records an update sent by s. An update_fee replaces an earlier
// update_fee of the same side that no commitment_signed covers yet (BOLT 2:
// only the last fee before a signature has any effect); the replaced entry
// keeps its position, so retransmission reproduces the effective sequence.
func (m *Model) Send(s int, u Upd) {
	if u.Kind == UFee {
		for i := len(m.S[s].Log) - 1; i >= m.lastSigned(s).N[s]; i-- {
			if m.S[s].Log[i].Kind == UFee {
				m.S[s].Log[i].Fee = u.Fee
				m.S[s].Log[i].Wire = u.Wire
				m.S[s].Log[i].Coalesced++
				return
			}
		}
	}
	m.S[s].Log = append(m.S[s].Log, u)
}

// covered is the prefix of the peer's log that a signature received by s covers.
func (m *Model) covered(s int) int {
	if m.S[s].LocalTip != nil {
		return m.S[s].LocalTip.N[1-s]
	}
	return m.S[s].LocalTail.N[1-s]
}

// RecvFee: an update_fee from the peer arrives at s. It is absorbed (no new
// log position) when s already holds an update_fee of the peer that no
// received signature covers yet.
func (m *Model) RecvFee(s int) error {
	o := 1 - s
	for i := m.S[s].Recvd - 1; i >= m.covered(s) && i >= 0; i-- {
		if i < len(m.S[o].Log) && m.S[o].Log[i].Kind == UFee {
			return nil
		}
	}
	return m.RecvUpd(s)
}

// RecvUpd: the peer's next update arrives at s.
func (m *Model) RecvUpd(s int) error {
	if m.S[s].Recvd >= len(m.S[1-s].Log) {
		return fmt.Errorf("model: side %d receives update %d but peer log has %d", s, m.S[s].Recvd, len(m.S[1-s].Log))
	}
	m.S[s].Recvd++
	return nil
}

// Sign: s signs the peer's next commitment.
func (m *Model) Sign(s int) Commit {
	c := Commit{Height: m.lastSigned(s).Height + 1, N: m.nextToSign(s)}
	m.S[s].RemoteTip = &c
	m.seq++
	m.S[s].SigSeq = m.seq
	return c
}

// RecvSig: s receives a signature; returns the commitment s will verify.
func (m *Model) RecvSig(s int) Commit {
	o := 1 - s
	var c Commit
	c.Height = m.S[s].LocalTail.Height + 1
	c.N[o] = m.S[s].Recvd
	c.N[s] = m.S[s].RemoteTail.N[s]
	m.S[s].LocalTip = &c
	return c
}

// Revoke: s revokes its old commitment. Returns the revoked height.
func (m *Model) Revoke(s int) uint64 {
	old := m.S[s].LocalTail.Height
	m.S[s].LocalTail = *m.S[s].LocalTip
	m.S[s].LocalTip = nil
	m.seq++
	m.S[s].RevSeq = m.seq
	if int64(old) > m.S[s].Revoked {
		m.S[s].Revoked = int64(old)
	}
	return old
}

// RecvRev: s receives the peer's revocation.
func (m *Model) RecvRev(s int) error {
	if m.S[s].RemoteTip == nil {
		return fmt.Errorf("model: side %d receives revocation without pending remote commitment", s)
	}
	m.S[s].RemoteTail = *m.S[s].RemoteTip
	m.S[s].RemoteTip = nil
	return nil
}

// Reload applies "only what a signature covered survives" to side s.
func (m *Model) Reload(s int) {
	o := 1 - s
	m.S[s].LocalTip = nil
	keep := m.lastSigned(s).N[s]
	if keep < len(m.S[s].Log) {
		m.S[s].Log = m.S[s].Log[:keep]
	}
	m.S[s].Recvd = m.S[s].LocalTail.N[o]
}

// Retransmit describes what s must retransmit on reconnect.
type Retransmit struct {
	Rev      bool
	Sig      bool
	RevFirst bool  // relative order when both
	Updates  []Upd // updates preceding the signature
	MaySign  bool  // the documented "owed revocation and owes a commitment" extra signature
}

// ExpectRetransmit computes, after both sides reloaded, what s owes its peer.
func (m *Model) ExpectRetransmit(s int) Retransmit {
	o := 1 - s
	var rt Retransmit
	// The peer has not processed our last revocation iff its view of our
	// chain tail is behind our tail.
	if m.S[o].RemoteTail.Height < m.S[s].LocalTail.Height {
		rt.Rev = true
	}
	if tip := m.S[s].RemoteTip; tip != nil && m.S[o].LocalTail.Height < tip.Height {
		rt.Sig = true
		from := m.S[s].RemoteTail.N[s]
		rt.Updates = append([]Upd(nil), m.S[s].Log[from:tip.N[s]]...)
	}
	rt.RevFirst = m.S[s].RevSeq < m.S[s].SigSeq
	if rt.Rev && m.S[s].RemoteTip == nil && m.Owes(s) {
		rt.MaySign = true
	}
	return rt
}

// AtRest reports whether nothing is in flight from the model's point of view.
func (m *Model) AtRest() bool {
	for s := 0; s < 2; s++ {
		o := 1 - s
		if m.S[s].LocalTip != nil || m.S[s].RemoteTip != nil || m.Owes(s) {
			return false
		}
		if m.S[s].Recvd != len(m.S[o].Log) {
			return false
		}
		if m.S[s].LocalTail != m.S[o].RemoteTail {
			return false
		}
	}
	return true
}
